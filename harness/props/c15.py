"""
C15 - section outputs keep the screen equal to the stacked section contents.

Sections may carry INDENTATION (ops `["create", n]`: created inside `with output.indent(n)`; `["indent", i, n, mode]`:
`section.indent(n)` / `section.increment_indent(..)` from now on): a section shows its lines behind its indentation and a
redraw of newer sections shows them as they are.

Sections carry THE GATE as well (quiet / verbosity, C10): `["create", n, q, v]` - created while the output is quiet `q` and
has verbosity `v` (a section inherits both); `["quiet", i, q]` / `["verbosity", i, v]` - the section's own setters, at any
time; `["write", i, lines, flags]` - `section.write_line(text, flags)` with a message-level flag word.  A write the gate
suppresses must leave contents, row counters and screen exactly as they were.

Correspondence: real `SectionOutput` objects of ONE `BufferedIO` output (ANSI forced with
`AnsiFormatter(forced=True)`, and plain), terminal width through `COLUMNS`; after every operation
the bytes written, and `content` / `lines` of every section, are compared with the Lean model
(`Clikit.Model.Section`), the final screen of the Lean line-level terminal (`Clikit.Model.Term`)
with the screen of the character-level emulator below.

Oracle (independent of the Lean model): the real bytes are replayed, operation by operation, on a
character-level terminal emulator (LF with ONLCR, CR, CUU `ESC[nA`, CPL `ESC[nF`, ED `ESC[0J`, EL `ESC[0K`,
auto-wrap with xterm's deferred wrap / pending-wrap flag); after EVERY operation the screen below the
anchor must be exactly the contents of all sections in creation order, each logical line wrapped at
the width, everything below blank, cursor on the row after the last; the contents themselves must be
what the operations say (write appends, overwrite replaces, clear empties, clear(n) drops the last n
lines).  Plain outputs: the stream is the appended lines, each with one newline, and has no ESC.

A third kind of case (`term`) validates the Lean terminal model itself against the emulator on
random command streams that also print over existing rows and move above the anchor.
"""
import os

ID = "C15"
DESIGN_REF = "6/C15"
TECHNIQUE = ("Lean 4 refinement proof (section model -> line-level terminal) over all operation histories and "
             "all widths, control codes regenerated from the source on every run (tools/genparts/c15.py) + byte-exact differential execution against the real SectionOutput + character-level "
             "terminal emulator as oracle (explicit-state exploration to depth 4/6, random histories to length 40)")
LEVEL_TEXT = ("Sections with the gate: suppressed_write_noop (a flagged write the gate of C10 rejects changes nothing and "
              "writes nothing), quiet_op_noop (overwrite / clear on a quiet section likewise), gate_simulates / screen_refines_gated (EVERY history with per-section quiet / verbosity and "
              "flag words shows exactly the stacked contents). "
              "screen_refines is proved for EVERY history of create/write/overwrite/clear/clear(n) on any number of "
              "sections and every width >= 1: interpreting the emitted commands leaves exactly the stacked contents "
              "below the anchor, cursor after the last row, and every section's row counter exact; lex_emit makes the "
              "byte stream and the command list interchangeable; plain_degrades covers outputs without ANSI support. "
              "The hypotheses of these theorems about the real run (width >= 1 as Terminal().width reports it, written "
              "lines free of newline and ESC, cursor starting on the row below the rows shown) are decided by the model on "
              "every generated case (wf_decides; entry c15.run answers wf/anchored, compared with true) and "
              "stream_refines_dec / plain_no_esc_dec take the decider instead of the hypotheses. "
              "That the model IS the code is established by comparing bytes, content and lines after every operation "
              "(exhaustive small scope + random), that the line-level terminal is a terminal by comparison with a "
              "character-level emulator with deferred wrap.")
LEVEL_NOTE = ("Trusted: Lean kernel + propext/Quot.sound/Classical.choice; the hand-written section and terminal models "
              "(sampled by the correspondence, not verified against the source); the Python emulator; xterm/VT100 "
              "deferred-wrap semantics; ONLCR on the tty. Scope: tab-free, tag-free lines; indentation (inherited by a "
              "section at creation, changed later) through the layer Model/SectionIndent.lean (screen_refines_indented, no "
              "further hypothesis); quiet / verbosity per section and flag words on the writes through the layer "
              "Model/SectionGate.lean over C10's translated gate (screen_refines_gated, no further hypothesis); the sections "
              "fit on the visible screen (CUU stops at the top row), nothing else writes to the stream in between.")
LEAN_MODULES = ["Clikit.Props.C15"]
# sections with indentation (Model/SectionIndent.lean): indent_simulates reduces every indented history to the base
# history on the padded lines, screen_refines_indented is screen_refines for them
REQUIRED_THEOREMS = ["Clikit.Props.C15.screen_refines", "Clikit.Props.C15.screen_refines_from",
                     "Clikit.Props.C15.contents_spec", "Clikit.Props.C15.screen_is_spec",
                     "Clikit.Props.C15.clearN_beyond", "Clikit.Props.C15.rows_of_line",
                     "Clikit.Props.C15.plain_degrades", "Clikit.Props.C15.lex_emit",
                     "Clikit.Props.C15.lex_emit_run", "Clikit.Props.C15.stream_refines",
                     "Clikit.Props.C15.codes_match_source", "Clikit.Props.C15.wf_decides",
                     "Clikit.Props.C15.stream_refines_dec", "Clikit.Props.C15.plain_no_esc_dec",
                     "Clikit.Props.C15.clearN_beyond_reachable", "Clikit.Props.C15.indent_simulates",
                     "Clikit.Props.C15.screen_refines_indented", "Clikit.Props.C15.contents_spec_indented",
                     "Clikit.Props.C15.indent_free_is_base",
                     # sections with the gate (Model/SectionGate.lean, composed with C10's Gen.mayWrite)
                     "Clikit.Props.C15.suppressed_write_noop", "Clikit.Props.C15.allowed_write_is_write",
                     "Clikit.Props.C15.gate_simulates", "Clikit.Props.C15.screen_refines_gated",
                     "Clikit.Props.C15.gate_free_is_indented", "Clikit.Props.C15.quiet_op_noop"]
RULE = ("sec cases: (a) EVERY operation sequence of exactly depth 4 (quick) / 6 (thorough; every shorter sequence is "
        "a prefix and is checked too, because all checks run after every operation) over up to 3 sections with "
        "create, write_line (1-2 lines), overwrite, clear(), clear(n) and line lengths 0 / below / at / above / twice the "
        "width (pools in POOLS: quick depth 4 'big' at widths 10 and 20, depth 5 'd6' at 10; thorough depth 6 'd6' at "
        "width 10 and 'small' at 20, depth 5 'mid' at 20, depth 4 'big' at 7), plain outputs at depth 3/4; (b) random histories of "
        "length <= 40 at widths 1,3,7,10,20 with lengths around 0, w, 2w, 3w, 1-3 lines per write, clear(n) with n in 0..5; "
        "(c) SECTIONS WITH INDENTATION: every sequence again on sections created inside indentation scopes of the output "
        "(profiles (2,0,3), (0,3,2), (3,2,0) for the 1st/2nd/3rd section; pools 'ind' / 'ind_s' with lengths that reach the "
        "width only together with the indentation: quick depth 4 'ind' and depth 5 'ind_s' at width 10, plain depth 3; "
        "thorough depth 5 'ind' twice, depth 6 'ind_s', depth 4 at width 7, plain depth 4; indentation BEYOND the width "
        "with empty lines: pool 'ind_e' at width 3 on profiles (0,4,5) / (4,0,7), quick depth 4, thorough depth 5), and every third random history "
        "creates its sections at indentation 0-4 and changes a section's indentation in the middle "
        "(section.indent(n) / section.increment_indent(n)); "
        "(d) SECTIONS WITH THE GATE: every sequence again on sections that inherit quiet / verbosity (profiles "
        "NORMAL/VERBOSE/NORMAL, VERY_VERBOSE/NORMAL/quiet, NORMAL/NORMAL/DEBUG), with write_line(text, flags) for flag words "
        "None, 0, 1, 2, 4, 6 and the setters set_verbosity / set_quiet as operations (pools GATE_POOL / GATE_POOL_S: quick depth 4 "
        "at width 10, plain depth 3, depth 4 on an indentation profile; thorough depth 5 and 6, width 7, with indentation), "
        "and every fourth random history has sections created quiet or verbose, setters in the middle and flag words 0-7 on "
        "three quarters of its writes (clear / overwrite on quiet sections that still show lines included: they must change nothing); "
        "term cases: random print/up/erase streams replayed on the Lean terminal and on the emulator. "
        "A sec case is non-trivial when at least one operation had to move the cursor up and erase (ANSI) or wrote "
        "at least two lines (plain); distinct = distinct (width, ansi, operation kinds, targets, line lengths, n)")
TRUSTED_BASE = [
    "Lean 4.33 kernel; axioms propext, Classical.choice, Quot.sound only (audited per theorem on every run)",
    "lean/Clikit/Model/Section.lean, Term.lean: hand-written models of section_output.py and of a terminal; their "
    "fidelity is what the correspondence samples (bytes, content, lines after every operation; final screen)",
    "harness/props/c15.py: the character-level emulator (LF=ONLCR newline, CR, CUU, CPL, ED, EL, auto-wrap with deferred wrap)",
    "tools/genparts/c15.py: reads the two control-code literals of _pop_stream_content_until_current_section with ast",
    "pastel leaves tag-free text unchanged (checked implicitly: bytes are compared exactly)",
    "math.ceil(len/width) in floating point equals the integer ceiling for the sizes that occur",
]
ASSUMPTIONS = [
    "content is tab-free and free of style tags (scope of the model types, not a theorem hypothesis; a "
    "generated line outside it would show as a byte disagreement). Indentation: a section shows every line behind the "
    "indentation it had when the line was written, an empty line empty (D38 repaired: the recorded content is "
    "indented exactly like the written text). Free of ESC and of newlines inside a line: no longer "
    "assumed - decided by the model on every case (wfB, compared with true)",
    "the rows of all sections fit on the visible screen (cursor-up is clamped at the top row of a real terminal)",
    "nothing else writes to the stream between section operations; the terminal has auto-wrap with deferred wrap",
    "width >= 1 (COLUMNS=0 raises ZeroDivisionError in _count_rows): decided on every case (wfB) for the width "
    "Terminal().width reports (width_seen is compared with the width given to the model)",
    "the gate (quiet / verbosity / message-level flags; the gate itself is C10's Gen.mayWrite, composed in "
    "Model/SectionGate.lean): a call it suppresses - a flagged write below the verbosity, any write / overwrite / clear / "
    "clear(n) on a quiet section (D41 repaired) - must leave contents, row counters and screen as they were",
]
BUDGET_S = {"quick": 70, "thorough": 760}
BATCH = 6000

ESC = "\x1b"

# ------------------------------------------------------------------ character-level emulator


class Emu(object):
    """Unbounded-height character terminal of `w` columns: printable characters with auto-wrap and
    the deferred-wrap flag, LF (as the tty delivers it with ONLCR: CR+LF), CR, CUU, ED 0, EL 0."""

    def __init__(self, w):
        self.w = w
        self.rows = []          # list of list of single characters
        self.r = 0
        self.c = 0
        self.pending = False
        self.bad = None         # first unsupported control sequence
        self.clamped = False    # a cursor-up ran into the top row

    def _row(self, r):
        while len(self.rows) <= r:
            self.rows.append([])
        return self.rows[r]

    def _put(self, ch):
        if self.pending:
            self.r += 1
            self.c = 0
            self.pending = False
        row = self._row(self.r)
        while len(row) <= self.c:
            row.append(" ")
        row[self.c] = ch
        if self.c == self.w - 1:
            self.pending = True
        else:
            self.c += 1

    def feed(self, data):
        i, n = 0, len(data)
        while i < n:
            ch = data[i]
            if ch == "\n":
                self.r += 1
                self.c = 0
                self.pending = False
                self._row(self.r)
                i += 1
            elif ch == "\r":
                self.c = 0
                self.pending = False
                i += 1
            elif ch == ESC:
                j = i + 1
                if j < n and data[j] == "[":
                    j += 1
                    k = j
                    while k < n and (data[k].isdigit() or data[k] == ";"):
                        k += 1
                    if k >= n:
                        self.bad = self.bad or "unterminated control sequence"
                        return
                    params, final = data[j:k], data[k]
                    self._csi(params, final)
                    i = k + 1
                else:
                    self.bad = self.bad or "escape sequence %r" % data[i:i + 3]
                    i += 1
            else:
                self._put(ch)
                i += 1

    def _csi(self, params, final):
        if ";" in params:
            self.bad = self.bad or "control sequence ESC[%s%s" % (params, final)
            return
        p = int(params) if params else 0
        if final in ("A", "F"):     # CUU; CPL = CUU + column 0
            p = p or 1
            if p > self.r:
                self.clamped = True
            self.r = max(0, self.r - p)
            if final == "F":
                self.c = 0
            self.pending = False
        elif final == "J" and p == 0:
            row = self._row(self.r)
            del row[self.c:]
            for r in range(self.r + 1, len(self.rows)):
                self.rows[r] = []
            self.pending = False
        elif final == "K" and p == 0:
            row = self._row(self.r)
            del row[self.c:]
            self.pending = False
        else:
            self.bad = self.bad or "control sequence ESC[%s%s" % (params, final)

    def screen(self):
        rows = ["".join(r).rstrip(" ") for r in self.rows]
        while rows and rows[-1] == "":
            rows.pop()
        return rows


def _wrap(line, w):
    return [line[k:k + w] for k in range(0, len(line), w)] or [""]


# ------------------------------------------------------------------ generation

def _text(seed, length):
    if seed % 5 == 3 and length >= 3:
        # a line padded with blanks (as a progress bar pads a shorter frame): the blanks occupy cells and rows too
        return "".join(chr(97 + (seed * 7 + t) % 26) for t in range(2)) + " " * (length - 2)
    return "".join(chr(97 + (seed * 7 + t) % 26) for t in range(length))


def _lines(seed, lengths):
    return [_text(seed * 3 + k, n) for k, n in enumerate(lengths)]


POOLS = {
    # line lengths as functions of the width w; W = write_line texts, O = overwrite texts, N = clear(n)
    "big": {"W": lambda w: [[0], [1], [3], [w - 1], [w], [w + 1], [w + 3], [2 * w], [2 * w + 1], [2 * w + 5], [3 * w],
                            [3, w + 3], [w, 0], [2 * w, 3], [0, 0], [w + 1, w]],
            "O": lambda w: [[0], [3], [w], [w + 3], [w, 2 * w + 1]], "N": [1, 2, 3]},
    "mid": {"W": lambda w: [[0], [3], [w], [w + 3], [2 * w], [2 * w + 5], [3, w + 3], [w, 0], [2 * w, 3]],
            "O": lambda w: [[3], [w + 3], [w, 2 * w + 1]], "N": [1, 2]},
    "d6": {"W": lambda w: [[0], [3], [w], [w + 3], [2 * w], [3, w + 3], [2 * w, 0]],
           "O": lambda w: [[3], [w + 3]], "N": [1]},
    "small": {"W": lambda w: [[3], [w], [w + 3], [2 * w, 0]],
              "O": lambda w: [[w + 3]], "N": [1]},
    # for sections WITH INDENTATION (profiles below): lengths that stay below / reach / pass the width only together
    # with an indentation of 2 or 3
    "ind": {"W": lambda w: [[0], [3], [w - 3], [w - 2], [w + 3], [3, w - 2], [w - 3, 0]],
            "O": lambda w: [[3], [w - 2]], "N": [1]},
    "ind_s": {"W": lambda w: [[3], [w - 3], [w - 2], [w - 3, 0]],
              "O": lambda w: [[w - 2]], "N": [1]},
    # for an indentation BEYOND the width (D38): empty lines, alone and next to text
    "ind_e": {"W": lambda w: [[0], [1], [w], [0, 2], [0, 0]],
              "O": lambda w: [[0], [2]], "N": [1]},
}

# THE GATE: (quiet, verbosity) the 1st, 2nd, 3rd section inherits; flag words of the writes (None = `flags=None` given)
GATE_PROFILES = [((False, 0), (False, 1), (False, 0)), ((False, 2), (False, 0), (True, 0)), ((False, 0), (False, 0), (False, 4))]
GATE_POOL = {"W": lambda w: [([3], None), ([3], 1), ([3], 2), ([3], 4), ([3], 6), ([w + 3], 1), ([w + 3], 0), ([3, w + 3], 2)],
             "O": lambda w: [[3], [w + 3]], "N": [1],
             "S": [["verbosity", 0], ["verbosity", 2], ["quiet", True], ["quiet", False]]}
GATE_POOL_S = {"W": lambda w: [([3], None), ([3], 1), ([3], 4), ([w + 3], 2)],
               "O": lambda w: [[3]], "N": [1], "S": [["verbosity", 1], ["quiet", True]]}
FLAG_WORDS = [None, 0, 1, 2, 4, 1, 2, 4, 3, 5, 6, 7]
LEVELS = [0, 0, 1, 2, 4]

# indentation of the 1st, 2nd, 3rd section created (inherited from the output: `with output.indent(n): output.section()`)
PROFILES = [(2, 0, 3), (0, 3, 2), (3, 2, 0)]
WIDE_PROFILES = [(0, 4, 5), (4, 0, 7)]       # at width 3: indentation beyond the width


def _enumerate(depth, pool, w, ansi, max_sections=3, profile=None, gate=None):
    """every valid operation sequence of exactly `depth` operations (the first one is a create); with a `profile`
    the k-th section is created inside an indentation scope of the output; with a `gate` profile the k-th section
    inherits quiet / verbosity, the pool's writes carry flag words and the pool has setter calls ("S")"""
    W, O, N = pool["W"](w), pool["O"](w), pool["N"]
    S = pool.get("S", [])

    def create(k):
        if gate:
            return ["create", profile[k] if profile else 0, gate[k][0], gate[k][1]]
        return ["create", profile[k]] if profile else ["create"]

    def rec(prefix, k):
        d = len(prefix)
        if d == depth:
            yield {"kind": "sec", "width": w, "ansi": ansi, "pre": [], "ops": list(prefix)}
            return
        choices = []
        if k < max_sections:
            choices.append((create(k), k + 1))
        for i in range(k):
            for ls in W:
                if gate:
                    choices.append((["write", i, _lines(d, ls[0]), ls[1]], k))
                else:
                    choices.append((["write", i, _lines(d, ls)], k))
            for st in S:
                choices.append(([st[0], i, st[1]], k))
            for ls in O:
                choices.append((["overwrite", i, _lines(d + 11, ls)], k))
            choices.append((["clear", i], k))
            for n in N:
                choices.append((["clearN", i, n], k))
        for op, k2 in choices:
            prefix.append(op)
            for c in rec(prefix, k2):
                yield c
            prefix.pop()

    for c in rec([create(0)], 1):
        yield c


WIDTHS = [10, 20, 10, 20, 7, 3, 1]


INDENTS = [0, 0, 1, 2, 2, 3, 4]


def _allowed(quiet, verbosity, flags):
    """C10's statement: text is shown iff the output is not quiet and its verbosity is at least the LOWEST level the
    flag word requests (VERBOSE=1, VERY_VERBOSE=2, DEBUG=4; none requested: NORMAL=0)"""
    req = [l for l in (1, 2, 4) if (flags or 0) & l]
    return (not quiet) and verbosity >= (min(req) if req else 0)


def _random_sec(rng, ansi, maxlen=40, indented=False, gated=False):
    """`indented`: sections are created inside indentation scopes of the output and change their own indentation
    (section.indent(n) / section.increment_indent(n)) in the middle of the history; `gated`: sections inherit quiet /
    verbosity, change them in the middle, and writes carry flag words"""
    w = rng.choice(WIDTHS)
    n = rng.randint(1, maxlen)
    lens = [0, 1, max(0, w - 1), w, w + 1, 2 * w - 1, 2 * w, 2 * w + 1, 3 * w, 3 * w + 2, rng.randint(0, 4 * w)]
    if indented:
        lens += [max(0, w - 2), max(0, w - 3), max(0, w - 4), max(0, 2 * w - 2)]
    cfg = []                     # gated: [quiet, verbosity] of every section

    def create():
        op = ["create", rng.choice(INDENTS)] if (indented or gated) else ["create"]
        if gated:
            if not indented:
                op[1] = 0
            op += [rng.random() < 0.15, rng.choice(LEVELS)]
            cfg.append([op[2], op[3]])
        return op

    ops, k = [create()], 1
    seed = rng.randint(0, 1000)
    while len(ops) < n:
        x = rng.random()
        d = len(ops) + seed
        if x < 0.10 and k < 3:
            ops.append(create())
            k += 1
            continue
        i = rng.randrange(k)
        if indented and x > 0.92:
            ops.append(["indent", i, rng.choice(INDENTS), rng.choice(["set", "inc"])])
            continue
        if gated and 0.84 < x <= 0.92:
            if rng.random() < 0.6:
                ops.append(["verbosity", i, rng.choice(LEVELS)])
                cfg[i][1] = ops[-1][2]
            else:
                ops.append(["quiet", i, rng.random() < 0.5])
                cfg[i][0] = ops[-1][2]
            continue
        if x < 0.50:
            m = rng.choice([1, 1, 1, 2, 2, 3])
            ops.append(["write", i, _lines(d, [rng.choice(lens) for _ in range(m)])])
            if gated:
                if rng.random() < 0.75:
                    ops[-1].append(rng.choice(FLAG_WORDS))
        elif x < 0.65:
            m = rng.choice([1, 1, 2])
            ops.append(["overwrite", i, _lines(d, [rng.choice(lens) for _ in range(m)])])
        elif x < 0.75:
            ops.append(["clear", i])
        else:
            ops.append(["clearN", i, rng.choice([1, 1, 1, 2, 2, 3, 4, 5, 0])])
    pre = [[], [], ["header"], ["x" * (w + 2), ""]][rng.randrange(4)]
    return {"kind": "sec", "width": w, "ansi": ansi, "pre": pre, "ops": ops}


def _random_term(rng):
    w = rng.choice([1, 3, 5, 10])
    cmds = []
    for _ in range(rng.randint(1, 14)):
        x = rng.random()
        if x < 0.6:
            cmds.append(["print", _text(rng.randint(0, 25), rng.choice([0, 1, w - 1, w, w + 1, 2 * w, 2 * w + 1, rng.randint(0, 3 * w)]))])
        elif x < 0.85:
            cmds.append(["up", rng.randint(1, 6)])
        else:
            cmds.append(["erase"])
    return {"kind": "term", "width": w, "cmds": cmds}


def generate(tier, rng):
    if tier == "quick":
        plan = [(4, "big", 10, True), (4, "big", 20, True), (5, "d6", 10, True), (3, "big", 10, False)]
        iplan = [(4, "ind", 10, True, PROFILES[0]), (5, "ind_s", 10, True, PROFILES[1]),
                 (3, "ind", 10, False, PROFILES[0]), (4, "ind_e", 3, True, WIDE_PROFILES[0])]
        gplan = [(4, GATE_POOL, 10, True, None, GATE_PROFILES[0]), (3, GATE_POOL, 10, False, None, GATE_PROFILES[1]),
                 (4, GATE_POOL_S, 10, True, PROFILES[0], GATE_PROFILES[1])]
        n_rand, n_plain, n_term = 4000, 600, 1500
    else:
        plan = [(6, "d6", 10, True), (5, "mid", 20, True), (4, "big", 7, True), (6, "small", 20, True),
                (4, "big", 10, False)]
        iplan = [(5, "ind", 10, True, PROFILES[0]), (5, "ind", 10, True, PROFILES[1]), (6, "ind_s", 10, True, PROFILES[2]),
                 (4, "ind", 7, True, PROFILES[1]), (4, "ind", 10, False, PROFILES[0]),
                 (5, "ind_e", 3, True, WIDE_PROFILES[0]), (5, "ind_e", 3, True, WIDE_PROFILES[1])]
        gplan = [(5, GATE_POOL, 10, True, None, GATE_PROFILES[0]), (4, GATE_POOL, 7, True, None, GATE_PROFILES[1]),
                 (4, GATE_POOL, 10, True, PROFILES[2], GATE_PROFILES[2]), (4, GATE_POOL, 10, False, None, GATE_PROFILES[1]),
                 (5, GATE_POOL_S, 10, True, PROFILES[0], GATE_PROFILES[1]), (6, GATE_POOL_S, 10, True, None, GATE_PROFILES[0])]
        n_rand, n_plain, n_term = 40000, 6000, 15000
    # sections with the gate (quiet / verbosity inherited and set, flag words on the writes): every sequence again
    for depth, pool, w, ansi, profile, gate in gplan:
        for c in _enumerate(depth, pool, w, ansi, profile=profile, gate=gate):
            yield c
    # sections with indentation (inherited from the output at creation): every sequence again, on an indentation profile
    for depth, pool, w, ansi, profile in iplan:
        for c in _enumerate(depth, POOLS[pool], w, ansi, profile=profile):
            yield c
    for depth, pool, w, ansi in plan:
        for c in _enumerate(depth, POOLS[pool], w, ansi):
            yield c
    for _ in range(n_term):
        yield _random_term(rng)
    for k in range(n_plain):
        yield _random_sec(rng, False, indented=(k % 3 == 2), gated=(k % 4 == 1))
    for k in range(n_rand):
        c = _random_sec(rng, True, indented=(k % 3 == 2), gated=(k % 4 == 1))
        if k % 4 == 0:
            c["foreign"] = True
        yield c


def exhaustive(tier):
    # the explicit-state part of the stream is complete (RULE (a)); random cases come on top
    return True


# ------------------------------------------------------------------ implementation

def worker_init():
    os.environ.pop("LINES", None)


def _emit_py(cmds):
    out = []
    for c in cmds:
        if c[0] == "print":
            out.append(c[1] + "\n")
        elif c[0] == "up":
            out.append("%s[%dA" % (ESC, c[1]))
        else:
            out.append(ESC + "[0J")
    return "".join(out)


def _screen_obs(emu):
    return {"rows": emu.screen(), "cur": emu.r, "col": emu.c}


def run_impl(case):
    w = case["width"]
    if case["kind"] == "term":
        data = _emit_py(case["cmds"])
        emu = Emu(w)
        emu.feed(data)
        return {"bytes": data, "screen": _screen_obs(emu), "bad": emu.bad}
    os.environ["COLUMNS"] = str(w)
    from clikit.io.buffered_io import BufferedIO
    from clikit.formatter import AnsiFormatter, PlainFormatter
    from clikit.utils.terminal import Terminal
    try:
        seen = Terminal().width     # must be the COLUMNS value the harness has just set (compared below)
    except Exception as e:
        seen = type(e).__name__
    io = BufferedIO(formatter=AnsiFormatter(forced=True) if case["ansi"] else PlainFormatter())
    out = io.output
    for l in case["pre"]:
        out.write_line(l)
    pre_bytes = io.fetch_output()
    pos = len(pre_bytes)
    secs, steps = [], []
    scopes, base_indent = {}, []
    fsec = None
    for op in case["ops"]:
        if case.get("foreign") and secs:
            # other outputs of the process use sections too (the error output of this very I/O, a second I/O):
            # what they do is none of this output's business
            try:
                if fsec is None:
                    io2 = BufferedIO(formatter=AnsiFormatter(forced=True) if case["ansi"] else PlainFormatter())
                    fsec = [io.error_output.section(), io2.output.section()]
                for k, fs in enumerate(fsec):
                    fs.write_line("foreign %d" % k)
            except Exception as e:  # noqa
                steps.append({"error": "foreign:" + type(e).__name__})
                break
        try:
            if op[0] == "create":
                base_indent.append(op[1] if len(op) > 1 else 0)
                if len(op) > 2:
                    # the section inherits quiet / verbosity from the output as well
                    out.set_quiet(op[2])
                    out.set_verbosity(op[3])
                if base_indent[-1]:
                    # the section inherits the indentation the output has when it is created
                    with out.indent(base_indent[-1]):
                        secs.append(out.section())
                else:
                    secs.append(out.section())
            elif op[0] == "indent":
                # from now on the section has another indentation: the scope entered before is left, a new one
                # entered (section.indent(n), or section.increment_indent(d) reaching the same n)
                sec = secs[op[1]]
                if op[1] in scopes:
                    scopes.pop(op[1]).__exit__(None, None, None)
                cur = base_indent[op[1]]      # leaving the scope restored the indentation the section was created with
                if op[3] == "inc" and op[2] >= cur:
                    scope = sec.increment_indent(op[2] - cur)
                else:
                    scope = sec.indent(op[2])
                scope.__enter__()
                scopes[op[1]] = scope
            elif op[0] == "verbosity":
                secs[op[1]].set_verbosity(op[2])
            elif op[0] == "quiet":
                secs[op[1]].set_quiet(op[2])
            elif op[0] == "write" and len(op) > 3:
                secs[op[1]].write_line("\n".join(op[2]), op[3])
            elif op[0] == "write":
                secs[op[1]].write_line("\n".join(op[2]))
            elif op[0] == "overwrite":
                secs[op[1]].overwrite("\n".join(op[2]))
            elif op[0] == "clear":
                secs[op[1]].clear()
            elif op[0] == "clearN":
                secs[op[1]].clear(op[2])
            else:
                raise RuntimeError("harness: unknown op %r" % (op,))
        except RuntimeError:
            raise
        except Exception as e:  # the implementation raised: recorded, judged by the oracle
            steps.append({"error": type(e).__name__})
            break
        buf = io.fetch_output()
        steps.append({"bytes": buf[pos:], "secs": [[s.content, s.lines] for s in secs]})
        pos = len(buf)
    emu = Emu(w)
    emu.feed(io.fetch_output())
    return {"pre_bytes": pre_bytes, "steps": steps, "screen": _screen_obs(emu), "width_seen": seen}


# ------------------------------------------------------------------ model

def _op_json(op):
    if op[0] == "create":
        j = {"op": "create", "indent": op[1] if len(op) > 1 else 0}
        if len(op) > 2:
            j["quiet"], j["verbosity"] = op[2], op[3]
        return j
    if op[0] == "indent":
        return {"op": "indent", "i": op[1], "n": op[2]}
    if op[0] == "verbosity":
        return {"op": "verbosity", "i": op[1], "v": op[2]}
    if op[0] == "quiet":
        return {"op": "quiet", "i": op[1], "q": op[2]}
    if op[0] == "write" and len(op) > 3:
        return {"op": "write", "i": op[1], "lines": op[2], "flags": op[3]}
    if op[0] in ("write", "overwrite"):
        return {"op": op[0], "i": op[1], "lines": op[2]}
    if op[0] == "clear":
        return {"op": "clear", "i": op[1]}
    return {"op": "clearN", "i": op[1], "n": op[2]}


def model_requests(case):
    if case["kind"] == "term":
        return [{"m": "c15.term", "width": case["width"], "bytes": _emit_py(case["cmds"])}]
    return [{"m": "c15.run", "width": case["width"], "ansi": case["ansi"], "pre": case["pre"],
             "ops": [_op_json(o) for o in case["ops"]]}]


def _norm_screen(rows, cur):
    rows = [r.rstrip(" ") for r in rows]
    while rows and rows[-1] == "":
        rows.pop()
    return {"rows": rows, "cur": cur, "col": 0}


def model_obs(case, answers):
    a = answers[0]
    if case["kind"] == "term":
        if a.get("lexed") is None:
            return {"lexed": None}
        return {"bytes": a["bytes"], "screen": _norm_screen(a["screen"]["rows"], a["screen"]["cur"])}
    steps = [{"bytes": s["bytes"],
              "secs": [["".join(l + "\n" for l in x["content"]), x["rows"]] for x in s["secs"]]}
             for s in a["steps"]]
    return {"steps": steps, "screen": _norm_screen(a["screen"]["rows"], a["screen"]["cur"]),
            "lex": a["lex"], "run_agrees": a["run_agrees"], "width_seen": case["width"],
            "wf": {"wf": a["wf"], "anchored": a["anchored"]},
            # the indentation layer: the base model on the indented history gives the same sections and the same
            # stream (Props.C15.indent_simulates)
            "sim": {"state": a["sim_state"], "stream": a["sim_stream"]},
            # the gate layer: the indented history without the suppressed calls gives the same sections and the same
            # stream (Props.C15.gate_simulates)
            "gate": {"state": a["gate_state"], "stream": a["gate_stream"]}}


def impl_view(case, obs):
    if case["kind"] == "term":
        return {"bytes": obs["bytes"], "screen": obs["screen"]}
    # "wf": the hypotheses of the theorems (width >= 1, written lines are text, cursor starts below the rows shown),
    # decided by the model on this very case (Props.C15.wf_decides), must hold on every generated case
    return {"steps": obs["steps"], "screen": obs["screen"], "lex": True, "run_agrees": True,
            "width_seen": obs["width_seen"], "wf": {"wf": True, "anchored": True},
            "sim": {"state": True, "stream": True},
            "gate": {"state": True, "stream": True}}


# ------------------------------------------------------------------ oracle

def _indented(n, lines):
    """the lines as a section of indentation `n` shows them: every non-empty line behind `n` blanks, an empty line
    empty (the rule of Output.write; C11)"""
    return [(" " * n + l) if l else l for l in lines]


def _gate_apply(gate, op):
    """the settings of every section: [quiet, verbosity], inherited at creation, changed by the setters"""
    if op[0] == "create":
        gate.append([op[2], op[3]] if len(op) > 2 else [False, 0])
    elif op[0] == "quiet":
        gate[op[1]][0] = op[2]
    elif op[0] == "verbosity":
        gate[op[1]][1] = op[2]


def _spec_apply(contents, op, reported, indents=None, gate=None):
    """the contents the operations ask for (creation order); `indents`: the indentation each section has now;
    `gate`: [quiet, verbosity] of each section now - a write the gate suppresses asks for nothing, and neither do
    overwrite / clear / clear(n) on a quiet section (it writes nothing, so what it shows stays what it holds)"""
    quiet = bool(gate) and op[0] not in ("create",) and gate[op[1]][0]
    if op[0] == "create":
        contents.append([])
        if indents is not None:
            indents.append(op[1] if len(op) > 1 else 0)
    elif op[0] == "indent":
        indents[op[1]] = op[2]
    elif op[0] in ("quiet", "verbosity"):
        pass
    elif op[0] == "write":
        n = indents[op[1]] if indents else 0
        if gate is None or _allowed(gate[op[1]][0], gate[op[1]][1], op[3] if len(op) > 3 else None):
            contents[op[1]] = contents[op[1]] + _indented(n, op[2])
    elif quiet:
        pass
    elif op[0] == "overwrite":
        n = indents[op[1]] if indents else 0
        contents[op[1]] = _indented(n, op[2])
    elif op[0] == "clear":
        contents[op[1]] = []
    elif op[0] == "clearN":
        n = op[2]
        if n > 0:
            cur = contents[op[1]]
            contents[op[1]] = cur[:max(0, len(cur) - n)]
        else:
            # clear(0): the statement does not say; take what the section reports
            txt = reported[op[1]][0]
            contents[op[1]] = txt.split("\n")[:-1] if txt else []


def oracle(case, obs):
    if case["kind"] == "term":
        return None
    w = case["width"]
    steps = obs["steps"]
    if not case["ansi"]:
        want = "".join(l + "\n" for l in case["pre"])
        got = obs["pre_bytes"]
        pind, pgate = [], []
        for op, st in zip(case["ops"], steps):
            if "error" in st:
                return "plain output: %s raised %s" % (op[0], st["error"])
            _gate_apply(pgate, op)
            if op[0] == "create":
                pind.append(op[1] if len(op) > 1 else 0)
            elif op[0] == "indent":
                pind[op[1]] = op[2]
            if op[0] in ("write", "overwrite") and _allowed(pgate[op[1]][0], pgate[op[1]][1],
                                                             op[3] if len(op) > 3 else None):
                # appended lines, every non-empty one behind the section's indentation (C11)
                want += "".join((" " * pind[op[1]] + l if l else l) + "\n" for l in op[2])
            got += st["bytes"]
            if ESC in st["bytes"]:
                return "plain output: %s wrote a control code: %r" % (op[0], st["bytes"])
            if got != want:
                return "plain output after %s: stream %r, required %r (appended lines)" % (op[0], got[-80:], want[-80:])
        return None
    emu = Emu(w)
    emu.feed(obs["pre_bytes"])
    anchor = emu.r
    if emu.c != 0:
        return "harness: the anchor is not at column 0"
    above = emu.screen()[:anchor]
    contents, indents, gate = [], [], []
    for k, (op, st) in enumerate(zip(case["ops"], steps)):
        where = "after op %d %s" % (k, _short(op))
        if "error" in st:
            return "%s raised %s" % (_short(op), st["error"])
        reported = st["secs"]
        _gate_apply(gate, op)
        _spec_apply(contents, op, reported, indents, gate)
        if len(reported) != len(contents):
            return "%s: %d sections, %d were created" % (where, len(reported), len(contents))
        for i, lines in enumerate(contents):
            if reported[i][0] != "".join(l + "\n" for l in lines):
                return "%s: content of section %d is %r, required %r" % (where, i, reported[i][0][:80],
                                                                         "".join(l + "\n" for l in lines)[:80])
        emu.feed(st["bytes"])
        if emu.bad:
            return "%s: %s on the stream (only cursor-up and erase-below belong there)" % (where, emu.bad)
        if emu.clamped:
            return "%s: the cursor was moved above the first row of the screen" % where
        expect = []
        for lines in contents:
            for l in lines:
                expect.extend(r.rstrip(" ") for r in _wrap(l, w))      # the screen is read blank-insensitively
        scr = emu.screen()
        scr = scr + [""] * (anchor + len(expect) - len(scr))
        if scr[:anchor] != (above + [""] * anchor)[:anchor]:
            return "%s: rows above the sections changed: %r" % (where, scr[:anchor])
        if scr[anchor:] != expect:
            return "%s: screen below the anchor shows %r, the sections hold %r" % (where, scr[anchor:][:12], expect[:12])
        if (emu.r, emu.c) != (anchor + len(expect), 0):
            return "%s: cursor at row %d col %d, required row %d col 0" % (where, emu.r - anchor, emu.c, len(expect))
    return None


def _short(op):
    if op[0] == "create" and len(op) > 2:
        return "create(indent=%d, quiet=%s, verbosity=%d)" % (op[1], op[2], op[3])
    if op[0] == "create":
        return "create(indent=%d)" % (op[1] if len(op) > 1 else 0)
    if op[0] == "write" and len(op) > 3:
        return "write(%d, lens=%s, flags=%s)" % (op[1], [len(l) for l in op[2]], op[3])
    if op[0] in ("write", "overwrite"):
        return "%s(%d, lens=%s)" % (op[0], op[1], [len(l) for l in op[2]])
    return "%s(%s)" % (op[0], ",".join(str(x) for x in op[1:]))


# ------------------------------------------------------------------ statistics

def _shape(case):
    if case["kind"] == "term":
        return ("term", case["width"], tuple((c[0], len(c[1]) if c[0] == "print" else (c[1] if c[0] == "up" else 0))
                                             for c in case["cmds"]))
    sh = []
    for op in case["ops"]:
        if op[0] in ("write", "overwrite"):
            sh.append((op[0], op[1], tuple(len(l) for l in op[2])) + tuple(op[3:]))
        elif op[0] == "create":
            sh.append(("create", op[1] if len(op) > 1 else 0) + tuple(op[2:]))
        else:
            sh.append(tuple(op))
    return ("sec", case["width"], case["ansi"], len(case["pre"]), tuple(sh))


def nontrivial_key(case, obs):
    if case["kind"] == "term":
        return None
    if case["ansi"]:
        if any("bytes" in s and (ESC + "[") in s["bytes"] for s in obs["steps"]):
            return _shape(case)
        return None
    if sum(len(op[2]) for op in case["ops"] if op[0] in ("write", "overwrite")) >= 2:
        return _shape(case)
    return None


def bucket(case, obs):
    if case["kind"] == "term":
        return "term:w=%d" % case["width"]
    w = case["width"]
    n = len(case["ops"])
    k = sum(1 for o in case["ops"] if o[0] == "create")
    wraps = any(len(l) > w for o in case["ops"] if o[0] in ("write", "overwrite") for l in o[2])
    return "%s:ops<=%d:sections=%d:%s" % ("ansi" if case["ansi"] else "plain",
                                          (4 if n <= 4 else 6 if n <= 6 else 20 if n <= 20 else 40), k,
                                          "wrap" if wraps else "nowrap")


# ------------------------------------------------------------------ minimisation / neighbours

def _drop_op(ops, j):
    """ops without ops[j]; dropping a create drops the section's operations and renumbers"""
    op = ops[j]
    if op[0] != "create":
        return ops[:j] + ops[j + 1:]
    idx = sum(1 for o in ops[:j] if o[0] == "create")
    out = []
    for t, o in enumerate(ops):
        if t == j:
            continue
        if o[0] == "create":
            out.append(o)
        elif o[1] == idx:
            continue
        elif o[1] > idx:
            out.append([o[0], o[1] - 1] + list(o[2:]))
        else:
            out.append(o)
    return out


def _valid(ops):
    k = 0
    for o in ops:
        if o[0] == "create":
            k += 1
        elif not (0 <= o[1] < k):
            return False
    return True


def shrink(case):
    if case["kind"] == "term":
        for j in range(len(case["cmds"])):
            c = dict(case)
            c["cmds"] = case["cmds"][:j] + case["cmds"][j + 1:]
            if c["cmds"]:
                yield c
        return
    ops = case["ops"]
    if case["pre"]:
        c = dict(case)
        c["pre"] = []
        yield c
    # no indentation at all, then one section's indentation at a time
    if any(o[0] == "indent" or (o[0] == "create" and len(o) > 1 and o[1]) for o in ops):
        c = dict(case)
        c["ops"] = [(["create", 0] + list(o[2:]) if len(o) > 2 else ["create"]) if o[0] == "create" else o
                    for o in ops if o[0] != "indent"]
        yield c
        for j, o in enumerate(ops):
            if o[0] == "create" and len(o) > 1 and o[1]:
                for n in (0, 1):
                    if n < o[1]:
                        c = dict(case)
                        c["ops"] = ops[:j] + [["create", n] + list(o[2:])] + ops[j + 1:]
                        yield c
    # no gate at all (no settings, no setters, no flag words), then one flag word at a time
    if any(o[0] in ("quiet", "verbosity") or (o[0] == "create" and len(o) > 2) or (o[0] == "write" and len(o) > 3)
           for o in ops):
        c = dict(case)
        c["ops"] = [o[:2] if o[0] == "create" else o[:3] if o[0] == "write" else o
                    for o in ops if o[0] not in ("quiet", "verbosity")]
        yield c
        for j, o in enumerate(ops):
            if o[0] == "write" and len(o) > 3:
                c = dict(case)
                c["ops"] = ops[:j] + [o[:3]] + ops[j + 1:]
                yield c
            if o[0] == "create" and len(o) > 2 and (o[2] or o[3]):
                c = dict(case)
                c["ops"] = ops[:j] + [[o[0], o[1], False, 0]] + ops[j + 1:]
                yield c
    # cut the tail first, then single operations
    for n in (len(ops) // 2, len(ops) - 1):
        if 0 < n < len(ops):
            c = dict(case)
            c["ops"] = ops[:n]
            yield c
    for j in range(len(ops) - 1, -1, -1):
        new = _drop_op(ops, j)
        if new and _valid(new):
            c = dict(case)
            c["ops"] = new
            yield c
    w = case["width"]
    for j, op in enumerate(ops):
        if op[0] in ("write", "overwrite"):
            if len(op[2]) > 1:
                for t in range(len(op[2])):
                    c = dict(case)
                    c["ops"] = ops[:j] + [[op[0], op[1], op[2][:t] + op[2][t + 1:]] + list(op[3:])] + ops[j + 1:]
                    yield c
            for t, l in enumerate(op[2]):
                for m in (0, 1, w, w + 1):
                    if m < len(l):
                        c = dict(case)
                        c["ops"] = ops[:j] + [[op[0], op[1], op[2][:t] + [l[:m]] + op[2][t + 1:]] + list(op[3:])] + ops[j + 1:]
                        yield c
        elif op[0] == "clearN" and op[2] > 1:
            c = dict(case)
            c["ops"] = ops[:j] + [["clearN", op[1], op[2] - 1]] + ops[j + 1:]
            yield c


def neighbours(case):
    if case["kind"] == "term":
        return
    ops = case["ops"]
    w = case["width"]
    k = sum(1 for o in ops if o[0] == "create")
    # one more operation at the end (exposes a wrong row counter)
    tails = []
    for i in range(k):
        tails += [["write", i, ["q"]], ["write", i, ["q" * (w + 1)]], ["clear", i], ["clearN", i, 1],
                  ["overwrite", i, ["z"]]]
    for t in tails:
        c = dict(case)
        c["ops"] = ops + [t]
        yield c
    for t in tails:
        for t2 in tails[:6]:
            c = dict(case)
            c["ops"] = ops + [t, t2]
            yield c
    # one operation edited
    for j, op in enumerate(ops):
        if op[0] in ("write", "overwrite"):
            for m in (0, 1, w, w + 1, 2 * w):
                c = dict(case)
                c["ops"] = ops[:j] + [[op[0], op[1], [_text(j, m)] + op[2][1:]] + list(op[3:])] + ops[j + 1:]
                yield c
        if op[0] != "create":
            for i in range(k):
                if i != op[1]:
                    new = ops[:j] + [[op[0], i] + list(op[2:])] + ops[j + 1:]
                    if _valid(new):
                        c = dict(case)
                        c["ops"] = new
                        yield c
    for w2 in (w - 1, w + 1):
        if w2 >= 1:
            c = dict(case)
            c["width"] = w2
            yield c
    # the same history on sections that inherit other gate settings; a flagged line at the end
    for gp in GATE_PROFILES:
        c = dict(case)
        t, new = 0, []
        for o in ops:
            if o[0] == "create":
                new.append(["create", o[1] if len(o) > 1 else 0, gp[t % 3][0], gp[t % 3][1]])
                t += 1
            else:
                new.append(o)
        c["ops"] = new
        yield c
    for i in range(k):
        for fl in (1, 4):
            for t in tails[:3]:
                c = dict(case)
                c["ops"] = ops + [["write", i, ["v"], fl], t]
                yield c
    # the same history with the sections created inside indentation scopes / without any indentation
    for prof in PROFILES + [(0, 0, 0), (1, 1, 1)]:
        c = dict(case)
        t, new = 0, []
        for o in ops:
            if o[0] == "create":
                new.append(["create", prof[t % 3]] + list(o[2:]))
                t += 1
            else:
                new.append(o)
        c["ops"] = new
        yield c
