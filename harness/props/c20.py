"""
C20 - error traces always render and show the real message and failing line.

Cases
  trace      a generated program (main file, optionally a library under `vendor/`, optionally code
             compiled from a string without a source file) is written to a scratch directory, run until it
             raises, and the exception object - caught INSIDE the generated code, so no harness frame is
             part of the traceback - is rendered with the real `ExceptionTrace` on a buffered I/O, for every
             verbosity, UTF-8 on/off, ignore pattern and every combination of formatter and stream capability
             (`IO_KINDS`): undecorated - PlainFormatter on a buffer, an UNFORCED AnsiFormatter on a buffer without
             ANSI support (given to the constructor or set later with set_formatter: the path on which `Output.write`
             strips the markup through the formatter's remove_format()), PlainFormatter on an ANSI-capable stream;
             decorated - AnsiFormatter(forced=True) on a buffer, an unforced AnsiFormatter on an ANSI-capable stream.
  highlight  `Highlighter.split_to_lines` / `code_snippet` alone on a source text (generated, or a file
             of the repository in the thorough tier).

Correspondence (Lean model `Clikit.Model.Trace`, driver entries c20.split / c20.snippet / c20.frames /
c20.render): the REAL `tokenize` output of every source the renderer looks at is the model's input; compared
are the highlighted lines, the numbered snippet, the frames that survive the ignore filter (what the real
renderer hands to crashtest's `compact`, recorded by a wrapper) and the complete rendered text (the model
yields the strings handed to the formatter; the real formatter - pastel, external - is applied to them).

Oracle (independent of the model): the property statement over the rendered text - rendering does not raise;
simple mode is exactly the message; full mode has a line with the class name and the message lines (literal
on plain output, ANSI codes stripped on decorated output); every snippet (the failing frame's, and in debug
verbosity every listed frame's) is numbered consecutively, marks exactly the failing line, contains it
whenever the source has it, and shows every source line made of single-line tokens verbatim (modulo trailing
blanks; a line that ends in an explicit line-joining backslash is not "made of tokens" and is exempt: the
highlighter does not show the backslash); frames of files under the ignore pattern are listed only in debug.

Known findings (third-party pastel cannot print a backslash in front of a tag): D9b, D9c, D10b, D10e - the
main generator steers away from them, a small separate stream and the witnesses exercise them.
"""
import io as _io
import json
import os
import re
import shutil
import sys
import tempfile
import tokenize as _tokenize

ID = "C20"
DESIGN_REF = "6/C20"
TECHNIQUE = ("Lean 4 proofs about the trace model (snippet window/numbering/marker, highlighter as a fold over the "
             "tokenizer's output, frame filter, render skeleton with the formatter as a failing parameter; style table "
             "regenerated from the source by tools/genparts/c20.py) + differential execution against the real "
             "ExceptionTrace/Highlighter on exceptions raised from generated programs + the property statement as a "
             "predicate on the rendered text")
LEVEL_TEXT = ("numbers_consecutive_marked, lines_verbatim, frames_filtered, render_contains, render_fails_iff and "
              "escape_roundtrip are proved for ALL sources, token streams satisfying the tokenizer contract, frame "
              "lists, messages and formatters; their hypotheses about the external engines are DECIDED by the model on every "
              "case: the tokenizer contract on the real token stream of every source without multi-line tokens "
              "(contract_decides / lines_verbatim_decided), the tokenizer's outcomes on every frame (frames_ok_decides / "
              "render_fails_iff_decided); the contract of crashtest's compact is PROVED for the executable port "
              "(port_compact_sound) whose collections are compared with the real engine's on every case; "
              "that the model is the code is sampled by comparing highlighted lines, "
              "snippets, the filtered frame list and the complete rendered text on generated programs (files, "
              "source-less code, recursion depths 1..60, chained causes, adversarial messages) x verbosity x UTF-8 x "
              "ignore pattern x formatter/stream-capability combination (plain, unforced ANSI formatter on a stream without "
              "ANSI support, plain on an ANSI-capable stream, forced ANSI, unforced ANSI on an ANSI-capable stream); the rendered text is additionally judged by the property statement itself.")
LEVEL_NOTE = ("Trusted: Lean kernel + propext/Quot.sound/Classical.choice; the hand-written model (sampled, not verified "
              "against the source); CPython's tokenize, crashtest's Inspector/compact, pastel and re as external engines "
              "(their outputs are inputs of the model / applied by the harness). Not covered: solution providers, the "
              "pre-3.6 legacy renderer, exceptions that were never raised (no frames: nothing is rendered).")
LEAN_MODULES = ["Clikit.Props.C20"]
REQUIRED_THEOREMS = ["Clikit.Props.C20.numbers_consecutive_marked", "Clikit.Props.C20.lines_verbatim",
                     "Clikit.Props.C20.frames_filtered", "Clikit.Props.C20.render_contains",
                     "Clikit.Props.C20.render_fails_iff", "Clikit.Props.C20.escape_roundtrip",
                     "Clikit.Props.C20.contract_decides", "Clikit.Props.C20.lines_verbatim_decided",
                     "Clikit.Props.C20.frames_ok_decides", "Clikit.Props.C20.port_compact_sound",
                     "Clikit.Props.C20.render_fails_iff_decided"]
RULE = ("trace cases: program = filler blocks (comments, numbers, strings, multi-line lists, triple-quoted strings, "
        "f-strings, tab-indented functions, classes, non-ASCII, operators that look like tags, markup-like text on plain "
        "output) around catch/start/rec/raise-site definitions; route direct | through a library under vendor/ | through "
        "source-less exec'd code | mutual recursion; raise site plain | multi-line raise | method | generator | nested "
        "closure | in the library | in source-less code | at the first / last line of the file (with and without final "
        "newline); main file on disk or compiled from a string; message from an adversarial set (multi-line, non-ASCII, "
        "opening/closing/mismatched tags, backslashes); chained causes 0..3; recursion depth 1..60; verbosity {0,1,2,4} x "
        "UTF-8 x I/O kind {PlainFormatter | unforced AnsiFormatter (constructor / set_formatter) on a stream without ANSI "
        "support | PlainFormatter on an ANSI-capable stream: undecorated, markup-like text allowed in message and source; "
        "AnsiFormatter(forced) | unforced AnsiFormatter on an ANSI-capable stream: decorated} x ignore pattern {none, empty, vendor dir, everything, no match} x simple mode; highlight cases: "
        "generated sources (thorough: every .py file under src/) x window positions. A case is non-trivial when a trace "
        "was rendered in full mode; distinct = distinct (program shape, message, depth, verbosity, utf8, I/O kind, ignore)")
TRUSTED_BASE = [
    "Lean 4.33 kernel; axioms propext, Classical.choice, Quot.sound only (audited per theorem on every run)",
    "lean/Clikit/Model/Trace.lean: hand-written model of exception_trace.py; its fidelity is what the correspondence samples",
    "tools/genparts/c20.py: reads Highlighter.DEFAULT_THEME / UI, the snippet window sizes and the minimum number width with ast",
    "external engines: CPython 3.12 tokenize (token stream = model input; the contract WF of lines_verbatim - ordered, "
    "consecutive rows, string = slice of line, one `line` per row - is decided by the model (wfB, contract_decides) on the "
    "real stream of every source and must hold unless a token spans several rows; that the reported `line` is the source "
    "line is checked by expected_contract()), crashtest 0.3.1 Inspector / FrameCollection.compact (ported for the driver; "
    "the port is proved to hand back only frames it was given and its collections are compared with the real engine's on "
    "every case that lists frames), pastel 0.2.1 (applied by the harness to the model's markup), re.match",
    "harness/props/c20.py: program generator, the I/O kinds (BufferedOutputStream subclass reporting ANSI support), traceback facts read from the traceback objects, text parser of the oracle",
]
ASSUMPTIONS = [
    "exceptions that were raised (an exception without traceback has no frames and renders nothing in full mode; "
    "hypothesis `frames ≠ []` of render_contains: Program.raise_it() rejects a case whose exception has no traceback)",
    "render_fails_iff: the tokenizer delivers a stream for every frame's file and a complete stream or TokenError for every "
    "frame's line - decided by the model on every trace case (entry c20.wf, key frames_ok, expected true)",
    "no solution provider repository; Python >= 3.6 renderer; output neither quiet nor closed",
    "the I/O's formatter interprets the markup (PlainFormatter, AnsiFormatter); an output with the NullFormatter shows the "
    "renderer's markup as it is, tags and escapes included, and is outside 'style markup aside'",
    "messages and sources without lone surrogates, carriage returns, form feeds and ESC; str(exception) does not raise",
    "history independence of the renderer is C17's subject: the class-level caches (_FRAME_SNIPPET_CACHE, crashtest's "
    "file cache, linecache) are cleared before every case",
    "known findings D9b/D9c/D10b/D10e (pastel cannot print a backslash in front of a tag) are excluded from the main stream",
]
BUDGET_S = {"quick": 180, "thorough": 700}   # quick: a safety cut-off only (about 55 s on a quiet machine)
BATCH = 400

REPO = os.environ.get("CLIKIT_REPO", "/repo")
ANSI_RE = re.compile(r"\x1b\[[0-9;]*m")
TAG_RE = re.compile(r"(?isx)<(([a-z][a-z0-9,_=;-]*) | /([a-z][a-z0-9,_=;-]*)?)>")   # pastel's FULL_TAG_REGEX
VERBOSITIES = [0, 1, 2, 4]
IGNORES = [None, "", "vendor", "all", "nomatch", "exec"]
# formatter x stream capability; case["ansi"] says whether the output is decorated, case["io"] how it comes about
IO_PLAIN = ["plain", "ansi-off", "ansi-off-set", "plain-capable"]
IO_ANSI = ["forced", "capable"]
IO_KINDS = IO_PLAIN + IO_ANSI


def io_kind(case):
    k = case.get("io")
    if k is None:
        return "forced" if case.get("ansi") else "plain"
    if (k in IO_ANSI) != bool(case.get("ansi")):
        raise ValueError("I/O kind %r does not go with ansi=%r" % (k, case.get("ansi")))
    return k

# ------------------------------------------------------------------ adversarial messages
MESSAGES = [
    "plain message", "", " ", "x < y and y > z", "<info>a</b>", "</info>", "<b>bold</b>", "<error>", "</>",
    "<fg=red;options=bold>styled</>", "a\\<b>c", "back\\slash and \\n literal", "multi\nline\nmessage",
    "multi\n\nblank line", "trailing newline\n", "\nleading newline", "non-ASCII: \u00e9 \u00fc \u00f1 \u65e5\u672c\u8a9e \u2192\u2502",
    "tabs\there", "  indented", "<<>>", "< b >", "<info>unclosed", "closing only </error> tail",
    "100% {braces} {0} %s", "'quotes' \"double\"", "long " * 40, "<INFO>caps</INFO>", "a\\\nb",
    "<c1>x</c1><c2>y</c2>", "</b></b></b>", "<b><b><b>", "<question>why</comment>", "\\\\<info>", "#!$&*()[]|;",
]
TRAILING_BACKSLASH = ["abc\\", "\\", "two\\\\", "l1\nl2\\", "<b>\\"]
EXC_TYPES = ["RuntimeError", "ValueError", "KeyError", "Exception", "ZeroDivisionError", "OSError",
             "gen:AppError", "gen:Weird", "gen:Erreur_\u00e9"]


def tag_like(text):
    return TAG_RE.search(text) is not None


# ------------------------------------------------------------------ program generator
FILLER = [
    # (text, flags)  {i} = unique index
    ("# comment number {i}", ""),
    ("# non-ASCII comment: \u00e9\u00fc\u00f1 \u65e5\u672c\u8a9e \u2192 {i}", ""),
    ("F{i}_NUM = 12345", ""),
    ("F{i}_S = \"string with spaces\"", ""),
    ("F{i}_Q = 'single \\' quote'", ""),
    ("F{i}_L = [1,\n         2,\n         3]", ""),
    ("F{i}_T = \"\"\"doc\nstring line\n  end\"\"\"", "m"),
    ("def f{i}_helper(a, b=2):\n\treturn a + b  # tab indented", ""),
    ("F{i}_D = {\"k\": 1.5e3, 'j': 0x1F, \"c\": 1j}", ""),
    ("F{i}_V = len(\"abc\") if 5 > 3 else None", ""),
    ("F{i}_W = not True or False and isinstance(1, int)", ""),
    ("F{i}_F = f\"{1!r:>10} text\"", ""),
    ("F{i}_G = f\"\"\"multi {2}\nline\"\"\"", "m"),
    ("class K{i}(object):\n    \"\"\"Docstring.\"\"\"\n\n    attr = 1\n\n    def m(self):\n        return self.attr", ""),
    ("F{i}_Z = (1 +\n         2)", ""),
    ("if F{i}_missing if False else True:\n    pass\nelse:\n    pass", ""),
    ("", ""),
    ("F{i}_A = 1   ", ""),
    ("    ", ""),
    ("F{i}_B = 1 < 2", ""),
    ("F{i}_C = 3 << 2 >> 1", ""),
    ("F{i}_LT = \"a < b\"", ""),
    ("F{i}_x1 = 1\nF{i}_CH = 0 <F{i}_x1> 0", "t"),
    ("F{i}_P = \"C:\\\\dir\\\\file\"", ""),
    ("F{i}_R = r\"\\d+\\s*\"", ""),
    ("F{i}_U = \"\u00e9\u00e8 \u2192 \u2502 \u65e5\u672c\"", ""),
    ("F{i}_TAB = 1\t# tab before comment", ""),
    ("F{i}_LAM = lambda x: x * 2", ""),
    ("F{i}_M1 = \"<b>bold</b>\"", "t"),
    ("# <info>note</info> {i}", "t"),
    ("F{i}_M2 = \"</b> <info>\"", "t"),
    ("F{i}_M3 = \"<error>\"", "t"),
    ("F{i}_M4 = 1 < 2 and \"<info>a</b>\"", "t"),
    ("F{i}_M5 = r\"\\<b>\"", "t"),
    ("F{i}_M6 = \"</>\"  # </>", "t"),
    ("F{i}_BS = r\"a\\<b\"", ""),
    ("F{i}_T2 = '''<b>\nmulti</b>\n'''", "mt"),
    # multi-line strings containing characters that str.splitlines() treats as line breaks but Python's
    # tokenizer (and the line numbering of the source) does not: form feed, FS, NEL, LINE SEPARATOR
    ("F{i}_FF = \"\"\"doc\x0cfeed\nnext line\"\"\"", "m"),
    ("F{i}_FS = \"\"\"doc\x1csep\nnext\x1d line\n\"\"\"", "m"),
    ("F{i}_NEL = \"\"\"doc\x85nel\nnext line\"\"\"", "m"),
    ("F{i}_LS = '''doc\u2028ls\u2029ps\nnext line'''", "m"),
]

SITES = ["plain", "multiline", "method", "generator", "closure", "vendor", "exec", "inline_first", "last_line"]
ROUTES = ["direct", "vendor", "exec", "mutual"]

EXEC_SRC = (
    "def xhop(msg, n, env, back):\n"
    "    if n > 0:\n"
    "        return xhop(msg, n - 1, env, back)\n"
    "    return back(msg, 0, env)\n"
    "\n"
    "\n"
    "def xraise(msg, env):\n"
    "    raise env[\"exc\"](msg)\n"
)

LIB_SRC_HEAD = (
    "# library under vendor/\n"
    "def hop(msg, n, env, back):\n"
    "    if n > 0:\n"
    "        return hop(msg, n - 1, env, back)\n"
    "    return back(msg, 0, env)\n"
    "\n"
    "\n"
    "def lib_raise(msg, env):\n"
    "    value = [msg,\n"
    "             env]\n"
    "    raise env[\"exc\"](value[0])  # in the library\n"
)

CLASSES_SRC = (
    "class AppError(Exception):\n"
    "    pass\n"
    "\n"
    "\n"
    "class Weird(Exception):\n"
    "    def __str__(self):\n"
    "        return \"custom: \" + str(self.args[0])\n"
    "\n"
    "\n"
    "class Erreur_\u00e9(ValueError):\n"
    "    pass\n"
)


def _site_defs(site, chain):
    """source text defining raiser(msg, env) (and helpers)"""
    if chain > 0:
        leaf = ("def chain(msg, env, k):\n"
                "    if k == 0:\n"
                "        return final(msg, env)\n"
                "    try:\n"
                "        chain(env[\"cause\"] + str(k), env, k - 1)\n"
                "    except BaseException as previous:\n"
                "        raise env[\"exc\"](msg) from previous\n"
                "\n\n"
                "def raiser(msg, env):\n"
                "    return chain(msg, env, CHAIN)\n").replace("CHAIN", str(chain))
        name = "final"
    else:
        leaf = ""
        name = "raiser"
    if site == "plain":
        body = "def %s(msg, env):\n    before = 1\n    raise env[\"exc\"](msg)  # raise here\n    after = 2\n" % name
    elif site == "multiline":
        body = ("def %s(msg, env):\n    raise env[\"exc\"](\n        msg\n    )\n" % name)
    elif site == "method":
        body = ("class Box(object):\n    def go(self, msg, env):\n        self.msg = msg\n        raise env[\"exc\"](self.msg)\n"
                "\n\ndef %s(msg, env):\n    return Box().go(msg, env)\n" % name)
    elif site == "generator":
        body = ("def %s(msg, env):\n    return list(thrower(msg, env) for _ in range(1))\n"
                "\n\ndef thrower(msg, env):\n    raise env[\"exc\"](msg)\n" % name)
    elif site == "closure":
        body = ("def %s(msg, env):\n    def inner():\n        text = \"\"\"closing\n        over\"\"\"; raise env[\"exc\"](msg)\n    return inner()\n" % name)
    elif site == "vendor":
        body = "def %s(msg, env):\n    return env[\"lib\"][\"lib_raise\"](msg, env)\n" % name
    elif site == "exec":
        body = "def %s(msg, env):\n    return env[\"ex\"][\"xraise\"](msg, env)\n" % name
    else:
        body = "def %s(msg, env):\n    raise env[\"exc\"](msg)\n" % name
    return body + ("\n\n" + leaf if leaf else "")


def _route_defs(route):
    if route == "direct":
        start = "    return rec(msg, n, env)\n"
    elif route == "vendor":
        start = "    return env[\"lib\"][\"hop\"](msg, n, env, rec)\n"
    elif route == "exec":
        start = "    return env[\"ex\"][\"xhop\"](msg, n, env, rec)\n"
    else:
        start = "    return ping(msg, n, env)\n"
    text = ("def catch(msg, n, env):\n"
            "    try:\n"
            "        return start(msg, n, env)\n"
            "    except BaseException as caught:\n"
            "        return caught\n"
            "\n\n"
            "def start(msg, n, env):\n" + start +
            "\n\n"
            "def rec(msg, n, env):\n"
            "    if n > 0:\n"
            "        return rec(msg, n - 1, env)\n"
            "    return raiser(msg, env)\n")
    if route == "mutual":
        text += ("\n\ndef ping(msg, n, env):\n    if n > 0:\n        return pong(msg, n, env)\n    return raiser(msg, env)\n"
                 "\n\ndef pong(msg, n, env):\n    return ping(msg, n - 1, env)\n")
    return text


def build_sources(prog):
    """-> (main source text, library source text)"""
    site, route = prog["site"], prog["route"]
    parts = []
    site_text = _site_defs(site, prog.get("chain", 0))
    route_text = _route_defs(route)
    if site == "inline_first":
        # the raise site is the very first definition of the file
        parts = [site_text] + prog["top"] + [CLASSES_SRC, route_text] + prog["mid"] + prog["bottom"]
    elif site == "last_line":
        parts = prog["top"] + [CLASSES_SRC, route_text] + prog["mid"] + prog["bottom"] + [site_text]
    else:
        parts = prog["top"] + [CLASSES_SRC, route_text] + prog["mid"] + [site_text] + prog["bottom"]
    text = "\n\n".join(p.rstrip("\n") if p.strip() else p for p in parts)
    if prog.get("final_newline", True):
        text += "\n"
    else:
        text = text.rstrip("\n")
    lib = LIB_SRC_HEAD + "".join("\n\n" + b for b in prog.get("lib_extra", [])) + "\n"
    return text, lib


def _pick_blocks(rng, n, allow_markup, counter):
    out = []
    for _ in range(n):
        text, flags = FILLER[rng.randrange(len(FILLER))]
        if "t" in flags and not allow_markup:
            continue
        counter[0] += 1
        out.append(text.replace("{i}", str(counter[0])))
    return out


def gen_prog(rng, allow_markup):
    counter = [0]
    site = rng.choice(SITES)
    route = rng.choice(ROUTES)
    sizes = rng.choice([(0, 0, 0), (0, 2, 6), (3, 1, 0), (6, 3, 4), (12, 6, 8), (1, 0, 1), (20, 10, 20)])
    prog = {
        "site": site, "route": route, "chain": rng.choice([0, 0, 0, 1, 2, 3]),
        "top": _pick_blocks(rng, sizes[0], allow_markup, counter),
        "mid": _pick_blocks(rng, sizes[1], allow_markup, counter),
        "bottom": _pick_blocks(rng, sizes[2], allow_markup, counter),
        "lib_extra": _pick_blocks(rng, rng.choice([0, 0, 2]), allow_markup, counter),
        "final_newline": rng.random() < 0.8,
        "mode": rng.choice(["file", "file", "file", "exec"]),
        "exec_name": rng.choice(["<generated>", "<string>"]),
    }
    return prog


def gen_trace_case(rng, stream="main"):
    ansi = rng.random() < 0.4
    if stream == "main":
        allow_markup = not ansi
        msgs = [m for m in MESSAGES if not (ansi and tag_like(m))]
        msg = rng.choice(msgs)
        prog = gen_prog(rng, allow_markup)
    elif stream == "D9b":
        ansi = True
        msg = rng.choice([m for m in MESSAGES if tag_like(m)])
        prog = gen_prog(rng, False)
    elif stream == "D9c":
        msg = rng.choice(TRAILING_BACKSLASH)
        if ansi and tag_like(msg):
            ansi = False
        prog = gen_prog(rng, not ansi)
    elif stream == "D10b":
        ansi = True
        msg = rng.choice([m for m in MESSAGES if not tag_like(m)])
        prog = gen_prog(rng, False)
        prog["site"], prog["mode"] = "plain", "file"
        prog["mid"] = prog["mid"] + [rng.choice(["M_X = \"<b>\"", "# <info>x</info>", "M_Y = 1 < 2 and \"<info>a</b>\""])]
    else:  # D10e
        msg = rng.choice([m for m in MESSAGES if not (ansi and tag_like(m))])
        prog = gen_prog(rng, not ansi)
        prog["site"], prog["mode"] = "plain", "file"
        prog["mid"] = prog["mid"] + [rng.choice(["# path C:\\", "M_Z = 1  # ends in a backslash \\"])]
    depth = rng.choice([1, 1, 2, 3, 5, 8, 13, 21, 34, 60, rng.randint(1, 60)])
    return {
        "kind": "trace", "stream": stream, "prog": prog, "msg": msg, "exc": rng.choice(EXC_TYPES), "depth": depth,
        "verbosity": rng.choice(VERBOSITIES), "utf8": rng.random() < 0.5, "ansi": ansi,
        "simple": rng.random() < 0.08, "ignore": rng.choice(IGNORES),
        "io": rng.choice(["forced", "forced", "capable"] if ansi else
                         ["plain", "plain", "ansi-off", "ansi-off", "ansi-off-set", "plain-capable"]),
    }


def gen_highlight_case(rng):
    prog = gen_prog(rng, True)
    main, lib = build_sources(prog)
    src = rng.choice([main, main, lib, EXEC_SRC])
    n = src.count("\n") + 1
    return {"kind": "highlight", "source": src, "line": rng.choice([0, 1, 2, n // 2, n - 1, n, n + 1, n + 7, rng.randint(1, n)]),
            "before": rng.choice([0, 1, 2, 4, 7]), "after": rng.choice([0, 1, 2, 4, 7]), "utf8": rng.random() < 0.5}


def repo_files():
    out = []
    for base, _dirs, files in os.walk(os.path.join(REPO, "src")):
        for f in sorted(files):
            if f.endswith(".py"):
                out.append(os.path.relpath(os.path.join(base, f), REPO))
    return sorted(out)


def generate(tier, rng):
    n_trace = 2400 if tier == "quick" else 24000
    n_high = 240 if tier == "quick" else 2400
    # regression inputs (defects repaired in /repo: D10a, D10c, D27, D27b)
    for c in regression_cases():
        yield c
    if tier == "thorough":
        for rel in repo_files():
            with open(os.path.join(REPO, rel), encoding="utf-8") as f:
                n = f.read().count("\n") + 1
            for line in (1, max(1, n // 2), n):
                yield {"kind": "highlight", "path": rel, "line": line, "before": 4, "after": 4, "utf8": line % 2 == 0}
    for k in range(n_trace):
        r = rng.random()
        stream = "main" if r < 0.95 else rng.choice(["D9b", "D9c", "D10b", "D10e"])
        yield gen_trace_case(rng, stream)
        if k % 10 == 0 and n_high > 0:
            n_high -= 1
            yield gen_highlight_case(rng)


def exhaustive(tier):
    return False


def _fixed_prog(extra_mid=None, site="plain", route="direct", mode="file", top=None):
    return {"site": site, "route": route, "chain": 0, "top": top or ["# fixed program"], "mid": list(extra_mid or []),
            "bottom": ["TAIL = 1"], "lib_extra": [], "final_newline": True, "mode": mode, "exec_name": "<generated>"}


def _fixed_case(msg="boom", ansi=False, extra_mid=None, verbosity=0, simple=False, io=None, **kw):
    c = {"kind": "trace", "stream": "fixed", "prog": _fixed_prog(extra_mid, **kw), "msg": msg, "exc": "RuntimeError",
         "depth": 2, "verbosity": verbosity, "utf8": True, "ansi": ansi, "simple": simple, "ignore": None}
    if io is not None:
        c["io"] = io
    return c


def regression_cases():
    return [
        _fixed_case(extra_mid=["Y = 1 < 2 and \"<info>a</b>\""]),                       # D10c
        _fixed_case(extra_mid=["A = \"<info>\"", "C = \"</b>\" if 1 < 2 else 0"]),      # D10c / D10a
        _fixed_case(top=["\\\nX0 = 1"]),                                                 # D27b
        _fixed_case(mode="exec", verbosity=4),                                           # D27
        _fixed_case(msg="<info>a</b>"), _fixed_case(msg="</info>", simple=True),         # D9
        _fixed_case(msg="<info>a</b>", verbosity=2, route="exec", site="exec"),
        # markup-like text on the undecorated I/O kinds other than the plain formatter
    ] + [_fixed_case(msg=m, extra_mid=mid, simple=simple, io=k)
         for k in IO_PLAIN[1:]
         for (m, mid, simple) in (("<b>bold</b> a\\<b>c </> <fg=red>", ["A = \"<info>\" + \"</info>\"  # <b>c</b>"], False),
                                  ("<info>a</b>", None, True))]


def witnesses():
    return {
        "D9b": _fixed_case(msg="<info>a</b>", ansi=True),
        "D9c": _fixed_case(msg="abc\\"),
        "D10b": _fixed_case(ansi=True, extra_mid=["x = \"<b>\""]),
        "D10e": _fixed_case(extra_mid=["# path C:\\"]),
    }


# ------------------------------------------------------------------ running a generated program
_SCRATCH_BASE = None


def _scratch_base():
    """a temporary directory that is neither under the cwd nor under $HOME (the renderer shortens such paths)"""
    global _SCRATCH_BASE
    if _SCRATCH_BASE is None:
        base = tempfile.gettempdir()
        cwd, home = os.getcwd(), os.path.expanduser("~")
        for bad in (cwd, home):
            if bad and (base.rstrip(os.sep) + os.sep).startswith(bad.rstrip(os.sep) + os.sep):
                base = "/var/tmp"
        _SCRATCH_BASE = base
    return _SCRATCH_BASE


class Program(object):
    """the generated program of a trace case, materialised in a scratch directory"""

    def __init__(self, case):
        self.case = case
        prog = case["prog"]
        self.main_src, self.lib_src = build_sources(prog)
        self.root = tempfile.mkdtemp(prefix="c20-", dir=_scratch_base())
        self.main_rel = "app/main_prog.py"
        self.lib_rel = "vendor/lib.py"
        self.exec_name = prog.get("exec_name", "<generated>")
        self.main_on_disk = prog.get("mode", "file") == "file"
        os.makedirs(os.path.join(self.root, "app"))
        os.makedirs(os.path.join(self.root, "vendor"))
        self.main_path = os.path.join(self.root, self.main_rel) if self.main_on_disk else self.exec_name
        self.lib_path = os.path.join(self.root, self.lib_rel)
        if self.main_on_disk:
            with open(self.main_path, "w", encoding="utf-8", newline="") as f:
                f.write(self.main_src)
        with open(self.lib_path, "w", encoding="utf-8", newline="") as f:
            f.write(self.lib_src)

    def close(self):
        shutil.rmtree(self.root, ignore_errors=True)

    def __enter__(self):
        return self

    def __exit__(self, *a):
        self.close()

    def source_of(self, filename):
        """the text crashtest reads for `filename` ('' for source-less code)"""
        if filename == self.lib_path:
            return self.lib_src
        if self.main_on_disk and filename == self.main_path:
            return self.main_src
        return ""

    def display(self, filename):
        return filename.replace(self.root, "/ROOT")

    def ignore_pattern(self):
        ig = self.case.get("ignore")
        if ig is None or ig == "":
            return ig
        if ig == "vendor":
            return re.escape(os.path.join(self.root, "vendor"))
        if ig == "all":
            return ".*"
        if ig == "exec":
            # the name recorded for source-less code (`<generated>`, `<string>`): the pattern is matched against the
            # file name a frame RECORDS, whatever that name is
            return re.escape(self.exec_name)
        return "/nonexistent/"

    def raise_it(self):
        """run the program; returns the exception object caught inside the generated code"""
        main_ns = {"__name__": "c20_generated_main"}
        exec(compile(self.main_src, self.main_path, "exec"), main_ns)
        lib_ns = {"__name__": "c20_generated_lib"}
        exec(compile(self.lib_src, self.lib_path, "exec"), lib_ns)
        ex_ns = {"__name__": "c20_generated_exec"}
        exec(compile(EXEC_SRC, self.exec_name, "exec"), ex_ns)
        name = self.case["exc"]
        if name.startswith("gen:"):
            cls = main_ns[name[4:]]
        else:
            import builtins
            cls = getattr(builtins, name)
        env = {"exc": cls, "lib": lib_ns, "ex": ex_ns, "cause": "cause </b> <info> "}
        exc = main_ns["catch"](self.case["msg"], self.case["depth"], env)
        if not isinstance(exc, BaseException) or exc.__traceback__ is None:
            raise RuntimeError("generated program did not raise")
        return exc

    def tb_facts(self, exc):
        """[(filename, lineno, function)] read directly from the traceback objects"""
        out = []
        tb = exc.__traceback__
        while tb is not None:
            code = tb.tb_frame.f_code
            out.append((code.co_filename, tb.tb_lineno, code.co_name))
            tb = tb.tb_next
        return out


# ------------------------------------------------------------------ tokenizer output -> model input
def token_stream(text):
    """the real tokenizer's output on `text` in the driver's format, or {"error": <PyType>}"""
    lines, index, toks = [], {}, []
    try:
        for t in _tokenize.tokenize(_io.BytesIO(text.encode("utf-8")).readline):
            if t.line not in index:
                index[t.line] = len(lines)
                lines.append(t.line)
            toks.append([_tokenize.tok_name[t.type], t.string, t.start[0], t.start[1], t.end[0], t.end[1], index[t.line]])
    except Exception as e:   # noqa - the failure class is the observation
        return {"error": type(e).__name__}
    return {"lines": lines, "toks": toks}


def contract_status(text):
    """does the real tokenizer's stream for `text` satisfy the contract `WF` of theorem lines_verbatim?
    'wf' (then the conclusion is checked too by the caller), 'multi' (a multi-line token: outside the theorem),
    'untokenizable', or 'violated: why' (the external engine does not behave as the hypothesis says)."""
    try:
        toks = list(_tokenize.tokenize(_io.BytesIO(text.encode("utf-8")).readline))
    except Exception:  # noqa
        return "untokenizable"
    from clikit.ui.components.exception_trace import Highlighter
    row, col = 1, 0
    phys = {}
    for t in toks:
        if t.start[0] == 0:
            continue
        if t.type == _tokenize.ENDMARKER:
            break
        if t.start[0] < t.end[0]:
            return "multi"
        r = t.start[0]
        if phys.setdefault(r, t.line) != t.line:
            return "violated: two different `line` values on row %d" % r
        if not (t.start[1] <= t.end[1] and t.line[t.start[1]:t.end[1]] == t.string):
            return "violated: string != line[start:end] at %r" % (t,)
        if not ((r == row and col <= t.start[1]) or r == row + 1):
            return "violated: order/consecutive rows at %r (cursor %d,%d)" % (t, row, col)
        if "\n" in t.line[:t.start[1]]:
            return "violated: newline before the token at %r" % (t,)
        skipped = (t.type == _tokenize.NEWLINE and t.string not in Highlighter.KEYWORDS
                   and t.string not in Highlighter.BUILTINS and t.string != "self")
        if skipped:
            col = 0 if r > row else col
        else:
            col = t.end[1]
        row = r
    return "wf"


def expected_contract(text):
    """what the model's decider (`contractStatus`, theorem contract_decides) must answer for the real tokenizer's stream
    of `text`: the hypothesis WF of lines_verbatim has to HOLD ('wf') unless a token spans several rows ('multi': the
    theorem does not speak about the stream); None = the tokenizer fails.  Only the class is computed here - whether
    the contract holds is decided by the model, so a stream of single-line tokens that breaks it is a disagreement."""
    try:
        toks = list(_tokenize.tokenize(_io.BytesIO(text.encode("utf-8")).readline))
    except Exception:  # noqa
        return None
    body = []
    for t in toks:
        if t.start[0] == 0:
            continue
        if t.type == _tokenize.ENDMARKER:
            break
        if t.start[0] < t.end[0]:
            return "multi"
        body.append(t)
    # the theorem speaks about the physical lines the tokenizer REPORTS (`line` attribute, `physOf` in the model);
    # that these are the lines of the source text is checked here (the model never sees the text itself)
    lines = text.split("\n")
    for t in body:
        r = t.start[0]
        if t.line.rstrip("\n") != (lines[r - 1] if r <= len(lines) else ""):
            return "line-attribute-is-not-the-source-line: row %d" % r
    return "wf"


_ENV = None


def lang_env():
    """keyword.kwlist and the names of the builtins: what Highlighter.KEYWORDS / BUILTINS hold"""
    global _ENV
    if _ENV is None:
        from clikit.ui.components.exception_trace import Highlighter
        _ENV = {"keywords": sorted(Highlighter.KEYWORDS), "builtins": sorted(Highlighter.BUILTINS)}
    return _ENV


def norm_newlines(text):
    return text.replace("\r\n", "\n").replace("\r", "\n")


# ------------------------------------------------------------------ implementation side
_COMPACT_LOG = None
_COMPACT_OUT = []


def worker_init():
    _install_compact_recorder()


def _install_compact_recorder():
    """record what the real renderer hands to crashtest's `compact` (= the frames that survived the filter)"""
    global _COMPACT_LOG
    if _COMPACT_LOG is not None:
        return
    from crashtest.frame_collection import FrameCollection
    _COMPACT_LOG = []
    real = FrameCollection.compact

    def compact(self):
        _COMPACT_LOG.append([(f.filename, f.lineno, f.function) for f in self])
        result = real(self)
        # what the real engine hands back: [[frames of the collection], _count] (compared with the model's port)
        _COMPACT_OUT.append([[[[f.filename, f.lineno, f.function] for f in coll], coll._count] for coll in result])
        return result

    FrameCollection.compact = compact


def _clear_caches():
    import linecache
    from clikit.ui.components.exception_trace import ExceptionTrace
    from crashtest.frame import Frame
    ExceptionTrace._FRAME_SNIPPET_CACHE.clear()
    Frame._content_cache.clear()
    linecache.clearcache()


_ANSI_BUFFER = None


def _ansi_buffer():
    global _ANSI_BUFFER
    if _ANSI_BUFFER is None:
        from clikit.io.output_stream import BufferedOutputStream

        class AnsiCapableBuffer(BufferedOutputStream):
            """a buffer that reports ANSI support (a terminal-like stream)"""

            def supports_ansi(self):
                return True
        _ANSI_BUFFER = AnsiCapableBuffer
    return _ANSI_BUFFER


def _make_io(case):
    from clikit.api.io import IO, Input, Output
    from clikit.io.buffered_io import BufferedIO
    from clikit.io.input_stream import StringInputStream
    from clikit.formatter import AnsiFormatter, PlainFormatter
    kind = io_kind(case)
    utf8 = bool(case.get("utf8", True))
    if kind == "plain":
        return BufferedIO(formatter=PlainFormatter(), supports_utf8=utf8)
    if kind == "forced":
        return BufferedIO(formatter=AnsiFormatter(forced=True), supports_utf8=utf8)
    if kind == "ansi-off":          # an unforced ANSI formatter on a stream without ANSI support
        return BufferedIO(formatter=AnsiFormatter(), supports_utf8=utf8)
    if kind == "ansi-off-set":      # ... given to the I/O after construction
        io = BufferedIO(supports_utf8=utf8)
        io.set_formatter(AnsiFormatter())
        return io
    if kind in ("capable", "plain-capable"):
        fmt = AnsiFormatter() if kind == "capable" else PlainFormatter()
        buf = _ansi_buffer()
        return IO(Input(StringInputStream("")), Output(buf(supports_utf8=utf8), fmt), Output(buf(supports_utf8=utf8), fmt))
    raise ValueError("unknown I/O kind %r" % (kind,))


def _fetch(io):
    return io.output.stream.fetch() + io.error_output.stream.fetch()


def _highlight_obs(text, utf8):
    from clikit.ui.components.exception_trace import Highlighter
    try:
        return {"ok": Highlighter(supports_utf8=utf8).split_to_lines(text)}
    except Exception as e:  # noqa
        return {"err": type(e).__name__}


def _snippet_obs(text, line, before, after, utf8):
    from clikit.ui.components.exception_trace import Highlighter
    try:
        return {"ok": Highlighter(supports_utf8=utf8).code_snippet(text, line, before, after)}
    except Exception as e:  # noqa
        return {"err": type(e).__name__}


def _highlight_source(case):
    if "path" in case:
        with open(os.path.join(REPO, case["path"]), encoding="utf-8") as f:
            return f.read()
    return case["source"]


def run_impl(case):
    _install_compact_recorder()
    _clear_caches()
    if case["kind"] == "highlight":
        src = norm_newlines(_highlight_source(case))
        return {"split": _highlight_obs(src, case["utf8"]),
                "snippet": _snippet_obs(src, case["line"], case["before"], case["after"], case["utf8"]),
                "contract": contract_status(src), "expect_contract": expected_contract(src)}
    from clikit.ui.components.exception_trace import ExceptionTrace
    with Program(case) as p:
        exc = p.raise_it()
        facts = p.tb_facts(exc)
        io = _make_io(case)
        io.set_verbosity(case["verbosity"])
        del _COMPACT_LOG[:]
        del _COMPACT_OUT[:]
        raised = None
        try:
            trace = ExceptionTrace(exc)
            pattern = p.ignore_pattern()
            if pattern is not None:
                trace.ignore_files_in(pattern)
            trace.render(io, case.get("simple", False))
        except Exception as e:  # noqa - "rendering succeeds" is the property
            raised = type(e).__name__
        out = _fetch(io)
        kept = None
        if _COMPACT_LOG:
            survivors = list(_COMPACT_LOG[0])
            kept = []
            for f in facts:
                if survivors and survivors[0] == f:
                    kept.append(True)
                    survivors.pop(0)
                else:
                    kept.append(False)
            if survivors:
                kept = "survivors-not-a-subsequence"
        # the highlighter alone on every distinct source the renderer looks at
        last = facts[-1]
        texts = []
        for (fn, _ln, _fu) in facts:
            t = norm_newlines(p.source_of(fn))
            if t not in texts:
                texts.append(t)
        splits = [_highlight_obs(t, case["utf8"]) for t in texts]
        last_src = norm_newlines(p.source_of(last[0]))
        snippet = _snippet_obs(last_src, last[1], 4, 4, case["utf8"])
        obs = {
            "raised": raised,
            "out": out.replace(p.root, "/ROOT"),
            "kept": kept,
            "splits": splits,
            "snippet": snippet,
            "expect_contracts": [expected_contract(t) for t in texts],
            "compact": ([[[[p.display(fn), ln, fu] for (fn, ln, fu) in coll], n] for (coll, n) in _COMPACT_OUT[0]]
                        if _COMPACT_OUT else None),
            "facts": {"name": type(exc).__name__, "message": str(exc),
                      "tb": [[p.display(fn), ln, fu] for (fn, ln, fu) in facts],
                      "ignored": [bool(re.match(pattern, fn)) if pattern else False for (fn, _l, _f) in facts]},
        }
        exc = None
    return obs


# ------------------------------------------------------------------ model side
_FACTS = {}


def _facts(case):
    """parent-side facts of a trace case: the program is run (not rendered) to read its traceback"""
    key = json.dumps(case, sort_keys=True)
    if key in _FACTS:
        return _FACTS[key]
    with Program(case) as p:
        exc = p.raise_it()
        facts = p.tb_facts(exc)
        pattern = p.ignore_pattern()
        frames = []
        for (fn, ln, fu) in facts:
            src = norm_newlines(p.source_of(fn))
            lines = src.split("\n")
            # frame.line: the traceback's source line (linecache), '' without a readable file
            line = lines[ln - 1] if (src != "" and 1 <= ln <= len(lines)) else ""
            frames.append({"file": p.display(fn), "ignored": bool(re.match(pattern, fn)) if pattern else False,
                           "lineno": ln, "func": fu, "text": src, "line": line.strip()})
        res = {"name": type(exc).__name__, "msg": str(exc), "frames": frames, "ignoreSet": bool(pattern)}
        exc = None
    if len(_FACTS) > 64:
        _FACTS.clear()
    _FACTS[key] = res
    return res


def model_requests(case):
    env = lang_env()
    if case["kind"] == "highlight":
        src = norm_newlines(_highlight_source(case))
        st = token_stream(src)
        return [{"m": "c20.split", "keywords": env["keywords"], "builtins": env["builtins"], "srcs": [st]},
                {"m": "c20.snippet", "keywords": env["keywords"], "builtins": env["builtins"], "src": st,
                 "line": case["line"], "before": case["before"], "after": case["after"], "utf8": bool(case["utf8"])}]
    fx = _facts(case)
    texts, index = [], {}

    def intern(t):
        if t not in index:
            index[t] = len(texts)
            texts.append(t)
        return index[t]

    frames = []
    file_texts = []
    for f in fx["frames"]:
        if f["text"] not in file_texts:
            file_texts.append(f["text"])
        frames.append({"file": f["file"], "ignored": f["ignored"], "lineno": f["lineno"], "func": f["func"],
                       "src": intern(f["text"]), "lineText": f["line"], "line": intern(f["line"])})
    streams = [token_stream(t) for t in texts]
    reqs = [
        {"m": "c20.render", "keywords": env["keywords"], "builtins": env["builtins"], "simple": bool(case.get("simple")),
         "utf8": bool(case["utf8"]), "verbosity": case["verbosity"], "ignoreSet": fx["ignoreSet"],
         "name": fx["name"], "msg": fx["msg"], "sources": streams, "frames": frames},
        {"m": "c20.frames", "ignoreSet": fx["ignoreSet"], "debug": case["verbosity"] == 4,
         "frames": [{"ignored": f["ignored"]} for f in fx["frames"]]},
        {"m": "c20.split", "keywords": env["keywords"], "builtins": env["builtins"],
         "srcs": [streams[index[t]] for t in file_texts]},
        {"m": "c20.snippet", "keywords": env["keywords"], "builtins": env["builtins"],
         "src": streams[index[fx["frames"][-1]["text"]]], "line": fx["frames"][-1]["lineno"], "before": 4, "after": 4,
         "utf8": bool(case["utf8"])},
        # the hypotheses of render_fails_iff decided on the real frames + the collections of the port of compact
        {"m": "c20.wf", "sources": streams, "frames": frames, "ignoreSet": fx["ignoreSet"], "debug": case["verbosity"] == 4},
    ]
    return reqs


def _apply_formatter(case, lines):
    """the real formatter (pastel) applied to the model's markup, line by line, as Output.write does"""
    io = _make_io(case)
    for l in lines:
        io.write_line(l)
    return _fetch(io)


def _split_answer(a):
    if "err" in a:
        return {"err": a["err"]}
    return {"ok": a["ok"]["lines"]}


def _contract_answer(a):
    return None if "err" in a else a["ok"]["contract"]


def _snippet_answer(a):
    if "err" in a:
        return {"err": a["err"]}
    return {"ok": a["rendered"]}


def model_obs(case, answers):
    if case["kind"] == "highlight":
        sp = _split_answer(answers[0]["results"][0])
        snip = _snippet_answer(answers[1])
        if "err" in sp:
            snip = {"err": sp["err"]}
        return {"split": sp, "snippet": snip, "contract": _contract_answer(answers[0]["results"][0])}
    fx = _facts(case)
    render, frames, split, snip, wf = answers
    if "err" in render:
        raised, out = render["err"], None
    else:
        try:
            raised, out = None, _apply_formatter(case, render["ok"])
        except Exception as e:  # noqa - the formatter (external) rejects the markup: the real render raises the same
            raised, out = type(e).__name__, None
    kept = None
    if not case.get("simple") and case["verbosity"] >= 1 and frames["count"] - 1 != 0 and fx["frames"]:
        kept = frames["kept"]
    splits = [_split_answer(a) for a in split["results"]]
    return {"raised": raised, "out": out, "kept": kept, "splits": splits, "snippet": _snippet_answer(snip),
            "contracts": [_contract_answer(a) for a in split["results"]],
            "frames_ok": wf["frames_ok"], "compact": wf["compact"] if kept is not None else None}


def impl_view(case, obs):
    if case["kind"] == "highlight":
        return {"split": obs["split"], "snippet": obs["snippet"], "contract": obs["expect_contract"]}
    v = {"raised": obs["raised"], "out": obs["out"] if obs["raised"] is None else None, "kept": obs["kept"],
         "splits": obs["splits"], "snippet": obs["snippet"],
         # hypotheses of the theorems, decided by the model on the real engines' outputs: the tokenizer contract holds
         # for every stream of single-line tokens (contract_decides), the tokenizer's outcomes on every frame are the
         # ones render_fails_iff assumes (frames_ok_decides); the port of compact (port_compact_sound) makes the
         # collections crashtest makes
         "contracts": obs["expect_contracts"], "frames_ok": True, "compact": obs["compact"]}
    return v


# ------------------------------------------------------------------ oracle: the property statement on the rendered text
SNIP_RE = re.compile(r"^( *)(\u2192 |> |  )( *)(\d+)(\u2502|\|) (.*)$")
AT_RE = re.compile(r"^  at (.+):(\d+) in (.+)$")
FRAME_RE = re.compile(r"^  +(-?\d+)  (.+):(\d+) in (.+)$")


def token_rows(text):
    """rows of `text` that are made of single-line tokens: (set of such rows, {row: comment ends in backslash})"""
    multi, comment_bs = set(), set()
    try:
        for t in _tokenize.tokenize(_io.BytesIO(text.encode("utf-8")).readline):
            if t.start[0] < t.end[0]:
                multi.update(range(t.start[0], t.end[0] + 1))
            if t.type == _tokenize.COMMENT and t.string.endswith("\\"):
                comment_bs.add(t.start[0])
    except Exception:  # noqa
        return None, comment_bs
    lines = text.split("\n")
    rows = set()
    for k, l in enumerate(lines, 1):
        if k in multi:
            continue
        if l.rstrip().endswith("\\") and k not in comment_bs:
            continue            # explicit line joining: the backslash is not a token
        rows.add(k)
    return rows, comment_bs


def _parse_snippet(lines, start):
    """snippet lines following index `start` -> [(number, marked, text)]"""
    out = []
    k = start
    while k < len(lines):
        m = SNIP_RE.match(lines[k])
        if not m:
            break
        out.append((int(m.group(4)), m.group(2) != "  ", m.group(6)))
        k += 1
    return out, k


def _check_snippet(viol, snip, lineno, src, where, case):
    """numbered consecutively, exactly the failing line marked, single-line-token lines verbatim"""
    nums = [n for (n, _m, _t) in snip]
    if nums and nums != list(range(nums[0], nums[0] + len(nums))):
        viol.append({"clause": "numbering", "text": "%s: snippet numbers %s are not consecutive" % (where, nums)})
    marked = [n for (n, m, _t) in snip if m]
    src_lines = src.split("\n")
    exists = 1 <= lineno <= len(src_lines)
    if exists:
        if lineno not in nums:
            viol.append({"clause": "window", "text": "%s: failing line %d is not in the snippet %s" % (where, lineno, nums)})
        if marked != [lineno]:
            viol.append({"clause": "marker", "text": "%s: marked lines %s, failing line %d" % (where, marked, lineno)})
    else:
        if [n for n in marked if n != lineno] or len(marked) > 1:
            viol.append({"clause": "marker", "text": "%s: marked lines %s, failing line %d (not in the source)" % (where, marked, lineno)})
    if src == "":
        return
    rows, _c = token_rows(src)
    if rows is None:
        return
    for (n, _m, text) in snip:
        if n in rows and n <= len(src_lines):
            if text.rstrip() != src_lines[n - 1].rstrip():
                viol.append({"clause": "verbatim", "line": src_lines[n - 1], "row": n, "src": src,
                             "text": "%s: line %d is shown as %r, the source has %r" % (where, n, text, src_lines[n - 1])})


def violations(case, obs):
    viol = []
    if case["kind"] == "highlight":
        return _highlight_violations(case, obs)
    if obs["raised"] is not None:
        return [{"clause": "raises", "text": "rendering raised %s" % obs["raised"]}]
    facts = obs["facts"]
    name, message = facts["name"], facts["message"]
    out = obs["out"]
    text = ANSI_RE.sub("", out) if case.get("ansi") else out
    if case.get("simple"):
        if text != message + "\n":
            viol.append({"clause": "message", "text": "simple mode shows %r, the message is %r" % (text, message)})
        return viol
    lines = text.split("\n")
    # class name
    if not any(l.strip() == name and l.startswith("  ") for l in lines):
        viol.append({"clause": "class", "text": "no line with the class name %s" % name})
    # message
    mlines = message.split("\n")
    found = False
    for j in range(len(lines) - len(mlines) + 1):
        ok = True
        for i, ml in enumerate(mlines):
            o = lines[j + i]
            if not o.endswith(ml) or o[:len(o) - len(ml)].strip(" ") != "":
                ok = False
                break
        if ok:
            found = True
            break
    if not found:
        viol.append({"clause": "message", "text": "the message %r is not in the report" % message})
    # the snippet of the failing frame
    at = [k for k, l in enumerate(lines) if AT_RE.match(l)]
    main_src, lib_src = build_sources(case["prog"])
    on_disk = case["prog"].get("mode", "file") == "file"

    def source_for(display):
        if display.endswith("vendor/lib.py"):
            return lib_src
        if display.endswith("app/main_prog.py") and on_disk:
            return main_src
        return ""

    tb = facts["tb"]
    if not at:
        viol.append({"clause": "snippet", "text": "no 'at file:line in function' line"})
    else:
        k = at[-1]
        m = AT_RE.match(lines[k])
        last = tb[-1]
        if int(m.group(2)) != last[1] or m.group(1) != last[0]:
            viol.append({"clause": "failing-line", "text": "report says %s:%s, the exception was raised at %s:%d"
                         % (m.group(1), m.group(2), last[0], last[1])})
        snip, _end = _parse_snippet(lines, k + 1)
        src = norm_newlines(source_for(last[0]))
        if src != "" and 1 <= last[1] and not snip:
            viol.append({"clause": "snippet", "text": "no code snippet for %s:%d" % (last[0], last[1])})
        _check_snippet(viol, snip, last[1], src, "failing frame", case)
    # the frame list
    st = [k for k, l in enumerate(lines) if l == "  Stack trace:"]
    if st:
        end = at[-1] if at else len(lines)
        listed = []
        k = st[0] + 1
        while k < end:
            m = FRAME_RE.match(lines[k])
            if m and (k == 0 or lines[k - 1] == ""):
                disp, ln, fu = m.group(2), int(m.group(3)), m.group(4)
                listed.append((disp, ln, fu))
                if case["verbosity"] == 4:
                    snip, _e = _parse_snippet(lines, k + 1)
                    _check_snippet(viol, snip, ln, norm_newlines(source_for(disp)), "frame %s:%d" % (disp, ln), case)
            k += 1
        ignored = set((f[0], f[1], f[2]) for f, ig in zip(tb, facts["ignored"]) if ig)
        debug = case["verbosity"] == 4
        for fr in listed:
            if fr in ignored and not debug:
                viol.append({"clause": "frames", "text": "frame %s:%d in %s is under the ignored path but listed at verbosity %d"
                             % (fr[0], fr[1], fr[2], case["verbosity"])})
        if debug:
            for f, ig in zip(tb[:-1], facts["ignored"][:-1]):
                if ig and (f[0], f[1], f[2]) not in listed:
                    viol.append({"clause": "frames", "text": "debug verbosity: ignored frame %s:%d in %s is not listed" % (f[0], f[1], f[2])})
    return viol


def _plain_text_of(markup_lines):
    """what a plain output shows for the highlighter's lines (pastel, external)"""
    from clikit.formatter import PlainFormatter
    fmt = PlainFormatter()
    return [fmt.format(l) for l in markup_lines]


def _highlight_violations(case, obs):
    viol = []
    src = norm_newlines(_highlight_source(case))
    if "err" in obs["split"]:
        try:
            list(_tokenize.tokenize(_io.BytesIO(src.encode("utf-8")).readline))
        except Exception:  # noqa - the source itself does not tokenize: outside the quantifier
            return viol
        return [{"clause": "raises", "text": "highlighting raised %s" % obs["split"]["err"]}]
    try:
        shown = _plain_text_of(obs["split"]["ok"])
        if "ok" in obs["snippet"]:
            _plain_text_of(obs["snippet"]["ok"])
    except Exception as e:  # noqa
        return [{"clause": "raises", "text": "the formatter rejects a highlighted line (%s): writing it would raise" % type(e).__name__}]
    src_lines = src.split("\n")
    rows, _c = token_rows(src)
    if rows is not None:
        for n in sorted(rows):
            if n <= len(shown) and n <= len(src_lines) and shown[n - 1].rstrip() != src_lines[n - 1].rstrip():
                viol.append({"clause": "verbatim", "line": src_lines[n - 1], "row": n, "src": src,
                             "text": "line %d is shown as %r, the source has %r" % (n, shown[n - 1], src_lines[n - 1])})
                break
    if "ok" in obs["snippet"]:
        text = "\n".join("    " + l for l in _plain_text_of(obs["snippet"]["ok"]))
        snip, _e = _parse_snippet(text.split("\n"), 0)
        if len(snip) != len(obs["snippet"]["ok"]):
            viol.append({"clause": "numbering", "text": "snippet lines are not of the form '[marker] number|code'"})
        _check_snippet(viol, snip, case["line"], src if len(shown) == len(src_lines) else "", "snippet", case)
    else:
        viol.append({"clause": "raises", "text": "code_snippet raised %s" % obs["snippet"]["err"]})
    return viol


def oracle(case, obs):
    v = violations(case, obs)
    if v:
        return v[0]["clause"] + ": " + v[0]["text"]
    return None


def _classify(case, obs, v):
    ansi = bool(case.get("ansi"))
    if case["kind"] != "trace":
        if v["clause"] == "verbatim":
            _rows, cbs = token_rows(v["src"])
            if v["row"] in cbs:
                return "D10e"
        return None
    msg = obs["facts"]["message"]     # str(exception): may differ from the constructor argument (KeyError, Weird)
    if v["clause"] == "message":
        if msg.endswith("\\"):
            return "D9c"
        if ansi and tag_like(msg):
            return "D9b"
        return None
    if v["clause"] == "verbatim":
        _rows, cbs = token_rows(v["src"])
        if v["row"] in cbs:
            return "D10e"
        if ansi and tag_like(v["line"]):
            return "D10b"
    return None


def known_class(case, obs, verdict):
    vs = violations(case, obs)
    if not vs:
        return None
    ids = [_classify(case, obs, v) for v in vs]
    if any(i is None for i in ids):
        return None
    return ids[0]


def nontrivial_key(case, obs):
    if case["kind"] == "highlight":
        return ("h", len(obs["split"].get("ok", [])), case["line"], case["before"], case["after"])
    if case.get("simple"):
        return None
    p = case["prog"]
    return (p["site"], p["route"], p["mode"], p["chain"], len(p["top"]), len(p["mid"]), len(p["bottom"]), case["msg"],
            case["exc"], case["depth"], case["verbosity"], case["utf8"], io_kind(case), case["ignore"])


def bucket(case, obs):
    if case["kind"] == "highlight":
        return "highlight:%s:tokenizer-contract-%s" % ("repo-file" if "path" in case else "generated",
                                                       obs.get("contract", "?").split(":")[0])
    p = case["prog"]
    return "trace:%s:%s:v%d:%s%s" % (p["mode"], case.get("stream", "main"), case["verbosity"],
                                     io_kind(case), ":simple" if case.get("simple") else "")


# ------------------------------------------------------------------ shrinking / neighbours
def shrink(case):
    if case["kind"] != "trace":
        if "source" in case:
            lines = case["source"].split("\n")
            for k in range(len(lines)):
                c = dict(case)
                c["source"] = "\n".join(lines[:k] + lines[k + 1:])
                yield c
        return
    p = case["prog"]
    for part in ("top", "mid", "bottom", "lib_extra"):
        for k in range(len(p[part])):
            c = json.loads(json.dumps(case))
            del c["prog"][part][k]
            yield c
    if case["depth"] > 1:
        for d in (1, case["depth"] // 2, case["depth"] - 1):
            if d != case["depth"] and d >= 1:
                c = json.loads(json.dumps(case))
                c["depth"] = d
                yield c
    if p["chain"]:
        c = json.loads(json.dumps(case))
        c["prog"]["chain"] = 0
        yield c
    for key, val in (("route", "direct"), ("site", "plain"), ("mode", "file")):
        if p[key] != val:
            c = json.loads(json.dumps(case))
            c["prog"][key] = val
            yield c
    if case["ignore"] is not None:
        c = dict(case)
        c["ignore"] = None
        yield c
    if case["exc"] != "RuntimeError":
        c = dict(case)
        c["exc"] = "RuntimeError"
        yield c
    if case.get("io") not in (None, "plain", "forced"):
        c = dict(case)
        c["io"] = "forced" if case.get("ansi") else "plain"
        yield c
    m = case["msg"]
    if len(m) > 1:
        for cand in (m[:len(m) // 2], m[len(m) // 2:], m[1:], m[:-1]):
            if cand != m:
                c = dict(case)
                c["msg"] = cand
                yield c


def neighbours(case):
    if case["kind"] != "trace":
        for line in range(0, 12):
            c = dict(case)
            c["line"] = line
            yield c
        return
    for v in VERBOSITIES:
        for ig in IGNORES:
            c = dict(case)
            c["verbosity"], c["ignore"] = v, ig
            yield c
    for m in MESSAGES:
        if case.get("ansi") and tag_like(m):
            continue
        c = dict(case)
        c["msg"] = m
        yield c
    for d in (1, 2, 3, 7, 20, 60):
        c = dict(case)
        c["depth"] = d
        yield c
    for site in SITES:
        c = json.loads(json.dumps(case))
        c["prog"]["site"] = site
        yield c
    for key in ("utf8", "simple"):
        c = dict(case)
        c[key] = not case.get(key)
        yield c
    for k in (IO_ANSI if case.get("ansi") else IO_PLAIN):
        if k != io_kind(case):
            c = dict(case)
            c["io"] = k
            yield c


def extra_findings():
    """inputs on which the real code deviates from the letter of the statement without being registered
    (reported, not part of any stream): the explicit line-joining backslash is not displayed."""
    return {"line-joining-backslash": {"kind": "highlight", "source": "x = 1 + \\\n    2\n", "line": 1, "before": 2,
                                       "after": 2, "utf8": True}}
