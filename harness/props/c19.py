"""
C19 - the automatic progress indicator is well-behaved under every interleaving.

The REAL `ProgressIndicator` runs under a deterministic scheduler built here (DESIGN 3.7):

* fake `threading` (Thread, Event) and `time` (time, sleep) objects are put into the namespace of
  `clikit.ui.components.progress_indicator` from outside (no source hook); the output stream is wrapped;
* every logical thread (the caller's "main" and the spinner) is a real OS thread parked on its own
  lock; exactly one runs at a time; a thread parks *before* each visible operation
  (stream write, Event.set, Event.is_set, Thread.start, Thread.join) and inside `time.sleep`;
  one scheduler step = perform the pending operation and run on to the next one;
* the schedule under test is a list of choices `"M"` (main steps), `"S"` (spinner steps),
  `["T", dt]` (the virtual clock advances by dt ms); a choice that is not enabled is a no-op.  After the
  explicit list the run is completed by a fixed non-preemptive policy (keep the running thread while it is
  enabled, else the other one, else advance the clock to the next wake-up) with forced context switches
  at the step indices listed in `preempt` - this is how "all schedules up to a preemption bound" are
  enumerated;
* a step budget (`fuel`) and a wall-clock watchdog turn a blocked or never-ending schedule into the
  observable statuses "deadlock" / "budget" / "hang"; all parked threads are then unwound with a
  BaseException the component cannot catch.

The same (explicit schedule, preemption set, fuel) is given to the Lean model `Clikit.Spinner`
(entry `c19.run`), and the explicit schedule actually executed, the write trace per logical thread, the final
program counters, the terminal line after every write and the liveness of the spinner when the block is
left are compared.  Manual (thread-free) mode: entry `c19.manual` over call sequences and clock advances.

What the indicator is BUILT ON is a dimension of every mode (`cfg["on"]`): an Output, or an IO whose standard output
and error output are configured individually (ANSI capability, verbosity, quiet; also one Output object for both), with
or without a format given to the constructor (`cfg["fmt"]` null: the component chooses).  The frames are drawn on the
error output of an I/O; they must be well-formed for THAT output, and nothing may reach the standard output.  The
model (Model/SpinnerBuilt.lean) is told what the indicator was built on and decides the output drawn on and the format
itself.  Verbose formats (elapsed time) and quiet outputs are outside the model: mode `elapsed`, oracle only.
"""
import itertools
import sys
import threading as _real_threading
import time as _real_time
import _thread

ID = "C19"
DESIGN_REF = "6/C19"
TECHNIQUE = ("Lean 4 small-step model of the two threads (main program in the auto() protocol, _spin loop) with theorems "
             "over ALL schedules + the real ProgressIndicator under a deterministic scheduler (fake threading/time injected "
             "into the module namespace, real OS threads parked on locks, virtual clock), same schedules fed to both")
LEVEL_TEXT = ("For the model of auto()/_spin/advance/set_message/finish (one scheduling point per stream write, sleep, "
              "Event.set/is_set, Thread.start/join; arbitrary clock advances) the theorems hold for EVERY schedule, program "
              "and configuration: the terminal line is blank or exactly one frame after every write, the spinner is done "
              "whenever the block has been left - normally or by ANY exception kind raised in the body - and stops within 4 of "
              "its own steps once the event is set (sharp form: within `rank` of its program counter, spinner_stops_within_rank), the end-message frame and the newline are the last writes of a normal exit, manual "
              "advancing is throttled by the interval and every frame is indicator value + current message per the format; "
              "the pre-fix two-write protocol (D23) and the pre-fix `except (Exception, KeyboardInterrupt)` (D32) have proved "
              "counterexamples. The model is tied to the code by running the real "
              "component under a deterministic scheduler on complete enumerations of schedules up to a preemption bound and "
              "random schedules, comparing executed schedule, write traces, final program counters and terminal lines; the "
              "hypotheses of the theorems about the configuration (no CR/LF/ESC, an indicator value) are decided by the model on "
              "every case (wf_decides). What the indicator is BUILT ON is part of the model (Model/SpinnerBuilt.lean): an Output, or "
              "an I/O whose standard output and error output differ in ANSI capability, verbosity, quiet; built on an I/O it is "
              "the indicator built on the error output of that I/O (built_on_io_eq_error_output, built_ignores_standard_output), "
              "and when no format is given every frame is, for the output it is DRAWN on, an indicator value followed by the "
              "current message (ANSI-capable) or the message on a line of its own (plain), manual mode and under every schedule "
              "(built_frame_shape, built_frame_shape_auto; the formats are the literals of the source, formats_from_source). The "
              "model is told what the real indicator was built on and decides the drawn-on output and the format itself.")
LEVEL_NOTE = ("Trusted: Lean kernel + propext/Quot.sound/Classical.choice, the deterministic scheduler and terminal emulator of "
              "harness/props/c19.py, CPython's GIL-level atomicity of attribute reads/writes. Not exhibited: preemption inside "
              "one stream write, interleavings below the granularity of a visible operation (bytecode level), memory-model "
              "effects, real-clock jitter (the clock is virtual; arbitrary advances are covered by the theorems).")
LEAN_MODULES = ["Clikit.Props.C19"]
REQUIRED_THEOREMS = ["Clikit.Props.C19." + n for n in (
    "no_mixture", "frame_shape_auto", "always_joined", "every_exit_is_handled", "always_joined_handled",
    "escaped_leaves_spinner_running", "no_foreign_error",
    "spinner_stops_within", "never_stuck", "end_message_last", "end_message_shown", "advance_throttled", "frame_shape",
    "Counter.c19_mixture_old", "Counter.c19_uncaught_leaves_spinner_running_old", "source_shape",
    "wf_decides", "cleanCfgB_iff", "no_mixture_decided", "frame_shape_auto_decided", "end_message_shown_decided",
    "frame_shape_decided", "spinner_stops_within_rank",
    # what the indicator is built on (Model/SpinnerBuilt.lean)
    "formats_from_source", "built_on_io_eq_error_output", "built_ignores_standard_output", "built_cfg",
    "built_frame_shape", "built_frame_shape_auto", "format_of_standard_output_differs")]
RULE = ("auto mode: (a) for each of 10 main programs (empty body, set_message while spinning, two messages, body raises, "
        "set then KeyboardInterrupt, early exit, raise at once, messages with blanks/braces, SystemExit after work, "
        "set then SystemExit) x configurations (ANSI, plain, "
        "ANSI interval 0 with 2 values, ANSI interval 250 with an alternative format) ALL schedules of the non-preemptive "
        "policy with at most 2 (quick) / 3 (thorough; 4 for four programs on the two ANSI configurations that redraw every cycle) forced context switches at any step index below a per-program upper bound "
        "of the run length; (c) random programs/configurations with random explicit schedules (thread choices and arbitrary clock "
        "advances, disabled choices are no-ops) followed by the policy with random preemptions; manual mode: (b) all call "
        "sequences of length 4 (quick) / 5 (thorough) over {advance, set_message, tick 50, tick 100, finish, start} after start, "
        "plus random sequences; (a'), (b') the indicator built on 12 kinds of object (an Output, an I/O with equal outputs, one "
        "Output object for both channels, an I/O whose standard output differs from the error output in ANSI capability / "
        "verbosity / quiet) with no format given (and three with a format): three programs x all schedules with <= 1 (quick) / 2 "
        "forced switches, all manual call sequences of length 3 (quick) / 4; 35 % of the random configurations are built on one "
        "of these; (d) oracle only: the `{elapsed}` placeholder, and indicators without a format on all ordered pairs of "
        "(standard, error) outputs over ANSI x verbosity {0,1,4} x quiet (verbose formats, quiet outputs). non-trivial = the spinner thread took at least one step (auto) / something was written (manual); "
        "distinct = distinct (configuration, program, explicit schedule actually executed)")
TRUSTED_BASE = [
    "Lean 4.33 kernel; axioms propext, Classical.choice, Quot.sound only (audited per theorem on every run)",
    "harness/props/c19.py: the deterministic scheduler (fake threading/time injected into the module namespace, real threads "
    "parked on locks, virtual clock, watchdog), the one-line terminal emulator of the oracle",
    "the hand-written model lean/Clikit/Model/Spinner.lean is tied to the code only by the correspondence runs "
    "(executed schedule, writes with thread tags, final pcs, terminal lines, spinner liveness at exit)",
    "CPython: attribute reads/writes are atomic, a thread switch happens only where the scheduler allows it "
    "(the scheduler serialises the threads; finer interleavings are not exhibited)",
]
ASSUMPTIONS = [
    "granularity: one scheduling point per stream write, time.sleep, Event.set/is_set, Thread.start/join; the local code between "
    "two such operations (e.g. `_message = m` and the computation of the frame text) is atomic in the model and under the scheduler",
    "a single stream write is atomic (no preemption inside OutputStream.write); no memory-model effects below the bytecode level",
    "messages, indicator values and format literals contain no CR/LF/ESC (hypothesis CleanCfg of no_mixture / end_message_shown) "
    "and there is an indicator value (hypothesis of the frame-shape theorems): both are DECIDED by the model on the configuration "
    "of every case (answer key `wf`, theorem wf_decides) and compared with true; no style tags in messages (not a hypothesis of a "
    "theorem: a tag would show up as a disagreement of the write traces); a quiet output to draw on and the {elapsed} placeholder "
    "(hence the formats chosen for a verbose output) are outside the model: those cases (mode `elapsed`) are judged by the "
    "oracle alone - nothing reaches a quiet output, every frame follows the documented format for the output it is drawn on",
    "built on an I/O: the model knows the two outputs by what the component can ask them (ANSI support, verbosity, quiet); "
    "the oracle takes as the format of an indicator that was given none the documented one for the output the frames are "
    "drawn on (NORMAL where the line is redrawn in place, NORMAL_NO_ANSI where every frame is a line of its own)",
    "time.time()*1000 rounds to the virtual millisecond exactly; the spinner period 0.1 s is 100 virtual ms",
    "bodies raise Exception, KeyboardInterrupt or SystemExit (SystemExit stands for every other BaseException kind); "
    "D32 (spinner left running after SystemExit) is repaired in the repository: the oracle demands the join for every "
    "kind, the pre-fix behaviour is kept as a proved counterexample against the variant Proto.d32",
]
BUDGET_S = {"quick": 60, "thorough": 700}
BATCH = 3000
# Threads + fork: the worker processes are forked by the pipeline BEFORE any case is run, i.e. while the parent has
# no thread of this module; every run_impl() creates its two OS threads inside the (already forked) worker and joins
# them before it returns (Scheduler.shutdown), so no fork ever happens with a scheduler thread alive or a scheduler
# lock held.  The parent itself runs cases only after the stream (witness replay, minimisation), again joining the
# threads per case.  A worker can therefore not inherit a locked lock, and PARALLEL = True is safe; set
# VERIF_WORKERS=1 to run everything in one process.
PARALLEL = True

FUEL = 400
PERIOD_MS = 100
CR_EL = "\r\x1b[2K"


# ------------------------------------------------------------------------------------------------
# deterministic scheduler
# ------------------------------------------------------------------------------------------------
class Abort(BaseException):
    """unwinds a parked logical thread; neither Exception nor KeyboardInterrupt, so auto() cannot catch it"""


class Hang(Exception):
    """the controller's watchdog fired: a logical thread did not come back to a scheduling point"""


class _T(object):
    __slots__ = ("tid", "lock", "state", "wake", "target", "pending", "os_thread", "outcome", "steps", "deadline")

    def __init__(self, tid):
        self.tid = tid
        self.lock = _thread.allocate_lock()
        self.lock.acquire()
        self.state = "new"        # new | ready | sleeping | joining | done
        self.wake = 0
        self.target = None        # tid joined on
        self.deadline = None      # virtual time at which a join with a timeout gives up
        self.pending = "begin"    # name of the operation the thread is parked before
        self.os_thread = None
        self.outcome = None       # how the thread function ended
        self.steps = 0


class Scheduler(object):
    WATCHDOG_S = 30.0

    def __init__(self):
        self.clock = 0                      # virtual milliseconds
        self.threads = {}                   # tid -> _T
        self.by_ident = {}
        self.ctrl = _thread.allocate_lock()
        self.ctrl.acquire()
        self.aborted = False
        self.writes = []                    # (tid, text) in stream order
        self.executed = []                  # explicit schedule actually executed
        self.hang = False
        self.notes = []

    # ---- called from logical threads
    def me(self):
        return self.by_ident[_thread.get_ident()]

    def park(self, t):
        """give control back to the controller and wait to be scheduled again"""
        if self.aborted:
            raise Abort()
        self.ctrl.release()
        t.lock.acquire()
        if self.aborted:
            raise Abort()

    def point(self, name):
        t = self.me()
        t.pending = name
        t.state = "ready"
        self.park(t)

    def spawn(self, tid, fn):
        t = _T(tid)
        self.threads[tid] = t

        def boot():
            self.by_ident[_thread.get_ident()] = t
            t.lock.acquire()                # parked at "begin"
            try:
                if self.aborted:
                    raise Abort()
                t.outcome = fn()
            except Abort:
                t.outcome = "aborted"
            except BaseException as e:      # noqa - the thread function's own failure is an observation
                t.outcome = "raised:" + type(e).__name__
            t.state = "done"
            t.pending = "done"
            if not self.aborted:
                self.ctrl.release()

        t.state = "ready"
        t.os_thread = _real_threading.Thread(target=boot, name="c19-" + tid)
        t.os_thread.daemon = True
        t.os_thread.start()
        return t

    # ---- controller side
    def enabled(self, tid):
        t = self.threads.get(tid)
        if t is None:
            return False
        if t.state == "ready":
            return True
        if t.state == "sleeping":
            return self.clock >= t.wake
        if t.state == "joining":
            o = self.threads.get(t.target)
            if o is not None and o.state == "done":
                return True
            return t.deadline is not None and self.clock >= t.deadline
        return False

    def run_thread(self, tid):
        t = self.threads[tid]
        t.steps += 1
        t.lock.release()
        if not self.ctrl.acquire(timeout=self.WATCHDOG_S):
            self.hang = True
            raise Hang()

    def do(self, choice):
        """execute one explicit choice; a choice that is not enabled is a no-op"""
        self.executed.append(choice)
        if choice == "M" or choice == "S":
            if self.enabled(choice):
                self.run_thread(choice)
        else:
            self.clock += int(choice[1])

    def next_wake(self):
        w = [t.wake for t in self.threads.values() if t.state == "sleeping" and t.wake > self.clock]
        w += [t.deadline for t in self.threads.values()
              if t.state == "joining" and t.deadline is not None and t.deadline > self.clock]
        return min(w) if w else None

    def policy(self, preempt, fuel):
        """complete the run: non-preemptive default with forced switches at the step indices in `preempt`"""
        pre = set(preempt)
        cur, k = "M", 0
        while True:
            em, es = self.enabled("M"), self.enabled("S")
            if not em and not es:
                w = self.next_wake()
                if w is None:
                    return "quiescent"
                if fuel <= 0:
                    return "budget"
                fuel -= 1
                self.do(["T", w - self.clock])
                k += 1
                continue
            if fuel <= 0:
                return "budget"
            fuel -= 1
            other = "S" if cur == "M" else "M"
            if (em if cur == "M" else es):
                pick = other if (k in pre and (es if cur == "M" else em)) else cur
            else:
                pick = other
            self.do(pick)
            cur = pick
            k += 1

    def shutdown(self):
        self.aborted = True
        for t in self.threads.values():
            if t.state != "done":
                try:
                    t.lock.release()
                except RuntimeError:
                    pass
        leaked = False
        for t in self.threads.values():
            if t.os_thread is not None:
                t.os_thread.join(10.0)
                if t.os_thread.is_alive():
                    leaked = True
        return leaked


class FakeEvent(object):
    def __init__(self, sched):
        self._s = sched
        self._flag = False

    def set(self):
        self._s.point("set")
        self._flag = True

    def is_set(self):
        self._s.point("is_set")
        return self._flag

    isSet = is_set

    def clear(self):
        self._s.point("clear")
        self._flag = False

    def wait(self, timeout=None):          # not used by the component; kept so a rewrite fails loudly, not silently
        raise NotImplementedError("Event.wait is not modelled")


class FakeThread(object):
    def __init__(self, sched, group=None, target=None, name=None, args=(), kwargs=None, daemon=None):
        self._s = sched
        self._target, self._args, self._kwargs = target, args, (kwargs or {})
        self._t = None
        self.daemon = daemon
        self.name = name

    def start(self):
        self._s.point("spawn")
        if self._t is not None:
            raise RuntimeError("threads can only be started once")
        self._t = self._s.spawn("S", lambda: (self._target(*self._args, **self._kwargs), "returned")[1])

    def join(self, timeout=None):
        if self._t is None:
            raise RuntimeError("cannot join thread before it is started")
        me = self._s.me()
        me.pending = "join"
        me.state = "joining"
        me.target = self._t.tid
        # a join with a timeout gives up on the virtual clock (the component joins without one; a rewrite that
        # adds a timeout is then schedulable: the caller goes on while the spinner is still held back)
        me.deadline = None if timeout is None else self._s.clock + int(round(timeout * 1000))
        self._s.park(me)
        me.deadline = None
        me.state = "ready"

    def is_alive(self):
        return self._t is not None and self._t.state != "done"

    isAlive = is_alive


class FakeThreading(object):
    def __init__(self, sched):
        self._s = sched

    def Event(self):
        return FakeEvent(self._s)

    def Thread(self, *a, **kw):
        return FakeThread(self._s, *a, **kw)

    def __getattr__(self, name):
        raise AttributeError("fake threading module has no %r (the component uses something the scheduler does not model)" % name)


class FakeTime(object):
    def __init__(self, sched):
        self._s = sched

    def time(self):
        return self._s.clock / 1000.0

    def sleep(self, secs):
        t = self._s.me()
        t.wake = self._s.clock + int(round(secs * 1000))
        t.pending = "sleep"
        t.state = "sleeping"
        self._s.park(t)
        t.state = "ready"

    def __getattr__(self, name):
        raise AttributeError("fake time module has no %r" % name)


class ManualTime(object):
    """virtual `time` for the thread-free mode"""

    def __init__(self):
        self.clock = 0

    def time(self):
        return self.clock / 1000.0

    def sleep(self, secs):
        self.clock += int(round(secs * 1000))


# ------------------------------------------------------------------------------------------------
# running the real component
# ------------------------------------------------------------------------------------------------
EXC = {"Exception": RuntimeError, "KeyboardInterrupt": KeyboardInterrupt, "SystemExit": SystemExit}


class _Stream(object):
    """output stream whose write() is a scheduling point"""

    def __init__(self, on_write, ansi):
        self._on_write = on_write
        self._ansi = ansi

    def write(self, string):
        self._on_write(string)

    def flush(self):
        pass

    def supports_ansi(self):
        return self._ansi

    def supports_utf8(self):
        return True

    def close(self):
        pass

    def is_closed(self):
        return False


def fmt_string(segs):
    out = []
    for s in segs:
        if s == "I":
            out.append("{indicator}")
        elif s == "M":
            out.append("{message}")
        else:
            out.append(s[1])
    return "".join(out)


def caps(ansi=True, verbosity=0, quiet=False):
    """what the component can ask an output about"""
    return {"ansi": bool(ansi), "verbosity": verbosity, "quiet": bool(quiet)}


def drawn_caps(cfg):
    """the capabilities of the output the frames are DRAWN on: the output the indicator was built on, or the error
    output of the I/O it was built on.  `on` absent: an Output at normal verbosity, not quiet (the earlier cases)."""
    on = cfg.get("on")
    if not on:
        return caps(cfg["ansi"])
    return on["err"] if on["io"] else on["out"]


def _output(c, on_write):
    from clikit.api.io.output import Output
    from clikit.formatter import AnsiFormatter, PlainFormatter
    out = Output(_Stream(on_write, c["ansi"]), AnsiFormatter(forced=True) if c["ansi"] else PlainFormatter())
    out.set_verbosity(c["verbosity"])
    out.set_quiet(c["quiet"])
    return out


def build_on(cfg, on_write, std_write):
    """the constructor argument `io`: an Output, or an IO whose two outputs are configured individually (standard
    output and error output may differ in ANSI capability, verbosity and quiet; `merged`: one Output object for both)"""
    on = cfg.get("on")
    if not on:
        return _output(caps(cfg["ansi"]), on_write)
    if not on["io"]:
        return _output(on["out"], on_write)
    from clikit.api.io import IO, Input
    from clikit.io.input_stream.string_input_stream import StringInputStream
    err = _output(on["err"], on_write)
    std = err if on.get("merged") else _output(on["std"], std_write)
    return IO(Input(StringInputStream("")), std, err)


def _component(cfg, on_write, fake_threading, fake_time, std_write=None):
    import clikit.ui.components.progress_indicator as pim
    target = build_on(cfg, on_write, std_write if std_write is not None else (lambda s: None))
    pim.threading = fake_threading
    pim.time = fake_time
    # `fmt` None: the component chooses the format itself
    pi = pim.ProgressIndicator(target, fmt=fmt_string(cfg["fmt"]) if cfg["fmt"] is not None else None,
                               interval=cfg["interval"], values=list(cfg["values"]))
    return pim, pi


def run_auto(case):
    cfg = case["cfg"]
    sched = Scheduler()
    ft, ftime = FakeThreading(sched), FakeTime(sched)

    def on_write(string):
        sched.point("write")
        sched.writes.append([sched.me().tid, string])

    import clikit.ui.components.progress_indicator as pim
    saved = (pim.threading, pim.time)
    std_writes = []
    pim_, pi = _component(cfg, on_write, ft, ftime, std_writes.append)
    info = {"alive_at_exit": None}

    def main():
        outcome = "normal"
        try:
            with pi.auto(cfg["start"], cfg["end"]):
                for op in case["body"]:
                    if op[0] == "set":
                        pi.set_message(op[1])
                    elif op[0] == "work":
                        ftime.sleep(op[1] / 1000.0)
                    elif op[0] == "raise":
                        raise EXC[op[1]]("boom")
                    elif op[0] == "exit":
                        break
                    else:
                        raise AssertionError(op)
        except Abort:
            raise
        except BaseException as e:   # noqa - how the block was left is the observation
            if e.__class__ in EXC.values() and str(e) == "boom" or isinstance(e, KeyboardInterrupt) or isinstance(e, SystemExit):
                outcome = "raised:" + [k for k, v in EXC.items() if v is e.__class__][0]
            else:
                outcome = "error:" + type(e).__name__
        s = sched.threads.get("S")
        info["alive_at_exit"] = bool(s is not None and s.state != "done")
        return outcome

    status = None
    try:
        sched.spawn("M", main)
        try:
            for ch in case["sched"]:
                sched.do(ch)
            status = sched.policy(case.get("preempt", []), case.get("fuel", FUEL))
        except Hang:
            status = "hang"
    finally:
        m, s = sched.threads.get("M"), sched.threads.get("S")
        pcs = {"M": m.pending if m else "none", "S": s.pending if s else "notStarted"}
        outcome = {"M": m.outcome if m else None, "S": s.outcome if s else None}
        leaked = sched.shutdown()
        pim.threading, pim.time = saved
    if status == "quiescent":
        done = all(t.state == "done" or t.outcome is not None for t in (m, s) if t is not None)
        status = "finished" if (pcs["M"] == "done" and pcs["S"] in ("done", "notStarted")) else "deadlock"
    return {
        "status": status,
        "executed": sched.executed,
        "writes": sched.writes,
        "pcs": pcs,
        "main_outcome": outcome["M"] if pcs["M"] == "done" else None,
        "spin_outcome": outcome["S"] if pcs["S"] == "done" else None,
        "alive_at_exit": info["alive_at_exit"],
        "clock": sched.clock,
        "leaked": leaked,
        "std_writes": std_writes,      # what reached the STANDARD output of an I/O the indicator was built on
    }


def run_manual(case):
    cfg = case["cfg"]
    mt = ManualTime()
    writes = []
    import clikit.ui.components.progress_indicator as pim
    saved = (pim.threading, pim.time)
    try:
        std_writes = []
        pim_, pi = _component(cfg, writes.append, FakeThreading(None), mt, std_writes.append)
        outs = []
        for op in case["ops"]:
            n0, err = len(writes), None
            try:
                if op[0] == "start":
                    pi.start(op[1])
                elif op[0] == "advance":
                    pi.advance()
                elif op[0] == "set":
                    pi.set_message(op[1])
                elif op[0] == "finish":
                    pi.finish(op[1], reset_indicator=op[2])
                elif op[0] == "tick":
                    mt.clock += op[1]
                else:
                    raise AssertionError(op)
            except AssertionError:
                raise
            except Exception as e:
                err = type(e).__name__
            outs.append({"writes": writes[n0:], "err": err, "clock": mt.clock})
    finally:
        pim.threading, pim.time = saved
    return {"ops": outs, "std_writes": std_writes}


def run_elapsed(case):
    """manual mode outside the Lean model: the `{elapsed}` placeholder / the verbose formats the component chooses itself
    over short and long blocks, and quiet outputs.  `on` (optional): what the indicator is built on, as in `cfg`."""
    import clikit.ui.components.progress_indicator as pim
    mt = ManualTime()
    writes, std_writes = [], []
    saved = (pim.threading, pim.time)
    try:
        pim.threading, pim.time = FakeThreading(None), mt
        target = build_on({"ansi": case["ansi"], "on": case.get("on") or {"io": False, "out": caps(case["ansi"], case["verbosity"])}},
                          writes.append, std_writes.append)
        pi = pim.ProgressIndicator(target, fmt=case["fmt"], interval=100)
        outs = []
        steps = [("start", 0)] + [("advance", dt) for dt in case["ticks"]] + [("finish", 0)]
        for what, dt in steps:
            n0, err = len(writes), None
            mt.clock += dt
            try:
                if what == "start":
                    pi.start("working")
                elif what == "advance":
                    pi.advance()
                else:
                    pi.finish("done")
            except Exception as e:  # noqa: BLE001
                err = type(e).__name__
            outs.append({"what": what, "dt": dt, "writes": writes[n0:], "err": err})
    finally:
        pim.threading, pim.time = saved
    return {"steps": outs, "std_writes": std_writes}


def run_impl(case):
    if case["mode"] == "auto":
        return run_auto(case)
    if case["mode"] == "elapsed":
        return run_elapsed(case)
    return run_manual(case)


# ------------------------------------------------------------------------------------------------
# Lean model
# ------------------------------------------------------------------------------------------------
def _mcfg(cfg):
    # the model takes the spinner's period from the source (Gen/C19.lean); with `on` it is told what the indicator is
    # built on and decides itself which output the frames are drawn on and (fmt null) which format is chosen
    return dict(cfg)


def model_requests(case):
    if case["mode"] == "elapsed":
        return []
    if case["mode"] == "auto":
        return [{"m": "c19.run", "cfg": _mcfg(case["cfg"]), "body": case["body"], "sched": case["sched"],
                 "preempt": case.get("preempt", []), "fuel": case.get("fuel", FUEL), "old": False}]
    return [{"m": "c19.manual", "cfg": _mcfg(case["cfg"]), "ops": case["ops"]}]


def model_obs(case, answers):
    if case["mode"] == "elapsed":
        return {}
    a = answers[0]
    if case["mode"] == "auto":
        return {"status": a["status"], "executed": a["executed"], "writes": a["writes"], "lines": a["lines"],
                "pcs": a["pcs"], "main_outcome": a["main_outcome"], "spin_crashed": a["crashed"],
                "alive_at_exit": a["alive_at_exit"], "clock": a["clock"], "wf": a["wf"], "std_writes": []}
    return {"ops": [{"writes": o["writes"], "err": o["err"]} for o in a["ops"]], "lines": a["lines"], "wf": a["wf"],
            "std_writes": []}       # the model draws on ONE output: nothing ever reaches the standard output of an I/O


def impl_view(case, obs):
    if case["mode"] == "elapsed":
        return {}
    if case["mode"] == "auto":
        return {"status": obs["status"], "executed": obs["executed"], "writes": obs["writes"],
                "lines": term_lines([w[1] for w in obs["writes"]]),
                "pcs": obs["pcs"], "main_outcome": obs["main_outcome"],
                "spin_crashed": bool(obs["spin_outcome"] and obs["spin_outcome"].startswith("raised:")),
                "alive_at_exit": obs["alive_at_exit"], "clock": obs["clock"],
                # the hypotheses of the theorems (CleanCfg, an indicator value exists) must hold for the configuration
                # the real component was built from: decided by the model (Props.C19.wf_decides), expected true
                "wf": {"clean": True, "has_values": True}, "std_writes": obs["std_writes"]}
    return {"ops": [{"writes": o["writes"], "err": o["err"]} for o in obs["ops"]],
            "lines": term_lines([w for o in obs["ops"] for w in o["writes"]]),
            "wf": {"has_values": True}, "std_writes": obs["std_writes"]}


# ------------------------------------------------------------------------------------------------
# the property statement, evaluated on what the implementation did (independent of the Lean model)
# ------------------------------------------------------------------------------------------------
class Terminal(object):
    """one-line terminal: CR, ESC[2K, LF, printable characters"""

    def __init__(self):
        self.done, self.line, self.col, self.esc = [], [], 0, ""

    def feed(self, s):
        for ch in s:
            if self.esc:
                self.esc += ch
                if self.esc == "\x1b[2K":
                    self.line, self.esc = [], ""
                elif not "\x1b[2K".startswith(self.esc):
                    self.esc = ""
            elif ch == "\r":
                self.col = 0
            elif ch == "\n":
                self.done.append("".join(self.line))
                self.line, self.col = [], 0
            elif ch == "\x1b":
                self.esc = ch
            else:
                while len(self.line) < self.col:
                    self.line.append(" ")
                if self.col < len(self.line):
                    self.line[self.col] = ch
                else:
                    self.line.append(ch)
                self.col += 1

    def current(self):
        return "".join(self.line)


def term_lines(writes):
    t, out = Terminal(), []
    for w in writes:
        t.feed(w)
        out.append(t.current())
    return out


def fmt_of(cfg):
    """the format the frames must follow: the one given to the constructor; when none was given, the documented format
    for the output the frames are DRAWN on (the output itself / the error output of an I/O): indicator and message
    where the line is redrawn in place, the message alone where every frame is a line of its own"""
    if cfg["fmt"] is not None:
        return cfg["fmt"]
    return NORMAL_FMT if drawn_caps(cfg)["ansi"] else PLAIN_FMT


def render(cfg, v, m):
    return "".join(v if s == "I" else m if s == "M" else s[1] for s in fmt_of(cfg))


def frames_of(cfg, messages):
    return dict((render(cfg, v, m), (v, m)) for v in cfg["values"] for m in messages)


def oracle_auto(case, obs):
    cfg = case["cfg"]
    if obs["status"] == "hang" or obs.get("leaked"):
        return "a thread never came back to a scheduling point (watchdog): status=%s" % obs["status"]
    messages = [cfg["start"], cfg["end"]] + [op[1] for op in case["body"] if op[0] == "set"]
    frames = frames_of(cfg, messages)
    if obs["std_writes"]:
        return "the indicator wrote %r to the STANDARD output of the I/O it was built on" % "".join(obs["std_writes"])[:80]
    # (1) the terminal line never shows a mixture of two frames
    t = Terminal()
    for k, (tid, w) in enumerate(obs["writes"]):
        t.feed(w)
        for line in ([t.current()] + t.done[-1:]):
            if line != "" and line not in frames:
                return "after write %d (%s) the terminal line is %r: neither blank nor exactly one frame" % (k, tid, line)
    outcome = obs["main_outcome"]
    left = outcome is not None and (outcome == "normal" or outcome.startswith("raised:"))
    # (2) leaving the automatic mode stops and joins the spinner
    if left and obs["alive_at_exit"]:
        return "the block was left (%s) while the spinner thread was still alive" % outcome
    if obs["status"] == "deadlock":
        return "deadlock: no thread can run and nobody sleeps (pcs %s)" % obs["pcs"]
    if obs["status"] == "budget":
        return "the run did not come to an end within %d scheduler steps (pcs %s)" % (case.get("fuel", FUEL), obs["pcs"])
    if obs["spin_outcome"] not in (None, "returned"):
        return "the spinner thread died: %s" % obs["spin_outcome"]
    if outcome is not None and outcome.startswith("error:"):
        return "the block raised %s" % outcome
    # (3) a normal exit leaves the end message as the last frame shown
    if outcome == "normal":
        ws = obs["writes"]
        shown = [l for l in t.done if l != ""]
        last = shown[-1] if shown else None
        if last is None or last not in frames or frames[last][1] != cfg["end"]:
            return "normal exit but the last frame shown is %r, not the end message %r" % (last, cfg["end"])
        if t.current() != "" or not ws or not ws[-1][1].endswith("\n"):
            return "normal exit but the stream does not end with the end-message frame and a newline"
        if ws[-1][0] != "M":
            return "the last write after a normal exit is the spinner's"
    return None


def oracle_manual(case, obs):
    cfg = case["cfg"]
    interval = cfg["interval"]
    message, last_redraw = None, None
    t = Terminal()
    if obs["std_writes"]:
        return "the indicator wrote %r to the STANDARD output of the I/O it was built on" % "".join(obs["std_writes"])[:80]
    for op, o in zip(case["ops"], obs["ops"]):
        if o["err"] not in (None, "RuntimeError"):
            return "%s raised %s" % (op[0], o["err"])
        if o["err"]:
            continue
        if op[0] in ("start", "set", "finish"):
            message = op[1]
        if not o["writes"]:
            continue
        # every frame = one of the indicator values followed by the current message, per the format
        n0 = len(t.done)
        for w in o["writes"]:
            t.feed(w)
        shown = [l for l in t.done[n0:] if l != ""] + ([t.current()] if t.current() != "" else [])
        want = [render(cfg, v, str(message)) for v in cfg["values"]]
        for line in shown:
            if line not in want:
                return "%s left %r on the terminal: not an indicator value followed by the current message %r" % (
                    op[0], line, message)
        if op[0] == "finish" and t.current() != "":
            return "finish left the cursor on a non-empty line %r" % t.current()
        # advancing redraws no more often than the configured interval
        if op[0] == "advance":
            if last_redraw is not None and o["clock"] - last_redraw < interval:
                return "advance redrew at %d ms, %d ms after the previous redraw (interval %d)" % (
                    o["clock"], o["clock"] - last_redraw, interval)
            last_redraw = o["clock"]
        if op[0] == "start":
            last_redraw = o["clock"]
    return None


def oracle_elapsed(case, obs):
    import re
    on = case.get("on")
    d = (on["err"] if on["io"] else on["out"]) if on else caps(case["ansi"], case["verbosity"])
    if obs["std_writes"]:
        return "the indicator wrote %r to the STANDARD output of the I/O it was built on" % "".join(obs["std_writes"])[:80]
    for st in obs["steps"]:
        if st["err"] is not None:
            return "%s() %d ms later raised %s (format %r, verbosity %d)" % (st["what"], st["dt"], st["err"],
                                                                         case["fmt"], d["verbosity"])
    if d["quiet"]:
        # a quiet output shows nothing at all
        for st in obs["steps"]:
            if st["writes"]:
                return "%s() wrote %r to a quiet output" % (st["what"], "".join(st["writes"])[:80])
        return None
    for st in obs["steps"]:
        if st["what"] in ("start", "finish") and not "".join(st["writes"]).strip():
            return "%s() drew nothing" % st["what"]
    last = "".join(obs["steps"][-1]["writes"])
    if "done" not in last:
        return "the end message is not in the last frame: %r" % last
    if case["fmt"] is None:
        # no format given: every frame follows the documented format for the output it is DRAWN on - an indicator value
        # and the message where the line is redrawn in place, the message alone where every frame is a line of its own,
        # followed by the elapsed time in brackets when that output is verbose
        t = Terminal()
        for st in obs["steps"]:
            n0 = len(t.done)
            for w in st["writes"]:
                t.feed(w)
            shown = [l for l in t.done[n0:] if l != ""] + ([t.current()] if t.current() != "" else [])
            msg = "done" if st["what"] == "finish" else "working"
            want = " " + ("(?:%s) " % "|".join(re.escape(v) for v in DEFAULT_VALUES) if d["ansi"] else "") + msg + \
                   (r" \([^()]+\)" if d["verbosity"] >= 1 else "")
            for line in shown:
                if not re.fullmatch(want, line):
                    return ("%s() left %r on the terminal: not %s the message %r%s (the frames are drawn on an output that is "
                            "%s, verbosity %d)" % (st["what"], line, "an indicator value followed by" if d["ansi"] else "just",
                                                   msg, " and the elapsed time" if d["verbosity"] >= 1 else "",
                                                   "ANSI-capable" if d["ansi"] else "plain", d["verbosity"]))
    return None


def oracle(case, obs):
    if case["mode"] == "auto":
        return oracle_auto(case, obs)
    if case["mode"] == "elapsed":
        return oracle_elapsed(case, obs)
    return oracle_manual(case, obs)


# ------------------------------------------------------------------------------------------------
# cases
# ------------------------------------------------------------------------------------------------
NORMAL_FMT = [["L", " "], "I", ["L", " "], "M"]          # ProgressIndicator.NORMAL
PLAIN_FMT = [["L", " "], "M"]                            # ProgressIndicator.NORMAL_NO_ANSI
ALT_FMT = [["L", "["], "I", ["L", "] {foo} "], "M", ["L", " ..."]]
DEFAULT_VALUES = ["-", "\\", "|", "/"]

POOL = [
    ("empty", []),
    ("set-while-spinning", [["set", "Loading"], ["work", 100]]),
    ("two-messages", [["work", 100], ["set", "One"], ["work", 100], ["set", "Two"]]),
    ("raises", [["work", 100], ["raise", "Exception"]]),
    ("set-then-interrupt", [["set", "Busy"], ["raise", "KeyboardInterrupt"]]),
    ("early-exit", [["work", 200], ["exit"], ["set", "never"]]),
    ("raises-at-once", [["raise", "Exception"]]),
    ("set-work-set", [["set", "A b"], ["work", 200], ["set", "{indicator}!"]]),
    ("system-exit", [["work", 100], ["raise", "SystemExit"]]),          # D32: sys.exit() inside the block
    ("set-then-system-exit", [["set", "Bye"], ["raise", "SystemExit"]]),
]


def mkcfg(ansi=True, interval=100, values=None, fmt=None, start="Working", end="Done", on=None, auto_fmt=False):
    """`on`: what the indicator is built on (absent: an Output with capability `ansi`); `ansi` is then the capability of
    the output the frames are drawn on.  `auto_fmt`: no format is given to the constructor (`fmt` null)."""
    if on:
        ansi = (on["err"] if on["io"] else on["out"])["ansi"]
    cfg = {"ansi": ansi, "interval": interval, "values": list(values or DEFAULT_VALUES),
           "fmt": None if auto_fmt else (fmt or (NORMAL_FMT if ansi else PLAIN_FMT)), "start": start, "end": end}
    if on:
        cfg["on"] = on
    return cfg


def on_output(c):
    return {"io": False, "out": c}


def on_io(std, err, merged=False):
    return {"io": True, "std": err if merged else std, "err": err, "merged": bool(merged)}


# what the indicator is built on, for the cases compared with the model: the output the frames are drawn on is at normal
# verbosity and not quiet (the verbose formats show the elapsed time, a quiet output shows nothing: both are judged by
# the oracle alone, see _elapsed_cases); the STANDARD output of an I/O is anything
ON_POOL = [
    on_output(caps(True)), on_output(caps(False)),
    on_io(caps(True), caps(True)), on_io(caps(False), caps(False)),
    on_io(caps(False), caps(True)),            # `prog > out.txt` on a terminal: frames on the ANSI-capable error output
    on_io(caps(True), caps(False)),            # `prog 2> err.txt`
    on_io(caps(True, 1), caps(True)), on_io(caps(False, 4), caps(True)), on_io(caps(True, 2), caps(False)),
    on_io(caps(True, 0, True), caps(True)),    # outputs configured individually: the standard output alone is quiet
    on_io(None, caps(True), merged=True), on_io(None, caps(False), merged=True),
]
ON_CONFIGS = [mkcfg(on=on, auto_fmt=True) for on in ON_POOL] + \
             [mkcfg(on=ON_POOL[4], interval=0, values=["a", "bb"], auto_fmt=True),
              mkcfg(on=ON_POOL[5], interval=250, fmt=ALT_FMT), mkcfg(on=ON_POOL[7], fmt=ALT_FMT)]


CONFIGS = [mkcfg(), mkcfg(ansi=False), mkcfg(interval=0, values=["a", "bb"]), mkcfg(interval=250, fmt=ALT_FMT)]


def steps_bound(body):
    """upper bound of the number of scheduler steps of a run of `body` (indices where a preemption can matter)"""
    work = sum(op[1] for op in body if op[0] == "work")
    return 14 + 2 * len(body) + 4 * (work // PERIOD_MS + 1)


def auto_case(cfg, body, sched=(), preempt=(), fuel=FUEL):
    return {"mode": "auto", "cfg": cfg, "body": [list(op) for op in body], "sched": [c if c in ("M", "S") else list(c) for c in sched],
            "preempt": list(preempt), "fuel": fuel}


MESSAGES = ["m", "Loading", "A b", "{indicator}!", "x" * 12, "ok", ""]


def random_body(rng, allow_exit=True):
    body = []
    for _ in range(rng.randint(0, 4)):
        r = rng.random()
        if r < 0.45:
            body.append(["set", rng.choice(MESSAGES)])
        elif r < 0.85:
            body.append(["work", rng.choice([0, 50, 100, 100, 200, 130])])
        elif r < 0.95:
            body.append(["raise", rng.choice(["Exception", "KeyboardInterrupt", "SystemExit"])])
        elif allow_exit:
            body.append(["exit"])
    return body


def random_cfg(rng):
    ansi = rng.random() < 0.8
    values = rng.choice([DEFAULT_VALUES, ["a", "bb"], [".", "o", "O"], ["", "*"]])
    fmt = rng.choice([None, None, ALT_FMT, ["M", ["L", " "], "I"]])
    # what the indicator is built on: an Output as before, or one of ON_POOL (an Output / an I/O whose outputs differ),
    # with or without a format given to the constructor
    on = rng.choice(ON_POOL) if rng.random() < 0.35 else None
    return mkcfg(ansi=ansi, interval=rng.choice([0, 50, 100, 100, 150, 250]), values=values, fmt=fmt,
                 start=rng.choice(MESSAGES), end=rng.choice(MESSAGES), on=on, auto_fmt=bool(on) and rng.random() < 0.7)


def random_schedule(rng):
    n = rng.randint(0, 45)
    ws = rng.choice([(5, 5, 1), (8, 3, 1), (3, 8, 1), (4, 4, 4)])
    out = []
    for _ in range(n):
        r = rng.random() * sum(ws)
        if r < ws[0]:
            out.append("M")
        elif r < ws[0] + ws[1]:
            out.append("S")
        else:
            out.append(["T", rng.choice([10, 50, 100, 100, 300])])
    return out


MANUAL_OPS = ["start", "advance", "advance", "advance", "set", "finish", "tick", "tick", "tick"]


def random_manual(rng):
    ops = []
    for _ in range(rng.randint(1, 14)):
        k = rng.choice(MANUAL_OPS)
        if k == "start":
            ops.append(["start", rng.choice(MESSAGES)])
        elif k == "advance":
            ops.append(["advance"])
        elif k == "set":
            ops.append(["set", rng.choice(MESSAGES)])
        elif k == "finish":
            ops.append(["finish", rng.choice(MESSAGES), rng.random() < 0.5])
        else:
            ops.append(["tick", rng.choice([1, 49, 50, 99, 100, 101, 150, 250, 1000])])
    if rng.random() < 0.7 and (not ops or ops[0][0] != "start"):
        ops.insert(0, ["start", rng.choice(MESSAGES)])
    return {"mode": "manual", "cfg": random_cfg(rng), "ops": ops}


def manual_exhaustive(depth):
    """all call sequences of the given length over a small alphabet, after start"""
    alphabet = [["advance"], ["set", "B"], ["tick", 50], ["tick", 100], ["finish", "E", True], ["start", "S2"]]
    for cfg in (mkcfg(), mkcfg(ansi=False), mkcfg(interval=150, values=["a", "bb"])):
        for seq in itertools.product(alphabet, repeat=depth):
            yield {"mode": "manual", "cfg": cfg, "ops": [["start", "A"]] + [list(o) for o in seq]}


def _enumeration(tier):
    bound = 2 if tier == "quick" else 3
    deep = {} if tier == "quick" else {"set-while-spinning": 4, "raises": 4, "empty": 4, "system-exit": 4}
    for name, body in POOL:
        n = steps_bound(body)
        for ci, cfg in enumerate(CONFIGS):
            top = deep.get(name, bound) if ci in (0, 2) else bound
            for b in range(top + 1):
                for pre in itertools.combinations(range(n), b):
                    yield auto_case(cfg, body, (), pre)
            # the spinner is held back while the caller runs on and the clock advances: leaving the block must wait
            # for it however long that takes
            for a in range(0, n + 2, 2):
                yield auto_case(cfg, body, ["M"] * a + [["T", 700]] + ["M"] * 12 + [["T", 700]] + ["M"] * 12, ())


def _enumeration_on(tier):
    """the indicator built on every kind of object (ON_CONFIGS), no format given: the programs that draw from both
    threads, all schedules with at most 1 (quick) / 2 (thorough) forced context switches"""
    bound = 1 if tier == "quick" else 2
    for name, body in POOL:
        if name not in ("set-while-spinning", "raises", "two-messages"):
            continue
        n = steps_bound(body)
        for cfg in ON_CONFIGS:
            for b in range(bound + 1):
                for pre in itertools.combinations(range(n), b):
                    yield auto_case(cfg, body, (), pre)


def _manual_on(depth):
    alphabet = [["advance"], ["set", "B"], ["tick", 100], ["finish", "E", True], ["start", "S2"]]
    for cfg in ON_CONFIGS:
        for seq in itertools.product(alphabet, repeat=depth):
            yield {"mode": "manual", "cfg": cfg, "ops": [["start", "A"]] + [list(o) for o in seq]}


def _random_auto(n, rng):
    for _ in range(n):
        body = rng.choice(POOL)[1] if rng.random() < 0.3 else random_body(rng)
        pre = sorted(rng.sample(range(60), rng.randint(0, 6)))
        yield auto_case(random_cfg(rng), body, random_schedule(rng), pre)


def generate(tier, rng):
    n_random = 6000 if tier == "quick" else 200000
    streams = [
        # (a) complete enumeration of the schedules with a bounded number of preemptions, per program and configuration
        _enumeration(tier),
        # (b) manual mode: all call sequences of a small alphabet
        manual_exhaustive(4 if tier == "quick" else 5),
        # (a'), (b') the same on indicators built on an Output / on an I/O whose outputs differ, choosing their format
        _enumeration_on(tier),
        _manual_on(3 if tier == "quick" else 4),
        # (c) random programs, configurations and explicit schedules (arbitrary clock advances), random preemptions after
        _random_auto(n_random, rng),
        (random_manual(rng) for _ in range(n_random // 2)),
        # (d) the `{elapsed}` placeholder over short and long blocks (oracle only: it is outside the Lean model)
        _elapsed_cases(),
    ]
    # round-robin, so that every batch the pipeline evaluates holds all kinds of cases
    while streams:
        for g in list(streams):
            try:
                yield next(g)
            except StopIteration:
                streams.remove(g)


def _elapsed_cases():
    fmts = [None, "{indicator} {message} ({elapsed})", "{message} <fg=blue>{elapsed:>6}</>"]
    tick_lists = [[50, 120], [1000, 1500], [2500, 100], [61000, 3000], [3600000, 7300000], [100, 100, 100, 2100]]
    for ansi in (True, False):
        for verbosity in (0, 1, 2, 4):
            for fmt in fmts:
                for ticks in tick_lists:
                    yield {"mode": "elapsed", "ansi": ansi, "verbosity": verbosity, "fmt": fmt, "ticks": ticks}
    # no format given, the indicator built on an I/O whose outputs differ in ANSI capability, verbosity, quiet: the frames
    # follow the output they are drawn on (the error output)
    kinds = [caps(a, v, q) for a in (True, False) for v in (0, 1, 4) for q in (False, True)]
    for err in kinds:
        for std in kinds:
            if std == err or (std["quiet"] and std["verbosity"]):
                continue
            for ticks in ([50, 120], [2500, 100], [100, 100, 100, 2100]):
                yield {"mode": "elapsed", "ansi": err["ansi"], "verbosity": err["verbosity"], "fmt": None, "ticks": ticks,
                       "on": on_io(std, err)}
        yield {"mode": "elapsed", "ansi": err["ansi"], "verbosity": err["verbosity"], "fmt": None, "ticks": [50, 120, 2500],
               "on": on_output(err)}
        yield {"mode": "elapsed", "ansi": err["ansi"], "verbosity": err["verbosity"], "fmt": None, "ticks": [50, 120, 2500],
               "on": on_io(None, err, merged=True)}


def exhaustive(tier):
    return False


def _on_key(on):
    if not on:
        return ""
    c = lambda x: "%d%d%d" % (x["ansi"], x["verbosity"], x["quiet"])  # noqa: E731
    return ("io:" + ("merged:" if on.get("merged") else c(on["std"]) + ":") + c(on["err"])) if on["io"] else "out:" + c(on["out"])


def _cfg_key(cfg):
    return (cfg["ansi"], cfg["interval"], tuple(cfg["values"]), fmt_string(cfg["fmt"]) if cfg["fmt"] is not None else None,
            cfg["start"], cfg["end"], _on_key(cfg.get("on")))


def _sched_key(executed):
    return "".join(c if c in ("M", "S") else "T%d." % c[1] for c in executed)


def nontrivial_key(case, obs):
    if case["mode"] == "elapsed":
        return ("elapsed", case["ansi"], case["verbosity"], case["fmt"], str(case["ticks"]), _on_key(case.get("on")))
    if case["mode"] == "auto":
        # non-trivial: the spinner thread took steps, i.e. there was something to interleave
        if "S" not in obs["executed"] or obs["pcs"]["S"] == "notStarted":
            return None
        return ("auto", _cfg_key(case["cfg"]), str(case["body"]), _sched_key(obs["executed"]))
    if not any(o["writes"] for o in obs["ops"]):
        return None
    return ("manual", _cfg_key(case["cfg"]), str(case["ops"]))


def bucket(case, obs):
    if case["mode"] == "elapsed":
        return "elapsed:%s:verbosity=%d%s" % ("ansi" if case["ansi"] else "plain", case["verbosity"], _on_bucket(case.get("on")))
    if case["mode"] == "auto":
        sw = 0
        ex = [c for c in obs["executed"] if c in ("M", "S")]
        for a, b in zip(ex, ex[1:]):
            sw += a != b
        return "auto:%s%s:%s:%s:switches=%s:spinner-frames=%s" % (
            "ansi" if case["cfg"]["ansi"] else "plain", _on_bucket(case["cfg"].get("on")), obs["status"], obs["main_outcome"],
            "0-3" if sw < 4 else "4-7" if sw < 8 else "8+",
            min(3, sum(1 for w in obs["writes"] if w[0] == "S")))
    errs = sum(1 for o in obs["ops"] if o["err"])
    return "manual:%s%s:ops=%d:errors=%d" % ("ansi" if case["cfg"]["ansi"] else "plain", _on_bucket(case["cfg"].get("on")),
                                             len(case["ops"]) // 4 * 4, min(errs, 3))


def _on_bucket(on):
    if not on:
        return ""
    if not on["io"]:
        return ":built on an Output"
    if on.get("merged") or on["std"] == on["err"]:
        return ":built on an I/O with equal outputs"
    return ":built on an I/O whose outputs differ"


def _simpler_on(cfg):
    """the same indicator built on something simpler (same output to draw on): the I/O replaced by its error output,
    the format the component would choose given explicitly"""
    on = cfg.get("on")
    if on and on["io"]:
        yield dict(cfg, on=on_output(on["err"]))
    if on and cfg["fmt"] is None:
        yield dict(cfg, fmt=fmt_of(cfg))


def shrink(case):
    if case["mode"] in ("auto", "manual"):
        for c2 in _simpler_on(case["cfg"]):
            yield dict(case, cfg=c2)
    if case["mode"] == "auto":
        for i in range(len(case["sched"])):
            c = dict(case)
            c["sched"] = case["sched"][:i] + case["sched"][i + 1:]
            yield c
        for i in range(len(case["preempt"])):
            c = dict(case)
            c["preempt"] = case["preempt"][:i] + case["preempt"][i + 1:]
            yield c
        for i in range(len(case["body"])):
            c = dict(case)
            c["body"] = case["body"][:i] + case["body"][i + 1:]
            yield c
        for i, op in enumerate(case["body"]):
            if op[0] == "work" and op[1] > 100:
                c = dict(case)
                c["body"] = case["body"][:i] + [["work", 100]] + case["body"][i + 1:]
                yield c
    elif case["mode"] == "elapsed":
        for i in range(len(case["ticks"])):
            yield dict(case, ticks=case["ticks"][:i] + case["ticks"][i + 1:])
    else:
        for i in range(len(case["ops"])):
            c = dict(case)
            c["ops"] = case["ops"][:i] + case["ops"][i + 1:]
            yield c


def manual_of(case):
    """the caller's side of an auto case as a thread-free call sequence (advance wherever the spinner could)"""
    ops = [["start", case["cfg"]["start"]]]
    for op in case["body"]:
        if op[0] == "set":
            ops.append(["set", op[1]])
        elif op[0] == "work":
            ops += [["tick", op[1]], ["advance"]]
        else:
            break
    ops += [["tick", 100], ["advance"], ["finish", case["cfg"]["end"], True]]
    return {"mode": "manual", "cfg": case["cfg"], "ops": ops}


def neighbours(case):
    if case["mode"] == "elapsed":
        return
    if case["mode"] == "auto":
        yield manual_of(case)
        yield manual_of(dict(case, body=[["set", "n"], ["work", 100]] + case["body"]))
        pre = case.get("preempt", [])
        for k in range(48):
            if k not in pre:
                c = dict(case)
                c["preempt"] = sorted(pre + [k])
                yield c
        for k in range(48):
            for j in range(k + 1, 48, 3):
                c = dict(case)
                c["preempt"] = sorted(set(pre + [k, j]))
                yield c
        for i, ch in enumerate(case["sched"]):
            for alt in ("M", "S", ["T", 100]):
                if alt != ch:
                    c = dict(case)
                    c["sched"] = case["sched"][:i] + [alt] + case["sched"][i + 1:]
                    yield c
    else:
        ops = case["ops"]
        for i in range(len(ops) + 1):
            for ins in (["advance"], ["tick", 1], ["tick", 100], ["set", "n"]):
                c = dict(case)
                c["ops"] = ops[:i] + [ins] + ops[i:]
                yield c
