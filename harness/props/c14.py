"""
C14 - tables render as a rectangle within the terminal and keep every cell's text.

Correspondence: random tables (1-6 columns x 1-6 rows + optional header; cells are word
sequences of total length 0..1500 incl. words longer than any column, empty cells, repeated
blanks, newlines, style-tagged words) x the four predefined styles x per-column alignments x
feasible terminal widths 20..200 x indentation 0..8 x ANSI (forced) / plain.
Implementation = the real `Table.render` on a BufferedIO whose terminal dimensions are set
from the case; model = `Clikit.Table.render` (driver entry `c14.render`) with `share` =
IEEE double arithmetic.  Compared: the rendered lines (ANSI codes stripped), the wrapper's
`column_lengths`, every `textwrap.wrap(text, width)` call the wrapper made (text, width and
result against the Lean `wrap` model) and `int(round(l / a * w))` on probe triples.
Oracle = the property statement over the rendered text, independent of the Lean model.

Histories (about one case in twelve): the SAME table is rendered two or three times on the SAME I/O while the owner
of the I/O changes the formatter's style set in between (`io.formatter.add_style(Style("hl"))`,
`io.set_formatter(...)`), and some cells contain tag-shaped words (`<hl>..</hl>`, `<none>..</>`) that are ordinary
text for a formatter that does not know them and styles once it does.  Every rendering of the history must be a
rectangle of the cells as the formatter shows them AT THAT TIME; the model (entry `c14.render_fmt`) removes the format
itself through the formatter model of C11 and is compared on every rendering, also on what `remove_format` makes of
every cell.
"""
import re

ID = "C14"
DESIGN_REF = "6/C14"
TECHNIQUE = ("Lean 4 model of Table.render / CellWrapper.fit / BorderUtil with theorems for every share "
             "function + executable textwrap.wrap model with proved contract + differential correspondence "
             "on random feasible tables + property oracle on the rendered text")
LEVEL_TEXT = ("Proved in Lean on the model of the repaired code, for EVERY rounding function `share` and unbounded "
              "tables: with at least one character per column available the width distribution never assigns a width "
              "below 1 (so textwrap is never called with an invalid width and rendering cannot raise), the column widths "
              "sum to at most the available width, unwrapped columns keep width and cells, every row pads column j to the "
              "same width, every line has the same width W <= terminal width before the trailing-blank strip (equal after "
              "it when the right border is not blank), and the lines of every cell concatenated without blanks are the "
              "cell without blanks (from the proved contract of the wrap model). The model is tied to the code by the "
              "correspondence run; the border characters and cell formats of the four styles are regenerated from the "
              "source on every run. Cells with style tags on an I/O whose formatter changes: for EVERY resolver "
              "of tags (style set) under which the cells' tags are properly nested, the rendering of the visible table is a "
              "rectangle within the terminal (render_decided_styles), hence so is every rendering of a history of renderings "
              "of one table under changing style sets (render_history_styles); the visible text is computed by the "
              "formatter model of C11 (Markup.plainFormat).")
LEVEL_NOTE = ("Trusted: Lean kernel + standard axioms; hand-written model tied by correspondence (rendered lines, column "
              "lengths, every textwrap call, share probes); Lean Float = IEEE binary64 for the executable share. "
              "The hypotheses of the rendering theorems (feasible width, style well-formed, at most n alignments, n >= 1, "
              "non-blank right border for the exact rectangle) are decided by the model for every generated case (answer "
              "field wf, theorem wf_decides) and compared with what the real TableStyle / table / width say. "
              "Checked, not proved: rendering does not modify the table (snapshot); cells with style tags (visible "
              "width via the formatter). Known finding D28 (styled cell longer than its column) is outside the generator.")
LEAN_MODULES = ["Clikit.Props.C14"]
REQUIRED_THEOREMS = ["Clikit.Props.C14." + t for t in (
    "wrap_len", "wrap_content", "wrap_nonempty_lines", "fit_sum", "fit_pos", "fit_ok", "short_cols_keep", "render_ok", "col_width_const",
    "rect", "rect_equal", "within_terminal", "cell_text_preserved", "styles_ok", "right_border_solid",
    "wf_decides", "render_decided", "cell_text_decided",
    "visibleTable_shape", "wfB_visible", "render_decided_styles", "render_history_styles")]
RULE = ("random tables: 1-6 columns x 1-6 rows, header or not, cells = word sequences of total length 0..1500 "
        "(empty cells, single words up to 300 chars, repeated/leading blanks, newlines; style-tagged words only in "
        "columns that cannot be wrapped: max visible length * columns <= available width, or the whole table fits), "
        "style in ascii/solid/borderless/compact (+ header-less ascii/solid tables with the unused header format "
        "set to '{}'), 0..n explicit column alignments, indentation 0..8, ANSI forced / plain, terminal width 20..200 "
        "restricted to feasible ones (width - indentation - borders - columns*excess >= columns), a quarter of them within "
        "20 of the smallest feasible width; thorough adds 200 tables at every feasible width 20..200. "
        "About 8 % of the cases are HISTORIES: words of cells in never-wrapped columns are put into tag-shaped words that the "
        "default style set does not know (hl, none, mark, k9; closed by name or by </>), and the table is rendered 2-3 times "
        "on one I/O, the formatter's style set changed in between (add_style on the I/O's formatter when tags are added, "
        "or set_formatter with a new formatter); every rendering is judged and compared. "
        "A case is non-trivial when at least one cell was wrapped; distinct = distinct (style, header, width, indent, "
        "column lengths, number of wrapped cells, cells hash)")
TRUSTED_BASE = [
    "Lean 4.33 kernel; axioms propext, Classical.choice, Quot.sound only (audited per theorem on every run)",
    "lean/Clikit/Model/Table.lean, Model/Wrap.lean: hand-written models, tied to the code by this correspondence run",
    "tools/genparts/c14.py: ast reader of the four predefined styles and the alignment constants",
    "Lean `Float` (IEEE-754 binary64) for the executable share = CPython float arithmetic (probed on every case)",
    "CPython 3.12 textwrap.wrap outside the modelled alphabet (hyphens, tabs, other Unicode whitespace) is not covered",
    "harness/props/c14.py: generator, ANSI stripping, spies on textwrap.wrap and Table._get_cell_wrapper, the oracle",
]
ASSUMPTIONS = [
    "rendering does not modify the table: checked by a snapshot of header and rows before/after, not proved",
    "style-tagged cells: visible width is what the formatter's remove_format reports (the model receives the visible text); "
    "a styled cell longer than its column is known finding D28 and is kept out of the generated tables",
    "the short/long split compares length <= available/columns in floats; the model uses the exact length*columns <= available "
    "(identical below 2^53)",
    "cell and border styles (Style objects) are None in the four predefined styles and are not modelled",
    "histories: a tag-shaped word is a style exactly when its lowered name is in the formatter's style set at the time of the "
    "rendering (or an inline fg=/bg=/options= specification); cells with such words stand only in columns that are never "
    "wrapped under ANY of the style sets of the history (D28 otherwise); the model's rendering is a function of the table and "
    "the current style set - that the code keeps nothing measured under an earlier style set is compared, not proved",
    "the hypotheses feasible / styleOk / alignments <= columns / rightSolid of the Lean theorems hold for the generated "
    "cases: decided by the model on every case (wf) and compared with the geometry computed from the real style",
]
BUDGET_S = {"quick": 80, "thorough": 800}
BATCH = 400

STYLES = ["ascii", "solid", "borderless", "compact"]
TAGS = ["info", "comment", "question", "error", "b", "u", "c1", "c2", "fg=red", "bg=blue", "fg=red;options=bold"]
WORD_CHARS = "abcdefghijklmnopqrstuvwxyzABCDEFGHIJKLMNOPQRSTUVWXYZ0123456789" * 3 + ".,;:!?()[]{}*+=/_#@%&'\"|~^$" + "éüßñжλ"
TAG_RE = re.compile(r"</?[a-z0-9=;_]*>")
# tag-shaped words the default style set does not know: text, until the owner of the I/O registers a style of that name
CUSTOM = ["hl", "none", "mark", "k9"]
ANSI_RE = re.compile("\x1b\\[[0-9;]*m")


# --------------------------------------------------------------------------- style facts (from the running code)
def _style(name, hfmt=None):
    from clikit.ui.style import TableStyle
    st = getattr(TableStyle, name)()
    if hfmt is not None:
        st.header_cell_format = hfmt
    return st


def _geometry(case):
    """(border_width, excess) exactly as Table computes them"""
    st = _style(case["style"], case.get("hfmt"))
    b = st.border_style
    n = case["n"]
    border = len(b.line_vl_char) + (n - 1) * len(b.line_vc_char) + len(b.line_vr_char)
    excess = max(len(st.header_cell_format.format("")), len(st.cell_format.format("")))
    return border, excess


def available(case, width=None):
    border, excess = _geometry(case)
    w = case["width"] if width is None else width
    return w - case["indent"] - border - case["n"] * excess


def feasible(case, width=None):
    """the terminal leaves at least one character per column beside the borders"""
    return available(case, width) >= case["n"]


def visible(cell, custom_known=None):
    """the text that takes room on the screen.  custom_known = None: every tag-shaped word is a style (cases without
    a history: only TAGS occur); else: the names of CUSTOM the formatter knows - the other CUSTOM tags are text"""
    if custom_known is None:
        return TAG_RE.sub("", cell)

    def sub(m):
        name = m.group(0).strip("</>").lower()
        return m.group(0) if (name in CUSTOM and name not in custom_known) else ""
    return TAG_RE.sub(sub, cell)


def _all_rows(case):
    return ([case["header"]] if case["header"] is not None else []) + case["rows"]


# --------------------------------------------------------------------------- generator
def _word(rng, long_ok=True):
    r = rng.random()
    if long_ok and r < 0.04:
        n = rng.randint(15, 80)
    elif long_ok and r < 0.05:
        n = rng.randint(81, 300)
    else:
        n = rng.choice([1, 1, 2, 2, 3, 3, 4, 4, 5, 5, 6, 7, 8, 9, 10, 12])
    return "".join(rng.choice(WORD_CHARS) for _ in range(n))


def _sep(rng):
    r = rng.random()
    if r < 0.90:
        return " "
    if r < 0.95:
        return "  "
    if r < 0.97:
        return "   "
    if r < 0.99:
        return "\n"
    return " \n "


PROFILES = {  # cumulative thresholds: empty, one (long) word, <=15, <=60, <=300, <=1500
    "small": (0.10, 0.11, 0.90, 1.00, 1.00, 1.00),
    "mixed": (0.10, 0.13, 0.60, 0.88, 0.97, 1.00),
    "heavy": (0.08, 0.13, 0.35, 0.60, 0.85, 1.00),
}


def _cell(rng, profile="mixed"):
    """a word sequence of total length 0..1500"""
    t = PROFILES[profile]
    r = rng.random()
    if r < t[0]:
        return ""
    if r < t[1]:
        return _word(rng) if rng.random() < 0.5 else "".join(rng.choice(WORD_CHARS) for _ in range(rng.randint(20, 200)))
    if r < t[2]:
        target = rng.randint(1, 15)
    elif r < t[3]:
        target = rng.randint(16, 60)
    elif r < t[4]:
        target = rng.randint(61, 300)
    else:
        target = rng.randint(301, 1500)
    out = []
    long_ok = profile != "small" and rng.random() < 0.2
    if rng.random() < 0.06:
        out.append(rng.choice([" ", "  ", "\n"]))
    total = sum(len(x) for x in out)
    while total < target:
        w = _word(rng, long_ok)
        if total + len(w) > 1500:
            w = w[:1500 - total]
        out.append(w)
        total += len(w)
        if total >= target:
            break
        s = _sep(rng)
        out.append(s)
        total += len(s)
    if rng.random() < 0.05:
        out.append(rng.choice([" ", "  ", "\n"]))
    return "".join(out)[:1500]


def _decorate(rng, cell):
    """wrap some words of the cell into style tags (visible text unchanged)"""
    parts = re.split(r"(\s+)", cell)
    out = []
    for p in parts:
        if p and not p.isspace() and rng.random() < 0.4:
            tag = rng.choice(TAGS)
            close = "</>" if rng.random() < 0.3 else "</%s>" % tag
            out.append("<%s>%s%s" % (tag, p, close))
        else:
            out.append(p)
    return "".join(out)


def _min_feasible(case):
    border, excess = _geometry(case)
    return case["indent"] + border + case["n"] * excess + case["n"]


def _style_safe_columns(case, custom_known=None):
    """columns in which no cell can ever be wrapped at this width: the whole table fits, or the
    column is short in the first pass (max visible length * columns <= available width)"""
    n = case["n"]
    avail = available(case)
    rows = _all_rows(case)
    lens = [max(len(visible(r[j], custom_known).rstrip()) for r in rows) for j in range(n)]
    if sum(lens) <= avail:
        return list(range(n))
    return [j for j in range(n) if lens[j] * n <= avail]


def _share_probes(rng, case):
    n = case["n"]
    rows = _all_rows(case)
    lens = [max(1, max(len(visible(r[j]).rstrip()) for r in rows)) for j in range(n)]
    avail = max(1, available(case))
    probes = []
    for _ in range(3):
        j = rng.randrange(n)
        others = [lens[k] for k in range(n) if k != j and rng.random() < 0.6]
        probes.append([lens[j], lens[j] + sum(others), rng.randint(1, avail)])
    l = rng.randint(1, 1500)
    probes.append([l, l + rng.randint(0, 7500), rng.randint(1, 200)])
    # exact halves of the rational value: l/a*w = k + 1/2
    a = 2 * rng.randint(1, 40)
    probes.append([rng.choice([1, 3, 5, 7, a // 2]), a, rng.randint(1, 200)])
    return probes


def _table(rng):
    n = rng.choice([1, 2, 2, 3, 3, 3, 4, 4, 5, 6])
    m = rng.randint(1, 6)
    case = {"n": n, "style": rng.choice(STYLES), "hfmt": None, "indent": rng.choice([0, 0, 0, 1, 2, 3, 4, 5, 6, 7, 8]),
            "ansi": rng.random() < 0.5}
    profile = rng.choice(["small", "small", "mixed", "mixed", "mixed", "heavy"])
    case["header"] = [_cell_header(rng) for _ in range(n)] if rng.random() < 0.55 else None
    case["rows"] = [[_cell(rng, profile) for _ in range(n)] for _ in range(m)]
    if case["header"] is None and case["style"] in ("ascii", "solid") and rng.random() < 0.25:
        case["hfmt"] = "{}"
    k = rng.randint(0, n)
    case["aligns"] = [rng.choice([0, 1, 2]) for _ in range(k)]
    return case


def _cell_header(rng):
    r = rng.random()
    if r < 0.08:
        return ""
    if r < 0.85:
        return " ".join(_word(rng, False) for _ in range(rng.randint(1, 3)))
    return _cell(rng)


def _finish(rng, case, styled=True):
    """decorate style-safe columns and add the share probes (depends on the width)"""
    if styled:
        safe = _style_safe_columns(case)
        for j in safe:
            for row in _all_rows(case):
                if rng.random() < 0.3:
                    row[j] = _decorate(rng, row[j])
        # columns that DO get wrapped: a styled cell that can never be wrapped itself (one visible character,
        # so it fits any column width >= 1) - the tags must not count when the column is measured again
        rows = _all_rows(case)
        unsafe = [j for j in range(case["n"]) if j not in safe]
        if unsafe and len(rows) >= 2 and rng.random() < 0.5:
            j = rng.choice(unsafe)
            lens = [len(visible(r[j]).rstrip()) for r in rows]
            longest = lens.index(max(lens))
            for i, r in enumerate(rows):
                if i != longest and rng.random() < 0.6:
                    r[j] = "<%s>%s</>" % (rng.choice(TAGS), rng.choice("xyz"))
        if rng.random() < 0.3:
            _history(rng, case, safe)
    case["probes"] = _share_probes(rng, case)
    return case


def _custom_decorate(rng, cell, tags):
    parts = re.split(r"(\s+)", cell)
    out, done = [], False
    for p in parts:
        if p and not p.isspace() and rng.random() < 0.5:
            tag = rng.choice(tags)
            out.append("<%s>%s%s" % (tag, p, "</>" if rng.random() < 0.3 else "</%s>" % tag))
            done = True
        else:
            out.append(p)
    return "".join(out) if done else None


def _history(rng, case, protected):
    """turn the case into a history of renderings on one I/O whose formatter's style set changes in between:
    tag-shaped words that are text under one style set and styles under another.  They are put only where no
    cell is ever wrapped whatever the style set: every column that holds tags (`protected`) must stay style-safe
    with every CUSTOM tag counted as text (the longest reading; knowing more tags only shortens cells)"""
    tags = rng.sample(CUSTOM, rng.choice([1, 1, 2]))
    rows = _all_rows(case)
    cols = list(protected)
    rng.shuffle(cols)
    placed = 0
    for j in cols:
        for row in rows:
            if rng.random() < 0.5:
                new = _custom_decorate(rng, row[j], tags)
                if new is None:
                    continue
                old = row[j]
                row[j] = new
                if set(protected) <= set(_style_safe_columns(case, [])):
                    placed += 1
                else:
                    row[j] = old
    if not placed:
        return
    k = rng.choice([2, 2, 3])
    phases = []
    prev = None
    for i in range(k):
        while True:
            known = sorted(t for t in tags if rng.random() < 0.5)
            if known != prev:
                break
        if i == 0:
            how = "init"
        elif set(known) >= set(prev) and rng.random() < 0.7:
            how = "add_style"
        else:
            how = "set_formatter"
        phases.append({"known": known, "how": how})
        prev = known
    case["custom"] = tags
    case["phases"] = phases


def generate(tier, rng):
    count = 2000 if tier == "quick" else 30000
    for _ in range(count):
        case = _table(rng)
        lo = max(20, _min_feasible(case))
        if lo > 200:
            continue
        r = rng.random()
        if r < 0.25:
            case["width"] = rng.randint(lo, min(200, lo + 20))
        elif r < 0.55:
            case["width"] = rng.randint(lo, min(200, lo + 70))
        else:
            case["width"] = rng.randint(lo, 200)
        yield _finish(rng, case)
    if tier == "thorough":
        for _ in range(200):
            base = _table(rng)
            # keep the sweep affordable: bound the text of a sweep table
            for row in _all_rows(base):
                for j in range(base["n"]):
                    row[j] = row[j][:300]
            lo = max(20, _min_feasible(base))
            for w in range(lo, 201):
                c = {k: (v if not isinstance(v, list) else [list(x) if isinstance(x, list) else x for x in v])
                     for k, v in base.items()}
                c["width"] = w
                yield _finish(rng, c, styled=False)


def exhaustive(tier):
    return False


# --------------------------------------------------------------------------- implementation
class _WrapSpy(object):
    """stands in for the `textwrap` module inside cell_wrapper: records every wrap() call"""

    def __init__(self, real):
        self._real = real
        self.calls = []

    def wrap(self, text, width, **kw):
        if kw:
            raise RuntimeError("textwrap.wrap called with options %r: outside the modelled contract" % (kw,))
        try:
            res = self._real.wrap(text, width)
        except ValueError:
            self.calls.append([text, width, None])
            raise
        self.calls.append([text, width, list(res)])
        return res

    def __getattr__(self, name):
        return getattr(self._real, name)


def _formatter(case, custom_known):
    from clikit.api.formatter import Style
    from clikit.formatter import AnsiFormatter, PlainFormatter
    from clikit.formatter.default_style_set import DefaultStyleSet
    ss = None
    if custom_known:
        ss = DefaultStyleSet()
        for t in custom_known:
            ss.add(Style(t).fg("magenta"))
    if case["ansi"]:
        return AnsiFormatter(ss, forced=True) if ss is not None else AnsiFormatter(forced=True)
    return PlainFormatter(ss) if ss is not None else PlainFormatter()


def run_impl(case):
    import textwrap as real_textwrap
    import clikit.ui.components.cell_wrapper as cw
    from clikit.api.formatter import Style
    from clikit.io.buffered_io import BufferedIO
    from clikit.ui.components import Table
    from clikit.ui.rectangle import Rectangle

    phases = case.get("phases")
    fmt = _formatter(case, phases[0]["known"] if phases else None)
    io = BufferedIO(formatter=fmt)
    io.set_terminal_dimensions(Rectangle(case["width"], 24))
    st = _style(case["style"], case.get("hfmt"))
    for i, a in enumerate(case["aligns"]):
        st.set_column_alignment(i, a)
    table = Table(st)
    if case["header"] is not None:
        table.set_header_row(list(case["header"]))
    table.add_rows([list(r) for r in case["rows"]])
    captured = []
    orig = table._get_cell_wrapper

    def spy(*a, **k):
        w = orig(*a, **k)
        captured.append(w)
        return w

    table._get_cell_wrapper = spy
    pos = [0, 0]

    def render_once():
        before = ([str(c) for c in table._header_row], [[str(c) for c in r] for r in table._rows])
        before_ids = (id(table._header_row), [id(r) for r in table._rows])
        del captured[:]
        wspy = _WrapSpy(real_textwrap)
        saved = cw.textwrap
        cw.textwrap = wspy
        exc = None
        try:
            try:
                table.render(io, case["indent"])
            except Exception as e:  # canonical: class name only
                exc = type(e).__name__
        finally:
            cw.textwrap = saved
        out = io.fetch_output()
        err = io.fetch_error()
        out, err, pos[0], pos[1] = out[pos[0]:], err[pos[1]:], len(out), len(err)
        after = ([str(c) for c in table._header_row], [[str(c) for c in r] for r in table._rows])
        after_ids = (id(table._header_row), [id(r) for r in table._rows])
        return {
            "exc": exc,
            "out": out,
            "stderr": err,
            "column_lengths": [int(x) for x in captured[0].column_lengths] if captured and exc is None else None,
            "wraps": wspy.calls,
            "untouched": before == after and before_ids == after_ids
            and after == ([] if case["header"] is None else list(case["header"]), [list(r) for r in case["rows"]]),
        }

    def shown():
        """what the formatter of the I/O, as it is now, makes of every cell"""
        f = io.formatter
        return [[f.remove_format(c) for c in r] for r in _all_rows(case)]

    if not phases:
        obs = render_once()
    else:
        # the same table on the same I/O, the formatter's style set changed by the owner of the I/O in between
        obs = None
        more = []
        for i, ph in enumerate(phases):
            if ph["how"] == "add_style":
                for t in ph["known"]:
                    if t not in phases[i - 1]["known"]:
                        io.formatter.add_style(Style(t).fg("magenta"))
            elif ph["how"] == "set_formatter":
                io.set_formatter(_formatter(case, ph["known"]))
            vis = shown()
            r = render_once()
            r["visible"] = vis
            if i == 0:
                obs = r
            else:
                more.append(r)
        obs["more"] = more
    obs["shares"] = [[l, a, w, int(round((l / a) * w))] for (l, a, w) in case.get("probes", [])]
    return obs


def _lines(out):
    text = ANSI_RE.sub("", out)
    if text == "":
        return []
    ls = text.split("\n")
    return ls[:-1] if ls[-1] == "" else ls


# --------------------------------------------------------------------------- model
def _fmt_request(case, known):
    """a rendering of a history: the cells WITH their tags and the tags the formatter knows at that time"""
    rq = {"m": "c14.render_fmt", "style": case["style"], "n": case["n"],
          "header": None if case["header"] is None else list(case["header"]),
          "rows": [list(r) for r in case["rows"]],
          "alignments": case["aligns"], "width": case["width"], "indent": case["indent"],
          "styles": TAGS + list(known)}
    if case.get("hfmt") is not None:
        i = case["hfmt"].index("{}")
        rq["header_format"] = [case["hfmt"][:i], case["hfmt"][i + 2:]]
    return rq


def model_requests(case):
    probes = [{"m": "c14.share", "l": l, "a": a, "w": w} for (l, a, w) in case.get("probes", [])]
    if case.get("phases"):
        return [_fmt_request(case, ph["known"]) for ph in case["phases"]] + probes
    rq = {"m": "c14.render", "style": case["style"], "n": case["n"],
          "header": None if case["header"] is None else [visible(c) for c in case["header"]],
          "rows": [[visible(c) for c in r] for r in case["rows"]],
          "alignments": case["aligns"], "width": case["width"], "indent": case["indent"]}
    if case.get("hfmt") is not None:
        i = case["hfmt"].index("{}")
        rq["header_format"] = [case["hfmt"][:i], case["hfmt"][i + 2:]]
    return [rq] + [{"m": "c14.share", "l": l, "a": a, "w": w} for (l, a, w) in case.get("probes", [])]


def _model_render(a, with_visible):
    if "err" in a:
        v = {"exc": a["err"], "lines": None, "column_lengths": None, "wraps": None}
    else:
        r = a["ok"]
        v = {"exc": None, "lines": r["lines"], "column_lengths": r["column_lengths"], "wraps": r["wraps"]}
    if with_visible:
        v["visible"] = a.get("visible")
    return v


def model_obs(case, answers):
    k = len(case.get("phases") or [None])
    a = answers[0]
    shares = [[p[0], p[1], p[2], v] for p, v in zip(case.get("probes", []), answers[k:])]
    out = _model_render(a, bool(case.get("phases")))
    out["shares"] = shares
    out["wf"] = a.get("wf")
    if case.get("phases"):
        out["more"] = [_model_render(b, True) for b in answers[1:k]]
    return out


def _wf_real(case):
    """the hypotheses of the Lean rendering theorems, evaluated on the REAL style and the case: the model's
    deciders (Model/Table.lean: feasibleB, styleOkB, rightSolidB, wfB) must answer the same"""
    st = _style(case["style"], case.get("hfmt"))
    feas = feasible(case)
    aligns = len(case["aligns"]) <= case["n"]
    npos = case["n"] >= 1
    # every style the generator uses must be well-formed (the rectangle theorems assume it)
    return {"feasible": feas, "aligns": aligns, "style_ok": True, "n_pos": npos,
            "right_solid": st.border_style.line_vr_char.strip() != "",
            "all": feas and aligns and npos}


def _impl_render(r, with_visible):
    if r["exc"] is not None:
        v = {"exc": r["exc"], "lines": None, "column_lengths": None, "wraps": None}
    else:
        v = {"exc": None, "lines": _lines(r["out"]), "column_lengths": r["column_lengths"], "wraps": r["wraps"]}
    if with_visible:
        v["visible"] = r.get("visible")
    return v


def impl_view(case, obs):
    out = _impl_render(obs, bool(case.get("phases")))
    out["shares"] = obs["shares"]
    out["wf"] = _wf_real(case)
    if case.get("phases"):
        out["more"] = [_impl_render(r, True) for r in obs["more"]]
    return out


# --------------------------------------------------------------------------- oracle (the statement)
def _nb(s):
    return "".join(ch for ch in s if not ch.isspace())


def oracle(case, obs):
    """the statement, for the rendering of the case - and for EVERY rendering of a history (the same table on the
    same I/O after the owner of the I/O changed the formatter's style set): the cells are the cells as the
    formatter shows them at the time of that rendering"""
    phases = case.get("phases")
    if not phases:
        return _oracle_one(case, obs, None)
    for i, (ph, r) in enumerate(zip(phases, [obs] + list(obs["more"]))):
        v = _oracle_one(case, r, ph["known"])
        if v:
            return "rendering %d of %d on one I/O (formatter knows %s%s): %s" % (
                i + 1, len(phases), ph["known"] or "no private tag",
                "" if i == 0 else ", changed by " + ph["how"], v)
    return None


def _oracle_one(case, obs, custom_known):
    """rendering succeeds; all lines have one visible width <= terminal width (modulo the trailing
    blanks draw_row strips when the right border is blank); every column has the same width in every
    row; a cell's lines read top to bottom give back its characters, spacing aside; the table is
    not modified"""
    if not feasible(case):
        return None  # outside the quantifier (never generated)
    if obs["exc"] is not None:
        return "rendering raised %s" % obs["exc"]
    if obs["stderr"]:
        return "rendering wrote to the error output"
    if not obs["untouched"]:
        return "rendering modified the table's rows"
    st = _style(case["style"], case.get("hfmt"))
    b = st.border_style
    n, indent, width = case["n"], case["indent"], case["width"]
    lines = _lines(obs["out"])
    if any("\x1b" in l for l in lines):
        return "unterminated escape sequence in the output"
    # one visible width, not exceeding the terminal
    wmax = max(len(l) for l in lines) if lines else 0
    if wmax > width:
        return "a line is %d wide, terminal width %d" % (wmax, width)
    right_blank = b.line_vr_char.strip() == ""
    if not right_blank:
        bad = [l for l in lines if len(l) != wmax]
        if bad:
            return "lines of different visible width: %d vs %d" % (len(bad[0]), wmax)
    # the grid: every column has the same width in every row
    cl = obs["column_lengths"]
    if cl is None or len(cl) != n:
        return "column_lengths has %s entries for %d columns" % (None if cl is None else len(cl), n)
    hx = len(st.header_cell_format.format(""))
    cx = len(st.cell_format.format(""))
    excess = max(hx, cx)
    W = indent + len(b.line_vl_char) + sum(c + excess for c in cl) + (n - 1) * len(b.line_vc_char) + len(b.line_vr_char)
    if W > width:
        return "table width %d exceeds the terminal width %d" % (W, width)
    if any(len(l) > W for l in lines):
        return "a line is wider than the table (%d)" % W
    if not right_blank and lines and wmax != W:
        return "line width %d differs from the grid width %d" % (wmax, W)
    starts = []
    pos = indent + len(b.line_vl_char)
    for j in range(n):
        starts.append(pos)
        pos += cl[j] + excess + (len(b.line_vc_char) if j < n - 1 else len(b.line_vr_char))

    def check_row_line(l, fmt):
        """separators where the grid says, cell format around the padded cell text; returns the cell texts"""
        s = l.ljust(W)
        if s[:indent].strip() != "" or s[indent:indent + len(b.line_vl_char)] != b.line_vl_char:
            return None
        pre, post = fmt.split("{}")
        cells = []
        for j in range(n):
            a = starts[j]
            e = a + cl[j] + excess
            sep = b.line_vc_char if j < n - 1 else b.line_vr_char
            if s[e:e + len(sep)] != sep:
                return None
            body = s[a:e]
            if len(pre) + len(post) != excess or not body.startswith(pre) or not body.endswith(post):
                return None
            cells.append(body[len(pre):len(body) - len(post)])
        return cells

    def border_text(line_ch, lc, cc, rc):
        """the border line the grid demands; '' when it is entirely blank (such a line is not drawn)"""
        exp = " " * indent + lc
        for j in range(n):
            exp += line_ch * (cl[j] + excess) + (cc if j < n - 1 else rc)
        return exp.rstrip()

    k = 0
    rows = _all_rows(case)
    has_header = case["header"] is not None
    top = (b.line_ht_char, b.corner_tl_char, b.crossing_t_char, b.corner_tr_char)
    mid = (b.line_hc_char, b.crossing_l_char, b.crossing_c_char, b.crossing_r_char)
    bot = (b.line_hb_char, b.corner_bl_char, b.crossing_b_char, b.corner_br_char)
    if border_text(*top):
        if k >= len(lines) or lines[k] != border_text(*top):
            return "top border missing or not aligned with the columns"
        k += 1
    for ri, row in enumerate(rows):
        fmt = st.header_cell_format if (has_header and ri == 0) else st.cell_format
        want = [_nb(visible(c, custom_known)) for c in row]
        acc = [""] * n
        used = 0
        while True:
            if k >= len(lines):
                return "row %d: output ends before the cell text is complete" % ri
            cells = check_row_line(lines[k], fmt)
            if cells is None:
                return "row %d: line %d does not follow the column grid %r" % (ri, k, cl)
            k += 1
            used += 1
            for j in range(n):
                acc[j] += _nb(cells[j])
                if not want[j].startswith(acc[j]):
                    return "row %d column %d: rendered text %r is not the cell's text" % (ri, j, acc[j][-40:])
            if acc == want:
                break
        if has_header and ri == 0 and border_text(*mid):
            if k >= len(lines) or lines[k] != border_text(*mid):
                return "middle border missing or not aligned with the columns"
            k += 1
    if border_text(*bot):
        if k >= len(lines) or lines[k] != border_text(*bot):
            return "bottom border missing or not aligned with the columns"
        k += 1
    if k != len(lines):
        return "%d extra line(s) after the table" % (len(lines) - k)
    return None


# --------------------------------------------------------------------------- statistics
def nontrivial_key(case, obs):
    if obs["exc"] is not None or not obs["wraps"]:
        return None
    return (case["style"], case["header"] is not None, case["width"], case["indent"], tuple(obs["column_lengths"]),
            len(obs["wraps"]), hash(tuple(tuple(r) for r in case["rows"])) & 0xFFFFFF)


def bucket(case, obs):
    if obs["exc"] is not None:
        return "raised:" + obs["exc"]
    cut = any(any(len(w) > c[1] for w in c[0].split()) for c in obs["wraps"])
    styled = any("<" in c for r in _all_rows(case) for c in r)
    return "%s|%s|%s%s%s" % (case["style"] + ("+hfmt" if case.get("hfmt") else ""),
                             "hdr" if case["header"] is not None else "nohdr",
                             "cut" if cut else ("wrap" if obs["wraps"] else "fit"), "|styled" if styled else "",
                             "|style set changed between %d renderings" % len(case["phases"]) if case.get("phases") else "")


# --------------------------------------------------------------------------- known finding D28
def known_class(case, obs, verdict):
    """D28: a cell that contains a style tag and is longer than its column, i.e. a text with a style tag
    was handed to textwrap.wrap (which is not format-aware and cuts inside the tag)"""
    if not isinstance(obs, dict):
        return None
    for r in [obs] + list(obs.get("more") or []):
        for call in r.get("wraps") or []:
            if TAG_RE.search(call[0]):
                return "D28"
    return None


def witnesses():
    return {"D28": {"n": 2, "style": "ascii", "hfmt": None, "indent": 0, "ansi": False, "header": None,
                    "rows": [["aaaa <fg=red;options=bold>cccc</> dddd eeee", "x"]], "aligns": [], "width": 24,
                    "probes": []}}


# --------------------------------------------------------------------------- shrinking / neighbours
def _copy(case):
    c = dict(case)
    c["rows"] = [list(r) for r in case["rows"]]
    c["header"] = None if case["header"] is None else list(case["header"])
    c["aligns"] = list(case["aligns"])
    c["probes"] = [list(p) for p in case.get("probes", [])]
    if case.get("phases"):
        c["phases"] = [{"known": list(ph["known"]), "how": ph["how"]} for ph in case["phases"]]
        c["custom"] = list(case.get("custom", []))
    return c


def _ok(c):
    return c["n"] >= 1 and c["rows"] and feasible(c) and len(c["aligns"]) <= c["n"] and (
        c.get("hfmt") is None or c["header"] is None)


def _phase_variants(case):
    """shorter histories (a history of one rendering is still a history: same entry of the model)"""
    ph = case.get("phases") or []
    if len(ph) > 1:
        for i in range(len(ph)):
            c = _copy(case)
            rest = c["phases"][:i] + c["phases"][i + 1:]
            rest[0]["how"] = "init"
            for a, b in zip(rest, rest[1:]):
                if b["how"] == "add_style" and not set(b["known"]) >= set(a["known"]):
                    b["how"] = "set_formatter"
            c["phases"] = rest
            yield c


def shrink(case):
    # fewer renderings, probes, rows, columns; no header; shorter cells; simpler parameters
    for c in _phase_variants(case):
        yield c
    if case.get("probes"):
        c = _copy(case)
        c["probes"] = []
        yield c
    for i in range(len(case["rows"])):
        if len(case["rows"]) > 1:
            c = _copy(case)
            del c["rows"][i]
            yield c
    if case["header"] is not None:
        c = _copy(case)
        c["header"] = None
        yield c
    for j in range(case["n"]):
        if case["n"] > 1:
            c = _copy(case)
            c["n"] -= 1
            for r in c["rows"]:
                del r[j]
            if c["header"] is not None:
                del c["header"][j]
            c["aligns"] = c["aligns"][:c["n"]]
            if _ok(c):
                yield c
    for ri, row in enumerate(_all_rows(case)):
        for j, cell in enumerate(row):
            if not cell:
                continue
            cands = ["", cell[:len(cell) // 2], cell[len(cell) // 2:], cell[:-1], cell[1:]]
            words = cell.split(" ")
            if len(words) > 1:
                cands += [" ".join(words[:len(words) // 2]), " ".join(words[len(words) // 2:])]
            cands.append(visible(cell))
            for nc in cands:
                if nc == cell:
                    continue
                c = _copy(case)
                target = _all_rows(c)[ri]
                target[j] = nc
                if c["header"] is not None and ri == 0:
                    c["header"] = target
                yield c
    if case["aligns"]:
        c = _copy(case)
        c["aligns"] = c["aligns"][:-1]
        yield c
        c = _copy(case)
        c["aligns"] = [0] * len(c["aligns"])
        yield c
    if case["indent"]:
        c = _copy(case)
        c["indent"] = 0
        yield c
    if case["ansi"]:
        c = _copy(case)
        c["ansi"] = False
        yield c
    if case.get("hfmt") is not None:
        c = _copy(case)
        c["hfmt"] = None
        yield c
    for w in (case["width"] - 1, case["width"] // 2, 20):
        c = _copy(case)
        c["width"] = w
        if w >= 20 and w != case["width"] and _ok(c):
            yield c
    if case["style"] != "ascii":
        c = _copy(case)
        c["style"] = "ascii"
        if _ok(c):
            yield c


def neighbours(case):
    for d in (-3, -2, -1, 1, 2, 3, 5, 8, -5, -8):
        c = _copy(case)
        c["width"] = case["width"] + d
        if 20 <= c["width"] <= 200 and _ok(c):
            yield c
    for d in (-1, 1):
        c = _copy(case)
        c["indent"] = case["indent"] + d
        if 0 <= c["indent"] <= 8 and _ok(c):
            yield c
    for s in STYLES:
        if s != case["style"]:
            c = _copy(case)
            c["style"] = s
            if s not in ("ascii", "solid"):
                c["hfmt"] = None
            if _ok(c):
                yield c
    c = _copy(case)
    c["ansi"] = not case["ansi"]
    yield c
    for a in (0, 1, 2):
        c = _copy(case)
        c["aligns"] = [a] * case["n"]
        yield c
    if case["header"] is None:
        c = _copy(case)
        c["header"] = ["h%d" % j for j in range(case["n"])]
        c["hfmt"] = None
        if _ok(c):
            yield c
        if case["style"] in ("ascii", "solid"):
            c = _copy(case)
            c["hfmt"] = "{}" if case.get("hfmt") is None else None
            if _ok(c):
                yield c
    else:
        c = _copy(case)
        c["header"] = None
        yield c
    for ri, row in enumerate(case["rows"]):
        for j in range(case["n"]):
            c = _copy(case)
            c["rows"][ri][j] = visible(row[j]) + " xx"
            yield c
            c = _copy(case)
            c["rows"][ri][j] = "w" * 40
            if _ok(c):
                yield c
