"""
C16 - a progress bar always shows a truthful, well-formed frame and ends at 100 %.

Correspondence: the real `ProgressBar` is driven through its public operations under a VIRTUAL
CLOCK (the `time` attribute of `clikit.ui.components.progress_bar` is replaced from outside by an
object whose `time()` returns `ticks / 64.0`; the clock only moves between calls), on four kinds of
output (ANSI, plain, ANSI section, quiet variants), and every `stream.write` call is recorded.
The Lean model (`Clikit.Progress.run`) gets the same configuration, operations and clock readings
and must produce the same writes, the same getters and the same exception classes.

`start(max)` with an explicit argument (None, 0 = length unknown, 1, the current maximum, another one) on bars that
already have a maximum - constructor or an earlier start - also in the middle of a history: the oracle keeps its OWN
account of the maximum in force from the calls (it does not take the bar's word for it) and every frame must be truthful
for that maximum.

Setters in the MIDDLE of a run: besides the operations, a history may call the public configuration
setters of the running bar (`SETTERS`: min_seconds_between_redraws, max_seconds_between_redraws,
set_redraw_frequency, set_bar_width, the three character setters, set_format) between any two calls.  The
model runs them as `Progress.runC` (every call under the configuration in force); the oracle judges every
frame and every redraw against what is configured AT THAT MOMENT - in particular the throttle against the
minimum interval configured at the time of each advance.

Oracle: the property statement itself, evaluated on the implementation's writes with a small
terminal emulator (CR, LF, ESC[nA, ESC[0J, ESC[2K, SGR) and a regex built from the format in use.
"""
import itertools
import os
import re

ID = "C16"
DESIGN_REF = "6/C16"
TECHNIQUE = ("Lean 4 model of ProgressBar (template scanner, redraw decision, ANSI / plain / section write "
             "protocols, binary64 rounding modelled over Nat) with theorems over all operation histories and "
             "clock readings + differential execution against the real class under a virtual clock + the "
             "property statement as an oracle on a terminal emulator")
LEVEL_TEXT = ("Proved in Lean for every history of start/advance/set_progress/display/clear/finish/set_message and "
              "every sequence of clock readings (and, for step bounds, exact percentage, bar width, throttling, drawing at the "
              "maximum and quietness, also for histories in which the configuration setters are called in the middle of the "
              "run - *_current_config: each statement with the configuration in force at the call): step bounds, bar width, exact percentage, the throttling rule "
              "(a redraw caused by advancing to a step other than the maximum comes at least the minimum interval "
              "after the previous write), reaching the maximum always draws, the last frame after finish shows "
              "current = max, the ANSI line equals the latest frame, plain frames stand on their own lines, a quiet "
              "output receives nothing.  The hypotheses of these theorems on the configuration and the texts (single bar "
              "characters, bar width below 2^52, no line break / CR in format, characters and messages, no call raised) "
              "are decided by the model (hyps_decide; entry c16.run answers hyp) and compared on every case with the same "
              "conditions read off the real ProgressBar object after its setters ran; the *_dec corollaries take the "
              "deciders, default_chars_ok proves them for the class defaults of the current source.  start_explicit_max / "
              "start_explicit_frame / restart_unknown_ends_at_step: an explicit start(m) on ANY bar makes max(0, m) the maximum "
              "(0 = length unknown: the bar then ends at the step reached), the guard `max is not None` of start() is read "
              "from the source (start_guard_read).  ansi_screen_shows_latest_frame / ansi_screen_after_frame: the writes of a WHOLE "
              "ANSI history with setters (multi-line formats, set_format to another line count, clear) read on a terminal with "
              "rows leave the earlier rows followed by exactly the padded lines of the latest writing call, nothing below, the "
              "cursor on the last of them - proved by induction over the history, given that every frame has as many line "
              "breaks as the format in use and no CR/ESC (framesFitB) and that the first cursor-up finds blank rows or the top "
              "of the terminal (firstMoveB); the final rows of that Lean terminal are compared on every ANSI case with the rows "
              "of the harness's own terminal emulator.  The condition on the frames follows from the INPUTS (frames_fit_clean, "
              "ansi_screen_shows_latest_frame_clean): format texts - also every mid-run set_format argument - without CR/ESC, bar "
              "characters and messages - also every setter argument - without line break/CR/ESC (mlCleanCfgB, mlCleanCallsB; "
              "decided by the model as hyp.ml_clean and compared with the same condition read off the real bar and the case).  The model is tied to the code by regenerated tables (formats, defaults, "
              "_TIME_FORMATS) and by exhaustive small-scope plus random differential runs comparing every stream write.")
LEVEL_NOTE = ("Trusted: Lean kernel + propext/Quot.sound/Classical.choice, the hand-written model (sampled by the "
              "correspondence), the virtual clock and the terminal emulator of the harness. Formats with style tags "
              "(D29) are a known finding; the stale maximum after finish() on a plain output (D18b, found here) and the redraw after "
              "a set_format() with another number of lines (D39: set_format_no_residue on a terminal with rows) are repaired.")
LEAN_MODULES = ["Clikit.Props.C16"]
REQUIRED_THEOREMS = ["Clikit.Props.C16." + n for n in (
    "step_bounds", "bar_width", "percent_exact", "throttle", "throttle_spacing", "max_always_draws",
    "finish_final", "Counter.c16_d18b_old", "ansi_line_latest", "ansi_line_latest_events",
    "plain_own_line", "plain_single_lines", "quiet_nothing", "set_progress_clamps",
    "hyps_decide", "bar_width_dec", "finish_final_dec", "ansi_line_latest_dec", "plain_single_lines_dec",
    "default_chars_ok", "run_with_message",
    "throttle_current_config", "throttle_spacing_current_config", "min_interval_setter",
    "max_always_draws_current_config", "quiet_nothing_current_config", "frames_truthful_current_config",
    "bar_width_current_config", "bar_hyp_decides", "bar_width_current_config_dec", "setter_silent", "run_is_runC", "deciders_without_setters",
    "displayed_line_count_recorded", "set_format_no_residue", "set_format_section_clears_standing_frame",
    "start_guard_read", "start_explicit_max", "start_none_keeps_max", "start_explicit_frame", "finish_without_maximum",
    "restart_unknown_ends_at_step",
    "ansi_screen_shows_latest_frame", "ansi_screen_after_frame", "screen_hyps_decide", "ansi_screen_final_dec",
    "cursor_up_read_back",
    "frames_fit_clean", "frames_fit_clean_dec", "clean_inputs_decide", "ansi_screen_shows_latest_frame_clean",
    "ansi_screen_after_frame_clean")]
RULE = ("exhaustive small scope: every call sequence up to length 4 over a pool of 8 (quick) / 11 (thorough) public "
        "calls with clock advances (start, advance(1) after 0 / 1/64 / 1/4 s [/ 2 s], advance(3) after 1/16 s, "
        "set_progress(max), display, clear, finish, set_message), thorough also lengths 5-6 over a 6-call pool and "
        "7-8 over a 4-call pool, x {ANSI, plain, section} x min interval {0, 1/8 s} x maximum {0, 3}; setters in the "
        "middle of a run: every sequence up to length 4 over {start, advance(1) after 1/64 s / 1/4 s, "
        "min_seconds_between_redraws(2 s), min_seconds_between_redraws(1/64 s)} and up to length 3 over {start, "
        "advance(1) after 1/4 s, set_bar_width, set_format, set_redraw_frequency, max_seconds_between_redraws} x {ANSI, "
        "plain, section} x min interval 1/8 s x maximum {0, 3}; in half of the random histories about every sixth call "
        "is one of the eight public setters; re-starts with an explicit maximum: every sequence of length 2-3 (thorough: 4) "
        "over {start(), start(0), start(1), start(current maximum), start(5), advance(1) after 1/4 s, set_progress(max), "
        "finish} x {ANSI, plain, section} on bars constructed with maximum 3, 10 and (throttled) 0 - the oracle follows the "
        "maximum the CALLER gave (constructor, every explicit start(m): max(0, m), 0 = length unknown; a step beyond it "
        "moves it along; finish() without maximum ends at the step reached) and judges the bar's maximum and every frame "
        "against it; random: "
        "histories up to length 60 over maxima {0,1,3,10,50,200}, bar widths 1..40, default formats at the four "
        "verbosities, custom tag-free formats (also multi-line, unknown placeholders, width specs), messages of "
        "varying length, clock advances {0, 1/64, 1/16, 1/4, 2 s} x ANSI/plain/section/plain-section x quiet; a "
        "case is non-trivial when at least one frame was written; distinct = distinct (kind, min interval, "
        "draw/skip/error pattern, bytes written)")
TRUSTED_BASE = [
    "Lean 4.33 kernel; axioms propext, Classical.choice, Quot.sound only (audited per theorem on every run)",
    "lean/Clikit/Model/Progress.lean: hand-written model of progress_bar.py, utils/time.py and the single-section "
    "write path of section_output.py; fidelity = the correspondence runs (every stream write compared)",
    "tools/genparts/c16.py: ProgressBar.formats, defaults, _TIME_FORMATS, the guards of finish() and start() read with ast "
    "from the current source",
    "harness/props/c16.py: virtual clock (1/64 s ticks, binary-fraction thresholds: every float comparison of the "
    "code is exact), recording stream, terminal emulator, frame regexes",
    "pastel is the identity on tag-free text (formats, messages and bar characters are generated without '<' and "
    "backslash; checked implicitly by the byte comparison)",
]
ASSUMPTIONS = [
    "the maximum in force is the one the caller gave last (constructor, start(m) with m not None: max(0, m)); 0 means "
    "length unknown; a step beyond a positive maximum moves the maximum to that step (what the class documents by doing it)",
    "setters called in the middle of a run take effect from the next call on; min_seconds_between_redraws(x) with x <= 0 "
    "is ignored by the API (the interval in force stays); a set_format() that changes the NUMBER OF LINES of the format "
    "while a frame stands is judged like every other redraw (D39, repaired: the terminal must show exactly the new frame)",
    "one clock reading per public call (the virtual clock moves only between calls); real-clock jitter inside a call "
    "and preemption inside a stream write are outside the model",
    "CPython's binary64 division / multiplication (percent, bar offset, redraw period, %estimated%) equals the model's "
    "correctly rounded quotient `roundQ` over Nat (ties to even, 53 bits): sampled by the byte comparison of every frame",
    "frames are narrower than the terminal (COLUMNS fixed at 120); one section per stream",
    "width specs are ASCII digit strings; placeholder names are ASCII",
]
BUDGET_S = {"quick": 70, "thorough": 720}
BATCH = 6000

TICK = 64
COLUMNS = 120
T0 = 64000
MAXIMA = [0, 1, 3, 10, 50, 200]
DTS = [0, 1, 4, 16, 128]            # 0, 1/64 (~10 ms), 1/16 (~50 ms), 1/4 (~200 ms), 2 s
KINDS = ["ansi", "plain", "section", "plain_section", "mixed_plain", "mixed_ansi", "plain_capable"]
# "mixed_*": the two outputs of the I/O differ in ANSI support; the bar draws on the ERROR output, whose kind decides
# (mixed_plain = decorated standard output, plain error output; mixed_ansi the other way round)
# "plain_capable": a plain (ANSI-disabling) formatter on streams that COULD show escape sequences (`--no-ansi` on a
# terminal): a plain output
EFFECTIVE = {"mixed_plain": "plain", "mixed_ansi": "ansi", "plain_capable": "plain"}


def _eff(kind):
    return EFFECTIVE.get(kind, kind)
# public configuration setters that may be called in the middle of a run: op name -> what the oracle's view changes
SETTERS = {"set_min": "min_ticks", "set_max_interval": "max_ticks", "set_redraw": "redraw", "set_bar_width": "bar_width",
           "set_bar_char": "bar_char", "set_empty_char": "empty_char", "set_progress_char": "progress_char",
           "set_format": "format"}
TEXT_OPS = ("set_message", "set_format", "set_bar_char", "set_empty_char", "set_progress_char")
VERBOSITIES = [0, 1, 2, 4]
BASE_FORMAT = {0: "normal", 1: "verbose", 2: "very_verbose", 4: "debug"}

CUSTOM_FORMATS = [
    "%current%/%max% [%bar%] %percent:3s%%",
    "%current%/%max% %percent%%",
    " %current% [%bar%] %message%",
    "%message% %current%/%max%",
    "%bar% %percent%%",
    "[%bar%] %current:5s% %elapsed:6s%",
    "%message:-12s%|%current%|%max:4s%|",
    "%message:14s% %current% %percent:-4s%.",
    "%current%/%max% %elapsed:-8s% %estimated:-4s%",
    "%current%/%max% %remaining%",
    "step %current% of %max% (%percent%%) %foo% 100% sure",
    "%CURRENT% %current% %ba-r_% %message%",
    "%current%/%max%\n[%bar%] %percent:3s%%",
    "%message%\n%current% [%bar%]",
    "normal", "verbose", "very_verbose", "debug", "normal_nomax",
    "%current:x% %max%",
    "%current%:%max%:%bar%:%percent%",
    "%%current%% %current%.%max% %:3s% %current:%",
]
MESSAGE_ALPHABET = "abcdefghijklmnopqrstuvwxyzABCDEFXYZ0123456789 .,:;!?()[]{}#+-=_/%|&'\"éü"
BAR_CHARS = ["=", "-", ">", "#", ".", "*", "~", "o", "+", ":"]


# --------------------------------------------------------------------------- cases
def _case(kind="ansi", quiet=False, verbosity=0, max=0, min_ticks=0, max_ticks=None, redraw=None,
          bar_width=None, bar_char=None, empty_char=None, progress_char=None, format=None, message=None,
          t0=T0, ops=()):
    return {"kind": kind, "quiet": quiet, "verbosity": verbosity, "columns": COLUMNS, "max": max,
            "min_ticks": min_ticks, "max_ticks": max_ticks, "redraw": redraw, "bar_width": bar_width,
            "bar_char": bar_char, "empty_char": empty_char, "progress_char": progress_char,
            "format": format, "message": message, "t0": t0, "ops": list(ops)}


def _op(name, arg=None, dt=0):
    return {"op": name, "arg": arg, "dt": dt}


def _pool(mx, tier):
    top = mx if mx else 3
    pool = [_op("start"), _op("advance", 1, 0), _op("advance", 1, 1), _op("advance", 1, 16),
            _op("set_progress", top, 0), _op("display"), _op("clear"), _op("finish")]
    if tier == "thorough":
        pool += [_op("advance", 3, 4), _op("advance", 1, 128), _op("set_message", "a longer message")]
    return pool


CONFIGS = [(kind, min_ticks, mx) for kind in ("ansi", "plain", "section") for min_ticks in (0, 8) for mx in (0, 3)]


def _product_cases(configs, pool_of, lengths):
    for kind, min_ticks, mx in configs:
        pool = pool_of(mx)
        for n in lengths:
            for seq in itertools.product(pool, repeat=n):
                yield _case(kind=kind, min_ticks=min_ticks, max=mx, message="msg", ops=[dict(o) for o in seq])


def _core_pool(mx):
    return [_op("start"), _op("advance", 1, 0), _op("advance", 1, 16), _op("set_progress", mx or 3, 0),
            _op("display"), _op("finish")]


def _tiny_pool(mx):
    return [_op("start"), _op("advance", 1, 0), _op("advance", 1, 16), _op("finish")]


def _exhaustive_cases(tier):
    """quick: every sequence up to length 4 over the 8-call pool; thorough: up to length 4 over the 11-call
    pool, lengths 5-6 over the 6-call core pool (both for all 12 configurations)"""
    mixed = [(kind, 0, 3) for kind in ("mixed_plain", "mixed_ansi", "plain_capable")]
    if tier == "quick":
        return itertools.chain(_product_cases(CONFIGS, lambda mx: _pool(mx, "quick"), range(0, 5)),
                               _product_cases(mixed, _core_pool, range(0, 4)))
    return itertools.chain(_product_cases(CONFIGS, lambda mx: _pool(mx, "thorough"), range(0, 5)),
                           _product_cases(mixed, _core_pool, range(0, 5)),
                           _product_cases(CONFIGS, _core_pool, (5, 6)))


def _throttle_setter_pool(mx):
    return [_op("start"), _op("advance", 1, 1), _op("advance", 1, 16), _op("set_min", 128, 0), _op("set_min", 1, 0)]


def _other_setter_pool(mx):
    return [_op("start"), _op("advance", 1, 16), _op("set_bar_width", 10), _op("set_format", "%current% [%bar%] %percent%%"),
            _op("set_redraw", 2), _op("set_max_interval", 4)]


def _setter_cases(tier):
    """setters called in the middle of a run"""
    configs = [(kind, 8, mx) for kind in ("ansi", "plain", "section") for mx in (0, 3)]
    return itertools.chain(_product_cases(configs, _throttle_setter_pool, range(2, 5)),
                           _product_cases(configs, _other_setter_pool, range(2, 4 if tier == "quick" else 5)))


def _restart_pool(mx):
    """`start(max)` with an explicit argument on a bar that already has a maximum (constructor or an earlier start):
    no argument, 0 (= length unknown), 1, the current maximum, another one"""
    top = mx if mx else 3
    return [_op("start"), _op("start", 0), _op("start", 1), _op("start", top), _op("start", 5),
            _op("advance", 1, 16), _op("set_progress", top, 0), _op("finish")]


def _restart_cases(tier):
    """re-starts with an explicit maximum, also in the middle of a history: every sequence up to length 3 (thorough: 4)
    over the restart pool, bars constructed with maximum 0 / 3 / 10"""
    configs = [(kind, mt, mx) for kind in ("ansi", "plain", "section") for mt, mx in ((0, 3), (0, 10), (8, 0))]
    return _product_cases(configs, _restart_pool, range(2, 4 if tier == "quick" else 5))


def _long_exhaustive_cases():
    """thorough only: lengths 7 and 8 over the 4-call pool, throttling configurations"""
    return _product_cases([c for c in CONFIGS if c[1] == 8], _tiny_pool, (7, 8))


def _rand_message(rng):
    n = rng.choice([0, 1, 3, 5, 8, 12, 20, 30])
    return "".join(rng.choice(MESSAGE_ALPHABET) for _ in range(n))


def _has_tag(fmt):
    return bool(fmt) and re.search(r"<(/|[a-zA-Z])", fmt) is not None


def _random_case(rng, tier):
    kind = rng.choice(["ansi", "ansi", "plain", "plain", "section", "plain_section", "mixed_plain", "mixed_ansi", "plain_capable"])
    mx = rng.choice(MAXIMA)
    fmt = None
    if rng.random() < 0.55:
        fmt = rng.choice(CUSTOM_FORMATS)
    single = rng.random() < 0.85
    case = _case(
        kind=kind, quiet=rng.random() < 0.06, verbosity=rng.choice(VERBOSITIES), max=mx,
        min_ticks=rng.choice([0, 8]), max_ticks=rng.choice([None, None, 32, 64, 256]),
        redraw=rng.choice([None, None, None, 1, 2, 5, 0]),
        bar_width=rng.choice([None, rng.randint(1, 40)]),
        bar_char=(rng.choice(BAR_CHARS) if single else rng.choice(["", "=>", "ab"])) if rng.random() < 0.4 else None,
        empty_char=(rng.choice(BAR_CHARS) if single else rng.choice(["", "..", "- "])) if rng.random() < 0.4 else None,
        progress_char=(rng.choice(BAR_CHARS) if single else rng.choice(["", ">>", "|>|"])) if rng.random() < 0.4 else None,
        format=fmt, message=_rand_message(rng) if rng.random() < 0.7 else None,
        t0=rng.choice([T0, T0, T0, 0, 5]))
    n = rng.choice([1, 2, 3, 5, 8, 13, 21, 34, 60]) if rng.random() < 0.8 else rng.randint(0, 60)
    ops = []
    big = rng.random() < 0.3
    for _ in range(n):
        r = rng.random()
        dt = rng.choice(DTS) if not big else rng.choice(DTS + [128 * 40, 128 * 2000])
        if r < 0.45:
            ops.append(_op("advance", rng.choice([1, 1, 1, 1, 2, 3, 5, 10, 25, -1, -3, 0]), dt))
        elif r < 0.58:
            ops.append(_op("set_progress", rng.choice([0, 1, 2, 3, 5, 9, 10, 29, 49, 50, 58, 114, 200, 250, -2, mx]), dt))
        elif r < 0.68:
            ops.append(_op("display", None, dt))
        elif r < 0.75:
            ops.append(_op("clear", None, dt))
        elif r < 0.83:
            ops.append(_op("finish", None, dt))
        elif r < 0.92:
            ops.append(_op("start", rng.choice([None, None] + MAXIMA + [-1]), dt))
        else:
            ops.append(_op("set_message", _rand_message(rng), dt))
    if rng.random() < 0.5:
        # setters called in the middle of the run: about every sixth call
        for i in range(len(ops)):
            if rng.random() < 0.17:
                ops[i] = _random_setter(rng, ops[i]["dt"])
    case["ops"] = ops
    return case


def _random_setter(rng, dt):
    name = rng.choice(["set_min", "set_min", "set_min", "set_max_interval", "set_redraw", "set_bar_width", "set_bar_char",
                       "set_empty_char", "set_progress_char", "set_format"])
    if name == "set_min":
        arg = rng.choice([1, 4, 8, 16, 64, 128, 256, 0])
    elif name == "set_max_interval":
        arg = rng.choice([4, 32, 64, 256])
    elif name == "set_redraw":
        arg = rng.choice([1, 2, 5, 0])
    elif name == "set_bar_width":
        arg = rng.randint(1, 40)
    elif name == "set_format":
        arg = rng.choice(CUSTOM_FORMATS)
    else:
        arg = rng.choice(BAR_CHARS) if rng.random() < 0.85 else rng.choice(["", "=>", ".."])
    return _op(name, arg, dt)


def generate(tier, rng):
    for c in _exhaustive_cases(tier):
        yield c
    for c in _setter_cases(tier):
        yield c
    for c in _restart_cases(tier):
        yield c
    n = 10000 if tier == "quick" else 40000
    for _ in range(n):
        yield _random_case(rng, tier)
    if tier == "thorough":
        for c in _long_exhaustive_cases():
            yield c


def exhaustive(tier):
    return False


# --------------------------------------------------------------------------- implementation
class _Clock(object):
    def __init__(self, t):
        self.t = t

    def time(self):
        return self.t / float(TICK)


_TABLE = None


def _formats_table():
    global _TABLE
    if _TABLE is None:
        from clikit.ui.components.progress_bar import ProgressBar
        _TABLE = dict(ProgressBar.formats)
    return _TABLE


def worker_init():
    os.environ["COLUMNS"] = str(COLUMNS)
    os.environ.pop("LINES", None)


def run_impl(case):
    import clikit.ui.components.progress_bar as pbm
    from clikit.formatter import AnsiFormatter, PlainFormatter
    from clikit.io.buffered_io import BufferedIO

    os.environ["COLUMNS"] = str(case["columns"])
    clock = _Clock(case["t0"])
    real_time = pbm.time
    pbm.time = clock
    try:
        ansi = case["kind"] in ("ansi", "section")
        io = BufferedIO(formatter=AnsiFormatter(forced=True) if ansi else PlainFormatter())
        if case["kind"] in EFFECTIVE:
            from clikit.api.io import IO, Input, Output
            from clikit.io.input_stream.string_input_stream import StringInputStream
            from clikit.io.output_stream.buffered_output_stream import BufferedOutputStream
            err_ansi = case["kind"] == "mixed_ansi"

            class Capable(BufferedOutputStream):
                def supports_ansi(self):
                    return True
            if case["kind"] == "plain_capable":
                io = IO(Input(StringInputStream("")), Output(Capable(), PlainFormatter()), Output(Capable(), PlainFormatter()))
            else:
                io = IO(Input(StringInputStream("")),
                        Output(BufferedOutputStream(), PlainFormatter() if err_ansi else AnsiFormatter(forced=True)),
                        Output(BufferedOutputStream(), AnsiFormatter(forced=True) if err_ansi else PlainFormatter()))
        log = []
        stream = io.error_output.stream
        inner = stream.write

        def write(s):
            log.append(s)
            inner(s)
        stream.write = write
        target = io.section() if case["kind"] in ("section", "plain_section") else io
        target.set_quiet(case["quiet"])
        target.set_verbosity(case["verbosity"])
        pb = pbm.ProgressBar(target, case["max"], case["min_ticks"] / float(TICK))
        if case["redraw"] is not None:
            pb.set_redraw_frequency(case["redraw"])
        if case["max_ticks"] is not None:
            pb.max_seconds_between_redraws(case["max_ticks"] / float(TICK))
        if case["bar_width"] is not None:
            pb.set_bar_width(case["bar_width"])
        if case["bar_char"] is not None:
            pb.set_bar_character(case["bar_char"])
        if case["empty_char"] is not None:
            pb.set_empty_bar_character(case["empty_char"])
        if case["progress_char"] is not None:
            pb.set_progress_character(case["progress_char"])
        if case["format"] is not None:
            pb.set_format(case["format"])
        if case["message"] is not None:
            pb.set_message(case["message"])
        events = []
        setup_writes = list(log)
        # the hypotheses of the Lean theorems, read off the REAL object after its setters ran (compared with the
        # model's deciders on the configuration it builds: Props.C16.hyps_decide)
        hyp = _hyp_of(pb, case)
        for op in case["ops"]:
            clock.t += op["dt"]
            del log[:]
            err = None
            # the hypotheses of Props.C16.bar_width_current_config, read off the real bar as it is when THIS call is
            # made (setters of earlier calls applied): compared with the model's barHypB on the configuration in force
            bar_hyp = _bar_hyp_of(pb)
            try:
                name = op["op"]
                if name == "start":
                    pb.start(op["arg"])
                elif name == "advance":
                    pb.advance(op["arg"])
                elif name == "set_progress":
                    pb.set_progress(op["arg"])
                elif name == "display":
                    pb.display()
                elif name == "clear":
                    pb.clear()
                elif name == "finish":
                    pb.finish()
                elif name == "set_message":
                    pb.set_message(op["arg"])
                elif name == "set_min":
                    pb.min_seconds_between_redraws(op["arg"] / float(TICK))
                elif name == "set_max_interval":
                    pb.max_seconds_between_redraws(op["arg"] / float(TICK))
                elif name == "set_redraw":
                    pb.set_redraw_frequency(op["arg"])
                elif name == "set_bar_width":
                    pb.set_bar_width(op["arg"])
                elif name == "set_bar_char":
                    pb.set_bar_character(op["arg"])
                elif name == "set_empty_char":
                    pb.set_empty_bar_character(op["arg"])
                elif name == "set_progress_char":
                    pb.set_progress_character(op["arg"])
                elif name == "set_format":
                    pb.set_format(op["arg"])
                else:
                    raise AssertionError("unknown op " + name)
            except AssertionError:
                raise
            except Exception as e:  # the class name is the observable
                err = type(e).__name__
            events.append({"w": list(log), "t": clock.t, "progress": pb.get_progress(),
                           "max": pb.get_max_steps(), "err": err, "bar_hyp": bar_hyp})
        hyp["no_err"] = all(e["err"] is None for e in events)
        return {"events": events, "setup_writes": setup_writes, "hyp": hyp}
    finally:
        pbm.time = real_time


def _clean(s):
    return "\n" not in s and "\r" not in s


def _printable(s):
    return "\r" not in s and "\x1b" not in s


def _vclean(s):
    return "\n" not in s and _printable(s)


def _bar_hyp_of(pb):
    """[the three bar characters are single characters, the bar width is a binary64 integer] for the bar as it is now"""
    chars = [pb.get_empty_bar_character(), pb.get_progress_character()]
    own = pb.bar_char
    return [all(len(c) == 1 for c in chars) and (own is None or len(own) == 1), 0 <= pb.get_bar_width() < 2 ** 52]


def _hyp_of(pb, case):
    chars = [pb.get_empty_bar_character(), pb.get_progress_character()]
    own = pb.bar_char                      # None: derived from the maximum ('=' or the empty-bar character)
    fmt = pb._internal_format
    texts = ([case["message"]] if case["message"] is not None else []) + \
            [o["arg"] for o in case["ops"] if o["op"] in TEXT_OPS]
    return {"single": all(len(c) == 1 for c in chars) and (own is None or len(own) == 1),
            "bar_width_ok": 0 <= pb.get_bar_width() < 2 ** 52,
            "clean_cfg": all(_clean(c) for c in chars) and (own is None or _clean(own)) and (fmt is None or _clean(fmt)),
            "clean_ops": all(_clean(t) for t in texts),
            # the hypotheses of Props.C16.frames_fit_clean (multi-line formats), judged from the real bar after its
            # setters ran and from the arguments of the calls: every format text (set before the run or by a set_format
            # in the middle of it) without CR / ESC, everything substituted (bar characters, messages - before the run
            # or by a setter) without line break / CR / ESC
            "ml_clean": all(_vclean(c) for c in chars) and (own is None or _vclean(own)) and
                        (fmt is None or _printable(fmt)) and
                        all((_printable if o["op"] == "set_format" else _vclean)(o["arg"])
                            for o in case["ops"] if o["op"] in TEXT_OPS) and
                        (case["message"] is None or _vclean(case["message"]))}


# --------------------------------------------------------------------------- model
def model_requests(case):
    t = case["t0"]
    ops = []
    for o in case["ops"]:
        t += o["dt"]
        ops.append({"op": o["op"], "arg": o["arg"], "t": t})
    rq = {"m": "c16.run", "ops": ops}
    for k in ("kind", "quiet", "verbosity", "columns", "max", "min_ticks", "max_ticks", "redraw", "bar_width",
              "bar_char", "empty_char", "progress_char", "format", "message", "t0"):
        rq[k] = case[k]
    rq["kind"] = _eff(case["kind"])
    return [rq]


def model_obs(case, answers):
    scr = answers[0]["screen"]
    if scr is not None and scr["fits"] and scr["shown"] is not None and scr["rows"] != scr["shown"]:
        # Props.C16.ansi_screen_final_dec says this cannot happen; a driver that answers it is not the proved model
        raise AssertionError("model screen %r is not the latest frame %r" % (scr["rows"], scr["shown"]))
    if scr is not None and answers[0]["hyp"]["ml_clean"] and not scr["fits"]:
        # Props.C16.frames_fit_clean_dec says this cannot happen: clean inputs => every frame fits its format
        raise AssertionError("clean inputs, but a frame of the model does not fit its format")
    return {"events": answers[0]["events"], "hyp": answers[0]["hyp"],
            "screen": None if scr is None else scr["rows"]}


def _screen_rows(case, obs):
    """the rows of the harness's terminal emulator after all writes of the history (ANSI, not quiet): compared with
    the rows of the Lean terminal `screenC (Scr.fresh 0 [])` (Props.C16.ansi_screen_shows_latest_frame)"""
    if _eff(case["kind"]) != "ansi" or case["quiet"]:
        return None
    term = _Term(case["columns"])
    for e in obs["events"]:
        for w in e["w"]:
            term.feed(w)
    return ["".join(r) for r in term.rows]


def impl_view(case, obs):
    return {"events": [{"w": e["w"], "progress": e["progress"], "max": e["max"], "err": e["err"],
                        "bar_hyp": e["bar_hyp"]}
                       for e in obs["events"]], "hyp": obs["hyp"], "screen": _screen_rows(case, obs)}


# --------------------------------------------------------------------------- oracle
class _Term(object):
    """a terminal: rows of cells, a cursor; LF moves to the start of the next row (cooked tty)"""

    def __init__(self, columns):
        self.rows = [[]]
        self.r = 0
        self.c = 0
        self.columns = columns
        self.overflow = False
        self.unknown = None

    def feed(self, s):
        i, n = 0, len(s)
        while i < n:
            ch = s[i]
            if ch == "\r":
                self.c = 0
            elif ch == "\n":
                self.r += 1
                self.c = 0
                while len(self.rows) <= self.r:
                    self.rows.append([])
            elif ch == "\x1b":
                m = re.match(r"\x1b\[([0-9;]*)([A-Za-z])", s[i:])
                if not m:
                    self.unknown = repr(s[i:i + 6])
                    i += 1
                    continue
                arg, cmd = m.group(1), m.group(2)
                if cmd == "A":
                    self.r = max(0, self.r - int(arg or 1))
                elif cmd == "J" and arg in ("", "0"):
                    self.rows[self.r] = self.rows[self.r][:self.c]
                    del self.rows[self.r + 1:]
                elif cmd == "K" and arg == "2":
                    self.rows[self.r] = []
                elif cmd == "m":
                    pass
                else:
                    self.unknown = repr(m.group(0))
                i += len(m.group(0))
                continue
            else:
                row = self.rows[self.r]
                while len(row) < self.c:
                    row.append(" ")
                if self.c < len(row):
                    row[self.c] = ch
                else:
                    row.append(ch)
                self.c += 1
                if self.c > self.columns:
                    self.overflow = True
            i += 1

    def text(self):
        rows = ["".join(r) for r in self.rows]
        while len(rows) > 1 and rows[-1] == "":
            rows.pop()
        return "\n".join(rows)


_PH = re.compile(r"%([a-zA-Z\-_]+)(?::([^%]+))?%")
_TAG = re.compile(r"</?[a-zA-Z][^<>]*>|</>")


def _frame_regex(fmt, message):
    fmt = _TAG.sub("", fmt)
    out = []
    groups = []
    pos = 0
    k = 0
    for m in _PH.finditer(fmt):
        out.append(_lit(fmt[pos:m.start()]))
        pos = m.end()
        name = m.group(1)
        k += 1
        if name == "current":
            out.append(r" *(?P<cur%d>\d+) *" % k)
            groups.append("cur%d" % k)
        elif name == "max":
            out.append(r" *(?P<max%d>\d+) *" % k)
            groups.append("max%d" % k)
        elif name == "percent":
            out.append(r" *(?P<pct%d>\d+) *" % k)
            groups.append("pct%d" % k)
        elif name == "bar":
            out.append(r"(?P<bar%d>[^\n]*?)" % k)
            groups.append("bar%d" % k)
        elif name in ("elapsed", "remaining"):
            out.append(r"[^\n]*?")
        elif name == "estimated":
            out.append(r" *\d+ *")
        elif name == "message" and message is not None:
            out.append(" *" + re.escape(message) + " *")
        else:
            out.append(re.escape(m.group(0)))
    out.append(_lit(fmt[pos:]))
    body = "".join(out)
    # every line may carry padding blanks
    body = body.replace("\n", " *\n")
    return re.compile(body + " *"), groups


def _lit(s):
    return re.escape(s).replace("\\\n", "\n")


def _candidates(case):
    table = _formats_table()
    f = case["format"]
    if f:
        named = [table[k] for k in (f, f + "_nomax") if k in table]
        return named or [f]
    base = BASE_FORMAT[case["verbosity"]]
    return [table[base], table[base + "_nomax"]]


def _single(case, key, default):
    v = case[key]
    if v is None:
        v = default
    return v is None or len(v) == 1


def _check_frame(case, text, message, ev, hyp=None):
    """text must be one well-formed, truthful frame for the state after the call.
    returns (parsed | None, complaint | None)"""
    complaint = "is not a frame of the configured format"
    for fmt in _candidates(case):
        rx, groups = _frame_regex(fmt, message)
        m = rx.fullmatch(text)
        if not m:
            continue
        parsed = {"cur": [], "max": [], "pct": [], "bar": []}
        for g in groups:
            parsed[g[:3]].append(m.group(g))
        bad = None
        for c in parsed["cur"]:
            c = int(c)
            if c != ev["progress"]:
                bad = "shows current step %d while the progress is %d" % (c, ev["progress"])
            elif ev["max"] > 0 and c > ev["max"]:
                bad = "current step %d beyond the maximum %d" % (c, ev["max"])
        for x in parsed["max"]:
            if int(x) != ev["max"]:
                bad = bad or "shows maximum %s while the maximum is %d" % (x, ev["max"])
        for p in parsed["pct"]:
            want = ev["progress"] * 100 // ev["max"] if ev["max"] > 0 else 0
            if int(p) != want:
                bad = bad or "shows %s%% for %d/%d (exact: %d%%)" % (p, ev["progress"], ev["max"], want)
        # "exactly as wide as configured" is demanded when the three bar characters of the real object are single
        # characters (the hypothesis of Props.C16.bar_width, read off the real bar: obs["hyp"])
        if (hyp["single"] and hyp["bar_width_ok"]) if hyp is not None else (
                _single(case, "bar_char", None) and _single(case, "empty_char", "-") and _single(case, "progress_char", ">")):
            width = case["bar_width"] if case["bar_width"] is not None else 28
            for b in parsed["bar"]:
                if len(b) != width:
                    bad = bad or "bar segment %r is %d wide, configured %d" % (b, len(b), width)
        if bad is None:
            return parsed, None
        complaint = bad
    return None, complaint


def oracle(case, obs):
    kind = _eff(case["kind"])
    overwrite = kind in ("ansi", "section")
    term = _Term(case["columns"])
    message = case["message"]
    plain_out = ""
    last = None            # the fields of the latest frame
    last_write_t = None    # clock value of the latest call that wrote anything
    if any(w for w in obs.get("setup_writes", [])):
        return "bytes written before the first call"
    view = dict(case)      # what is configured at the moment of each call (setters may be called in the middle of a run)
    hyp = obs.get("hyp")
    # the maximum in force, as the CALLER gave it: the constructor's, replaced by every start(m) with an explicit m
    # (0 or less = no maximum, length unknown); a step beyond a maximum moves the maximum along, and finish() on a bar
    # without maximum makes the step reached the maximum.  Every frame is judged against THIS maximum as well.
    want_max = max(0, case["max"])
    for i, (op, ev) in enumerate(zip(case["ops"], obs["events"])):
        name = op["op"]
        where = "call %d %s(%s)" % (i, name, "" if op["arg"] is None else repr(op["arg"]))
        if name == "set_message" and ev["err"] is None:
            message = op["arg"]
        data = "".join(ev["w"])
        if name in SETTERS:
            if ev["err"] is not None:
                return "%s: the setter raised %s" % (where, ev["err"])
            if data:
                return "%s: a setter wrote %r" % (where, data[:60])
            if name == "set_min":
                if op["arg"] > 0:           # the API ignores a non-positive interval
                    view["min_ticks"] = op["arg"]
            else:
                view[SETTERS[name]] = op["arg"]
            if name in ("set_bar_width", "set_bar_char", "set_empty_char", "set_progress_char"):
                hyp = None      # the hypotheses read off the bar before the run no longer describe it
            continue
        if case["quiet"]:
            if data:
                return "%s: a quiet output received %r" % (where, data[:60])
            continue
        drew = False
        if data:
            if overwrite:
                term.feed(data)
                if term.unknown:
                    return "%s: unexpected control sequence %s" % (where, term.unknown)
                if term.overflow:
                    return None  # frame wider than the terminal: outside the stated scope
                screen = term.text()
                if name == "clear":
                    if screen.strip(" \n"):
                        return "%s: the line is not blank after clear(): %r" % (where, screen[:100])
                    last = None
                else:
                    parsed, bad = _check_frame(view, screen, message, ev, hyp)
                    if bad:
                        return "%s: the terminal shows %r which %s" % (where, screen[:120], bad)
                    last, drew = parsed, True
            else:
                body = data
                if plain_out:
                    if not data.startswith("\n"):
                        return "%s: frame %r does not start on its own line" % (where, data[:60])
                    body = data[1:]
                ctl = [ch for ch in body if (ord(ch) < 32 and ch != "\n") or ch == "\x7f"]
                if ctl:
                    return "%s: control code %r on a plain output" % (where, ctl[0])
                parsed, bad = _check_frame(view, body, message, ev, hyp)
                if bad:
                    return "%s: the line %r %s" % (where, body[:120], bad)
                plain_out += data
                last, drew = parsed, True
        if ev["err"] is not None:
            if data:
                last_write_t = ev["t"]
            want_max = ev["max"]
            continue
        if name == "start" and op["arg"] is not None:
            want_max = max(0, op["arg"])
        elif name in ("advance", "set_progress") and want_max > 0 and ev["progress"] > want_max:
            want_max = ev["progress"]
        elif name == "finish" and want_max == 0:
            want_max = ev["progress"]
        if ev["max"] != want_max:
            given = "the maximum given by the caller is %d" % want_max if want_max else "the caller gave no maximum (length unknown)"
            shown = (" and the frame shows %s" % "/".join(last["cur"][:1] + last["max"][:1])) if drew and last and last["max"] else ""
            return "%s: the bar works with maximum %d%s, %s" % (where, ev["max"], shown, given)
        # throttling: a redraw caused by advancing to a step other than the maximum comes at least the
        # minimum interval after the previous write
        if drew and name in ("advance", "set_progress") and ev["progress"] != ev["max"] and last_write_t is not None:
            if ev["t"] - last_write_t < view["min_ticks"]:
                return "%s: redrawn %d ticks after the previous write, minimum interval configured at this call %d ticks" % (
                    where, ev["t"] - last_write_t, view["min_ticks"])
        # reaching the maximum always draws
        if name in ("advance", "set_progress") and ev["max"] > 0 and ev["progress"] == ev["max"] and not drew:
            return "%s: reached the maximum %d without drawing" % (where, ev["max"])
        if name == "finish":
            if overwrite and not drew:
                return "%s: finish() did not draw" % where
            if last is None:
                return "%s: no frame on the output after finish()" % where
            if ev["progress"] != ev["max"]:
                return "%s: progress %d differs from the maximum %d after finish()" % (where, ev["progress"], ev["max"])
            for c in last["cur"]:
                if int(c) != ev["max"]:
                    return "%s: the last frame shows step %s, the maximum is %d" % (where, c, ev["max"])
            for x in last["max"]:
                if int(x) != ev["max"]:
                    return "%s: the last frame shows maximum %s, the maximum is %d" % (where, x, ev["max"])
            for p in last["pct"]:
                if ev["max"] > 0 and int(p) != 100:
                    return "%s: the last frame shows %s%% after finish()" % (where, p)
        if data:
            last_write_t = ev["t"]
    return None


# --------------------------------------------------------------------------- known findings
def known_class(case, obs, verdict):
    if _has_tag(case["format"]) and _eff(case["kind"]) in ("ansi", "section"):
        return "D29"
    return None


def witnesses():
    return {
        "D29": _case(kind="ansi", max=0, format="<info>%message%</info> %current%", message="a long message here",
                     ops=[_op("start"), _op("set_message", "short"), _op("advance", 1, 16)]),
    }


# --------------------------------------------------------------------------- statistics
def _pattern(obs):
    return "".join("D" if any(e["w"]) else ("E" if e["err"] else ".") for e in obs["events"])


def nontrivial_key(case, obs):
    pat = _pattern(obs)
    if "D" not in pat:
        return None
    import zlib
    data = "\x00".join("\x01".join(e["w"]) for e in obs["events"]).encode("utf-8")
    return "%s|%s|%s|%08x" % (case["kind"], pat, case["min_ticks"], zlib.crc32(data))


def bucket(case, obs):
    n = len(case["ops"])
    size = "0-4" if n <= 4 else "5-8" if n <= 8 else "9-20" if n <= 20 else "21-60"
    pat = _pattern(obs)
    kind = ("quiet-" if case["quiet"] else "") + case["kind"]
    return "%s len=%s %s%s" % (kind, size, "skips " if _has_skip(case, obs) else "",
                               "errors" if "E" in pat else "clean")


def _has_skip(case, obs):
    return any(o["op"] in ("advance", "set_progress") and not any(e["w"]) and not e["err"]
               for o, e in zip(case["ops"], obs["events"]))


# --------------------------------------------------------------------------- minimisation / search
def shrink(case):
    ops = case["ops"]
    n = len(ops)
    if n > 1:
        half = n // 2
        for part in (ops[:half], ops[half:]):
            c = dict(case)
            c["ops"] = list(part)
            yield c
    for i in range(n):
        c = dict(case)
        c["ops"] = ops[:i] + ops[i + 1:]
        yield c
    for key, simple in (("format", None), ("message", None), ("bar_width", None), ("bar_char", None),
                        ("empty_char", None), ("progress_char", None), ("verbosity", 0), ("redraw", None),
                        ("max_ticks", None), ("t0", T0), ("quiet", False)):
        if case[key] != simple:
            c = dict(case)
            c[key] = simple
            yield c
    for i, o in enumerate(ops):
        if o["dt"]:
            c = dict(case)
            c["ops"] = ops[:i] + [dict(o, dt=0)] + ops[i + 1:]
            yield c
        if isinstance(o["arg"], int) and o["arg"] not in (0, 1):
            c = dict(case)
            c["ops"] = ops[:i] + [dict(o, arg=1)] + ops[i + 1:]
            yield c
        if isinstance(o["arg"], str) and len(o["arg"]) > 1:
            c = dict(case)
            c["ops"] = ops[:i] + [dict(o, arg=o["arg"][:len(o["arg"]) // 2])] + ops[i + 1:]
            yield c


def neighbours(case):
    ops = case["ops"]
    for kind in KINDS:
        if kind != case["kind"]:
            c = dict(case)
            c["kind"] = kind
            yield c
    for mt in (0, 8):
        if mt != case["min_ticks"]:
            c = dict(case)
            c["min_ticks"] = mt
            yield c
    for mx in MAXIMA:
        if mx != case["max"]:
            c = dict(case)
            c["max"] = mx
            yield c
    for i, o in enumerate(ops):
        for dt in DTS:
            if dt != o["dt"]:
                c = dict(case)
                c["ops"] = ops[:i] + [dict(o, dt=dt)] + ops[i + 1:]
                yield c
        if o["op"] == "start":
            for a in (None, 0, 1, case["max"]):
                if a != o["arg"]:
                    c = dict(case)
                    c["ops"] = ops[:i] + [dict(o, arg=a)] + ops[i + 1:]
                    yield c
        if isinstance(o["arg"], int):
            for d in (-1, 1):
                if o["op"] in SETTERS and o["arg"] + d < 1:
                    continue
                c = dict(case)
                c["ops"] = ops[:i] + [dict(o, arg=o["arg"] + d)] + ops[i + 1:]
                yield c
    for i in range(len(ops) + 1):
        for extra in (_op("display"), _op("advance", 1, 0), _op("finish"), _op("set_message", "a considerably longer message"),
                      _op("set_min", 128), _op("set_min", 1), _op("set_bar_width", 7)):
            c = dict(case)
            c["ops"] = ops[:i] + [extra] + ops[i:]
            yield c
