"""
C03 - the resolver selects the deepest command named by the leading tokens.

Cases: generated command trees (depth <= 3, fan-out <= 3, aliases incl. colliding ones, default /
anonymous / hidden / disabled commands, formats with arguments and options, lenient commands)
x command lines (partial / wrong / alias-spelled path + arguments + options + optional `--` tail).
The real DefaultResolver (through ConsoleApplication.resolve_command on a bare ApplicationConfig)
is compared with the Lean model, which gets the tree - including each command's flattened args
format - from the REAL Command objects.  The oracle re-states the selection rule declaratively.
"""
from harness import app_common as ac
from harness import parser_common as pc

ID = "C03"
DESIGN_REF = "6/C03"
LEAN_MODULES = ["Clikit.Props.C03"]
REQUIRED_THEOREMS = ["Clikit.Props.C03." + n for n in (
    "lead_eq_takeWhile", "tail_never_names", "options_after_path", "walk_none_iff", "walk_deepest", "alias_invariant",
    "resolve_unknown_first", "resolve_no_lead", "resolve_deepest", "pickDefault_first_parsable",
    "pickDefault_none_parsable", "sameLookupsB_sound", "alias_invariant_decided", "get?_alias", "lead_of_path",
    "walk_from_some", "IsPath.unique")]
TECHNIQUE = ("Lean 4 theorems on a model of DefaultResolver/CommandCollection (longest-prefix walk against a declarative "
             "path relation, alias invariance, options/tail never name commands) + differential correspondence on "
             "generated trees x lines, with a declarative oracle")
LEVEL_TEXT = ("Proved in Lean for EVERY command tree (any depth/fan-out) and token list, on a model of DefaultResolver / "
              "CommandCollection / ResolveResult: the leading tokens are the longest prefix of name-like tokens (nothing after "
              "`--`, nothing after the first option); the walk reaches the command named by the LONGEST prefix of the leading "
              "tokens that is a path of commands (stated against a declarative path relation written independently of the "
              "walk, with maximality), finds nothing iff the first token names no command (then: undefined-command error "
              "without any parse); respellings with the same lookups (aliases) never change the walk; the default "
              "(sub-)command rule (first parsable, else first) and the three shapes of resolve. The model is tied to the code "
              "by differential runs on generated trees x lines, the tree (incl. each command's flattened format) being read "
              "from the real Command objects.")
LEVEL_NOTE = ("Trusted: Lean kernel + standard axioms; the hand-written resolver model and the parser model it calls (modelled, "
              "not verified; compared with the real resolver on every generated case); harness/app_common.py. Sibling "
              "commands with the SAME NAME (dict overwrite in CommandCollection) are modelled but not generated (the "
              "application rejects them at top level). The selection among default sub-commands depends on parsability, so "
              "'adding options never changes the selection' is proved for the walk (the path), not for that choice. "
              "alias_invariant assumes that the two spellings look up the same commands level by level (SameLookups - a fact "
              "about the real tree: names shadow aliases, a later registration of a colliding alias wins); it is decided by "
              "the model (sameLookupsB, sound by sameLookupsB_sound, entry c03.same) on the tree read from the real "
              "application for the leading tokens of every line against two respellings (found command's name: must be "
              "true; its last alias: compared with the identity of the objects the real collections return), and the oracle "
              "requires the same selection whenever the real collections find the same objects.")
RULE = ("generated trees (depth<=3, fan-out<=3, aliases incl. colliding, default/anonymous/hidden/disabled, lenient) x 6 "
        "lines each (full/partial/wrong paths spelled with names or aliases, then arguments, options, optional -- tail "
        "containing command names); non-trivial = the line has >= 1 leading token or the app has a default command; "
        "distinct = (tree, tokens)")
TRUSTED_BASE = [
    "Lean 4.33 kernel; axioms within propext, Classical.choice, Quot.sound (audited per theorem on every run)",
    "lean/Clikit/Model/Resolver.lean + Model/Parser.lean: hand-written models (modelled, not verified; tied by the correspondence)",
    "harness/app_common.py, harness/props/c03.py: tree/line generators, extraction of the tree from the real Command objects, declarative oracle",
]
ASSUMPTIONS = [
    "sibling commands have distinct names in generated trees (aliases may collide with names and with each other)",
    "alias_invariant's hypothesis SameLookups is no longer only assumed: decided by the model on every generated tree x line "
    "(c03.same) and compared with the real collections; all other hypotheses of the C03 theorems are case conditions on the "
    "universally quantified tree and tokens (which shape of resolve applies), not facts taken from the real objects",
    "a bare ApplicationConfig with the DefaultResolver (no help/version listeners: those are C09's subject)",
]
BATCH = 1500

WORDS = ["x", "zzz", "7", "abc"]


def _lines(rng, tree):
    cmds = ac.enabled(tree["commands"])
    out = []
    for _ in range(6):
        toks = []
        level = cmds
        node = None
        depth = rng.randint(0, 3)
        for d in range(depth):
            named = [c for c in level if not c["anonymous"]]
            r = rng.random()
            if not named or r < 0.12:
                toks.append(rng.choice(["nope", "ad", "servr"]))      # names nothing
                break
            node = rng.choice(named)
            toks.append(rng.choice([node["name"]] + node["aliases"]) if rng.random() < 0.5 else node["name"])
            level = ac.enabled(node["subs"])
        # one argv element that merely LOOKS like a path: two names joined by a blank, a name with a blank around
        # it, another case, a proper prefix - it names a command only if it IS a name or alias of the level
        if toks and rng.random() < 0.12:
            r = rng.random()
            if r < 0.5 and len(toks) >= 2:
                j = rng.randrange(len(toks) - 1)
                toks[j:j + 2] = [toks[j] + " " + toks[j + 1]]
            else:
                j = rng.randrange(len(toks))
                t = toks[j]
                toks[j] = rng.choice([t + " ", " " + t, t.upper(), t.capitalize(), t[:-1] or "x", t + ":" + t])
            node, level = None, cmds
            for t in toks:
                c = _lookup(level, t)
                if c is None:
                    break
                node, level = c, ac.enabled(c["subs"])
        # arguments / options / tail: mostly what the selected command takes, sometimes noise
        target = node
        if node is not None:
            dflt = [c for c in ac.enabled(node["subs"]) if c["default"]]
            if dflt:
                target = dflt[0]
        elif depth == 0:
            dflt = [c for c in cmds if c["default"]]
            target = dflt[0] if dflt else None
        valid = rng.random() < 0.65 and target is not None
        if valid:
            args = target["args"]
            n_req = len([a for a in args if a["mode"] in ("required", "multi_required")])
            k = rng.randint(n_req, len(args))
            vals = []
            for a in args[:k]:
                v = pc.value_for(rng, a["type"], a["nullable"])
                vals.append(v if not v.startswith("-") else "x")
            extra = []
            if tree.get("global_flag") and rng.random() < 0.4:
                extra.append(rng.choice(["--gflag", "-g"]))
            for o in (target["opts"] if rng.random() < 0.5 else []):
                if o["mode"] == "flag":
                    extra.append("--" + o["long"])
                elif o["mode"] == "required" or rng.random() < 0.5:
                    extra.append("--%s=%s" % (o["long"], pc.value_for(rng, o["type"], o["nullable"], True)))
            rng.shuffle(extra)
            # options spelled like sub-commands of the reached command, not as the first option after the path
            like = [o for o in (node["opts"] if node is not None else []) if o.get("named_like_sub")]
            if like and rng.random() < 0.7:
                first = ["--gflag"] if tree.get("global_flag") else []
                extra = first + ["--" + rng.choice(like)["long"]] + extra
            toks += vals[:1] + extra + vals[1:] if rng.random() < 0.5 else extra + vals
        for _ in range(0 if valid else rng.randint(0, 3)):
            r = rng.random()
            if r < 0.45:
                toks.append(rng.choice(WORDS))
            elif r < 0.6:
                toks.append("--gflag" if tree.get("global_flag") else "-g")
            elif r < 0.75 and node is not None and node["opts"]:
                o = rng.choice(node["opts"])
                toks.append("--" + o["long"])
                if o["mode"] in ("required",) or (o["mode"] == "optional" and rng.random() < 0.5):
                    toks.append(pc.value_for(rng, o["type"], o["nullable"]))
            elif r < 0.85:
                toks.append(rng.choice(["--unknown", "-Y", "", "-"]))
            else:
                toks.append(rng.choice(["add", "show", "server", "now"]))
        if rng.random() < 0.25:
            toks.append("--")
            toks += [rng.choice(["add", "show", "server", "x", "--gflag"]) for _ in range(rng.randint(0, 2))]
        out.append(toks)
    return out


def generate(tier, rng):
    n = 700 if tier == "quick" else 12000
    for _ in range(n):
        tree = ac.gen_tree(rng)
        for toks in _lines(rng, tree):
            yield {"tree": tree, "tokens": toks}


def exhaustive(tier):
    return False


def _resolve(app, tokens):
    from clikit.args.argv_args import ArgvArgs
    try:
        rc = app.resolve_command(ArgvArgs(["prog"] + list(tokens)))
    except Exception as e:  # noqa
        return {"err": type(e).__name__}
    a = rc.args
    return {"ok": {"path": ac.path_of(rc.command),
                   "args_set": sorted([[k, pc.enc(v)] for k, v in a.arguments(False).items()]),
                   "opts_set": sorted([[k, pc.enc(v)] for k, v in a.options(False).items()])}}


def _parsable(cmd, tokens):
    """does the command's own (strict or configured) parse raise the cannot-parse error?"""
    from clikit.api.args.exceptions import CannotParseArgsException
    from clikit.args.argv_args import ArgvArgs
    try:
        cmd.parse(ArgvArgs(["prog"] + list(tokens)))
        return True
    except CannotParseArgsException:
        return False
    except Exception:  # noqa - other exceptions propagate out of the resolver
        return None


def _objs(app, names):
    """the Command OBJECTS the names find, level by level through the REAL collections; the list ends with None at
    the first name that finds nothing (nothing is looked up after it)"""
    coll = app.named_commands
    out = []
    for n in names:
        if n not in coll:
            out.append(None)
            break
        c = coll.get(n)
        out.append(c)
        coll = c.named_sub_commands
    return out


def _respellings(app, lead):
    """two respellings of the leading tokens (same length): every token that finds a command replaced (a) by that
    command's name, (b) by the last of its aliases (if it has one).  For each: does it find the very same objects
    (the hypothesis SameLookups of alias_invariant, on the real collections)?"""
    found = _objs(app, lead)
    found = found + [None] * (len(lead) - len(found))
    canon = [c.name if c is not None else t for t, c in zip(lead, found)]
    alias = [c.aliases[-1] if c is not None and c.aliases else t for t, c in zip(lead, found)]

    def same(a, b):
        oa, ob = _objs(app, a), _objs(app, b)
        return len(oa) == len(ob) and all(x is y for x, y in zip(oa, ob))
    return {"canon": canon, "alias": alias, "same_canon": same(lead, canon), "same_alias": same(lead, alias)}


def run_impl(case):
    from clikit.resolver.default_resolver import DefaultResolver
    app = ac.build_app(case["tree"])
    tokens = case["tokens"]
    obs = {"res": _resolve(app, tokens), "nodes": ac.extract_app(app)}
    r = DefaultResolver()
    obs["lead"] = r.get_arguments_to_test(iter(tokens))
    rs = _respellings(app, obs["lead"])
    obs["respell"] = rs
    k = len(obs["lead"])
    obs["res_canon"] = _resolve(app, rs["canon"] + tokens[k:])
    obs["res_alias"] = _resolve(app, rs["alias"] + tokens[k:])
    if "--" in tokens:
        k = tokens.index("--")
        obs["lead_cut"] = r.get_arguments_to_test(iter(tokens[:k + 1]))
    # facts the declarative oracle needs: which (default) commands can parse this line
    facts = {}

    def walk(cmd, path):
        p = path + [cmd.name]
        facts["/".join(p)] = _parsable(cmd, tokens)
        for s in cmd.sub_commands:
            walk(s, p)
    for c in app.commands:
        walk(c, [])
    obs["parsable"] = facts
    # alias variant: every leading token that is an alias replaced by the command's name, and vice versa
    return obs


def model_requests(case):
    app = ac.build_app(case["tree"])
    nodes = ac.extract_app(app)
    ints, floats = pc.conv_tables(ac.all_texts(nodes, case["tokens"]))
    # the hypothesis of alias_invariant (SameLookups), decided by the model on the tree read from the REAL application
    # for the leading tokens against their two respellings (theorem sameLookupsB_sound)
    from clikit.resolver.default_resolver import DefaultResolver
    lead = DefaultResolver().get_arguments_to_test(iter(case["tokens"]))
    rs = _respellings(app, lead)
    return [{"m": "c03.resolve", "commands": nodes, "tokens": case["tokens"], "ints": ints, "floats": floats},
            {"m": "c03.lead", "tokens": case["tokens"]},
            {"m": "c03.same", "commands": nodes, "names": lead, "names2": rs["canon"]},
            {"m": "c03.same", "commands": nodes, "names": lead, "names2": rs["alias"]}]


def model_obs(case, answers):
    r = answers[0]
    if "ok" in r:
        o = r["ok"]
        r = {"ok": {"path": o["path"], "args_set": sorted(o["args_set"]), "opts_set": sorted(o["opts_set"])}}
    return {"res": r, "lead": answers[1], "same_canon": answers[2], "same_alias": answers[3]}


def impl_view(case, obs):
    # same_canon: a command is always found under its own name (sibling names are distinct): must be true;
    # same_alias: an alias may be shadowed by a sibling's name or a later registration: whatever the real collections say
    return {"res": obs["res"], "lead": obs["lead"], "same_canon": True, "same_alias": obs["respell"]["same_alias"]}


# ---- the statement, declaratively ------------------------------------------------------------
def _lookup(level, name):
    """CommandCollection.get over the enabled, non-anonymous commands of a level (spec dicts):
    by name first, then by alias (the LAST registration of an alias wins)"""
    named = [c for c in level if not c["anonymous"]]
    for c in named:
        if c["name"] == name:
            return c
    hit = None
    for c in named:
        if name in c["aliases"]:
            hit = c
    return hit


def _expected(case, obs):
    tree = case["tree"]
    tokens = case["tokens"]
    ls = []
    for t in tokens:
        if t == "" or t == "--" or t.startswith("-"):
            break
        ls.append(t)
    level = ac.enabled(tree["commands"])
    path, node = [], None
    for t in ls:
        c = _lookup(level, t)
        if c is None:
            break
        node = c
        path.append(c["name"])
        level = ac.enabled(c["subs"])
    if node is None and ls:
        return {"err": "CannotResolveCommandException"}, ls
    cands = [c for c in (ac.enabled(node["subs"]) if node else ac.enabled(tree["commands"])) if c["default"]]
    chosen = None
    for c in cands:
        p = obs["parsable"]["/".join(path + [c["name"]])]
        if p is None:
            return {"propagates": "/".join(path + [c["name"]])}, ls
        if p:
            chosen = path + [c["name"]]
            break
    if chosen is None and cands:
        chosen = path + [cands[0]["name"]]
    if chosen is None:
        if node is None:
            return {"err": "CannotResolveCommandException"}, ls
        chosen = path
    p = obs["parsable"]["/".join(chosen)]
    if p is None:
        return {"propagates": "/".join(chosen)}, ls
    if not p:
        return {"err": "CannotParseArgsException"}, ls
    return {"path": chosen}, ls


def _selection(res):
    return res["ok"]["path"] if "ok" in res else res["err"]


def oracle(case, obs):
    want, ls = _expected(case, obs)
    if obs["lead"] != ls:
        return "leading tokens %r, the statement's leading non-option tokens are %r" % (obs["lead"], ls)
    if "lead_cut" in obs and obs["lead_cut"] != obs["lead"]:
        return "tokens after `--` changed the leading tokens: %r vs %r" % (obs["lead"], obs["lead_cut"])
    res = obs["res"]
    # replacing a name on the path by an alias (or an alias by the name) that denotes the same command never changes
    # the selection
    rs = obs["respell"]
    if not rs["same_canon"]:
        return "the commands found by %r are not found under their own names %r" % (ls, rs["canon"])
    for key in ("canon", "alias"):
        if rs["same_" + key]:
            other = obs["res_" + key]
            if _selection(other) != _selection(res):
                return "respelling the path %r as %r (same commands) changes the selection: %s vs %s" % (
                    ls, rs[key], str(res)[:150], str(other)[:150])
    if "propagates" in want:
        if "err" not in res or res["err"] in ("CannotParseArgsException", "CannotResolveCommandException"):
            return "the parse of %s raises a non-parse error which must propagate, got %s" % (want["propagates"], res)
        return None
    if "err" in want:
        if res.get("err") != want["err"]:
            return "expected %s, got %s" % (want["err"], str(res)[:200])
        return None
    if "ok" not in res or res["ok"]["path"] != want["path"]:
        return "selected %s, the statement selects %s" % (str(res)[:200], want["path"])
    return None


def nontrivial_key(case, obs):
    import json
    if obs["lead"] or any(c["default"] for c in ac.enabled(case["tree"]["commands"])):
        return json.dumps([case["tree"], case["tokens"]], sort_keys=True)
    return None


def bucket(case, obs):
    r = obs["res"]
    if "err" in r:
        return "err=%s|lead=%d" % (r["err"], len(obs["lead"]))
    return "ok|depth=%d|lead=%d" % (len(r["ok"]["path"]), len(obs["lead"]))


def shrink(case):
    t = case["tokens"]
    for i in range(len(t)):
        yield {"tree": case["tree"], "tokens": t[:i] + t[i + 1:]}
    cmds = case["tree"]["commands"]
    for i in range(len(cmds)):
        if len(cmds) > 1:
            tr = dict(case["tree"])
            tr["commands"] = cmds[:i] + cmds[i + 1:]
            yield {"tree": tr, "tokens": t}
