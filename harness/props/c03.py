"""
C03 - the resolver selects the deepest command named by the leading tokens.

Cases: generated command trees (depth <= 3, fan-out <= 3, aliases incl. colliding ones, default /
anonymous / hidden / disabled commands, formats with arguments and options, lenient commands)
x command lines (partial / wrong / alias-spelled path + arguments + options + optional `--` tail).
The real DefaultResolver (through ConsoleApplication.resolve_command on a bare ApplicationConfig)
is compared with the Lean model, which gets the tree - including each command's flattened args
format - from the REAL Command objects.  The oracle re-states the selection rule declaratively.

The trees are configured the way an application author may do it: aliases one by one (add_alias) or
through the bulk setters (add_aliases, set_aliases) with list objects the caller owns - one list handed
to several commands, the list another command's config hands out, the caller appending to its list
afterwards - and sub-commands attached one by one or with one call of add_(sub_)command_configs.  The
oracle judges the selection on the tree AS CONFIGURED PER COMMAND (what each call said when it was
made); the model of the configuration calls (Model/AliasCfg.lean, entry c03.aliases) is compared with
the aliases of every real command config.

About a third of the cases resolve 1-3 other lines (`before`) on the SAME application first (an application object is
long-lived and caches its resolver): the line of the case - more than half of the time one with no leading token that
names a command, after lines that reached deep commands - must select what the statement says and what it selects
alone on a fresh application; the whole history is compared with the model (c03.history, resolveHistory).
"""
from harness import app_common as ac
from harness import parser_common as pc

ID = "C03"
DESIGN_REF = "6/C03"
LEAN_MODULES = ["Clikit.Props.C03"]
REQUIRED_THEOREMS = ["Clikit.Props.C03." + n for n in (
    "lead_eq_takeWhile", "tail_never_names", "options_after_path", "walk_none_iff", "walk_deepest", "alias_invariant",
    "resolve_unknown_first", "resolve_no_lead", "resolve_deepest", "pickDefault_first_parsable",
    "pickDefault_none_parsable", "sameLookupsB_sound", "alias_invariant_decided", "get?_alias", "lead_of_path",
    "walk_from_some", "IsPath.unique", "aliases_frame", "aliases_frame_run", "set_list_keeps", "set_from_keeps",
    "shared_list_siblings", "history_each_alone", "history_nth_alone", "history_no_lead", "history_unknown_first")]
TECHNIQUE = ("Lean 4 theorems on a model of DefaultResolver/CommandCollection (longest-prefix walk against a declarative "
             "path relation, alias invariance, options/tail never name commands) + differential correspondence on "
             "generated trees x lines, with a declarative oracle")
LEVEL_TEXT = ("Proved in Lean for EVERY command tree (any depth/fan-out) and token list, on a model of DefaultResolver / "
              "CommandCollection / ResolveResult: the leading tokens are the longest prefix of name-like tokens (nothing after "
              "`--`, nothing after the first option); the walk reaches the command named by the LONGEST prefix of the leading "
              "tokens that is a path of commands (stated against a declarative path relation written independently of the "
              "walk, with maximality), finds nothing iff the first token names no command (then: undefined-command error "
              "without any parse); respellings with the same lookups (aliases) never change the walk; the default "
              "(sub-)command rule (first parsable, else first) and the three shapes of resolve. The aliases a command is "
              "configured with (Model/AliasCfg.lean: add_alias / add_aliases / set_aliases with caller-owned, possibly shared "
              "lists): a call on another command's config or a change of a caller's list never changes them "
              "(aliases_frame, aliases_frame_run, set_list_keeps, set_from_keeps, shared_list_siblings). Several resolves on one "
              "application (one cached resolver object; resolveHistory threads the command the previous call reached through "
              "the calls): every call answers what its line answers alone, a line without leading tokens selects among the "
              "default commands and an unknown first token is undefined after ANY history (history_each_alone, "
              "history_nth_alone, history_no_lead, history_unknown_first). The model is tied to the code "
              "by differential runs on generated trees x lines, the tree (incl. each command's flattened format) being read "
              "from the real Command objects; the configuration model by comparing, on every case, the aliases of every real "
              "command config with the model's answer to the same calls (c03.aliases).")
LEVEL_NOTE = ("Trusted: Lean kernel + standard axioms; the hand-written resolver model and the parser model it calls (modelled, "
              "not verified; compared with the real resolver on every generated case); harness/app_common.py. Sibling "
              "commands with the SAME NAME (dict overwrite in CommandCollection) are modelled but not generated (the "
              "application rejects them at top level). The selection among default sub-commands depends on parsability, so "
              "'adding options never changes the selection' is proved for the walk (the path), not for that choice. "
              "alias_invariant assumes that the two spellings look up the same commands level by level (SameLookups - a fact "
              "about the real tree: names shadow aliases, a later registration of a colliding alias wins); it is decided by "
              "the model (sameLookupsB, sound by sameLookupsB_sound, entry c03.same) on the tree read from the real "
              "application for the leading tokens of every line against two respellings (found command's name: must be "
              "true; its last alias: compared with the identity of the objects the real collections return), and the oracle "
              "requires the same selection whenever the real collections find the same objects. The resolver model works "
              "on the tree read from the real objects, so a configuration call that reaches a command it was not made on "
              "shows (a) as a difference between the real configs' aliases and the configuration model (value semantics: "
              "modelled, compared on every case) and (b) in the oracle, which walks the tree as configured per command.")
RULE = ("generated trees (depth<=3, fan-out<=3, aliases incl. colliding, default/anonymous/hidden/disabled, lenient) x 6 "
        "lines each (full/partial/wrong paths spelled with names or aliases, then arguments, options, optional -- tail "
        "containing command names); half of the trees are configured through the bulk setters with caller-owned lists "
        "(per command: add_alias one by one | add_aliases | add_alias then set_aliases (replaces) | set_aliases / "
        "add_aliases with a list object that other commands - preferably of the same name in another branch - are "
        "given too, followed by one more add_alias for this command only or by the caller appending to its list | "
        "set_aliases(other.aliases) followed by add_alias; sub-commands / commands attached with one call of "
        "add_sub_command_configs / add_command_configs on a list the caller then appends a decoy to); path tokens are "
        "also drawn from the words that are aliases ELSEWHERE in the tree or only passed through a configuration call; non-trivial = the line has >= 1 leading token or the app has a default command; "
        "about 30 % of the cases first resolve 1-3 other lines on the SAME application (lines of the same tree, or lines "
        "walking as deep into the tree as they can, by names or aliases, with or without the values the command wants) "
        "and then the line of the case, which in 55 % of them is turned into a line with no leading token naming a "
        "command (empty | an option first | `--` first | an unknown first word); every call of the history is compared "
        "with the model, the last one with the statement and with the same line on a fresh application; "
        "distinct = (tree, tokens, earlier lines)")
TRUSTED_BASE = [
    "Lean 4.33 kernel; axioms within propext, Classical.choice, Quot.sound (audited per theorem on every run)",
    "lean/Clikit/Model/Resolver.lean + Model/Parser.lean: hand-written models (modelled, not verified; tied by the correspondence)",
    "harness/app_common.py, harness/props/c03.py: tree/line generators, extraction of the tree from the real Command objects, declarative oracle",
    "lean/Clikit/Model/AliasCfg.lean: hand-written model of the alias configuration calls (value semantics); the oracle's own "
    "reading of the calls (c03._AliasValues) is written independently of app_common._alias_ops, which makes the real calls",
]
ASSUMPTIONS = [
    "sibling commands have distinct names in generated trees (aliases may collide with names and with each other)",
    "alias_invariant's hypothesis SameLookups is no longer only assumed: decided by the model on every generated tree x line "
    "(c03.same) and compared with the real collections; all other hypotheses of the C03 theorems are case conditions on the "
    "universally quantified tree and tokens (which shape of resolve applies), not facts taken from the real objects",
    "a bare ApplicationConfig with the DefaultResolver (no help/version listeners: those are C09's subject)",
    "one application object may resolve any number of lines one after the other (its config caches the resolver): the "
    "selection of a line is a function of the tree and the line, never of the lines resolved before (histories of 1-3 "
    "earlier lines are generated; the model states it for every history)",
    "the tree 'as configured' is what each configuration call said when it was made: a list handed to a setter stays the "
    "caller's (sharing it, or changing it afterwards, configures nothing); the configuration is finished before the "
    "application is built",
]
BATCH = 1500

WORDS = ["x", "zzz", "7", "abc"]
EXTRA_ALIASES = ["detach", "del", "mk", "up", "x"]


# ---- how the aliases get configured ------------------------------------------------------------
# `spec["alias_ops"]` (see app_common._alias_ops) = the calls made on the command's config, in order, with list objects
# the caller owns: add_alias / add_aliases / set_aliases with fresh lists, with ONE list object handed to several
# commands, with the list another command's config hands out, the caller appending to its list afterwards.  What a
# command is configured with is what the calls said when they were made.
def _preorder(cmds, path=()):
    """commands in the order they are configured"""
    for c in cmds:
        yield c, path
        for x in _preorder(c["subs"], path + (c["name"],)):
            yield x


class _AliasValues(object):
    """the aliases each command is configured with, by the plain reading of the calls (value semantics); written
    independently of app_common._alias_ops, which makes the calls on the real configs with shared list objects"""

    def __init__(self):
        self.lists, self.cmds = {}, {}

    def command(self, spec, path):
        if "alias_ops" not in spec:
            al = list(spec["aliases"])
        else:
            al = []
            for op in spec["alias_ops"]:
                k = op[0]
                if k == "add":
                    al = al + [op[1]]
                elif k == "adds":
                    al = al + list(op[1])
                elif k == "set":
                    al = list(op[1])
                elif k == "set_list":
                    al = list(self.lists.setdefault(op[1], list(op[2])))
                elif k == "adds_list":
                    al = al + list(self.lists.setdefault(op[1], list(op[2])))
                elif k == "append_list":
                    if op[1] in self.lists:
                        self.lists[op[1]] = self.lists[op[1]] + [op[2]]
                elif k == "set_from":
                    other = self.cmds.get(tuple(op[1]))
                    al = list(other if other is not None else op[2])
        self.cmds[tuple(path) + (spec["name"],)] = al
        return al


def _configured(tree):
    """the tree with every command's `aliases` = what its configuration calls say"""
    import copy
    tree = copy.deepcopy(tree)
    ev = _AliasValues()
    for c, path in _preorder(tree["commands"]):
        c["aliases"] = ev.command(c, path)
    return tree


def _alias_setup(rng, tree):
    """about half of the trees are configured through the bulk setters / adders with caller-owned lists"""
    if rng.random() < 0.5:
        return tree
    ev = _AliasValues()
    done = []
    for c, path in _preorder(tree["commands"]):
        al = list(c["aliases"])
        r = rng.random()
        extra = rng.choice(EXTRA_ALIASES)
        ops = None
        if r < 0.30:
            pass                                                   # add_alias, one by one
        elif r < 0.38:
            ops = [["adds", al]]
        elif r < 0.50:
            ops = ([["add", extra]] if rng.random() < 0.5 else []) + [["set", al]]     # set_aliases REPLACES
        elif r < 0.85:
            keys = sorted(ev.lists)
            same = [k for k in keys if k.split("#")[0] == c["name"]]
            if same and rng.random() < 0.8:
                key = rng.choice(same)                              # the list a command of the same name got
            elif keys and rng.random() < 0.4:
                key = rng.choice(keys)
            else:
                key = "%s#%d" % (c["name"], len(keys))
            value = list(ev.lists.get(key, al))
            ops = [["set_list" if rng.random() < 0.85 else "adds_list", key, value]]
            r2 = rng.random()
            if r2 < 0.45:
                ops.append(["add", extra])                          # one more alias for THIS command only
            elif r2 < 0.65:
                ops.append(["append_list", key, extra])             # the caller goes on using its list
        elif done:
            other = rng.choice(done)
            ops = [["set_from", list(other), list(ev.cmds[other])]]
            if rng.random() < 0.6:
                ops.append(["add", extra])
        if ops is not None:
            c["alias_ops"] = ops
        c["aliases"] = ev.command(c, path)
        done.append(tuple(path) + (c["name"],))
        if c["subs"] and rng.random() < 0.12:
            c["subs_via"] = "bulk"
    if rng.random() < 0.12:
        tree["commands_via"] = "bulk"
    return tree


def _alias_words(tree):
    """every word that is (or was, in some call or caller-owned list) an alias somewhere in the tree; first the words
    added AFTER a list was handed over (`hot`: the ones that must not travel)"""
    hot, out = [], []
    for c, _ in _preorder(tree["commands"]):
        ws = list(c["aliases"])
        handed = False
        for op in c.get("alias_ops", []):
            k = op[0]
            if k == "add":
                ws.append(op[1])
                if handed:
                    hot.append(op[1])
            elif k in ("adds", "set"):
                ws.extend(op[1])
            elif k in ("set_list", "adds_list", "set_from"):
                ws.extend(op[2])
                handed = True
            elif k == "append_list":
                ws.append(op[2])
                hot.append(op[2])
        if c.get("subs_via") == "bulk":
            hot.append("decoy")
        out.extend(ws)
    if tree.get("commands_via") == "bulk":
        hot.append("decoy")
    res = []
    for w in hot + out:
        if w not in res:
            res.append(w)
    return res, len(set(hot))


def _lines(rng, tree):
    cmds = ac.enabled(tree["commands"])
    elsewhere, n_hot = _alias_words(tree)
    p_else = 0.30 if n_hot else 0.2
    out = []
    for _ in range(6):
        toks = []
        level = cmds
        node = None
        depth = rng.randint(0, 3)
        for d in range(depth):
            named = [c for c in level if not c["anonymous"]]
            r = rng.random()
            if not named or r < 0.12:
                toks.append(rng.choice(["nope", "ad", "servr"]))      # names nothing
                break
            if r < p_else and elsewhere:
                # an alias of some OTHER command of the tree (or a word that only passed through a configuration
                # call): it names a command here only if it is a name or alias configured at this level
                w = rng.choice(elsewhere[:n_hot]) if n_hot and rng.random() < 0.6 else rng.choice(elsewhere)
                toks.append(w)
                c = _lookup(level, w)
                if c is None:
                    break
                node, level = c, ac.enabled(c["subs"])
                continue
            node = rng.choice(named)
            toks.append(rng.choice([node["name"]] + node["aliases"]) if rng.random() < 0.5 else node["name"])
            level = ac.enabled(node["subs"])
        # one argv element that merely LOOKS like a path: two names joined by a blank, a name with a blank around
        # it, another case, a proper prefix - it names a command only if it IS a name or alias of the level
        if toks and rng.random() < 0.12:
            r = rng.random()
            if r < 0.5 and len(toks) >= 2:
                j = rng.randrange(len(toks) - 1)
                toks[j:j + 2] = [toks[j] + " " + toks[j + 1]]
            else:
                j = rng.randrange(len(toks))
                t = toks[j]
                toks[j] = rng.choice([t + " ", " " + t, t.upper(), t.capitalize(), t[:-1] or "x", t + ":" + t])
            node, level = None, cmds
            for t in toks:
                c = _lookup(level, t)
                if c is None:
                    break
                node, level = c, ac.enabled(c["subs"])
        # arguments / options / tail: mostly what the selected command takes, sometimes noise
        target = node
        if node is not None:
            dflt = [c for c in ac.enabled(node["subs"]) if c["default"]]
            if dflt:
                target = dflt[0]
        elif depth == 0:
            dflt = [c for c in cmds if c["default"]]
            target = dflt[0] if dflt else None
        valid = rng.random() < 0.65 and target is not None
        if valid:
            args = target["args"]
            n_req = len([a for a in args if a["mode"] in ("required", "multi_required")])
            k = rng.randint(n_req, len(args))
            vals = []
            for a in args[:k]:
                v = pc.value_for(rng, a["type"], a["nullable"])
                vals.append(v if not v.startswith("-") else "x")
            extra = []
            if tree.get("global_flag") and rng.random() < 0.4:
                extra.append(rng.choice(["--gflag", "-g"]))
            for o in (target["opts"] if rng.random() < 0.5 else []):
                if o["mode"] == "flag":
                    extra.append("--" + o["long"])
                elif o["mode"] == "required" or rng.random() < 0.5:
                    extra.append("--%s=%s" % (o["long"], pc.value_for(rng, o["type"], o["nullable"], True)))
            rng.shuffle(extra)
            # options spelled like sub-commands of the reached command, not as the first option after the path
            like = [o for o in (node["opts"] if node is not None else []) if o.get("named_like_sub")]
            if like and rng.random() < 0.7:
                first = ["--gflag"] if tree.get("global_flag") else []
                extra = first + ["--" + rng.choice(like)["long"]] + extra
            toks += vals[:1] + extra + vals[1:] if rng.random() < 0.5 else extra + vals
        for _ in range(0 if valid else rng.randint(0, 3)):
            r = rng.random()
            if r < 0.45:
                toks.append(rng.choice(WORDS))
            elif r < 0.6:
                toks.append("--gflag" if tree.get("global_flag") else "-g")
            elif r < 0.75 and node is not None and node["opts"]:
                o = rng.choice(node["opts"])
                toks.append("--" + o["long"])
                if o["mode"] in ("required",) or (o["mode"] == "optional" and rng.random() < 0.5):
                    toks.append(pc.value_for(rng, o["type"], o["nullable"]))
            elif r < 0.85:
                toks.append(rng.choice(["--unknown", "-Y", "", "-"]))
            else:
                toks.append(rng.choice(["add", "show", "server", "now"]))
        if rng.random() < 0.25:
            toks.append("--")
            toks += [rng.choice(["add", "show", "server", "x", "--gflag"]) for _ in range(rng.randint(0, 2))]
        out.append(toks)
    return out


# ---- several resolves on ONE application ----------------------------------------------------------
# An application object is long-lived (a shell front-end, a test harness calling run() repeatedly): `before` = the lines
# resolved on the SAME application before the line of the case.  The selection is a function of the tree and the line,
# so the line must select what it selects alone on a fresh application - in particular a line with NO leading token
# that names a command (empty, options only, `--` first, an unknown first token) after lines that reached deep commands.
def _deep_line(rng, tree):
    """a line whose leading tokens walk as deep into the tree as they can (names or aliases), sometimes with the
    values the reached command wants"""
    level, toks, node = ac.enabled(tree["commands"]), [], None
    while True:
        named = [c for c in level if not c["anonymous"]]
        if not named or (toks and rng.random() < 0.2):
            break
        node = rng.choice(named)
        toks.append(rng.choice([node["name"]] + node["aliases"]) if rng.random() < 0.4 else node["name"])
        level = ac.enabled(node["subs"])
    if node is not None and rng.random() < 0.6:
        for a in node["args"]:
            if a["mode"] in ("required", "multi_required") or rng.random() < 0.5:
                v = pc.value_for(rng, a["type"], a["nullable"])
                toks.append(v if not v.startswith("-") and v != "" else "x")
    return toks


def _zero_lead(rng, tree, toks):
    """a line with no leading token that names a command, made of the tokens of `toks`"""
    r = rng.random()
    if r < 0.25:
        return []
    if r < 0.5:
        opt = rng.choice(["--gflag" if tree.get("global_flag") else "-g", "--unknown", "-Y", ""])
        return [opt] + toks[:rng.randint(0, 2)]
    if r < 0.75:
        return ["--"] + toks
    return [rng.choice(["nope", "ad", "servr"])] + toks


def _with_history(rng, tree, lines, i):
    toks = lines[i]
    pool = [l for j, l in enumerate(lines) if j != i and l]
    before = []
    for _ in range(rng.randint(1, 3)):
        before.append(list(rng.choice(pool)) if pool and rng.random() < 0.4 else _deep_line(rng, tree))
    if rng.random() < 0.55:
        toks = _zero_lead(rng, tree, toks)
    return {"tree": tree, "tokens": toks, "before": before}


def generate(tier, rng):
    n = 700 if tier == "quick" else 12000
    for _ in range(n):
        tree = _alias_setup(rng, ac.gen_tree(rng))
        lines = _lines(rng, tree)
        for i, toks in enumerate(lines):
            if rng.random() < 0.3:
                yield _with_history(rng, tree, lines, i)
            else:
                yield {"tree": tree, "tokens": toks}


def exhaustive(tier):
    return False


def _resolve(app, tokens):
    from clikit.args.argv_args import ArgvArgs
    try:
        rc = app.resolve_command(ArgvArgs(["prog"] + list(tokens)))
    except Exception as e:  # noqa
        return {"err": type(e).__name__}
    a = rc.args
    return {"ok": {"path": ac.path_of(rc.command),
                   "args_set": sorted([[k, pc.enc(v)] for k, v in a.arguments(False).items()]),
                   "opts_set": sorted([[k, pc.enc(v)] for k, v in a.options(False).items()])}}


def _parsable(cmd, tokens):
    """does the command's own (strict or configured) parse raise the cannot-parse error?"""
    from clikit.api.args.exceptions import CannotParseArgsException
    from clikit.args.argv_args import ArgvArgs
    try:
        cmd.parse(ArgvArgs(["prog"] + list(tokens)))
        return True
    except CannotParseArgsException:
        return False
    except Exception:  # noqa - other exceptions propagate out of the resolver
        return None


def _objs(app, names):
    """the Command OBJECTS the names find, level by level through the REAL collections; the list ends with None at
    the first name that finds nothing (nothing is looked up after it)"""
    coll = app.named_commands
    out = []
    for n in names:
        if n not in coll:
            out.append(None)
            break
        c = coll.get(n)
        out.append(c)
        coll = c.named_sub_commands
    return out


def _respellings(app, lead):
    """two respellings of the leading tokens (same length): every token that finds a command replaced (a) by that
    command's name, (b) by the last of its aliases (if it has one).  For each: does it find the very same objects
    (the hypothesis SameLookups of alias_invariant, on the real collections)?"""
    found = _objs(app, lead)
    found = found + [None] * (len(lead) - len(found))
    canon = [c.name if c is not None else t for t, c in zip(lead, found)]
    alias = [c.aliases[-1] if c is not None and c.aliases else t for t, c in zip(lead, found)]

    def same(a, b):
        oa, ob = _objs(app, a), _objs(app, b)
        return len(oa) == len(ob) and all(x is y for x, y in zip(oa, ob))
    return {"canon": canon, "alias": alias, "same_canon": same(lead, canon), "same_alias": same(lead, alias)}


def _config_aliases(app):
    """[name path, aliases] of every command config of the application (disabled ones too), in configuration order"""
    out = []

    def walk(cfg, path):
        p = path + [cfg.name]
        out.append([p, list(cfg.aliases)])
        for s in cfg.sub_command_configs:
            walk(s, p)
    for c in app.config.command_configs:
        walk(c, [])
    return out


def _alias_requests(tree):
    """the configuration calls of the tree for the model (Model/AliasCfg.lean): commands numbered in configuration
    order, caller-owned lists numbered by first use"""
    num, keys, ops, paths = {}, {}, [], []
    for c, path in _preorder(tree["commands"]):
        i = len(paths)
        p = tuple(path) + (c["name"],)
        paths.append(list(p))
        for op in (c["alias_ops"] if "alias_ops" in c else [["add", a] for a in c["aliases"]]):
            k = op[0]
            if k in ("add", "adds", "set"):
                ops.append([k, i, op[1]])
            elif k in ("set_list", "adds_list"):
                if op[1] not in keys:
                    keys[op[1]] = len(keys)
                    ops.append(["new_list", keys[op[1]], list(op[2])])
                ops.append([k, i, keys[op[1]]])
            elif k == "append_list":
                if op[1] in keys:
                    ops.append([k, keys[op[1]], op[2]])
            elif k == "set_from":
                if tuple(op[1]) in num:
                    ops.append([k, i, num[tuple(op[1])]])
                else:
                    ops.append(["set", i, list(op[2])])
        num[p] = i
    return {"m": "c03.aliases", "n": len(paths), "ops": ops}, paths


def run_impl(case):
    from clikit.resolver.default_resolver import DefaultResolver
    app = ac.build_app(case["tree"])
    tokens = case["tokens"]
    # the lines resolved on this very application before the line of the case
    hist = [_resolve(app, l) for l in case.get("before") or []]
    obs = {"res": _resolve(app, tokens), "nodes": ac.extract_app(app), "configured": _config_aliases(app)}
    if case.get("before"):
        obs["hist"] = hist + [obs["res"]]
        obs["res_alone"] = _resolve(ac.build_app(case["tree"]), tokens)       # the line alone, fresh application
    r = DefaultResolver()
    obs["lead"] = r.get_arguments_to_test(iter(tokens))
    rs = _respellings(app, obs["lead"])
    obs["respell"] = rs
    k = len(obs["lead"])
    obs["res_canon"] = _resolve(app, rs["canon"] + tokens[k:])
    obs["res_alias"] = _resolve(app, rs["alias"] + tokens[k:])
    if "--" in tokens:
        k = tokens.index("--")
        obs["lead_cut"] = r.get_arguments_to_test(iter(tokens[:k + 1]))
    # facts the declarative oracle needs: which (default) commands can parse this line
    facts = {}

    def walk(cmd, path):
        p = path + [cmd.name]
        facts["/".join(p)] = _parsable(cmd, tokens)
        for s in cmd.sub_commands:
            walk(s, p)
    for c in app.commands:
        walk(c, [])
    obs["parsable"] = facts
    # alias variant: every leading token that is an alias replaced by the command's name, and vice versa
    return obs


def model_requests(case):
    app = ac.build_app(case["tree"])
    nodes = ac.extract_app(app)
    before = case.get("before") or []
    ints, floats = pc.conv_tables(ac.all_texts(nodes, [t for l in before for t in l] + list(case["tokens"])))
    # the hypothesis of alias_invariant (SameLookups), decided by the model on the tree read from the REAL application
    # for the leading tokens against their two respellings (theorem sameLookupsB_sound)
    from clikit.resolver.default_resolver import DefaultResolver
    lead = DefaultResolver().get_arguments_to_test(iter(case["tokens"]))
    rs = _respellings(app, lead)
    reqs = [{"m": "c03.resolve", "commands": nodes, "tokens": case["tokens"], "ints": ints, "floats": floats},
            {"m": "c03.lead", "tokens": case["tokens"]},
            {"m": "c03.same", "commands": nodes, "names": lead, "names2": rs["canon"]},
            {"m": "c03.same", "commands": nodes, "names": lead, "names2": rs["alias"]},
            _alias_requests(case["tree"])[0]]
    if before:
        # the whole history on one resolver object (Model/Resolver.resolveHistory, theorem history_each_alone)
        reqs.append({"m": "c03.history", "commands": nodes, "lines": before + [case["tokens"]], "ints": ints,
                     "floats": floats})
    return reqs


def _canon_res(r):
    if "ok" in r:
        o = r["ok"]
        r = {"ok": {"path": o["path"], "args_set": sorted(o["args_set"]), "opts_set": sorted(o["opts_set"])}}
    return r


def model_obs(case, answers):
    r = _canon_res(answers[0])
    paths = _alias_requests(case["tree"])[1]
    res = {"res": r, "lead": answers[1], "same_canon": answers[2], "same_alias": answers[3],
           "configured": [[p, a] for p, a in zip(paths, answers[4])]}
    if case.get("before"):
        res["hist"] = [_canon_res(x) for x in answers[5]]
    return res


def impl_view(case, obs):
    # same_canon: a command is always found under its own name (sibling names are distinct): must be true;
    # same_alias: an alias may be shadowed by a sibling's name or a later registration: whatever the real collections say
    res = {"res": obs["res"], "lead": obs["lead"], "same_canon": True, "same_alias": obs["respell"]["same_alias"],
           "configured": obs["configured"]}
    if case.get("before"):
        res["hist"] = obs["hist"]          # every call of the history, in order, on the one application
    return res


# ---- the statement, declaratively ------------------------------------------------------------
def _lookup(level, name):
    """CommandCollection.get over the enabled, non-anonymous commands of a level (spec dicts):
    by name first, then by alias (the LAST registration of an alias wins)"""
    named = [c for c in level if not c["anonymous"]]
    for c in named:
        if c["name"] == name:
            return c
    hit = None
    for c in named:
        if name in c["aliases"]:
            hit = c
    return hit


def _expected(case, obs):
    tree = _configured(case["tree"])
    tokens = case["tokens"]
    ls = []
    for t in tokens:
        if t == "" or t == "--" or t.startswith("-"):
            break
        ls.append(t)
    level = ac.enabled(tree["commands"])
    path, node = [], None
    for t in ls:
        c = _lookup(level, t)
        if c is None:
            break
        node = c
        path.append(c["name"])
        level = ac.enabled(c["subs"])
    if node is None and ls:
        return {"err": "CannotResolveCommandException"}, ls
    cands = [c for c in (ac.enabled(node["subs"]) if node else ac.enabled(tree["commands"])) if c["default"]]
    chosen = None
    for c in cands:
        p = obs["parsable"]["/".join(path + [c["name"]])]
        if p is None:
            return {"propagates": "/".join(path + [c["name"]])}, ls
        if p:
            chosen = path + [c["name"]]
            break
    if chosen is None and cands:
        chosen = path + [cands[0]["name"]]
    if chosen is None:
        if node is None:
            return {"err": "CannotResolveCommandException"}, ls
        chosen = path
    p = obs["parsable"]["/".join(chosen)]
    if p is None:
        return {"propagates": "/".join(chosen)}, ls
    if not p:
        return {"err": "CannotParseArgsException"}, ls
    return {"path": chosen}, ls


def _selection(res):
    return res["ok"]["path"] if "ok" in res else res["err"]


def oracle(case, obs):
    v = _oracle_line(case, obs)
    if v is None and "res_alone" in obs and obs["res_alone"] != obs["res"]:
        # the selection is a function of the tree and the line: what was resolved before on the application is no part
        return "after resolving %r on the same application the line %r selects %s; alone (fresh application) it selects %s" % (
            case["before"], case["tokens"], str(obs["res"])[:150], str(obs["res_alone"])[:150])
    if v is not None and case.get("before"):
        v += " (line resolved after %r on the same application; alone it selects %s)" % (
            case["before"], str(obs.get("res_alone"))[:150])
    return v


def _oracle_line(case, obs):
    want, ls = _expected(case, obs)
    if obs["lead"] != ls:
        return "leading tokens %r, the statement's leading non-option tokens are %r" % (obs["lead"], ls)
    if "lead_cut" in obs and obs["lead_cut"] != obs["lead"]:
        return "tokens after `--` changed the leading tokens: %r vs %r" % (obs["lead"], obs["lead_cut"])
    res = obs["res"]
    # replacing a name on the path by an alias (or an alias by the name) that denotes the same command never changes
    # the selection
    rs = obs["respell"]
    if not rs["same_canon"]:
        return "the commands found by %r are not found under their own names %r" % (ls, rs["canon"])
    for key in ("canon", "alias"):
        if rs["same_" + key]:
            other = obs["res_" + key]
            if _selection(other) != _selection(res):
                return "respelling the path %r as %r (same commands) changes the selection: %s vs %s" % (
                    ls, rs[key], str(res)[:150], str(other)[:150])
    if "propagates" in want:
        if "err" not in res or res["err"] in ("CannotParseArgsException", "CannotResolveCommandException"):
            return "the parse of %s raises a non-parse error which must propagate, got %s" % (want["propagates"], res)
        return None
    if "err" in want:
        if res.get("err") != want["err"]:
            return "expected %s, got %s" % (want["err"], str(res)[:200])
        return None
    if "ok" not in res or res["ok"]["path"] != want["path"]:
        return "selected %s, the statement selects %s" % (str(res)[:200], want["path"])
    return None


def nontrivial_key(case, obs):
    import json
    if obs["lead"] or any(c["default"] for c in ac.enabled(case["tree"]["commands"])) or case.get("before"):
        return json.dumps([case["tree"], case["tokens"], case.get("before")], sort_keys=True)
    return None


def bucket(case, obs):
    r = obs["res"]
    h = ""
    if case.get("before"):
        h = "|after %d call(s), deepest %d" % (len(case["before"]),
                                               max([len(x["ok"]["path"]) if "ok" in x else 0 for x in obs["hist"][:-1]]))
    if "err" in r:
        return "err=%s|lead=%d%s" % (r["err"], len(obs["lead"]), h)
    return "ok|depth=%d|lead=%d%s" % (len(r["ok"]["path"]), len(obs["lead"]), h)


def shrink(case):
    b = case.get("before")
    if b:
        # fewer / shorter earlier calls first; then the plain shrinks with the history kept
        for i in range(len(b)):
            c = dict(case)
            c["before"] = b[:i] + b[i + 1:]
            if not c["before"]:
                del c["before"]
            yield c
        for i in range(len(b)):
            for j in range(len(b[i]) - 1, -1, -1):
                c = dict(case)
                c["before"] = b[:i] + [b[i][:j] + b[i][j + 1:]] + b[i + 1:]
                yield c
    for c in _shrink_line(case):
        if b:
            c["before"] = b
        yield c


def _shrink_line(case):
    import copy
    t = case["tokens"]
    for i in range(len(t)):
        yield {"tree": case["tree"], "tokens": t[:i] + t[i + 1:]}
    cmds = case["tree"]["commands"]
    for i in range(len(cmds)):
        if len(cmds) > 1:
            tr = dict(case["tree"])
            tr["commands"] = cmds[:i] + cmds[i + 1:]
            yield {"tree": tr, "tokens": t}
    # a plainer configuration: no bulk adders; one command configured with add_alias only (same aliases); a sub-tree less
    if case["tree"].get("commands_via"):
        yield {"tree": dict((k, v) for k, v in case["tree"].items() if k != "commands_via"), "tokens": t}
    conf = _configured(case["tree"])
    order = [c for c, _ in _preorder(case["tree"]["commands"])]
    for j, c in enumerate(order):
        for what in ("subs_via", "alias_ops", "subs"):
            if not c.get(what):
                continue
            tr = copy.deepcopy(case["tree"])
            c2 = [x for x, _ in _preorder(tr["commands"])][j]
            if what == "subs":
                c2["subs"] = []
            else:
                del c2[what]
                c2["aliases"] = [x for x, _ in _preorder(conf["commands"])][j]["aliases"]
            yield {"tree": tr, "tokens": t}


def neighbours(case):
    """lines that walk to a command of the tree and go on with a word that is an alias somewhere else"""
    tree = _configured(case["tree"])
    words, _ = _alias_words(case["tree"])
    paths = [[]]

    def walk(level, path):
        for c in ac.enabled(level):
            if c["anonymous"]:
                continue
            paths.append(path + [c["name"]])
            walk(c["subs"], path + [c["name"]])
    walk(tree["commands"], [])
    for w in words:
        for p in paths:
            yield {"tree": case["tree"], "tokens": p + [w]}
    # the line (and its relatives without a leading command name) after a call that reached each command of the tree
    for p in paths[1:]:
        for toks in (case["tokens"], [], ["--"] + list(case["tokens"]), ["nope"]):
            yield {"tree": case["tree"], "tokens": list(toks), "before": [p]}
