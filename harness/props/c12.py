"""
C12 - listeners run by priority then registration order until propagation stops.

A case is a history of operations on ONE fresh `EventDispatcher`:

  ["reg",  e, p, stops, k]   add_listener(EVENTS[e], listener k, p)   (p None: the default priority).  A listener id
                             may occur in several registrations: THE SAME callable is registered again (for the same
                             or another event, at the same or another priority); what listener k does (`stops`) is
                             fixed by its first registration
  ["disp", e, ev]            dispatch(EVENTS[e], event)   ev: "none" (no event passed), "fresh", "stopped" (stock
                             `Event`), or an object of a USER subclass of `Event` that implements the public stop
                             protocol itself: "fwd" / "fwd-stopped" (stop_propagation / is_propagation_stopped
                             forwarded to a wrapped event), "own" / "own-stopped" (the state kept under an attribute
                             of the subclass), "lim:N" (is_propagation_stopped overridden only: stopped once N
                             listeners have seen the event - every listener counts itself on it - or the inherited
                             stop_propagation() was called)
  ["has",  e|None]           has_listeners(name or nothing)
  ["get",  e|None]           get_listeners(name or nothing)
  ["prio", e, k]             get_listener_priority(EVENTS[e], listener k)

Listener k is a recording callable `(event, event_name, dispatcher)` - a function object, or (every second case, odd
k) the bound method `owner_k.on`, looked up anew for every registration and query, so that a listener registered twice
is then two EQUAL BUT NOT IDENTICAL callables; when `stops` it calls
`event.stop_propagation()`; it reports its call to events that have a `note_call()`.  With `"probe": true` the pure queries (has_listeners x 4,
get_listener_priority for both registering events x every listener + a stranger, and once for
the third event) are appended to the history, so the exhaustive enumeration (which contains
every prefix as a case of its own) observes the queries after every history without
multiplying the alphabet (the Lean theorem `pure_queries` shows they do not change the state;
the random histories interleave them).

With `"config": "set" | "lazy"` the history also involves an `ApplicationConfig` (see "registration through the
configuration" below): `["cfgset"]` hands the caller's dispatcher to `config.set_event_dispatcher`; an operation that
ends with `"c"` goes through the configuration (`reg`: `config.add_event_listener`, the others: on `config.dispatcher`).

Outputs, one per operation: reg -> None, cfgset -> None, disp -> [[ids called], returned event stopped, args_ok],
has -> bool, get(e) -> [ids], get() -> {"d": [[event, [ids]], ...]} sorted by event, prio -> int|None,
{"raised": class name} for an exception.

The same expanded history is run by the real clikit (in-process), by the Lean model of the code
(`c12.run`, concrete state with the `_sorted` cache) and by the abstract specification
(registration log only); `oracle` is the property statement written directly over the
implementation's behaviour.
"""
import inspect
import itertools

ID = "C12"
DESIGN_REF = "6/C12"
TECHNIQUE = ("Lean 4 refinement proof (concrete EventDispatcher state incl. the _sorted cache vs. the log of "
             "registrations, induction over ALL operation histories; the sort key of _sort_listeners is re-read from the "
             "source on every run) + differential correspondence of the model with the real EventDispatcher on "
             "exhaustive short and random long histories")
LEVEL_TEXT = ("Proved in Lean for every operation history (no length bound): the model of EventDispatcher raises "
              "nothing, every cache entry equals the specification order of the registrations so far, each dispatch "
              "calls exactly the prefix of that order up to and including the first listener that stops propagation "
              "(each registration once, none of another event), a late registration takes part in the next dispatch, "
              "and has_listeners/get_listeners/get_listener_priority agree with the registration log; the specification "
              "order is proved to be the unique permutation of the event's registrations sorted by descending priority "
              "that keeps registration order among equal priorities. That the model is the code is established by "
              "running both on all histories up to a small length and on random histories up to length 40.")
LEVEL_NOTE = ("Trusted: Lean kernel + propext/Quot.sound/Classical.choice, the hand-written model "
              "(Model/Dispatcher.lean) whose fidelity is what the correspondence samples, the harness. Event objects of "
              "user subclasses that implement the stop protocol themselves are part of the histories: for classes that "
              "implement it faithfully (state forwarded to a wrapped event / kept under an own attribute) the model is "
              "the stock flag (theorem custom_event_faithful says why), the class that reports itself stopped after N "
              "calls is modelled (dispatchN, theorem dispatch_budget_spec). Listeners that "
              "raise or re-enter the dispatcher are outside the generated histories. A callable registered SEVERAL "
              "TIMES (same object, or equal bound methods of one object; for one event at the same or at different "
              "priorities, or for two events) is part of the histories: the order theorems (dispatch_spec, "
              "query_get_listeners, callSeq_each_once, registration_called_per_registration) speak about REGISTRATIONS "
              "and need no hypothesis - one call per registration, at that registration's rank; only "
              "get_listener_priority of a callable registered under several priorities is not fixed by the statement "
              "(query_get_priority: one of them; the model answers what the code answers - the first priority bucket "
              "in dict order - and is compared with the code). That no callable is registered twice "
              "for one event - the hypothesis under which a dispatch calls each LISTENER once and get_listener_priority "
              "is determined (dispatch_each_once_decided, query_get_priority_decided) - is decided by the model on the "
              "log of every generated history (answer field wf.reg_once, theorem reg_once_decides) and compared with "
              "what the history says (both answers occur). Registration through the configuration (ApplicationConfig."
              "set_event_dispatcher / add_event_listener / .dispatcher) is modelled with the caller's dispatcher object, the one "
              "the configuration creates when it has none, and the reference the configuration holds "
              "(Model/ConfigDispatcher.lean, entry c12.cfgrun, compared with the real objects on every such history): "
              "config_handed_over proves for EVERY number of listeners on the dispatcher at hand-over and every later "
              "interleaving that the history is the same history on one dispatcher, so all order theorems apply "
              "(config_handed_over_spec).")
LEAN_MODULES = ["Clikit.Props.C12"]
REQUIRED_THEOREMS = ["Clikit.Props.C12." + n for n in (
    "specOrder_perm", "specOrder_mem", "specOrder_sorted", "specOrder_stable", "specOrder_unique",
    "callSeq_spec", "callSeq_all", "callSeq_each_once",
    "run_refines_spec", "no_error", "output_at", "cache_inv", "buckets_inv", "dispatch_spec",
    "late_registration", "query_has_listeners", "query_get_listeners", "query_get_all_listeners",
    "query_get_priority", "query_get_priority_unique", "pure_queries", "specRun_acceptable",
    "run_eq_specRun", "cache_inv_total", "reg_once_decides", "dispatch_each_once_decided",
    "query_get_priority_decided", "custom_event_faithful", "dispatch_budget_spec", "dispatch_budget_zero",
    "dispatch_budget_large", "registration_called_per_registration",
    # registration through ApplicationConfig (Model/ConfigDispatcher.lean)
    "crun_caller", "config_handed_over", "config_handed_over_spec", "config_lazy_first")]
RULE = ("histories over {register(2 events x 3 priorities x stops?), dispatch(3 events), get_listeners(3 events | none)} "
        "enumerated exhaustively: quick - every history up to length 4, and up to length 3 with dispatches of an "
        "already stopped event; thorough - every history up to length 4, every history of length 5 up to swapping "
        "the names of the two registering events, up to length 4 with already stopped events, and every history of "
        "length 6 over one registering event; the event objects of these dispatches cycle through the stock Event "
        "and two user subclasses implementing stop_propagation/is_propagation_stopped themselves (state forwarded to "
        "a wrapped event, state under an own attribute), dispatch by dispatch; plus every history up to length 3 "
        "(thorough 4) with a dispatch of a user event that reports itself stopped after 1 or 2 listener calls; "
        "plus every history up to length 4 (thorough 5) over {register a new listener, register AGAIN the oldest / the "
        "newest listener (3 priorities; the newest also for the other event), dispatch, get_listeners} that contains "
        "a repeated registration; plus REGISTRATION THROUGH THE CONFIGURATION: a dispatcher holding 0, 1 or 2 "
        "listeners is handed to ApplicationConfig.set_event_dispatcher, then every history up to length 3 (thorough 4) "
        "over {config.add_event_listener (3 priorities; one that stops), add_listener on the caller's object, dispatch "
        "and get_listeners on the caller's object and on config.dispatcher} with at least one registration through the "
        "configuration, and the same histories without a dispatcher of the caller's (the configuration creates one at "
        "the first add_event_listener); "
        "each followed by the pure queries (has_listeners x 4, "
        "get_listener_priority x 2 events x every listener and a stranger); plus seeded random histories up to "
        "length 40 over the full alphabet with queries interleaved, priorities drawn per case from a wider pool, "
        "default-priority registrations, dispatch without an event object and with all the event classes above "
        "(budgets 0..4), and in half of the cases a share (15 % / 40 %) of the registrations re-using a callable "
        "that is already registered (same function object / an equal bound method of the same owner); a quarter of the "
        "random histories get a configuration: the dispatcher is handed over at the start (empty), after one of the first "
        "registrations or anywhere, and the later operations are made through the configuration (add_event_listener / "
        "on config.dispatcher) or on the caller's object at random (15 % of them: no dispatcher of the caller's at all); a case is non-trivial when some "
        "dispatch/get_listeners sees an event with >= 2 registrations; distinct = distinct history")
TRUSTED_BASE = [
    "Lean 4.33 kernel; axioms propext, Classical.choice, Quot.sound only (audited per theorem on every run)",
    "lean/Clikit/Model/Dispatcher.lean: hand-written model of event_dispatcher.py/event.py (dict insertion order, "
    "_sorted cache, stable sort via List.mergeSort by the key regenerated from the source); its fidelity is sampled by the correspondence",
    "tools/genparts/c12.py: ast-based extraction of the sort key lambda and of the default priority (Gen/C12.lean)",
    "harness/props/c12.py: recording listeners (function objects and bound methods of owner objects), the user event classes (ForwardingEvent, OwnFlagEvent, BudgetEvent), canonicalisation (listener objects -> ids, get_listeners() dict compared as a mapping)",
    "CPython: dict insertion order, stability of sorted()",
    "lean/Clikit/Model/ConfigDispatcher.lean: hand-written model of ApplicationConfig.set_event_dispatcher / "
    "add_event_listener / dispatcher (object identity as a three-valued reference); sampled by the correspondence (c12.cfgrun)",
]
ASSUMPTIONS = [
    "listeners do not raise and do not call back into the dispatcher",
    "a dispatcher handed to ApplicationConfig.set_event_dispatcher, the object config.dispatcher hands out and the object "
    "config.add_event_listener registers on are ONE dispatcher: 'the listeners registered so far' are those registered "
    "through any of these references, and a dispatch on any of them must call them (histories hand the dispatcher over "
    "once, before the first registration through the configuration; or never, and then use only the configuration)",
    "a callable registered n times for an event counts as n listeners ('each once' = one call per registration, at the "
    "rank of that registration); get_listener_priority of a callable registered for one event under several priorities "
    "may answer any of them ('once per event' is decided by the model on every history - wf.reg_once - and compared "
    "with the history)",
    "event names and priorities matter only through equality resp. order (histories use 3 names and 3 priorities per case)",
    "'stops propagation' is judged by the event's public protocol: propagation is stopped when "
    "event.is_propagation_stopped() answers true (user event classes may override it and stop_propagation())",
    "a dispatch with an event whose propagation is already stopped must call nobody (reading of 'until propagation stops'; "
    "needed to tell 'check before the call' from 'check after the call')",
]
BUDGET_S = {"quick": 70, "thorough": 760}
BATCH = 20000

EVENTS = ["pre-resolve", "pre-handle", "config"]
REG_EVENTS = [0, 1]
PRIOS = [-1, 0, 1]
PRIO_POOL = [-100, -7, -3, -2, -1, 0, 1, 2, 3, 7, 100]
# exhaustive scopes: (full alphabet: every history up to this length,
#                     + histories of this length up to swapping the two registering event names,
#                     histories containing a dispatch of an already stopped event up to this length,
#                     histories over the single-event alphabet up to this length)
SCOPE = {"quick": (4, 0, 3, 0), "thorough": (4, 5, 4, 6)}
# histories containing a dispatch of a budget event ("lim:1", "lim:2") up to this length
SCOPE_LIM = {"quick": 3, "thorough": 4}
# histories containing a repeated registration of a callable (see _again_histories) up to this length
SCOPE_AGAIN = {"quick": 4, "thorough": 5}
# event objects: stock Event and user subclasses implementing the stop protocol themselves
EV_FRESH = ["fresh", "fwd", "own"]
EV_STOPPED = ["stopped", "fwd-stopped", "own-stopped"]
LIMITS = [0, 1, 2, 3, 4]


def ev_limit(ev):
    """N of a budget event "lim:N", else None"""
    if isinstance(ev, str) and ev.startswith("lim:"):
        return int(ev[4:])
    return None


def ev_pre_stopped(ev):
    return ev in EV_STOPPED or ev_limit(ev) == 0
RANDOM = {"quick": 3000, "thorough": 40000}


# --------------------------------------------------------------------------- histories
def _alphabet(stopped, events=REG_EVENTS, disp_events=(0, 1, 2)):
    a = []
    for e in events:
        for p in PRIOS:
            for s in (False, True):
                a.append(("reg", e, p, s))
    for e in disp_events:
        a.append(("disp", e, "fresh"))
    if stopped:
        for e in events:
            a.append(("disp", e, "stopped"))
    for e in list(disp_events) + [None]:
        a.append(("get", e))
    return a


def _materialise(seq, ctr=None):
    """`ctr` (a one-element list): the dispatches cycle through the event classes, dispatch by dispatch"""
    ops, k = [], 0
    for o in seq:
        if o[0] == "reg":
            ops.append(["reg", o[1], o[2], o[3], k])
            k += 1
        elif o[0] == "disp" and ctr is not None and o[2] in ("fresh", "stopped"):
            ctr[0] += 1
            ops.append(["disp", o[1], (EV_FRESH if o[2] == "fresh" else EV_STOPPED)[ctr[0] % 3]])
        else:
            ops.append(list(o))
    return {"ops": ops, "probe": True}


def _again_histories(n):
    """every history of length n over {register a NEW listener for event 0 (3 priorities x stops?), register AGAIN the
    oldest / the newest listener so far for event 0 (3 priorities), the newest for event 1, dispatch(0), get_listeners(0)}
    that registers some callable more than once (distinct as histories)"""
    letters = [("reg", 0, p, s) for p in PRIOS for s in (False, True)]
    letters += [("again", 0, p, w) for p in PRIOS for w in (0, 1)] + [("again", 1, 0, 1)]
    letters += [("disp", 0, "fresh"), ("get", 0)]
    seen = set()
    for seq in itertools.product(letters, repeat=n):
        if not any(o[0] == "again" for o in seq):
            continue
        made, ops = [], []
        for o in seq:
            if o[0] == "reg":
                made.append((len(made), o[3]))
                ops.append(("reg", o[1], o[2], o[3], made[-1][0]))
            elif o[0] == "again":
                if not made:
                    break
                k, s = made[0] if o[3] == 0 else made[-1]
                ops.append(("reg", o[1], o[2], s, k))
            else:
                ops.append(o)
        else:
            key = repr(ops)
            if key not in seen:
                seen.add(key)
                yield ops


def _materialise_ids(ops, ctr):
    """like _materialise for operations that already carry their listener ids"""
    res = []
    for o in ops:
        if o[0] == "disp" and o[2] in ("fresh", "stopped"):
            ctr[0] += 1
            res.append(["disp", o[1], (EV_FRESH if o[2] == "fresh" else EV_STOPPED)[ctr[0] % 3]])
        else:
            res.append(list(o))
    return {"ops": res, "probe": True}


def _canonical(seq):
    """representative under swapping the names of the two registering events: the first
    operation that names one of them names event 0"""
    for o in seq:
        if o[1] == 0:
            return True
        if o[1] == 1:
            return False
    return True


def _exhaustive(tier):
    full, sym, stopped, single = SCOPE[tier]
    ctr = [0]
    a = _alphabet(False)
    for n in range(0, full + 1):
        for seq in itertools.product(a, repeat=n):
            yield _materialise(seq, ctr)
    # user events that report themselves stopped after 1 or 2 listener calls
    lim = [o for o in a if o[0] == "reg"] + [("disp", e, "fresh") for e in REG_EVENTS] + \
          [("disp", e, "lim:%d" % n) for e in REG_EVENTS for n in (1, 2)]
    for n in range(1, SCOPE_LIM[tier] + 1):
        for seq in itertools.product(lim, repeat=n):
            if any(o[0] == "disp" and o[2] != "fresh" for o in seq):
                yield _materialise(seq, ctr)
    # the same callable registered more than once
    for n in range(2, SCOPE_AGAIN[tier] + 1):
        for ops in _again_histories(n):
            yield _materialise_ids(ops, ctr)
    for n in range(full + 1, sym + 1):
        for seq in itertools.product(a, repeat=n):
            if _canonical(seq):
                yield _materialise(seq, ctr)
    b = _alphabet(True)
    for n in range(1, stopped + 1):
        for seq in itertools.product(b, repeat=n):
            if any(o[0] == "disp" and o[2] == "stopped" for o in seq):
                yield _materialise(seq, ctr)
    # deeper, one registering event only (its dispatch, get_listeners by name and without)
    c = _alphabet(False, events=[0], disp_events=(0,))
    for n in range(max(full, sym) + 1, single + 1):
        for seq in itertools.product(c, repeat=n):
            yield _materialise(seq, ctr)


def _random_event(rng):
    r = rng.random()
    if r < 0.5:
        return rng.choice(["none", "fresh", "fresh", "stopped"])
    if r < 0.8:
        return rng.choice(["fwd", "fwd", "own", "own", "fwd-stopped", "own-stopped"])
    return "lim:%d" % rng.choice(LIMITS)


def _random_case(rng):
    n = rng.randint(1, 40)
    prios = rng.sample(PRIO_POOL, 3) if rng.random() < 0.7 else list(PRIOS)
    p_stop = rng.choice([0.0, 0.15, 0.3, 0.6])
    p_again = rng.choice([0.0, 0.0, 0.15, 0.4])      # share of registrations re-using a callable registered before
    ops, k = [], 0
    stops = []
    for _ in range(n):
        r = rng.random()
        if r < 0.40:
            p = None if rng.random() < 0.1 else rng.choice(prios)
            if k and rng.random() < p_again:
                j = rng.randrange(k)
                ops.append(["reg", rng.choice(REG_EVENTS), p, stops[j], j])
                continue
            stops.append(rng.random() < p_stop)
            ops.append(["reg", rng.choice(REG_EVENTS), p, stops[k], k])
            k += 1
        elif r < 0.65:
            ops.append(["disp", rng.randrange(3), _random_event(rng)])
        elif r < 0.78:
            ops.append(["get", rng.choice([0, 1, 2, None])])
        elif r < 0.86:
            ops.append(["has", rng.choice([0, 1, 2, None])])
        else:
            ops.append(["prio", rng.randrange(3), rng.randrange(k + 2)])
    return {"ops": ops, "probe": rng.random() < 0.3}


# --------------------------------------------------------------------------- registration through the configuration
# An application author seldom talks to the dispatcher alone: the dispatcher is handed to the configuration
# (`ApplicationConfig.set_event_dispatcher(d)`), listeners are registered with `config.add_event_listener(...)`, the
# application dispatches on `config.dispatcher`.  `"config": "set"`: the caller creates the dispatcher, registers the
# listeners that stand before the `["cfgset"]` operation on it (0, 1, 2, .. of them), hands it over, and goes on:
# operations that end with "c" go THROUGH the configuration (`reg`: config.add_event_listener; everything else: on
# `config.dispatcher`), the others on the object the caller created.  `"config": "lazy"`: the caller creates no
# dispatcher, the configuration makes one at the first add_event_listener; every operation goes through it.
# The statement is the same: the dispatcher handed over / handed out is ONE dispatcher, so a dispatch on either
# reference calls exactly the listeners registered so far through either reference.
SCOPE_CFG = {"quick": 3, "thorough": 4}
CFG_PRE = (0, 1, 2)


def via_config(o):
    return len(o) > 1 and o[-1] == "c"


def plain_op(o):
    return list(o[:-1]) if via_config(o) else list(o)


def _config_histories(tier):
    """dispatchers holding 0, 1, 2 listeners when handed to the configuration, then every history up to the scope over
    {config.add_event_listener (3 priorities; one that stops), add_listener on the object, dispatch and get_listeners
    on the object and on config.dispatcher} that registers through the configuration at least once; and the same
    without a dispatcher of the caller's (created lazily by the configuration)"""
    letters = [("reg", 0, p, False, "c") for p in PRIOS] + [("reg", 0, 0, True, "c"), ("reg", 0, 0, False),
               ("disp", 0, "fresh"), ("disp", 0, "fresh", "c"), ("get", 0), ("get", 0, "c")]
    for pre in CFG_PRE:
        for n in range(1, SCOPE_CFG[tier] + 1):
            for seq in itertools.product(letters, repeat=n):
                if not any(o[0] == "reg" and via_config(o) for o in seq):
                    continue
                yield _materialise_cfg([("reg", 0, 0, False)] * pre + [("cfgset",)] + list(seq), "set")
    lazy = [o for o in letters if via_config(o)]
    for n in range(1, SCOPE_CFG[tier] + 1):
        for seq in itertools.product(lazy, repeat=n):
            if seq[0][0] == "reg":
                yield _materialise_cfg(list(seq), "lazy")


def _materialise_cfg(seq, mode):
    ops, k = [], 0
    for o in seq:
        if o[0] == "reg":
            ops.append(["reg", o[1], o[2], o[3], k] + (["c"] if via_config(o) else []))
            k += 1
        else:
            ops.append(list(o))
    return {"ops": ops, "probe": True, "config": mode}


def _random_config(rng, case):
    """a random history turned into one with a configuration: the dispatcher is handed over at a random position
    (often at the very start - an empty dispatcher - or right after the first registrations), later operations go
    through the configuration or on the caller's object at random"""
    ops = case["ops"]
    if rng.random() < 0.15:
        first = ["reg", rng.choice(REG_EVENTS), rng.choice(PRIOS), False, 1 + max([o[4] for o in ops if o[0] == "reg"] + [-1]), "c"]
        rest = [o + ["c"] if (o[0] != "reg" or rng.random() < 0.7) else o for o in ops]
        return dict(case, ops=[first] + rest, config="lazy")
    regs = [i for i, o in enumerate(ops) if o[0] == "reg"]
    r = rng.random()
    if r < 0.4 or not regs:
        at = 0
    elif r < 0.8:
        at = regs[min(len(regs) - 1, rng.randint(0, 2))] + 1
    else:
        at = rng.randint(0, len(ops))
    p_c = rng.choice([0.3, 0.6, 0.9])
    tail = [o + ["c"] if rng.random() < (p_c if o[0] == "reg" else 0.5) else o for o in ops[at:]]
    return dict(case, ops=ops[:at] + [["cfgset"]] + tail, config="set")


def _valid_config(case):
    mode, ops = case.get("config"), case["ops"]
    n = sum(1 for o in ops if o[0] == "cfgset")
    if mode == "set":
        i = [o[0] for o in ops].index("cfgset") if n == 1 else -1
        return n == 1 and not any(via_config(o) for o in ops[:i])
    if mode == "lazy":
        return n == 0 and bool(ops) and ops[0][0] == "reg" and via_config(ops[0])
    return n == 0 and not any(via_config(o) for o in ops)


def generate(tier, rng):
    # a slice of the random stream first, so that a time-cut exhaustive part never starves it
    def rand():
        c = _random_case(rng)
        return _random_config(rng, c) if rng.random() < 0.25 else c
    for _ in range(RANDOM[tier] // 2):
        yield rand()
    for c in _config_histories(tier):
        yield c
    for c in _exhaustive(tier):
        yield c
    for _ in range(RANDOM[tier] - RANDOM[tier] // 2):
        yield rand()


def exhaustive(tier):
    return False     # the exhaustive scope is a part of the stream; the random part is a sample


def _stops_of(case):
    """listener id -> does it call stop_propagation(): what the FIRST registration of the id says (a callable that is
    registered again is the same callable)"""
    res = {}
    for o in case["ops"]:
        if o[0] == "reg":
            res.setdefault(o[4], bool(o[3]))
    return res


def expand(case):
    """the history that is actually run: the ops, then (with `probe`) the pure queries"""
    ops = case["ops"]
    if not case.get("probe"):
        return ops
    ops = list(ops)
    ids = sorted(set(o[4] for o in ops if o[0] == "reg"))
    stranger = (ids[-1] + 1) if ids else 0
    for e in (None, 0, 1, 2):
        ops.append(["has", e])
    for e in (0, 1):
        for k in ids:
            ops.append(["prio", e, k])
        ops.append(["prio", e, stranger])
    ops.append(["prio", 2, ids[0] if ids else stranger])
    return ops


# --------------------------------------------------------------------------- implementation
_DEFAULT_PRIO = None


def default_priority():
    global _DEFAULT_PRIO
    if _DEFAULT_PRIO is None:
        from clikit.api.event import EventDispatcher
        d = inspect.signature(EventDispatcher.add_listener).parameters["priority"].default
        if not isinstance(d, int) or isinstance(d, bool):
            raise RuntimeError("add_listener: priority has no integer default")
        _DEFAULT_PRIO = d
    return _DEFAULT_PRIO


def worker_init():
    default_priority()


def _bound_mode(case):
    """every second case registers its odd-numbered listeners as bound methods of otherwise unreferenced objects"""
    import zlib
    return zlib.crc32(repr(case).encode()) % 2 == 0


_EVENT_CLASSES = None


def event_classes():
    """user subclasses of the public `Event` that implement the stop protocol themselves"""
    global _EVENT_CLASSES
    if _EVENT_CLASSES is None:
        from clikit.api.event import Event

        class ForwardingEvent(Event):
            """wraps another event: the propagation state lives in the wrapped event"""

            def __init__(self, inner):
                super(ForwardingEvent, self).__init__()
                self.inner = inner

            def stop_propagation(self):
                self.inner.stop_propagation()

            def is_propagation_stopped(self):
                return self.inner.is_propagation_stopped()

        class OwnFlagEvent(Event):
            """keeps the propagation state under an attribute of its own"""

            def __init__(self):
                super(OwnFlagEvent, self).__init__()
                self.halted = False

            def stop_propagation(self):
                self.halted = True

            def is_propagation_stopped(self):
                return self.halted

        class BudgetEvent(Event):
            """needs no further listeners once `limit` of them have seen it (listeners report themselves with
            note_call()); stop_propagation() is the inherited one"""

            def __init__(self, limit):
                super(BudgetEvent, self).__init__()
                self.limit = limit
                self.calls = 0

            def note_call(self):
                self.calls += 1

            def is_propagation_stopped(self):
                return self.calls >= self.limit or super(BudgetEvent, self).is_propagation_stopped()

        _EVENT_CLASSES = (ForwardingEvent, OwnFlagEvent, BudgetEvent)
    return _EVENT_CLASSES


def make_event(ev):
    from clikit.api.event import Event
    Fwd, Own, Budget = event_classes()
    n = ev_limit(ev)
    if n is not None:
        return Budget(n)
    if ev in ("fresh", "stopped"):
        e = Event()
    elif ev in ("fwd", "fwd-stopped"):
        e = Fwd(Event())
    elif ev in ("own", "own-stopped"):
        e = Own()
    else:
        raise RuntimeError("unknown event kind %r" % (ev,))
    if ev.endswith("stopped"):
        e.stop_propagation()
    return e


def _note(event):
    note = getattr(event, "note_call", None)
    if note is not None:
        note()


def run_impl(case):
    from clikit.api.event import Event, EventDispatcher
    mode = case.get("config")
    config = None
    if mode:
        from clikit.api.config.application_config import ApplicationConfig
        config = ApplicationConfig()
    own = EventDispatcher() if mode != "lazy" else None      # the dispatcher object the caller creates and keeps

    def target(o):
        """the object an operation is made on: the caller's, or what `config.dispatcher` hands out"""
        return config.dispatcher if (via_config(o) or own is None) else own
    stops = _stops_of(case)
    rec = []
    listeners, ident = {}, {}

    def make(k, stop):
        def listener(event, event_name, dispatcher):
            rec.append((k, event, event_name, dispatcher))
            _note(event)
            if stop:
                event.stop_propagation()
        listener.__name__ = "listener_%d" % k
        return listener

    import weakref

    class Owner(object):
        """a listener that is a bound method of an object NOBODY but the dispatcher keeps alive"""

        def __init__(self, k, stop):
            self.k, self.stop = k, stop

        def on(self, event, event_name, dispatcher):
            rec.append((self.k, event, event_name, dispatcher))
            _note(event)
            if self.stop:
                event.stop_propagation()

    owners = {}
    bound = _bound_mode(case)

    def L(k):
        if bound and k % 2 == 1:
            o = owners[k]() if k in owners else None
            if o is None:
                o = Owner(k, stops.get(k, False))
                owners[k] = weakref.ref(o)
            return o.on
        if k not in listeners:
            listeners[k] = make(k, stops.get(k, False))
            ident[id(listeners[k])] = k
        return listeners[k]

    def ids(ls):
        return [x.__self__.k if isinstance(getattr(x, "__self__", None), Owner) else ident.get(id(x), -1) for x in ls]

    outs = []
    for o in expand(case):
        try:
            kind = o[0]
            if kind == "cfgset":
                r = config.set_event_dispatcher(own)
                outs.append(None if r is config else "returned:" + type(r).__name__)
                continue
            if kind == "reg" and via_config(o):
                if o[2] is None:
                    r = config.add_event_listener(EVENTS[o[1]], L(o[4]))
                else:
                    r = config.add_event_listener(EVENTS[o[1]], L(o[4]), o[2])
                outs.append(None if r is config else "returned:" + type(r).__name__)
                continue
            d = target(o)
            if kind == "reg":
                if o[2] is None:
                    r = d.add_listener(EVENTS[o[1]], L(o[4]))
                else:
                    r = d.add_listener(EVENTS[o[1]], L(o[4]), o[2])
                outs.append(None if r is None else "returned:" + type(r).__name__)
            elif kind == "disp":
                del rec[:]
                name = EVENTS[o[1]]
                if o[2] == "none":
                    ev = None
                    ret = d.dispatch(name)
                else:
                    ev = make_event(o[2])
                    ret = d.dispatch(name, ev)
                args_ok = (ev is None or ret is ev) and all(
                    c[1] is ret and c[2] == name and c[3] is d for c in rec)
                outs.append([[c[0] for c in rec], bool(ret.is_propagation_stopped()), bool(args_ok)])
            elif kind == "has":
                r = d.has_listeners() if o[1] is None else d.has_listeners(EVENTS[o[1]])
                outs.append(r if isinstance(r, bool) else "returned:" + type(r).__name__)
            elif kind == "get":
                if o[1] is None:
                    r = d.get_listeners()
                    items = []
                    for name, ls in r.items():
                        items.append([EVENTS.index(name) if name in EVENTS else str(name), ids(ls)])
                    outs.append({"d": sorted(items, key=lambda t: (str(type(t[0])), t[0]))})
                else:
                    outs.append(ids(d.get_listeners(EVENTS[o[1]])))
            elif kind == "prio":
                r = d.get_listener_priority(EVENTS[o[1]], L(o[2]))
                outs.append(r if (r is None or (isinstance(r, int) and not isinstance(r, bool)))
                            else "returned:" + type(r).__name__)
            else:
                raise RuntimeError("unknown op %r" % (o,))
        except RuntimeError:
            raise
        except Exception as e:  # noqa: BLE001 - the class name is the observable
            outs.append({"raised": type(e).__name__})
    return {"outs": outs}


def _reg_once(case):
    """no callable is registered twice for one event (the generator uses a fresh callable per registration)"""
    seen = set()
    for o in expand(case):
        if o[0] == "reg":
            if (o[1], o[4]) in seen:
                return False
            seen.add((o[1], o[4]))
    return True


def impl_view(case, obs):
    """what is compared with the model: everything but `args_ok` (the model has no arguments)"""
    outs, all_outs = [], []
    for o, out in zip(expand(case), obs["outs"]):
        if o[0] == "disp" and isinstance(out, list):
            out = out[:2]
        all_outs.append(out)
        if o[0] != "cfgset":
            outs.append(out)
    res = {"outs": outs, "spec_agrees": True, "reg_once": _reg_once(case)}
    if case.get("config"):
        res["cfg_outs"] = all_outs      # compared with the model of the configuration + two dispatcher objects (c12.cfgrun)
    return res


# --------------------------------------------------------------------------- model
def _model_op(o, stops):
    o = plain_op(o)
    k = o[0]
    if k == "reg":
        return ["add", o[1], o[4], stops[o[4]], o[2]]     # priority null: the model uses the default
    if k == "disp":
        if ev_limit(o[2]) is not None:
            return ["dispatchN", o[1], ev_limit(o[2])]
        # a class implementing the protocol faithfully is the stock flag (custom_event_faithful)
        return ["dispatch", o[1], o[2] in EV_STOPPED]
    if k == "prio":
        return ["prio", o[1], o[2], stops.get(o[2], False)]
    return o


def model_requests(case):
    stops = _stops_of(case)
    # the history as operations on ONE dispatcher (through whichever reference they were made)
    ops = [_model_op(o, stops) for o in expand(case) if o[0] != "cfgset"]
    reqs = [{"m": "c12.run", "ops": ops}]
    mode = case.get("config")
    if mode:
        # ... and on the model of the configuration with the caller's and the lazily created dispatcher object
        # (Model/ConfigDispatcher.lean; theorem config_handed_over: the two answers are the same)
        cops = []
        for o in expand(case):
            if o[0] == "cfgset":
                cops.append(["set"])
            elif o[0] == "reg" and via_config(o):
                cops.append(["cadd"] + _model_op(o, stops)[1:])
            else:
                cops.append(["cfg" if (via_config(o) or mode == "lazy") else "own", _model_op(o, stops)])
        reqs.append({"m": "c12.cfgrun", "ops": cops})
    return reqs


def _canon_outs(outs):
    res = []
    for o in outs:
        if isinstance(o, dict) and "d" in o:
            o = {"d": sorted(o["d"], key=lambda t: t[0])}
        res.append(o)
    return res


def model_obs(case, answers):
    a = answers[0]
    if "ok" not in a:
        return {"model_raised": a.get("err"), "spec": _canon_outs(a.get("spec", []))}
    outs = _canon_outs(a["ok"]["outs"])
    spec = _canon_outs(a["ok"]["spec"])
    res = {"outs": outs, "spec_agrees": _spec_agrees(case, outs, spec), "reg_once": (a.get("wf") or {}).get("reg_once")}
    if case.get("config"):
        b = answers[1]
        res["cfg_outs"] = _canon_outs(b["ok"]) if "ok" in b else {"model_raised": b.get("err")}
    return res


def _spec_agrees(case, outs, spec):
    """the outputs of the model of the code are the outputs of the abstract specification; the one operation the
    specification leaves open (Lean: `determined`, theorem query_get_priority) is get_listener_priority of a callable
    registered for the event under several priorities: there the model must answer one of them"""
    if outs == spec:
        return True
    if len(outs) != len(spec):
        return False
    dp = default_priority()
    prios = {}
    for o, x, y in zip([o for o in expand(case) if o[0] != "cfgset"], outs, spec):
        if o[0] == "reg":
            prios.setdefault((o[1], o[4]), set()).add(dp if o[2] is None else o[2])
        if x != y:
            open_ = o[0] == "prio" and len(prios.get((o[1], o[2]), ())) > 1
            if not (open_ and x in prios[(o[1], o[2])]):
                return False
    return True


# --------------------------------------------------------------------------- the property statement
def _demanded(regs):
    """the registrations (listener id, priority, registration number) of one event in the order the statement demands:
    highest priority first, registration order among equal priorities - one entry PER REGISTRATION (a callable that was
    registered twice is two listeners of the event)"""
    return sorted(regs, key=lambda r: (-r[1], r[2]))


def _check_order(seq, regs, what):
    """seq (listener ids, one per call / list entry) must walk through the demanded order of the registrations from
    its start: every entry is the listener of the registration due at that rank"""
    want = _demanded(regs)
    known = set(r[0] for r in regs)
    for k in seq:
        if k not in known:
            return "%s: listener %r is not registered for this event" % (what, k)
    if len(seq) > len(want):
        return "%s: %d entries %r for %d registration(s) - a registration is used more than once" % (
            what, len(seq), seq, len(want))
    for i, k in enumerate(seq):
        w = want[i]
        if k != w[0]:
            return ("%s: position %d is listener %r, but the registration due there is listener %d (priority %d, "
                    "registration #%d); got %r, demanded order %r") % (what, i, k, w[0], w[1], w[2], seq, [r[0] for r in want])
    return None


def oracle(case, obs):
    dp = default_priority()
    stops = _stops_of(case)
    regs = {0: [], 1: [], 2: []}       # event -> [(listener id, priority, registration number)] in registration order
    nreg = 0
    ops = expand(case)
    outs = obs["outs"]
    if len(outs) != len(ops):
        return "harness: %d outputs for %d operations" % (len(outs), len(ops))
    for i, (o, out) in enumerate(zip(ops, outs)):
        where = "op %d %r" % (i, o)
        if isinstance(out, dict) and "raised" in out:
            return "%s raised %s" % (where, out["raised"])
        kind = o[0]
        if kind == "cfgset":
            # handing the dispatcher to the configuration registers nothing and changes nothing
            if out is not None:
                return "%s: set_event_dispatcher %s" % (where, out)
            continue
        if via_config(o):
            where += " (through the configuration)"
        if kind == "reg":
            if out is not None:
                return "%s: add_listener %s" % (where, out)
            regs[o[1]].append((o[4], dp if o[2] is None else o[2], nreg))
            nreg += 1
        elif kind == "disp":
            r = regs[o[1]]
            called, out_stopped, args_ok = out
            if not args_ok:
                return "%s: a listener was not called with (the dispatched event, the event name, the dispatcher) or another event object was returned" % where
            if ev_pre_stopped(o[2]):
                if called:
                    return "%s: propagation was already stopped but %r were called" % (where, called)
                if not out_stopped:
                    return "%s: the returned event is no longer stopped" % where
                continue
            # the calls are the start of the demanded order (one call per registration, at its rank) ...
            v = _check_order(called, r, where)
            if v:
                return v
            # ... and end with the call after which the event's protocol answers "stopped": the listener called
            # stop_propagation(), or (budget event) it was the N-th listener to see the event
            limit = ev_limit(o[2])
            stoppers = [n for n, k in enumerate(called) if stops.get(k, False) or (limit is not None and n + 1 >= limit)]
            if stoppers and stoppers[0] != len(called) - 1:
                k = called[stoppers[0]]
                return "%s: propagation was stopped at call #%d, listener %d (%s) but %r were still called" % (
                    where, stoppers[0], k,
                    "it called stop_propagation()" if stops.get(k, False) else "the event's is_propagation_stopped() is true after %d calls" % limit,
                    called[stoppers[0] + 1:])
            if not stoppers and len(called) < len(r):
                return "%s: nobody stopped propagation but only %r of the demanded %r were called" % (
                    where, called, [x[0] for x in _demanded(r)])
            if out_stopped != bool(stoppers):
                return "%s: returned event stopped=%s, but %s" % (
                    where, out_stopped, "propagation was stopped at listener %d" % called[stoppers[0]] if stoppers else "nothing stopped it")
        elif kind == "has":
            want = any(regs[e] for e in regs) if o[1] is None else bool(regs[o[1]])
            if out is not want:
                return "%s: has_listeners is %r, required %r" % (where, out, want)
        elif kind == "get":
            if o[1] is None:
                seen = {}
                for name, ls in out["d"]:
                    if name not in regs:
                        if ls:
                            return "%s: listeners %r under a foreign key %r" % (where, ls, name)
                        continue
                    seen[name] = ls
                for e in regs:
                    ls = seen.get(e, [])
                    v = _check_order(ls, regs[e], "%s event %d" % (where, e))
                    if v:
                        return v
                    if len(ls) != len(regs[e]):
                        return "%s: event %d lists %r, registered are %r" % (where, e, ls, [x[0] for x in _demanded(regs[e])])
            else:
                v = _check_order(out, regs[o[1]], where)
                if v:
                    return v
                if len(out) != len(regs[o[1]]):
                    return "%s: lists %r, registered are %r" % (where, out, [x[0] for x in _demanded(regs[o[1]])])
        elif kind == "prio":
            # a callable registered for the event under several priorities: the statement does not say which one
            have = sorted(set(x[1] for x in regs[o[1]] if x[0] == o[2]))
            if isinstance(out, bool) or (out is None) != (not have) or (have and out not in have):
                return "%s: get_listener_priority is %r, required %s" % (
                    where, out, "None" if not have else ("%r" % have[0] if len(have) == 1 else "one of %r" % have))
    return None


# --------------------------------------------------------------------------- statistics
def _again(case):
    """"" / " again" (some callable is registered more than once) / " again@other-prio" (for one event under two
    priorities)"""
    seen, res = {}, ""
    for o in case["ops"]:
        if o[0] == "reg":
            if any(k == o[4] for (e, k) in seen):
                res = res or " again"
            if (o[1], o[4]) in seen and seen[(o[1], o[4])] != {o[2]}:
                return " again@other-prio"
            seen.setdefault((o[1], o[4]), set()).add(o[2])
    return res


def _profile(case):
    """(number of regs, number of dispatches, max number of registrations seen by a dispatch/get)"""
    cnt = {0: 0, 1: 0, 2: 0}
    nreg = ndisp = seen = 0
    for o in case["ops"]:
        if o[0] == "reg":
            cnt[o[1]] += 1
            nreg += 1
        elif o[0] == "disp":
            ndisp += 1
            seen = max(seen, cnt[o[1]])
        elif o[0] == "get":
            seen = max(seen, max(cnt.values()) if o[1] is None else cnt[o[1]])
    return nreg, ndisp, seen


def nontrivial_key(case, obs):
    if _profile(case)[2] >= 2:
        return hash(repr(case["ops"]))
    return None


def _lenb(n):
    return str(n) if n <= 7 else ("8-15" if n <= 15 else ("16-27" if n <= 27 else "28-40"))


def bucket(case, obs):
    nreg, ndisp, seen = _profile(case)
    if ndisp == 0:
        d = "no-dispatch"
    elif any(o[0] == "disp" and isinstance(out, list) and out[1] for o, out in zip(case["ops"], obs["outs"])):
        d = "some-dispatch-stopped"
    else:
        d = "dispatches-unstopped"
    evs = [o[2] for o in case["ops"] if o[0] == "disp"]
    c = " budget-event" if any(ev_limit(x) is not None for x in evs) else (
        " user-event" if any(x not in ("none", "fresh", "stopped") for x in evs) else "")
    cfg = ""
    if case.get("config") == "set":
        at = [o[0] for o in case["ops"]].index("cfgset")
        held = sum(1 for o in case["ops"][:at] if o[0] == "reg")
        cfg = " config(handed over with %s listener(s))" % (held if held < 3 else "3+")
    elif case.get("config"):
        cfg = " config(lazy)"
    return "len=%s regs=%s %s%s%s%s" % (_lenb(len(case["ops"])), nreg if nreg < 4 else "4+", d, c, _again(case), cfg)


# --------------------------------------------------------------------------- minimisation / search
def _deconfigured(case):
    """the same history on one plain dispatcher"""
    return {"ops": [plain_op(o) for o in case["ops"] if o[0] != "cfgset"], "probe": case.get("probe", False)}


def _keep_config(case, cands):
    """candidates derived from the ops of a history with a configuration stay such histories (when still well-formed)"""
    for c in cands:
        if case.get("config"):
            c = dict(c, config=case["config"])
        if _valid_config(c):
            yield c


def shrink(case):
    if case.get("config"):
        yield _deconfigured(case)
        ops = case["ops"]
        for i, o in enumerate(ops):
            # one operation less through the configuration
            if via_config(o) and not (case["config"] == "lazy" and i == 0):
                yield dict(case, ops=ops[:i] + [plain_op(o)] + ops[i + 1:])
    for c in _keep_config(case, _shrink_ops(case)):
        yield c


def neighbours(case):
    for c in _keep_config(case, _neighbours_ops(case)):
        yield c
    if not case.get("config"):
        # the same history with the dispatcher handed to a configuration at the start / after each registration, every
        # later registration made through config.add_event_listener
        ops = case["ops"]
        for at in [0] + [i + 1 for i, o in enumerate(ops) if o[0] == "reg"][:3]:
            for both in (False, True):
                tail = [o + ["c"] if (o[0] == "reg" or both) else o for o in ops[at:]]
                yield {"ops": ops[:at] + [["cfgset"]] + tail, "probe": True, "config": "set"}


def _shrink_ops(case):
    ops = case["ops"]
    n = len(ops)
    size = n // 2
    while size >= 1:
        for i in range(0, n, size):
            cand = ops[:i] + ops[i + size:]
            if len(cand) < n:
                yield {"ops": cand, "probe": case.get("probe", False)}
        size //= 2
    if case.get("probe"):
        yield {"ops": ops, "probe": False}
    for i, o in enumerate(ops):
        if o[0] == "reg" and o[2] not in PRIOS:
            for p in PRIOS:
                yield {"ops": ops[:i] + [[o[0], o[1], p, o[3], o[4]]] + ops[i + 1:], "probe": case.get("probe", False)}
        if o[0] == "disp" and o[2] not in ("fresh", "stopped"):
            simpler = "stopped" if o[2] in EV_STOPPED else "fresh"
            yield {"ops": ops[:i] + [["disp", o[1], simpler]] + ops[i + 1:], "probe": case.get("probe", False)}


def _neighbours_ops(case):
    ops = case["ops"]
    probe = case.get("probe", False)

    def mk(new):
        return {"ops": new, "probe": True}
    if not probe:
        yield mk(ops)
    nid = max([o[4] for o in ops if o[0] == "reg"] + [-1]) + 1
    # observe after every position
    for i in range(len(ops), -1, -1):
        for e in (0, 1, 2):
            yield mk(ops[:i] + [["disp", e, "fresh"]] + ops[i:])
            yield mk(ops[:i] + [["disp", e, "fwd"]] + ops[i:])
            yield mk(ops[:i] + [["disp", e, "own"]] + ops[i:])
            yield mk(ops[:i] + [["get", e]] + ops[i:])
        yield mk(ops[:i] + [["get", None]] + ops[i:])
    for i, o in enumerate(ops):
        if o[0] == "reg":
            for e in REG_EVENTS:
                for p in PRIOS:
                    for s in (False, True):
                        if (e, p, s) != (o[1], o[2], o[3]):
                            yield mk(ops[:i] + [["reg", e, p, s, o[4]]] + ops[i + 1:])
        elif o[0] == "disp":
            for ev in ("fresh", "stopped", "none", "fwd", "own", "fwd-stopped", "own-stopped", "lim:0", "lim:1", "lim:2"):
                if ev != o[2]:
                    yield mk(ops[:i] + [["disp", o[1], ev]] + ops[i + 1:])
        yield mk(ops[:i] + ops[i + 1:])
        if i + 1 < len(ops):
            yield mk(ops[:i] + [ops[i + 1], ops[i]] + ops[i + 2:])
    for i in range(len(ops) + 1):
        for p in PRIOS:
            yield mk(ops[:i] + [["reg", 0, p, False, nid]] + ops[i:])
    # a callable that is already registered is registered once more
    st = _stops_of(case)
    for i in range(1, len(ops) + 1):
        for k in sorted(set(o[4] for o in ops[:i] if o[0] == "reg"))[:3]:
            for e in REG_EVENTS:
                for p in PRIOS:
                    yield mk(ops[:i] + [["reg", e, p, st[k], k]] + ops[i:])
