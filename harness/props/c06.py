"""
C06 - an args format can never be built into an inconsistent state.

Correspondence: operation sequences of the public builder API (add_* / set_* of options, command
options with aliases, arguments, command names) drawn from a small colliding name pool, stacked on
0-2 levels of base format, run on the real ArgsFormatBuilder / ArgsFormat; after every operation the
exception class and the answers to ALL public queries of the builder and of `builder.format` are
compared with the Lean model (`Clikit.ArgsFmt`).  Also `ArgsFormat(elements, base)` directly and
`CommandConfig.build_args_format` stacked on parents.  The element objects are instances of the public
element classes or of user-defined subclasses of them (trivial, two levels deep with an own constructor
signature, with a mixin): the model does not know classes, only as which public class the `isinstance`
chain of the element-list constructor adds an object (`dispatch`, entry c06.dispatch, compared with the
listing `ArgsFormat([object])` puts the object in).

Oracle: the property statement evaluated on the implementation alone (invariant after each
operation, atomic rejection through a before/after snapshot of all builder queries, builder ==
format on all queries, answers == what the listed elements imply, constructor == sequence of adds).
"""
import itertools

from harness import parser_common as pc

ID = "C06"
DESIGN_REF = "6/C06"
TECHNIQUE = ("Lean 4 proofs over all operation histories and all base chains about an executable model of "
             "ArgsFormatBuilder/ArgsFormat + differential execution of model and implementation on operation "
             "sequences (bounded-exhaustive for short ones, random to length 7)")
LEVEL_TEXT = ("Proved in Lean for the model, for every history of builder calls on every chain of base formats: the "
              "invariant (every name/alias is a key of at most one option across the format and its bases, at most one "
              "multi-valued argument and it is last, no required argument after an optional one) is preserved by every "
              "call, a rejected single addition leaves the builder unchanged, the built format answers every public "
              "query exactly as the builder does, every predicate/lookup equals its declarative meaning over the listed "
              "elements, and ArgsFormat(elements, base) is the fold of the single additions - also for element objects of "
              "arbitrary user-defined subclasses of the public element classes: the isinstance chain of the element-list "
              "constructor is a model function of the public classes among the bases of the object's class (dispatch), an "
              "object is skipped iff it derives from none (dispatch_none_iff), the first class in the order of the tests "
              "decides (dispatch_mem, dispatch_first), an instance of any subclass of exactly one public class is added as "
              "that class (dispatch_subclass), hence the constructor on such objects is the fold of the additions of what "
              "they read as (ctor_objects_same_rules).  The hypotheses of these "
              "theorems are discharged: the well-formedness of the elements is decided by the model on the names read "
              "from the real element objects of every case (entry c06.wf, theorem wf_decides) and compared with true; "
              "the well-formedness of the base is proved for every format that can exist (built_inv: the closure of None "
              "under ArgsFormat(elements, base) and ArgsFormatBuilder(base)...format; built_bases_inv for chains of "
              "element-list constructors), so reachable_inv_decided / ctor_inv_decided / built_consistent have decidable "
              "hypotheses only.  "
              "Bridge to the parser properties (C01/C02/C05/C13): the flattened view parse() works on is a Lean function "
              "of the builder model's format (Model/Flatten.lean flattenRec: command names, arguments base-first, options "
              "with the base; the attributes only the parser reads - types, nullability, defaults, option value modes - "
              "are a parameter, so every statement holds for every choice of them), and for every format satisfying the "
              "invariant, hence for every format that can be built, the format hypotheses of the parser theorems are "
              "PROVED instead of decided per case: the multi-valued argument is last (flat_multi_last), the argument keys "
              "incl. the command-name pseudo keys are distinct (flat_keys_nodup, flat_arg_names_nodup), every option is "
              "found by the parser's lookup under its long name and under its short name and a name identifies at most "
              "one option (flat_long_names, flat_short_names, flat_names_identify_at_most_one, flat_short_ok, "
              "built_short_ok, built_option_names); corollaries instantiate the parser theorems with these hypotheses "
              "discharged for any Built format (built_positionals_in_order, built_command_names_realigned, "
              "built_fault_surplus_positional, built_fault_value_for_flag, built_fault_required_value_missing, "
              "built_no_foreign_exception).  Left as hypotheses because the builder model does not carry the "
              "information: the C07 option-mode normal form and the defaults clause of FmtWF (flat_fmt_wf states exactly "
              "these two), and that a long name contains no '='.  "
              "The model is tied to the "
              "code by comparing, after every operation, the exception class and all public queries of builder and "
              "built format (ordered listings included) on bounded-exhaustive and random operation sequences; the "
              "flattening is tied by the driver entry c06.flatten: after every call (and for every base level, constructor "
              "and config format) the model's flattened format is compared with parser_common.flatten of the REAL format "
              "(the reading C01/C02/C05 use), restricted to the attributes the builder model carries.")
LEVEL_NOTE = ("Trusted: Lean kernel + propext/Quot.sound/Classical.choice; the hand-written model is validated by the "
              "correspondence run only (modelled, not verified).  Element constructors (name validation, flag "
              "normal forms) are C07's subject: the theorems need what they guarantee (long names/aliases have at "
              "least two characters, short names/aliases exactly one) - no longer assumed: decided by Op.wfB / Elem.wfB "
              "on every real element of every case (c06.wf) and compared with true.  The concrete class of an element "
              "object is not part of the builder model: an object enters it as the element its public class reads "
              "(names, modes); which public class that is, is the model's dispatch on the bases read from the real object's "
              "class, compared on every case with the listing ArgsFormat([object]) puts the object in (c06.dispatch); "
              "builder calls (add_option(x) ...) take the kind from the method called.  The bridge theorems are about "
              "flattenRec of the MODEL's format; that the real parse() reads the same three listings is the "
              "correspondence of C01/C02 (their flatten) plus the c06.flatten comparison here, restricted to command "
              "names/aliases, argument name/required/multi and option long/short names; option value modes, types, "
              "nullability and defaults are outside the builder model (universally quantified parameters aa/oa).  "
              "That a finished format is a snapshot (later builder calls do not change it) is definitional in the model - "
              "Builder.format is a value computed from the builder state - and therefore CHECKED on the real objects, not "
              "proved: every format taken on the way is listed again after the later calls (defect D40, a shared command-name "
              "list, was found this way and is repaired).")
LEAN_MODULES = ["Clikit.Props.C06"]
REQUIRED_THEOREMS = ["Clikit.Props.C06.step_atomic_inv", "Clikit.Props.C06.reachable_inv",
                     "Clikit.Props.C06.format_agrees", "Clikit.Props.C06.format_inv",
                     "Clikit.Props.C06.ctor_same_rules", "Clikit.Props.C06.ctor_inv",
                     "Clikit.Props.C06.set_is_clear_then_add", "Clikit.Props.C06.multi_add_prefix",
                     "Clikit.Props.C06.queries_match_elements", "Clikit.Props.C06.queries_match_elements_builder",
                     "Clikit.Props.C06.names_identify_at_most_one", "Clikit.Props.C06.argument_rules",
                     "Clikit.Props.C06.listing_order", "Clikit.Props.C06.lookups_raise_documented_only",
                     "Clikit.Props.C06.wf_decides", "Clikit.Props.C06.built_bases_inv",
                     "Clikit.Props.C06.reachable_inv_decided", "Clikit.Props.C06.ctor_inv_decided",
                     "Clikit.Props.C06.built_inv", "Clikit.Props.C06.built_consistent",
                     "Clikit.Props.C06.flat_multi_last", "Clikit.Props.C06.flat_keys_nodup",
                     "Clikit.Props.C06.flat_arg_names_nodup", "Clikit.Props.C06.flat_long_names",
                     "Clikit.Props.C06.flat_short_names", "Clikit.Props.C06.flat_names_identify_at_most_one",
                     "Clikit.Props.C06.flat_long_ok", "Clikit.Props.C06.flat_short_ok", "Clikit.Props.C06.flat_fmt_wf",
                     "Clikit.Props.C06.built_names_validated", "Clikit.Props.C06.built_option_names",
                     "Clikit.Props.C06.built_short_ok", "Clikit.Props.C06.built_long_ok",
                     "Clikit.Props.C06.built_flat_wf", "Clikit.Props.C06.built_positionals_in_order",
                     "Clikit.Props.C06.built_command_names_realigned",
                     "Clikit.Props.C06.built_fault_surplus_positional", "Clikit.Props.C06.built_fault_value_for_flag",
                     "Clikit.Props.C06.built_fault_required_value_missing",
                     "Clikit.Props.C06.built_no_foreign_exception",
                     "Clikit.Props.C06.dispatch_none_iff", "Clikit.Props.C06.dispatch_mem",
                     "Clikit.Props.C06.dispatch_first", "Clikit.Props.C06.dispatch_subclass",
                     "Clikit.Props.C06.only_decides", "Clikit.Props.C06.ctor_objects_same_rules_decided",
                     "Clikit.Props.C06.ctor_objects_same_rules"]
RULE = ("cases = (0-2 base levels built with ArgsFormat(elements, base)) x (sequence of builder calls); quick: every "
        "sequence of length <= 3 over a reduced pool of 14 calls on 4 base configurations, then random sequences of "
        "length 4-7 over the full pool (20 elements with colliding long/short names and aliases, set_*/add_* with "
        "0-3 elements); plus ArgsFormat(elements, base) cases and CommandConfig.build_args_format stacks; "
        "the concrete class of every element object is a dimension of the case (`cls`): the public class, a trivial "
        "user subclass, a subclass of a subclass with its own constructor signature, a mixin subclass - quick: every "
        "ArgsFormat(elements, base) with <= 2 elements of a reduced pool of 11 x {public class, trivial subclass} per "
        "object on 3 base configurations (thorough: all four kinds of class, and <= 3 elements), and in about 45 % of the "
        "random run / ctor cases half of the objects (base levels, constructor lists, builder calls) are of a user "
        "subclass; every object is also given alone to ArgsFormat([x]); "
        "every format taken from the builder on the way is read again after the later calls (a finished format does not "
        "change with the builder it came from); "
        "a case is non-trivial when a call was rejected or a base level exists; distinct = distinct case")
TRUSTED_BASE = [
    "Lean 4.33 kernel; axioms propext, Classical.choice, Quot.sound only (audited per theorem on every run)",
    "lean/Clikit/Model/Builder.lean is hand-written: its fidelity is what the correspondence run sampled",
    "lean/Clikit/Model/Flatten.lean (flattenRec) is hand-written: tied by c06.flatten to parser_common.flatten of the "
    "real formats on the attributes the builder model carries",
    "harness/props/c06.py: generators, the probe list (every public has_*/get_* with include_base True/False over all "
    "names of the pool and positions -2..len+1), canonicalisation of elements to tags",
    "element constructors (Option, CommandOption, Argument, CommandName) are C07's subject",
    "the user-defined subclasses the harness makes element objects of (`_user_classes`: trivial, two levels deep with "
    "an own constructor signature and attribute, mixin first) do not override anything the public classes define; "
    "the public classes among the bases of an object's class are read from type(o).__mro__",
]
ASSUMPTIONS = [
    "elements are what the constructors produce: long names and long aliases have >= 2 characters, short names and "
    "short aliases exactly 1 (hypothesis `wf` of the theorems; C07) - checked, not assumed: the model decides it on the "
    "names read from the real objects of every case (c06.wf == true is part of the correspondence)",
    "a base format is itself a built format (ArgsFormat(elements, base) or builder.format - the only constructors); "
    "for such formats the hypothesis InvBase is a theorem (built_inv over the inductive closure `Built`; that ArgsFormat "
    "has no other constructor and no mutator is read off the class, not proved)",
    "an instance of a subclass of a public element class is an element of that class (isinstance): the statement "
    "does not mention classes, the oracle demands the same of such objects as of plain ones",
    "a format is only observed through its public queries. In the model a format is a VALUE computed from the builder "
    "state (Builder.format): 'later builder operations do not change a format taken earlier' is definitional there and "
    "not a theorem; for the real objects (where builder and format could share a list or dict - D40 did, for the command "
    "names) it is CHECKED: every format taken on the way is listed again after the later calls and compared with what "
    "it listed when it was taken",
]
BUDGET_S = {"quick": 70, "thorough": 700}
BATCH = 1500

# --------------------------------------------------------------------------- element pool
def _o(tag, long, short):
    return {"k": "opt", "long": long, "short": short, "tag": tag}


def _c(tag, long, short, aliases, la, sa):
    return {"k": "copt", "long": long, "short": short, "aliases": aliases, "la": la, "sa": sa, "tag": tag}


def _a(tag, name, req, multi):
    return {"k": "arg", "name": name, "req": req, "opt": not req, "multi": multi, "tag": tag}


def _n(tag, name, aliases):
    return {"k": "name", "name": name, "aliases": aliases, "tag": tag}


OPTS = [_o(1, "foo", "f"), _o(2, "bar", "f"), _o(3, "foo", "g"), _o(4, "baz", "b"), _o(5, "bar", None),
        _o(6, "qux", "q")]
COPTS = [_c(11, "foo", "f", [], [], []),
         _c(12, "add", "a", ["baz", "b"], ["baz"], ["b"]),
         _c(13, "del", None, ["g", "bar"], ["bar"], ["g"]),
         _c(14, "self", "s", ["self", "s", "se", "se"], ["self", "se", "se"], ["s"]),
         _c(15, "baz", "c", [], [], []),
         _c(16, "new", "n", ["q", "f"], [], ["q", "f"])]
ARGS = [_a(21, "foo", True, False), _a(22, "bar", False, False), _a(23, "foo", False, False),
        _a(24, "baz", True, True), _a(25, "baz", False, True), _a(26, "qux", True, False),
        _a(27, "bar", True, False), _a(28, "opt", False, False)]
NAMES = [_n(31, "cmd", ["c1"]), _n(32, "sub", [])]
POOL = OPTS + COPTS + ARGS + NAMES
BY_TAG = dict((e["tag"], e) for e in POOL)
PROBE_NAMES = ["foo", "bar", "baz", "qux", "add", "del", "self", "se", "new", "opt", "f", "g", "b", "q", "a", "s",
               "c", "n", "zzz"]
PROBE_IDX = [-2, -1, 0, 1, 2, 3, 4, 5]

SINGLE = {"opt": "add_option", "copt": "add_command_option", "arg": "add_argument", "name": "add_command_name"}
MULTI = {"opt": ("add_options", "set_options"), "copt": ("add_command_options", "set_command_options"),
         "arg": ("add_arguments", "set_arguments"), "name": ("add_command_names", "set_command_names")}
KIND_LIST = {"opt": OPTS, "copt": COPTS, "arg": ARGS, "name": NAMES}


def _single(e):
    return {"op": SINGLE[e["k"]], "e": e}


def _multi(op, es):
    return {"op": op, "es": list(es)}


# reduced pool for the bounded-exhaustive part
SMALL_OPS = [_single(BY_TAG[t]) for t in (1, 2, 3, 11, 12, 13, 21, 22, 24, 26, 31)] + [
    _multi("set_options", [BY_TAG[4], BY_TAG[2]]),
    _multi("set_arguments", [BY_TAG[28], BY_TAG[27]]),
    _multi("set_command_options", [BY_TAG[14]]),
]
SMALL_BASES = [
    [],
    [[BY_TAG[1], BY_TAG[21]]],
    [[BY_TAG[12], BY_TAG[31]], [BY_TAG[5], BY_TAG[22]]],
    [[BY_TAG[13], BY_TAG[26]]],
]


# --------------------------------------------------------------------------- generation
def _names_of(e):
    if e["k"] == "opt":
        return [e["long"]] + ([e["short"]] if e["short"] else [])
    if e["k"] == "copt":
        return [e["long"]] + ([e["short"]] if e["short"] else []) + e["la"] + e["sa"]
    return []


def _rand_base_level(rng, taken, argstate):
    """a mostly valid level on top of the levels below (the generator's own bookkeeping, not a verdict)"""
    out = []
    for _ in range(rng.randint(1, 4)):
        e = rng.choice(POOL)
        sloppy = rng.random() < 0.04
        if e["k"] in ("opt", "copt"):
            ns = set(_names_of(e))
            if ns & taken and not sloppy:
                continue
            taken |= ns
        elif e["k"] == "arg":
            bad = (e["name"] in argstate["names"] or argstate["multi"] or (e["req"] and argstate["opt"]))
            if bad and not sloppy:
                continue
            argstate["names"].add(e["name"])
            argstate["multi"] = argstate["multi"] or e["multi"]
            argstate["opt"] = argstate["opt"] or e["opt"]
        out.append(e)
    return out


def _rand_bases(rng):
    n = rng.choice([0, 1, 1, 2, 2])
    taken, argstate = set(), {"names": set(), "multi": False, "opt": False}
    return [_rand_base_level(rng, taken, argstate) for _ in range(n)]


def _rand_op(rng):
    if rng.random() < 0.7:
        return _single(rng.choice(POOL))
    kind = rng.choice(["opt", "copt", "arg", "name"])
    op = rng.choice(MULTI[kind])
    k = rng.choice([0, 1, 2, 2, 3])
    return _multi(op, [rng.choice(KIND_LIST[kind]) for _ in range(k)])


def _run_case(bases, ops, snap_all):
    return {"kind": "run", "bases": bases, "ops": ops, "snap_all": snap_all}


# ---- the concrete classes of the element objects.  An element of the pool says which PUBLIC element class the object
# is an instance of ("k") and what its names / modes are; `case["cls"]` ({str(tag): kind}) says of which concrete class
# the object of that tag is made: the public class itself (no entry), or a user-defined subclass of it:
#   "sub"   - a trivial subclass (`class X(Option): pass`)
#   "deep"  - a subclass of a subclass whose constructor has its OWN signature and sets an attribute of its own
#   "mixin" - a class inheriting from a foreign mixin FIRST and from the public class second
# The property does not mention classes: an instance of a subclass of Option IS an option (isinstance), so the model
# requests do not carry `cls` at all and every clause of the oracle applies unchanged.
CLS_KINDS = ["sub", "deep", "mixin"]


def _case_tags(case):
    """tags of the element objects of a run / ctor case, in order of first use"""
    out = []
    for e in _case_elements(case):
        if "tag" in e and e["tag"] not in out:
            out.append(e["tag"])
    return out


def _with_cls(case, assign):
    """the case with the concrete classes `assign` ({tag: kind or None})"""
    cls = dict((str(t), k) for t, k in assign.items() if k)
    c = dict(case)
    c.pop("cls", None)
    if cls:
        c["cls"] = cls
    return c


def _rand_cls(rng, case, p_case=0.45):
    """user subclasses for about half of the element objects of about half of the cases"""
    if case["kind"] == "config" or rng.random() >= p_case:
        return case
    return _with_cls(case, dict((t, rng.choice(CLS_KINDS) if rng.random() < 0.5 else None) for t in _case_tags(case)))


CTOR_SMALL = (1, 2, 3, 11, 12, 13, 21, 22, 24, 26, 31)


def _ctor_scope(maxlen, kinds):
    """ArgsFormat(elements, base): every element list up to `maxlen` over the reduced pool x every assignment of the
    concrete classes `kinds` (None = the public class) to the objects used, on no base, a plain base level and the same
    base level made of subclass instances"""
    T = BY_TAG
    base_lvl = [T[1], T[21]]
    for n in range(0, maxlen + 1):
        for seq in itertools.product(CTOR_SMALL, repeat=n):
            tags = []
            for t in seq:
                if t not in tags:
                    tags.append(t)
            for ks in itertools.product(kinds, repeat=len(tags)):
                assign = dict(zip(tags, ks))
                if not any(ks):
                    continue        # all-plain lists are in the random part and the seed cases
                els = [T[t] for t in seq]
                yield _with_cls({"kind": "ctor", "bases": [], "elements": els}, assign)
                yield _with_cls({"kind": "ctor", "bases": [base_lvl], "elements": els}, assign)
                both = dict(assign)
                both.update({1: "sub", 21: "sub"})
                yield _with_cls({"kind": "ctor", "bases": [base_lvl], "elements": els}, both)


def generate(tier, rng):
    maxlen = 3 if tier == "quick" else 4
    # a few hand-picked cases first (the repaired defects D4, D5, D6, D25 and the mutants of DESIGN 6/C06)
    for c in _seed_cases():
        yield c
    # the element-list constructor on objects of user subclasses of the public element classes
    if tier == "quick":
        for c in _ctor_scope(2, [None, "sub"]):
            yield c
    else:
        for c in _ctor_scope(2, [None] + CLS_KINDS):
            yield c
        for c in _ctor_scope(3, [None, "sub"]):
            yield c
    for n in range(0, maxlen + 1):
        for bases in SMALL_BASES:
            for seq in itertools.product(SMALL_OPS, repeat=n):
                yield _run_case(bases, list(seq), False)
    n_random = 4000 if tier == "quick" else 60000
    for i in range(n_random):
        r = rng.random()
        if r < 0.70:
            yield _rand_cls(rng, _run_case(_rand_bases(rng), [_rand_op(rng) for _ in range(rng.randint(4, 7))], True))
        elif r < 0.85:
            es = [rng.choice(POOL) for _ in range(rng.randint(0, 6))]
            if rng.random() < 0.1:
                es.insert(rng.randint(0, len(es)), {"k": "foreign"})
            yield _rand_cls(rng, {"kind": "ctor", "bases": _rand_bases(rng), "elements": es})
        else:
            yield _rand_config(rng)


def _rand_config(rng):
    levels = []
    for i in range(rng.randint(1, 3)):
        adds = [rng.choice(OPTS + ARGS) for _ in range(rng.randint(0, 4))]
        levels.append({"name": _n(40 + i, "lvl%d" % i, ["l%d" % i] if rng.random() < 0.5 else []),
                       "anonymous": rng.random() < 0.2, "adds": adds})
    return {"kind": "config", "levels": levels}


def _seed_cases():
    T = BY_TAG
    yield _run_case([[T[21]]], [_single(T[22])], True)                                  # D4
    yield {"kind": "ctor", "bases": [[T[1]]], "elements": [T[2]]}                        # D5
    yield {"kind": "ctor", "bases": [], "elements": [T[21], T[22]]}                      # D6
    yield _run_case([[T[15]]], [_single(T[1])], True)                                    # D25
    yield _run_case([[T[12]]], [_single(T[4]), _single(T[16]), _single(T[13])], True)    # alias checks
    yield _run_case([[T[22]]], [_single(T[26]), _single(T[25]), _single(T[28])], True)   # flags / base
    yield {"kind": "config", "levels": [
        {"name": _n(40, "lvl0", ["l0"]), "anonymous": False, "adds": [T[1], T[21]]},
        {"name": _n(41, "lvl1", []), "anonymous": False, "adds": [T[2], T[5], T[22]]}]}
    # objects of user subclasses of the public element classes: in the element-list constructor, in a base level and in
    # builder calls (one of each kind of element, colliding and non-colliding)
    yield _with_cls({"kind": "ctor", "bases": [], "elements": [T[31], T[12], T[1], T[26], T[24]]},
                    {31: "sub", 12: "deep", 1: "mixin", 26: "sub", 24: "deep"})
    yield _with_cls({"kind": "ctor", "bases": [[T[6], T[28]]], "elements": [T[1], T[2], T[21]]},
                    {6: "deep", 28: "mixin", 1: "sub", 21: "deep"})
    yield _with_cls(_run_case([[T[12], T[21]]], [_single(T[4]), _single(T[6]), _single(T[25]), _single(T[32])], True),
                    {12: "sub", 21: "mixin", 4: "deep", 6: "sub", 25: "deep", 32: "mixin"})


def exhaustive(tier):
    return False


# --------------------------------------------------------------------------- implementation side
class _Foreign(object):
    pass


_USER_CLASSES = {}


def _user_classes():
    """user-defined subclasses of the four public element classes: {kind: {"opt"|"copt"|"arg"|"name": factory}};
    every factory takes the arguments of the public constructor (the "deep" classes translate them to their own
    signature) so that an object of any of them carries the same names / modes as the plain object would"""
    if _USER_CLASSES:
        return _USER_CLASSES
    from clikit.api.args.format import Argument, CommandName, CommandOption, Option

    # -- "sub": trivial subclasses
    class SubOption(Option):
        pass

    class SubCommandOption(CommandOption):
        pass

    class SubArgument(Argument):
        pass

    class SubCommandName(CommandName):
        pass

    # -- "deep": own constructor signature, own attribute, one more level of inheritance
    class Flag(Option):
        """an option that never takes a value"""

        def __init__(self, long_name, short_name=None, description=None):
            super(Flag, self).__init__(long_name, short_name, Option.NO_VALUE, description)
            self.origin = "user"

    class Flag2(Flag):
        pass

    class Switch(CommandOption):
        def __init__(self, long_name, short_name=None, description=None, *aliases):
            super(Switch, self).__init__(long_name, short_name, list(aliases), 0, description)
            self.origin = "user"

    class Switch2(Switch):
        pass

    class Operand(Argument):
        def __init__(self, name, description=None, required=False, multi=False):
            flags = (Argument.REQUIRED if required else Argument.OPTIONAL) | (Argument.MULTI_VALUED if multi else 0)
            super(Operand, self).__init__(name, flags, description)
            self.origin = "user"

    class Operand2(Operand):
        pass

    class Verb(CommandName):
        def __init__(self, name, *aliases):
            super(Verb, self).__init__(name, list(aliases))
            self.origin = "user"

    class Verb2(Verb):
        pass

    # -- "mixin": a foreign class first in the bases
    class Described(object):
        def describe(self):
            return type(self).__name__

    class MixOption(Described, Option):
        pass

    class MixCommandOption(Described, CommandOption):
        pass

    class MixArgument(Described, Argument):
        pass

    class MixCommandName(Described, CommandName):
        pass

    def arg_flags(flags):
        return bool(flags & Argument.REQUIRED), bool(flags & Argument.MULTI_VALUED)

    _USER_CLASSES.update({
        None: {"opt": Option, "copt": CommandOption, "arg": Argument, "name": CommandName},
        "sub": {"opt": SubOption, "copt": SubCommandOption, "arg": SubArgument, "name": SubCommandName},
        "deep": {"opt": lambda long, short, flags, desc: Flag2(long, short, desc),
                 "copt": lambda long, short, aliases, flags, desc: Switch2(long, short, desc, *aliases),
                 "arg": lambda name, flags, desc: Operand2(name, desc, *arg_flags(flags)),
                 "name": lambda name, aliases: Verb2(name, *aliases)},
        "mixin": {"opt": MixOption, "copt": MixCommandOption, "arg": MixArgument, "name": MixCommandName},
    })
    return _USER_CLASSES


class _Objs(object):
    """one Python object per tag and case (re-adding the same element re-adds the same object); `cls` = the concrete
    class of the object of a tag ({str(tag): kind}, see CLS_KINDS; no entry = the public class itself)"""

    def __init__(self, cls=None):
        self.by_tag = {}
        self.name_tag = {}
        self.cls = cls or {}

    def get(self, e):
        from clikit.api.args.format import Argument, CommandName, CommandOption, Option  # noqa: F401
        if e["k"] == "foreign":
            return _Foreign()
        t = e["tag"]
        if t in self.by_tag:
            return self.by_tag[t]
        k = e["k"]
        desc = "t%d" % t
        made = _user_classes()[self.cls.get(str(t))]
        Option, CommandOption, Argument_, CommandName = made["opt"], made["copt"], made["arg"], made["name"]
        if k == "opt":
            o = Option(e["long"], e["short"], 0, desc)
            assert (o.long_name, o.short_name) == (e["long"], e["short"])
            assert len(o.long_name) >= 2 and (o.short_name is None or len(o.short_name) == 1)      # `Opt.wf`
        elif k == "copt":
            o = CommandOption(e["long"], e["short"], list(e["aliases"]), 0, desc)
            assert (o.long_name, o.short_name, o.long_aliases, o.short_aliases) == (e["long"], e["short"], e["la"], e["sa"])
            assert len(o.long_name) >= 2 and (o.short_name is None or len(o.short_name) == 1)      # `CmdOpt.wf`
            assert all(len(a) >= 2 for a in o.long_aliases) and all(len(a) == 1 for a in o.short_aliases)
        elif k == "arg":
            flags = (Argument.REQUIRED if e["req"] else Argument.OPTIONAL) | (Argument.MULTI_VALUED if e["multi"] else 0)
            o = Argument_(e["name"], flags, desc)
            assert (o.is_required(), o.is_optional(), o.is_multi_valued()) == (e["req"], e["opt"], e["multi"])
        else:
            o = CommandName(e["name"], list(e["aliases"]))
            self.name_tag[id(o)] = t
            self.name_tag[e["name"]] = t
        self.by_tag[t] = o
        return o

    def tag(self, o):
        d = getattr(o, "description", None)
        if isinstance(d, str) and d[:1] == "t":
            return int(d[1:])
        if id(o) in self.name_tag:
            return self.name_tag[id(o)]
        s = getattr(o, "string", None)
        if s in self.name_tag:
            return self.name_tag[s]
        return "?%s" % type(o).__name__


SHORT = {"NoSuchOptionException": "-o", "NoSuchArgumentException": "-a"}


def _call(fn, *a):
    try:
        return ("ok", fn(*a))
    except Exception as e:  # noqa
        return ("err", type(e).__name__)


def _snapshot(x, objs):
    """every public query, in the order of `probes` in lean/Clikit/Drv/C06.lean"""
    out = []
    tag = objs.tag

    def val(r):
        return r[1]

    def get(r):
        return tag(r[1]) if r[0] == "ok" else SHORT.get(r[1], r[1])

    def dct(r):
        return [[k, tag(v)] for k, v in r[1].items()] if r[0] == "ok" else r[1]

    def lst(r):
        return [tag(v) for v in r[1]] if r[0] == "ok" else r[1]

    for ib in (True, False):
        out.append(val(_call(x.has_command_names, ib)))
        out.append(lst(_call(x.get_command_names, ib)))
        out.append(val(_call(x.has_command_options, ib)))
        out.append(lst(_call(x.get_command_options, ib)))
        out.append(val(_call(x.has_arguments, ib)))
        out.append(val(_call(x.has_multi_valued_argument, ib)))
        out.append(val(_call(x.has_optional_argument, ib)))
        out.append(val(_call(x.has_required_argument, ib)))
        out.append(dct(_call(x.get_arguments, ib)))
        out.append(val(_call(x.has_options, ib)))
        out.append(dct(_call(x.get_options, ib)))
        for n in PROBE_NAMES:
            out.append(val(_call(x.has_option, n, ib)))
            out.append(get(_call(x.get_option, n, ib)))
            out.append(val(_call(x.has_command_option, n, ib)))
            out.append(get(_call(x.get_command_option, n, ib)))
            out.append(val(_call(x.has_argument, n, ib)))
            out.append(get(_call(x.get_argument, n, ib)))
        for i in PROBE_IDX:
            out.append(val(_call(x.has_argument, i, ib)))
            out.append(get(_call(x.get_argument, i, ib)))
    return out


def _both(builder, objs):
    d = {"b": _snapshot(builder, objs)}
    r = _call(lambda: builder.format)
    d["f"] = _snapshot(r[1], objs) if r[0] == "ok" else {"err": r[1]}
    return d


def _flat(fmt):
    """the flattened view the parser works on, read from the REAL format object by the harness of C01/C02/C05
    (`parser_common.flatten`), restricted to what the builder model carries: command names with aliases, argument
    names with required / multi in listing order, option long / short names in listing order (bridge theorems
    flat_* / built_* of Props/C06.lean; model side: driver entry c06.flatten)"""
    r = _call(pc.flatten, fmt)
    if r[0] == "err":
        return {"err": r[1]}
    fl = r[1]
    return {"cmds": [{"name": c["name"], "aliases": list(c["aliases"])} for c in fl["cmds"]],
            "args": [{"name": a["name"], "required": a["required"], "multi": a["multi"]} for a in fl["args"]],
            "opts": [{"long": o["long"], "short": o["short"]} for o in fl["opts"]]}


def _flat_of_builder(builder):
    r = _call(lambda: builder.format)
    return _flat(r[1]) if r[0] == "ok" else {"err": r[1]}


def _case_objects(case):
    """the distinct element objects of a run / ctor case (pool elements by tag, every foreign object on its own)"""
    out, seen = [], set()
    for e in _case_elements(case):
        if e["k"] == "foreign":
            out.append(e)
        elif e["tag"] not in seen:
            seen.add(e["tag"])
            out.append(e)
    return out


def _landing(o):
    """as what `ArgsFormat([o])` added the object: the listing of the constructed format that contains it"""
    from clikit.api.args.format import ArgsFormat
    r = _call(ArgsFormat, [o])
    if r[0] == "err":
        return r[1]
    f = r[1]
    for kind, listing in (("name", lambda: f.get_command_names(False)), ("copt", lambda: f.get_command_options(False)),
                          ("opt", lambda: f.get_options(False).values()), ("arg", lambda: f.get_arguments(False).values())):
        rr = _call(listing)
        if rr[0] == "err":
            return rr[1]
        if any(x is o for x in rr[1]):
            return kind
    return "foreign"


def _mro_names(o):
    """the public element classes among the bases of the object's class (what isinstance consults), MRO order"""
    from clikit.api.args.format import Argument, CommandName, CommandOption, Option
    return [c.__name__ for c in type(o).__mro__ if any(c is p for p in (CommandName, CommandOption, Option, Argument))]


def _build_bases(bases, objs, flats=None):
    from clikit.api.args.format import ArgsFormat
    base = None
    snaps = []
    for i, es in enumerate(bases):
        r = _call(ArgsFormat, [objs.get(e) for e in es], base)
        if r[0] == "err":
            return None, {"at": i, "err": r[1]}, snaps
        base = r[1]
        snaps.append(_snapshot(base, objs))
        if flats is not None:
            flats.append(_flat(base))
    return base, "ok", snaps


def _apply(builder, op, objs):
    fn = getattr(builder, op["op"])
    if "e" in op:
        return _call(fn, objs.get(op["e"]))
    return _call(fn, *[objs.get(e) for e in op["es"]])


def run_impl(case):
    from clikit.api.args.format import ArgsFormat, ArgsFormatBuilder
    objs = _Objs(case.get("cls"))
    kind = case["kind"]
    if kind == "config":
        return _run_config(case, objs)
    # every element object on its own: as which public class the element-list constructor adds it
    landing = [_landing(objs.get(e)) for e in _case_objects(case)]
    flats = []
    base, st, snaps = _build_bases(case["bases"], objs, flats)
    if st != "ok":
        return {"bases": st, "flat": {"bases": flats}, "dispatch": landing}
    obs = {"bases": "ok", "base_snaps": snaps, "flat": {"bases": flats}, "dispatch": landing}
    if kind == "run":
        builder = ArgsFormatBuilder(base)
        obs["init"] = _both(builder, objs)
        obs["flat"]["init"] = _flat_of_builder(builder)
        steps = []
        fsteps = []
        taken = []     # (format taken after a step, what it listed then): a finished format is a snapshot of the builder
        for op in case["ops"]:
            r = _apply(builder, op, objs)
            # an element that is in the builder keeps its mode whatever is done to it afterwards: give every optional
            # single-valued argument just added a (list) default - the builder's bookkeeping must not go stale
            for e in ([op["e"]] if "e" in op else op.get("es", [])):
                if isinstance(e, dict) and e.get("k") == "arg":
                    o = objs.get(e)
                    try:
                        if not o.is_required() and not o.is_multi_valued():
                            o.set_default(["poked"])
                    except Exception:  # noqa: BLE001
                        pass
            d = {"out": "ok" if r[0] == "ok" else r[1]}
            d.update(_both(builder, objs))
            steps.append(d)
            rf = _call(lambda: builder.format)
            fsteps.append(_flat(rf[1]) if rf[0] == "ok" else {"err": rf[1]})
            if rf[0] == "ok":
                taken.append((len(fsteps) - 1, rf[1], fsteps[-1]))
        obs["steps"] = steps
        obs["flat"]["steps"] = fsteps
        # the formats taken on the way, read again after everything that was done to the builder since
        obs["changed_later"] = [[k, _flat(f)] for k, f, fl in taken if _flat(f) != fl]
        return obs
    # ctor: ArgsFormat(elements, base) directly, and (for the oracle) the same elements added one by one
    els = [objs.get(e) for e in case["elements"]]
    r = _call(ArgsFormat, els, base)
    obs["ctor"] = "ok" if r[0] == "ok" else r[1]
    if r[0] == "ok":
        obs["f"] = _snapshot(r[1], objs)
    obs["flat"]["f"] = _flat(r[1]) if r[0] == "ok" else None
    builder = ArgsFormatBuilder(base)
    seq = "ok"
    for e, o in zip(case["elements"], els):
        if e["k"] == "foreign":
            continue
        rr = _call(getattr(builder, SINGLE[e["k"]]), o)
        if rr[0] == "err":
            seq = rr[1]
            break
    obs["seq"] = seq
    if seq == "ok":
        obs["seq_f"] = _snapshot(builder.format, objs)
    return obs


def _run_config(case, objs):
    from clikit.api.args.format import Argument
    from clikit.api.config.command_config import CommandConfig
    levels = []
    flats = []
    base = None
    for lv in case["levels"]:
        nm = lv["name"]
        objs.name_tag[nm["name"]] = nm["tag"]
        cfg = CommandConfig(nm["name"])
        cfg.add_aliases(list(nm["aliases"]))
        if lv["anonymous"]:
            cfg.anonymous()
        adds = []
        for e in lv["adds"]:
            if e["k"] == "opt":
                r = _call(cfg.add_option, e["long"], e["short"], 0, "t%d" % e["tag"])
            else:
                flags = (Argument.REQUIRED if e["req"] else Argument.OPTIONAL) | (Argument.MULTI_VALUED if e["multi"] else 0)
                r = _call(cfg.add_argument, e["name"], flags, "t%d" % e["tag"])
            adds.append("ok" if r[0] == "ok" else r[1])
        r = _call(cfg.build_args_format, base)
        if r[0] == "err":
            levels.append({"adds": adds, "build": r[1]})
            break
        base = r[1]
        levels.append({"adds": adds, "build": "ok", "f": _snapshot(base, objs)})
        flats.append(_flat(base))
    return {"levels": levels, "flat": {"levels": flats}}


# --------------------------------------------------------------------------- model side
def _strip(e):
    if e["k"] == "copt":
        return dict((k, v) for k, v in e.items() if k != "aliases")
    return e


def _strip_op(op):
    if "e" in op:
        return {"op": op["op"], "e": _strip(op["e"])}
    return {"op": op["op"], "es": [_strip(e) for e in op["es"]]}


def _case_elements(case):
    if case["kind"] == "config":
        return [e for lv in case["levels"] for e in lv["adds"]]
    es = [e for lvl in case["bases"] for e in lvl]
    if case["kind"] == "run":
        for op in case["ops"]:
            es.extend([op["e"]] if "e" in op else op["es"])
    else:
        es.extend(case["elements"])
    return es


def _real_elements(case, objs=None):
    """the options / command options of the case as the REAL constructors made them: the names are read from the
    objects (Option(long, short, 0, description) is also the call Config.add_option makes), one entry per element"""
    objs = objs or _Objs(case.get("cls"))
    out, seen = [], set()
    for e in _case_elements(case):
        if e["k"] not in ("opt", "copt") or e["tag"] in seen:
            continue
        seen.add(e["tag"])
        o = objs.get(e)
        d = {"k": e["k"], "long": o.long_name, "short": o.short_name, "tag": e["tag"]}
        if e["k"] == "copt":
            d["la"], d["sa"] = list(o.long_aliases), list(o.short_aliases)
        out.append(d)
    return out


def model_requests(case):
    common = {"names": PROBE_NAMES, "idx": PROBE_IDX}
    # the hypotheses `wf` of the theorems (Props.C06.wf_decides), decided by the model on the real element objects
    objs = _Objs(case.get("cls"))
    wf = {"m": "c06.wf", "elems": _real_elements(case, objs)}
    # the flattened view of the model's formats of the case (Model/Flatten.lean `flattenRec`, the subject of the
    # bridge theorems), compared with `parser_common.flatten` of the REAL formats restricted to the same attributes
    if case["kind"] == "config":
        levels = [{"name": lv["name"], "anonymous": lv["anonymous"], "adds": [_strip(e) for e in lv["adds"]]}
                  for lv in case["levels"]]
        return [dict(common, m="c06.config", levels=levels), wf,
                {"m": "c06.flatten", "kind": "config", "levels": levels}, {"m": "c06.dispatch", "mros": [], "kinds": []}]
    bases = [[_strip(e) for e in lvl] for lvl in case["bases"]]
    # as which public class the model's `dispatch` (the isinstance chain of the element-list constructor) adds each
    # element object of the case, from the public classes among the bases of the REAL object's class
    # `kinds`: the public class the case means each object to be; the model then also DECIDES, on the bases of the real
    # class, the hypothesis of ctor_objects_same_rules(_decided): the class derives from that public class only (onlyB)
    disp = {"m": "c06.dispatch", "mros": [_mro_names(objs.get(e)) for e in _case_objects(case)],
            "kinds": [e["k"] for e in _case_objects(case)]}
    if case["kind"] == "run":
        ops = [_strip_op(o) for o in case["ops"]]
        return [dict(common, m="c06.run", bases=bases, ops=ops, snap_all=bool(case["snap_all"])), wf,
                {"m": "c06.flatten", "kind": "run", "bases": bases, "ops": ops}, disp]
    elements = [_strip(e) for e in case["elements"]]
    return [dict(common, m="c06.ctor", bases=bases, elements=elements), wf,
            {"m": "c06.flatten", "kind": "ctor", "bases": bases, "elements": elements}, disp]


def model_obs(case, answers):
    return dict(answers[0], wf=answers[1]["wf"], flat=answers[2], dispatch=answers[3]["dispatch"],
                only=answers[3]["only"])


def impl_view(case, obs):
    # every element the constructors accept is well formed (C07): the model's decision must be `true`
    # `only`: the claim that every element object the harness makes (the public classes and the user subclasses of
    # `_user_classes`: trivial, two levels deep, behind a mixin) derives from exactly the one public class the case means
    # it to be - the hypothesis of ctor_objects_same_rules; a foreign object derives from none
    only = [] if case["kind"] == "config" else [e["k"] != "foreign" for e in _case_objects(case)]
    return dict(_impl_view(case, obs), wf=True, flat=obs.get("flat"), dispatch=obs.get("dispatch", []), only=only)


def _impl_view(case, obs):
    if case["kind"] == "config":
        return obs
    if obs["bases"] != "ok":
        return {"bases": obs["bases"]}
    if case["kind"] == "ctor":
        v = {"bases": "ok", "ctor": obs["ctor"]}
        if "f" in obs:
            v["f"] = obs["f"]
        return v
    def ab(s):
        d = dict(s)
        if d["f"] == d["b"]:
            d["f"] = "="
        return d

    steps = []
    n = len(obs["steps"])
    for k, s in enumerate(obs["steps"]):
        if case["snap_all"] or k == n - 1:
            steps.append(ab(s))
        else:
            steps.append({"out": s["out"]})
    v = {"bases": "ok", "steps": steps}
    if case["snap_all"] or n == 0:
        v["init"] = ab(obs["init"])
    return v


# --------------------------------------------------------------------------- oracle (the statement itself)
NG = 11
PER_NAME = 6


def _decode(snap):
    """snapshot list -> {ib: {...}}"""
    per = NG + PER_NAME * len(PROBE_NAMES) + 2 * len(PROBE_IDX)
    out = {}
    for j, ib in enumerate((True, False)):
        s = snap[j * per:(j + 1) * per]
        d = {"has_names": s[0], "names": s[1], "has_copts": s[2], "copts": s[3], "has_args": s[4], "multi": s[5],
             "optional": s[6], "required": s[7], "args": s[8], "has_opts": s[9], "opts": s[10], "n": {}, "i": {}}
        p = NG
        for n in PROBE_NAMES:
            d["n"][n] = s[p:p + PER_NAME]
            p += PER_NAME
        for i in PROBE_IDX:
            d["i"][i] = s[p:p + 2]
            p += 2
        out[ib] = d
    return out


def _elem(tag, extra):
    if tag in BY_TAG:
        return BY_TAG[tag]
    return extra.get(tag)


def _check_state(snap, base_snap, extra, where):
    """what the statement demands of ONE object (builder or format), from its own answers only"""
    if isinstance(snap, dict):
        return "%s: building the format raised %s" % (where, snap.get("err"))
    for v in snap:
        if isinstance(v, str) and v not in ("-o", "-a", "IndexError"):
            return "%s: a query raised %s" % (where, v)
    d = _decode(snap)
    full, own = d[True], d[False]
    for part in (full, own):
        for key in ("names", "copts", "args", "opts"):
            if not isinstance(part[key], list):
                return "%s: listing %s raised %s" % (where, key, part[key])
    # --- the listed elements
    opts = [(k, _elem(t, extra)) for k, t in full["opts"]]
    copts = [_elem(t, extra) for t in full["copts"]]
    args = [(k, _elem(t, extra)) for k, t in full["args"]]
    if any(e is None for _, e in opts) or any(e is None for e in copts) or any(e is None for _, e in args):
        return "%s: a listing contains an unknown element" % where
    # every long name, short name and alias identifies at most one option
    owners = {}
    for _, e in opts:
        for n in _names_of(e):
            owners.setdefault(n, set()).add(e["tag"])
    for e in copts:
        for n in _names_of(e):
            owners.setdefault(n, set()).add(e["tag"])
    for n, ts in sorted(owners.items()):
        if len(ts) > 1:
            return "%s: the name %r identifies %d options (elements %s)" % (where, n, len(ts), sorted(ts))
    if len(set(k for k, _ in opts)) != len(opts) or any(k != e["long"] for k, e in opts):
        return "%s: get_options() keys are not the long names of the listed options" % where
    if len(set(e["tag"] for _, e in opts)) != len(opts):
        return "%s: an option is listed twice" % where
    for t in set(e["tag"] for e in copts):
        e = _elem(t, extra)
        if sum(1 for c in copts if c["tag"] == t) > len(set([e["long"]] + e["la"])):
            return "%s: command option %s is listed more often than it has long names" % (where, t)
    # arguments: unique names, at most one multi-valued and it is last, no required after optional
    an = [e["name"] for _, e in args]
    if len(set(an)) != len(an) or any(k != e["name"] for k, e in args):
        return "%s: argument names are not unique keys of the listing" % where
    for p, (_, e) in enumerate(args):
        if e["multi"] and p != len(args) - 1:
            return "%s: multi-valued argument %r is not the last one" % (where, e["name"])
    seen_opt = False
    for _, e in args:
        if e["opt"]:
            seen_opt = True
        if e["req"] and seen_opt:
            return "%s: required argument %r follows an optional one" % (where, e["name"])
    # --- queries == what the listed elements imply (for both include_base settings)
    for ib, part in ((True, full), (False, own)):
        o_l = [_elem(t, extra) for _, t in part["opts"]]
        c_l = [_elem(t, extra) for t in part["copts"]]
        a_l = [_elem(t, extra) for _, t in part["args"]]
        w = "%s (include_base=%s)" % (where, ib)
        if part["has_opts"] != bool(o_l) or part["has_copts"] != bool(c_l) or part["has_args"] != bool(a_l) \
                or part["has_names"] != bool(part["names"]):
            return "%s: a has_*s() predicate disagrees with its listing" % w
        if part["multi"] != any(e["multi"] for e in a_l) or part["optional"] != any(e["opt"] for e in a_l) \
                or part["required"] != any(e["req"] for e in a_l):
            return "%s: multi/optional/required predicates %s disagree with the listed arguments %s" % (
                w, [part["multi"], part["optional"], part["required"]], [e["tag"] for e in a_l])
        for n in PROBE_NAMES:
            ho, go, hc, gc, ha, ga = part["n"][n]
            eo = [e["tag"] for e in o_l if n in _names_of(e)]
            ec = sorted(set(e["tag"] for e in c_l if n in _names_of(e)))
            ea = [e["tag"] for e in a_l if e["name"] == n]
            if ho != bool(eo) or go != (eo[0] if eo else "-o"):
                return "%s: has_option/get_option(%r) = %s/%s but the listed options imply %s" % (w, n, ho, go, eo)
            if hc != bool(ec) or gc != (ec[0] if ec else "-o"):
                return "%s: has_command_option/get_command_option(%r) = %s/%s but the listing implies %s" % (w, n, hc, gc, ec)
            if ha != bool(ea) or ga != (ea[0] if ea else "-a"):
                return "%s: has_argument/get_argument(%r) = %s/%s but the listing implies %s" % (w, n, ha, ga, ea)
        for i in PROBE_IDX:
            if i < 0:
                continue    # Python's from-the-end indexing: only builder == format is demanded
            hi, gi = part["i"][i]
            want = a_l[i]["tag"] if i < len(a_l) else "-a"
            if hi != (i < len(a_l)) or gi != want:
                return "%s: has_argument/get_argument(%d) = %s/%s, listing implies %s" % (w, i, hi, gi, want)
    # --- own and base listings compose in the listing order of the format
    bo = _decode(base_snap)[True] if base_snap is not None else {"opts": [], "copts": [], "args": [], "names": []}
    # (the statement fixes the order of arguments - base first - but not that of the other listings)
    if sorted(full["opts"]) != sorted(own["opts"] + bo["opts"]) or sorted(full["copts"]) != sorted(own["copts"] + bo["copts"]) \
            or sorted(full["names"]) != sorted(own["names"] + bo["names"]):
        return "%s: a listing with include_base=True is not the own listing plus the base's listing" % where
    if full["args"] != bo["args"] + own["args"]:
        return "%s: arguments are not listed base-first" % where
    return None


def _check_lists(snap, elements, where):
    """a format constructed from a list of elements answers as the LISTED elements imply: its own listings are the
    listed options / command options / arguments / command names (objects of any other class are ignored)"""
    own = _decode(snap)[False]
    given = dict((k, [e["tag"] for e in elements if e["k"] == k]) for k in ("opt", "copt", "arg", "name"))
    if sorted(t for _, t in own["opts"]) != sorted(given["opt"]):
        return "%s: lists the options %s, the elements given are %s" % (where, [t for _, t in own["opts"]], given["opt"])
    if sorted(set(own["copts"])) != sorted(set(given["copt"])):
        return "%s: lists the command options %s, the elements given are %s" % (where, own["copts"], given["copt"])
    if [t for _, t in own["args"]] != given["arg"]:
        return "%s: lists the arguments %s, the elements given are %s" % (where, [t for _, t in own["args"]], given["arg"])
    if own["names"] != given["name"]:
        return "%s: lists the command names %s, the elements given are %s" % (where, own["names"], given["name"])
    return None


def _extra(case):
    ex = {}
    if case["kind"] == "config":
        for lv in case["levels"]:
            ex[lv["name"]["tag"]] = lv["name"]
    return ex


def _oracle_statement(case, obs):
    ex = _extra(case)
    if case["kind"] == "config":
        base_snap = None
        for k, lv in enumerate(obs["levels"]):
            for a in lv["adds"]:
                if a not in ("ok", "CannotAddOptionException", "CannotAddArgumentException"):
                    return "config level %d: add raised %s" % (k, a)
            if lv["build"] != "ok":
                if lv["build"] not in ("CannotAddOptionException", "CannotAddArgumentException"):
                    return "build_args_format raised %s" % lv["build"]
                return None
            v = _check_state(lv["f"], base_snap, ex, "format of config level %d" % k)
            if v:
                return v
            base_snap = lv["f"]
        return None
    if obs["bases"] != "ok":
        if obs["bases"]["err"] not in ("CannotAddOptionException", "CannotAddArgumentException"):
            return "ArgsFormat(elements, base) raised %s" % obs["bases"]["err"]
        return None
    for k, now in obs.get("changed_later", []):
        # (D40, repaired: before, get_command_names(False) handed out the builder's own list and a format taken earlier
        # acquired the command names added to the builder afterwards - corpus/C06/d40-taken-format-command-names.json)
        return ("the format taken from the builder after operation %d lists %s after later operations on the builder; when "
                "it was taken it listed %s (a finished format answers as the builder did when it was built)"
                % (k, str(now)[:300], str(obs["flat"]["steps"][k])[:300]))
    base_snap = None
    for k, bs in enumerate(obs["base_snaps"]):
        v = _check_state(bs, base_snap, ex, "base format %d" % k) or \
            _check_lists(bs, case["bases"][k], "base format %d = ArgsFormat(elements, base)" % k)
        if v:
            return v
        base_snap = bs
    if case["kind"] == "ctor":
        if obs["ctor"] != obs["seq"]:
            return "ArgsFormat(elements, base) -> %s, but adding the same elements one by one -> %s" % (obs["ctor"], obs["seq"])
        if obs["ctor"] == "ok":
            if obs["f"] != obs["seq_f"]:
                return "ArgsFormat(elements, base) answers differently from the format built by adding the elements"
            return _check_state(obs["f"], base_snap, ex, "ArgsFormat(elements, base)") or \
                _check_lists(obs["f"], case["elements"], "ArgsFormat(elements, base)")
        if obs["ctor"] not in ("CannotAddOptionException", "CannotAddArgumentException"):
            return "ArgsFormat(elements, base) raised %s" % obs["ctor"]
        return None
    prev = obs["init"]
    states = [("new builder", None, prev)] + [("after op %d (%s)" % (k + 1, case["ops"][k]["op"]), case["ops"][k], s)
                                              for k, s in enumerate(obs["steps"])]
    for where, op, s in states:
        if op is not None:
            if s["out"] not in ("ok", "CannotAddOptionException", "CannotAddArgumentException"):
                return "%s raised %s" % (where, s["out"])
            if s["out"] != "ok" and "e" in op and s["b"] != prev["b"]:
                return "%s: the rejected addition changed the builder" % where
        v = _check_state(s["b"], base_snap, ex, "builder " + where)
        if v:
            return v
        if s["f"] != s["b"]:
            diff = [k for k, (x, y) in enumerate(zip(s["b"], s["f"])) if x != y] if isinstance(s["f"], list) else []
            return "%s: builder and built format answer differently (%s)" % (where, _describe(diff[:3], s))
        prev = s
    return None


def oracle(case, obs):
    v = _oracle_statement(case, obs)
    if v or case["kind"] == "config":
        return v
    # an element is what the public class it is an instance of says, whatever its concrete class
    for e, got in zip(_case_objects(case), obs["dispatch"]):
        if got != e["k"]:
            return "ArgsFormat([x]) for x = element %s, an instance of %s of the public %s class, lists it as: %s" % (
                e.get("tag", "-"), {None: "the class itself", "sub": "a subclass", "deep": "a subclass of a subclass",
                                    "mixin": "a mixin subclass"}[(case.get("cls") or {}).get(str(e.get("tag")))],
                e["k"], got)
    return None


def _describe(idxs, s):
    per = NG + PER_NAME * len(PROBE_NAMES) + 2 * len(PROBE_IDX)
    glob = ["has_command_names", "get_command_names", "has_command_options", "get_command_options", "has_arguments",
            "has_multi_valued_argument", "has_optional_argument", "has_required_argument", "get_arguments",
            "has_options", "get_options"]
    pn = ["has_option", "get_option", "has_command_option", "get_command_option", "has_argument", "get_argument"]
    out = []
    for k in idxs:
        ib, r = k // per == 0, k % per
        if r < NG:
            q = "%s(%s)" % (glob[r], ib)
        elif r < NG + PER_NAME * len(PROBE_NAMES):
            r -= NG
            q = "%s(%r, %s)" % (pn[r % PER_NAME], PROBE_NAMES[r // PER_NAME], ib)
        else:
            r -= NG + PER_NAME * len(PROBE_NAMES)
            q = "%s(%d, %s)" % (["has_argument", "get_argument"][r % 2], PROBE_IDX[r // 2], ib)
        out.append("%s: builder %r, format %r" % (q, s["b"][k], s["f"][k]))
    return "; ".join(out)


# --------------------------------------------------------------------------- statistics
def _rejections(case, obs):
    if case["kind"] == "run" and obs.get("bases") == "ok":
        return sum(1 for s in obs["steps"] if s["out"] != "ok")
    if case["kind"] == "ctor" and obs.get("bases") == "ok":
        return 0 if obs["ctor"] == "ok" else 1
    if case["kind"] == "config":
        return sum(1 for lv in obs["levels"] for a in lv["adds"] if a != "ok") + \
            sum(1 for lv in obs["levels"] if lv["build"] != "ok")
    return 1


def nontrivial_key(case, obs):
    nb = len(case["bases"]) if case["kind"] != "config" else len(case["levels"]) - 1
    if _rejections(case, obs) or nb:
        import json
        return json.dumps(case, sort_keys=True)
    return None


def bucket(case, obs):
    sub = ":subclassed" if case.get("cls") else ""
    if case["kind"] == "run":
        return "run:bases=%d:len=%d:rejected=%d%s" % (len(case["bases"]), len(case["ops"]),
                                                      min(_rejections(case, obs), 3), sub)
    if case["kind"] == "ctor":
        return "ctor:bases=%d:%s%s" % (len(case["bases"]), "ok" if obs.get("ctor") == "ok" else "rejected", sub)
    return "config:levels=%d:rejected=%d" % (len(case["levels"]), min(_rejections(case, obs), 3))


# --------------------------------------------------------------------------- search
def shrink(case):
    if case["kind"] == "config":
        lv = case["levels"]
        for i in range(len(lv)):
            if len(lv) > 1:
                yield dict(case, levels=lv[:i] + lv[i + 1:])
            for j in range(len(lv[i]["adds"])):
                yield dict(case, levels=lv[:i] + [dict(lv[i], adds=lv[i]["adds"][:j] + lv[i]["adds"][j + 1:])] + lv[i + 1:])
        return
    bases = case["bases"]
    cls = case.get("cls") or {}
    if cls:
        yield _with_cls(case, {})
        for t in sorted(cls):
            yield _with_cls(case, dict((u, k) for u, k in cls.items() if u != t))
        for t in sorted(cls):
            if cls[t] != "sub":
                yield _with_cls(case, dict(cls, **{t: "sub"}))
    for i in range(len(bases)):
        yield dict(case, bases=bases[:i] + bases[i + 1:])
    for i in range(len(bases)):
        for j in range(len(bases[i])):
            yield dict(case, bases=bases[:i] + [bases[i][:j] + bases[i][j + 1:]] + bases[i + 1:])
    if case["kind"] == "ctor":
        es = case["elements"]
        for j in range(len(es)):
            yield dict(case, elements=es[:j] + es[j + 1:])
        return
    ops = case["ops"]
    for i in range(len(ops)):
        yield dict(case, ops=ops[:i] + ops[i + 1:], snap_all=True)
    for i, op in enumerate(ops):
        if "es" in op:
            for j in range(len(op["es"])):
                yield dict(case, ops=ops[:i] + [dict(op, es=op["es"][:j] + op["es"][j + 1:])] + ops[i + 1:], snap_all=True)
            if len(op["es"]) == 1 and op["op"].startswith("add_"):
                yield dict(case, ops=ops[:i] + [_single(op["es"][0])] + ops[i + 1:], snap_all=True)


def neighbours(case):
    if case["kind"] == "config":
        for i, lv in enumerate(case["levels"]):
            for e in OPTS + ARGS:
                yield dict(case, levels=case["levels"][:i] + [dict(lv, adds=lv["adds"] + [e])] + case["levels"][i + 1:])
        return
    cls = case.get("cls") or {}
    for t in _case_tags(case):          # the same case with one more / one fewer object of a user subclass
        yield _with_cls(case, dict(cls, **{str(t): None if cls.get(str(t)) else "sub"}))
    if case["kind"] == "ctor":
        es = case["elements"]
        for e in POOL:
            yield dict(case, elements=es + [e])
        for j in range(len(es)):
            for e in POOL:
                yield dict(case, elements=es[:j] + [e] + es[j + 1:])
        return
    ops = case["ops"]
    for e in POOL:
        yield dict(case, ops=ops + [_single(e)], snap_all=True)
    for i in range(len(ops)):
        for e in POOL:
            yield dict(case, ops=ops[:i] + [_single(e)] + ops[i + 1:], snap_all=True)
    for i in range(len(ops) - 1):
        yield dict(case, ops=ops[:i] + [ops[i + 1], ops[i]] + ops[i + 2:], snap_all=True)
