import Clikit.Lemmas.C11Markup
/-!
From token lists to messages (C11): the scanner and the cutter only rearrange characters of
the message, the SGR sequences contain no backslash, and `replace("\\<", "<")` leaves
backslash-free text alone.  Together: the token-level theorems carry over to `colorize`.
-/
namespace Clikit.Markup
open Clikit Clikit.Style

/-- all characters of the pieces -/
def charsOf (toks : List Tok) : Str := toks.flatMap Tok.lit

theorem charsOf_cons (t : Tok) (r : List Tok) : charsOf (t :: r) = t.lit ++ charsOf r := by
  simp [charsOf]

theorem tagRest_mem : ∀ (r : Str) (name : Str) (k : Nat), tagRest r = some (name, k) →
    '>' ∈ r ∧ ∀ c ∈ name, c ∈ r := by
  intro r
  induction r with
  | nil => intro name k h; simp [tagRest] at h
  | cons x r ih =>
    intro name k h
    unfold tagRest at h
    split at h
    · rename_i hx
      simp only [Option.some.injEq, Prod.mk.injEq] at h
      refine ⟨by simp [hx], ?_⟩
      intro c hc; rw [← h.1] at hc; simp at hc
    · split at h
      · cases hr : tagRest r with
        | none => simp [hr] at h
        | some p =>
          obtain ⟨n0, k0⟩ := p
          simp only [hr, Option.map, Option.some.injEq, Prod.mk.injEq] at h
          obtain ⟨h1, h2⟩ := ih n0 k0 hr
          refine ⟨List.mem_cons_of_mem _ h1, ?_⟩
          intro c hc
          rw [← h.1] at hc
          rcases List.mem_cons.mp hc with rfl | hc
          · simp
          · exact List.mem_cons_of_mem _ (h2 c hc)
      · simp at h

theorem matchTag_mem (r : Str) (tok : Tok) (n : Nat) (h : matchTag r = some (tok, n)) :
    ∀ c ∈ tok.lit, c = '<' ∨ c ∈ r := by
  unfold matchTag at h
  split at h
  · simp at h
  · simp only [Option.some.injEq, Prod.mk.injEq] at h
    intro c hc
    rw [← h.1] at hc
    simp only [Tok.lit, List.mem_cons, List.not_mem_nil, or_false] at hc
    rcases hc with rfl | rfl | rfl <;> simp
  · rename_i c0 r0 _
    split at h
    · cases hr : tagRest r0 with
      | none => simp [hr] at h
      | some p =>
        obtain ⟨n0, k0⟩ := p
        simp only [hr, Option.map, Option.some.injEq, Prod.mk.injEq] at h
        obtain ⟨h1, h2⟩ := tagRest_mem r0 n0 k0 hr
        intro c hc
        rw [← h.1] at hc
        simp only [Tok.lit, List.mem_cons, List.mem_append, List.not_mem_nil, or_false] at hc
        rcases hc with rfl | rfl | (rfl | hc) | rfl
        · exact Or.inl rfl
        · simp
        · simp
        · exact Or.inr (List.mem_cons_of_mem _ (List.mem_cons_of_mem _ (h2 c hc)))
        · exact Or.inr (List.mem_cons_of_mem _ (List.mem_cons_of_mem _ h1))
    · simp at h
  · rename_i c0 r0 _ _
    split at h
    · cases hr : tagRest r0 with
      | none => simp [hr] at h
      | some p =>
        obtain ⟨n0, k0⟩ := p
        simp only [hr, Option.map, Option.some.injEq, Prod.mk.injEq] at h
        obtain ⟨h1, h2⟩ := tagRest_mem r0 n0 k0 hr
        intro c hc
        rw [← h.1] at hc
        simp only [Tok.lit, List.mem_cons, List.mem_append, List.not_mem_nil, or_false] at hc
        rcases hc with rfl | (rfl | hc) | rfl
        · exact Or.inl rfl
        · simp
        · exact Or.inr (List.mem_cons_of_mem _ (h2 c hc))
        · exact Or.inr (List.mem_cons_of_mem _ h1)
    · simp at h

theorem charsOf_consText (c : Char) (toks : List Tok) : charsOf (consText c toks) = c :: charsOf toks := by
  unfold consText
  split <;> simp [charsOf, Tok.lit]

/-- the scanner only outputs characters of the message -/
theorem lexAux_mem : ∀ (s : Str) (k : Nat), ∀ c ∈ charsOf (lexAux k s), c ∈ s := by
  intro s
  induction s with
  | nil => intro k c h; simp [lexAux, charsOf] at h
  | cons x r ih =>
    intro k c h
    cases k with
    | succ k =>
      simp only [lexAux] at h
      exact List.mem_cons_of_mem _ (ih k c h)
    | zero =>
      simp only [lexAux] at h
      split at h
      · rename_i hx
        split at h
        · rename_i tok n hm
          rw [charsOf_cons] at h
          rcases List.mem_append.mp h with h | h
          · rcases matchTag_mem r tok n hm c h with rfl | h
            · simp [hx]
            · exact List.mem_cons_of_mem _ h
          · exact List.mem_cons_of_mem _ (ih n c h)
        · rw [charsOf_consText] at h
          rcases List.mem_cons.mp h with rfl | h
          · simp
          · exact List.mem_cons_of_mem _ (ih 0 c h)
      · rw [charsOf_consText] at h
        rcases List.mem_cons.mp h with rfl | h
        · simp
        · exact List.mem_cons_of_mem _ (ih 0 c h)

/-- the cutter only rearranges characters -/
theorem seg_mem : ∀ (toks : List Tok) (prev : Char), ∀ c ∈ charsOf (seg prev toks), c ∈ charsOf toks := by
  intro toks
  induction toks with
  | nil => intro prev c h; simpa [seg] using h
  | cons t r ih =>
    intro prev c h
    rw [charsOf_cons]
    cases t with
    | text s =>
      simp only [seg, charsOf_cons] at h
      rcases List.mem_append.mp h with h | h
      · exact List.mem_append_left _ h
      · exact List.mem_append_right _ (ih _ c h)
    | «open» n | close n | closeAny =>
      simp only [seg] at h
      split at h
      · simp only [charsOf_cons] at h
        rcases List.mem_append.mp h with h | h
        · exact List.mem_append_left _ h
        · exact List.mem_append_right _ (ih _ c h)
      · split at h
        · rename_i s
          rw [charsOf_cons, charsOf_cons, charsOf_cons] at h
          have e : charsOf [Tok.text s] = s := by simp [charsOf, Tok.lit]
          rw [e]
          simp only [Tok.lit, charsOf, List.flatMap_nil, List.append_nil] at h
          rcases List.mem_append.mp h with h | h
          · exact List.mem_append_left _ h
          · refine List.mem_append_right _ ?_
            rcases List.mem_append.mp h with h | h
            · exact List.dropLast_subset _ h
            · exact List.drop_subset _ _ h
        · simp only [charsOf_cons] at h
          rcases List.mem_append.mp h with h | h
          · exact List.mem_append_left _ h
          · exact List.mem_append_right _ (ih _ c h)

theorem mem_charsOf {toks : List Tok} {t : Tok} {c : Char} (ht : t ∈ toks) (hc : c ∈ t.lit) :
    c ∈ charsOf toks := by
  unfold charsOf
  exact List.mem_flatMap.mpr ⟨t, ht, hc⟩

/-- the pieces of an ESC-free message are ESC-free -/
theorem escFree_pieces (msg : Str) (h : ESC ∉ msg) (prev : Char) : EscFree (seg prev (lex msg)) := by
  intro t ht hc
  exact h (lexAux_mem msg 0 ESC (seg_mem _ prev ESC (mem_charsOf ht hc)))

/-! ### backslashes -/

theorem unescape_cons_ne (c : Char) (r : Str) (hc : c ≠ '\\') : unescape (c :: r) = c :: unescape r := by
  rw [unescape.eq_def]
  split
  · rename_i heq; simp at heq
  · rename_i heq; simp only [List.cons.injEq] at heq; exact absurd heq.1 hc
  · rename_i heq; simp only [List.cons.injEq] at heq; rw [heq.1, heq.2]

theorem unescape_id : ∀ (s : Str), '\\' ∉ s → unescape s = s
  | [], _ => rfl
  | c :: r, h => by
    have hc : c ≠ '\\' := fun e => h (by simp [e])
    have hr : '\\' ∉ r := fun e => h (by simp [e])
    rw [unescape_cons_ne c r hc, unescape_id r hr]

theorem natStr_noBs (n : Nat) : '\\' ∉ natStr n := by
  intro h
  have := natStr_isDigit n _ h
  revert this; decide

theorem joinCodes_noBs (cs : List Nat) : '\\' ∉ joinCodes cs := by
  intro h
  have := joinCodes_isParam cs _ h
  revert this; decide

theorem wrap_noBs (cs : List Nat) (t : Str) (h : '\\' ∉ t) : '\\' ∉ wrap cs t := by
  unfold wrap
  split
  · exact h
  · intro hm
    simp only [sgrOpen, sgrReset, List.mem_append, List.mem_cons, List.not_mem_nil, or_false] at hm
    rcases hm with ((hm | hm | hm | hm) | hm) | hm
    · revert hm; decide
    · revert hm; decide
    · exact joinCodes_noBs _ hm
    · revert hm; decide
    · exact h hm
    · rcases hm with hm | hm | hm | hm <;> revert hm <;> decide

theorem applyCur_noBs (col : Bool) (st : Stack) (s : Str) (h : '\\' ∉ s) : '\\' ∉ applyCur col st s := by
  unfold applyCur
  split
  · exact wrap_noBs _ s h
  · exact h

/-- the output of a run over backslash-free pieces is backslash-free -/
theorem render_noBs (rv : Resolver) (col : Bool) : ∀ (toks : List Tok) (st : Stack) (o : Str) (st' : Stack),
    '\\' ∉ charsOf toks → render rv col st toks = .ok (o, st') → '\\' ∉ o := by
  intro toks
  induction toks with
  | nil => intro st o st' _ h; simp only [render, Except.ok.injEq, Prod.mk.injEq] at h; rw [← h.1]; simp
  | cons tok r ih =>
    intro st o st' hb h
    rw [charsOf_cons] at hb
    have hb1 : '\\' ∉ tok.lit := fun e => hb (List.mem_append_left _ e)
    have hb2 : '\\' ∉ charsOf r := fun e => hb (List.mem_append_right _ e)
    cases tok with
    | text s =>
      simp only [render] at h
      cases hr : render rv col st r with
      | error e => simp [hr] at h
      | ok p =>
        obtain ⟨o1, s1⟩ := p
        simp only [hr, Except.ok.injEq, Prod.mk.injEq] at h
        rw [← h.1]
        intro hm
        rcases List.mem_append.mp hm with hm | hm
        · exact applyCur_noBs col st s hb1 hm
        · exact ih st o1 s1 hb2 hr hm
    | «open» t =>
      simp only [render] at h
      cases hv : rv t with
      | invalid => simp [hv] at h
      | unknown =>
        simp only [hv] at h
        cases hr : render rv col st r with
        | error e => simp [hr] at h
        | ok p =>
          obtain ⟨o1, s1⟩ := p
          simp only [hr, Except.ok.injEq, Prod.mk.injEq] at h
          rw [← h.1]
          intro hm
          rcases List.mem_append.mp hm with hm | hm
          · exact applyCur_noBs col st _ hb1 hm
          · exact ih st o1 s1 hb2 hr hm
      | style p =>
        simp only [hv] at h
        exact ih (p :: st) o st' hb2 h
    | close t =>
      simp only [render] at h
      cases hv : rv t with
      | invalid => simp [hv] at h
      | unknown =>
        simp only [hv] at h
        cases hr : render rv col st r with
        | error e => simp [hr] at h
        | ok p =>
          obtain ⟨o1, s1⟩ := p
          simp only [hr, Except.ok.injEq, Prod.mk.injEq] at h
          rw [← h.1]
          intro hm
          rcases List.mem_append.mp hm with hm | hm
          · exact applyCur_noBs col st _ hb1 hm
          · exact ih st o1 s1 hb2 hr hm
      | style p =>
        simp only [hv] at h
        cases hp : popStyle p st with
        | error e => simp [hp] at h
        | ok st1 =>
          simp only [hp] at h
          exact ih st1 o st' hb2 h
    | closeAny =>
      simp only [render] at h
      exact ih st.tail o st' hb2 h

/-- on a backslash-free message `colorize` is the run over the pieces (or the message itself when
it has no tag) -/
theorem colorize_noBs (rv : Resolver) (col : Bool) (st : Stack) (msg : Str) (hb : '\\' ∉ msg) :
    colorize rv col st msg =
      if hasTag (lex msg) then render rv col st (seg (lastOr ' ' msg) (lex msg)) else .ok (msg, st) := by
  unfold colorize
  simp only []
  split
  · cases hr : render rv col st (seg (lastOr ' ' msg) (lex msg)) with
    | error e => rfl
    | ok p =>
      obtain ⟨o, st'⟩ := p
      have hnb : '\\' ∉ charsOf (seg (lastOr ' ' msg) (lex msg)) :=
        fun e => hb (lexAux_mem msg 0 _ (seg_mem _ _ _ e))
      simp only [unescape_id o (render_noBs rv col _ st o st' hnb hr)]
  · rw [unescape_id msg hb]

end Clikit.Markup
