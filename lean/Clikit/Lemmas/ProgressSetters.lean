import Clikit.Lemmas.Progress
/-!
C16 - histories in which configuration setters are called in the MIDDLE of a run (`runC`,
Model/Progress.lean): every event is one `step` under the configuration in force at that call,
setters write nothing and leave the progress state alone, quietness cannot be changed by a setter.
-/
namespace Clikit.Progress

theorem Config.set_quiet (c : Config) (x : Setter) : (c.set x).quiet = c.quiet := by
  cases x <;> simp only [Config.set] <;> (try split) <;> rfl

theorem Config.set_kind (c : Config) (x : Setter) : (c.set x).kind = c.kind := by
  cases x <;> simp only [Config.set] <;> (try split) <;> rfl

theorem runC_cons (c : Config) (s : State) (call : Call) (t : Nat) (rest : List (Call × Nat)) :
    runC c s ((call, t) :: rest) =
      ⟨c, call, t, s, (stepC c s call t).2⟩ :: runC (stepC c s call t).1 (stepC c s call t).2.st rest := rfl

/-- every event of a history with setters is one call under the configuration in force -/
theorem runC_event (c : Config) (s : State) (calls : List (Call × Nat)) :
    ∀ e ∈ runC c s calls, e.res = (stepC e.cfg e.pre e.call e.t).2 := by
  induction calls generalizing c s with
  | nil => intro e he; simp [runC] at he
  | cons x rest ih =>
    obtain ⟨call, t⟩ := x
    intro e he
    rw [runC_cons] at he
    cases he with
    | head => rfl
    | tail _ h => exact ih _ _ e h

theorem stepC_quiet (c : Config) (s : State) (call : Call) (t : Nat) :
    (stepC c s call t).1.quiet = c.quiet := by
  cases call with
  | op o => rfl
  | set x => exact Config.set_quiet c x

/-- no setter changes whether the output is quiet -/
theorem runC_quiet (c : Config) (s : State) (calls : List (Call × Nat)) :
    ∀ e ∈ runC c s calls, e.cfg.quiet = c.quiet := by
  induction calls generalizing c s with
  | nil => intro e he; simp [runC] at he
  | cons x rest ih =>
    obtain ⟨call, t⟩ := x
    intro e he
    rw [runC_cons] at he
    cases he with
    | head => rfl
    | tail _ h => rw [ih _ _ e h, stepC_quiet]

/-- an invariant of `step` (under every configuration) that setters keep holds before and after
every event -/
theorem runC_invariant (P : State → Prop)
    (hstep : ∀ c s op t, P s → P (step c s op t).st) (hset : ∀ s x, P s → P (State.afterSetter s x))
    (c : Config) (s : State) (calls : List (Call × Nat)) (h0 : P s) :
    ∀ e ∈ runC c s calls, P e.pre ∧ P e.res.st := by
  induction calls generalizing c s with
  | nil => intro e he; simp [runC] at he
  | cons x rest ih =>
    obtain ⟨call, t⟩ := x
    have h1 : P (stepC c s call t).2.st := by
      cases call with
      | op o => exact hstep c s o t h0
      | set y => exact hset s y h0
    intro e he
    rw [runC_cons] at he
    cases he with
    | head => exact ⟨h0, h1⟩
    | tail _ h => exact ih _ _ h1 e h

theorem afterSetter_fields (s : State) (x : Setter) :
    (State.afterSetter s x).step = s.step ∧ (State.afterSetter s x).max = s.max ∧
    (State.afterSetter s x).percent = s.percent ∧ (State.afterSetter s x).lastWriteTime = s.lastWriteTime := by
  cases x <;> simp [State.afterSetter]

theorem stepC_lwt (c : Config) (s : State) (call : Call) (t : Nat) (hq : c.quiet = false) :
    LwtSpec s t (stepC c s call t).2 := by
  cases call with
  | op o => exact step_lwt c s o t hq
  | set x => simp [stepC, LwtSpec, (afterSetter_fields s x).2.2.2]

theorem runC_silent_stretch (evs2 : List CEvent) :
    ∀ (c : Config) (s : State) (calls : List (Call × Nat)) (e2 : CEvent) (evs3 : List CEvent),
      c.quiet = false → runC c s calls = evs2 ++ e2 :: evs3 → (∀ e ∈ evs2, e.res.writes = []) →
      e2.pre.lastWriteTime = s.lastWriteTime := by
  induction evs2 with
  | nil =>
    intro c s calls e2 evs3 _ h _
    cases calls with
    | nil => simp [runC] at h
    | cons x rest =>
      obtain ⟨call, t⟩ := x
      rw [runC_cons] at h
      simp at h
      rw [← h.1]
  | cons e evs2 ih =>
    intro c s calls e2 evs3 hq h hsilent
    cases calls with
    | nil => simp [runC] at h
    | cons x rest =>
      obtain ⟨call, t⟩ := x
      rw [runC_cons] at h
      simp at h
      have he : e.res.writes = [] := hsilent e (by simp)
      rw [← h.1] at he
      have := ih (stepC c s call t).1 (stepC c s call t).2.st rest e2 evs3
        (by rw [stepC_quiet, hq]) h.2 (fun e' he' => hsilent e' (by simp [he']))
      rw [this]
      exact (stepC_lwt c s call t hq).1 he

/-- in a history with setters, the pre-state of a call remembers the clock reading of the latest
earlier call that wrote anything -/
theorem runC_last_write (evs1 : List CEvent) :
    ∀ (c : Config) (s : State) (calls : List (Call × Nat)) (e1 : CEvent) (evs2 : List CEvent) (e2 : CEvent)
      (evs3 : List CEvent), c.quiet = false →
      runC c s calls = evs1 ++ e1 :: (evs2 ++ e2 :: evs3) → e1.res.writes ≠ [] →
      (∀ e ∈ evs2, e.res.writes = []) → e2.pre.lastWriteTime = e1.t := by
  induction evs1 with
  | nil =>
    intro c s calls e1 evs2 e2 evs3 hq h hw hsilent
    cases calls with
    | nil => simp [runC] at h
    | cons x rest =>
      obtain ⟨call, t⟩ := x
      rw [runC_cons] at h
      simp at h
      rw [runC_silent_stretch evs2 _ _ rest e2 evs3 (by rw [stepC_quiet, hq]) h.2 hsilent]
      rw [← h.1] at hw ⊢
      exact (stepC_lwt c s call t hq).2 hw
  | cons e evs1 ih =>
    intro c s calls e1 evs2 e2 evs3 hq h hw hsilent
    cases calls with
    | nil => simp [runC] at h
    | cons x rest =>
      obtain ⟨call, t⟩ := x
      rw [runC_cons] at h
      simp at h
      exact ih _ _ rest e1 evs2 e2 evs3 (by rw [stepC_quiet, hq]) h.2 hw hsilent

/-- a history without setters is the history of the fixed-configuration model -/
theorem runC_ops (c : Config) (s : State) (ops : List (Op × Nat)) :
    runC c s (ops.map (fun x => (Call.op x.1, x.2))) = (run c s ops).map (Event.lift c) := by
  induction ops generalizing s with
  | nil => rfl
  | cons x rest ih =>
    obtain ⟨op, t⟩ := x
    simp only [List.map_cons, runC_cons, run_cons, stepC, Event.lift, ih]

/-! ### `set_format` with another number of lines (D39): what `_overwrite` sends, read on a terminal with rows -/

/-- ANSI output: the writes of the repaired `_overwrite` are CR, cursor up by the line count of the
frame STANDING there, erase-below iff the new format has another line count, the padded lines -/
theorem overwrite_ansi_writes (c : Config) (s : State) (t : Nat) (msg : Str) (hk : c.kind = .ansi)
    (hq : c.quiet = false) :
    (overwriteWith true c s t msg).2 =
      ansiWrites (s.displayedLineCount.getD s.formatLineCount)
        (decide (s.displayedLineCount.getD s.formatLineCount ≠ s.formatLineCount))
        ((splitNL msg).map (ljust s.lastLen)) := by
  unfold overwriteWith ansiWrites moveCount
  simp only [hk, emit, hq]
  by_cases h0 : s.displayedLineCount.getD s.formatLineCount = 0 <;>
    by_cases h1 : s.displayedLineCount.getD s.formatLineCount = s.formatLineCount <;>
    simp [h0, h1]

/-- ... before the repair: cursor up by the line count of the format in use NOW, never an erase -/
theorem overwrite_ansi_writes_old (c : Config) (s : State) (t : Nat) (msg : Str) (hk : c.kind = .ansi)
    (hq : c.quiet = false) :
    (overwriteWith false c s t msg).2 =
      ansiWrites s.formatLineCount false ((splitNL msg).map (ljust s.lastLen)) := by
  unfold overwriteWith ansiWrites moveCount
  simp only [hk, emit, hq]
  by_cases h0 : s.formatLineCount = 0 <;> simp [h0]

/-- section output: the number of content lines cleared goes by the frame standing there -/
theorem overwrite_section_clears (c : Config) (s : State) (t : Nat) (msg : Str) (hk : c.kind = .section) :
    (overwriteWith true c s t msg).2 =
      (secClear c s (((splitNL msg).map (ljust s.lastLen)).length / c.termWidth +
        s.displayedLineCount.getD s.formatLineCount + 1)).2 ++
      (secWrite c (secClear c s (((splitNL msg).map (ljust s.lastLen)).length / c.termWidth +
        s.displayedLineCount.getD s.formatLineCount + 1)).1 (joinNL ((splitNL msg).map (ljust s.lastLen)))).2 := by
  unfold overwriteWith moveCount
  simp [hk]

theorem overlayAt_blank (txt : Str) : overlayAt [] 0 txt = txt := by
  simp [overlayAt, ljust, spaces]

/-- moving up over the `n` rows of the standing frame that are above the cursor row reaches its top
row; the rows above the frame are not touched -/
theorem Scr.up_frame : ∀ (n : Nat) (frameAbove rest : List Str) (cur : Str) (col : Nat) (below : List Str),
    frameAbove.length = n →
    ∃ cur' below', Scr.up n ⟨frameAbove ++ rest, cur, col, below⟩ = ⟨rest, cur', col, below'⟩
  | 0, fa, rest, cur, col, below, h => by
    have : fa = [] := List.length_eq_zero_iff.1 h
    subst this
    exact ⟨cur, below, rfl⟩
  | n + 1, [], rest, cur, col, below, h => by simp at h
  | n + 1, a :: fa, rest, cur, col, below, h => by
    have hn : fa.length = n := by simpa using h
    obtain ⟨c', b', hc⟩ := Scr.up_frame n fa rest a col (cur :: below) hn
    exact ⟨c', b', by simp only [List.cons_append, Scr.up]; exact hc⟩

theorem Scr.lineStep_erased (ab : List Str) (c0 : Str) (k : Nat) (l : Str) :
    Scr.lineStep ⟨ab, c0, k, []⟩ l = ⟨c0 :: ab, l, l.length, []⟩ := by
  simp [Scr.lineStep, Scr.nl, Scr.puts, overlayAt_blank]

/-- lines written below an erased position stand there exactly -/
theorem Scr.foldl_lines (ls : List Str) : ∀ (ab : List Str) (c0 : Str) (k : Nat),
    (ls.foldl Scr.lineStep ⟨ab, c0, k, []⟩).rows = ab.reverse ++ c0 :: ls ∧
    (ls.foldl Scr.lineStep ⟨ab, c0, k, []⟩).below = [] := by
  induction ls with
  | nil => intro ab c0 k; simp [Scr.rows]
  | cons l rest ih =>
    intro ab c0 k
    rw [List.foldl_cons, Scr.lineStep_erased]
    have := ih (c0 :: ab) l l.length
    refine ⟨by rw [this.1]; simp, this.2⟩

/-- **No residue when the line count changes.**  A frame with `n` rows above the cursor row stands
on the terminal (below whatever the application printed before, `rest`); a redraw that moves up by
`n` and erases leaves exactly the lines of the new frame under `rest` and nothing below - however
many lines either frame has. -/
theorem Scr.redraw_erased (n : Nat) (frameAbove rest : List Str) (cur : Str) (col : Nat) (below : List Str)
    (hn : frameAbove.length = n) (l : Str) (ls : List Str) :
    (Scr.redraw ⟨frameAbove ++ rest, cur, col, below⟩ n true (l :: ls)).rows =
      rest.reverse ++ (l :: ls) ∧
    (Scr.redraw ⟨frameAbove ++ rest, cur, col, below⟩ n true (l :: ls)).below = [] := by
  obtain ⟨c', b', hup⟩ := Scr.up_frame n frameAbove rest cur 0 below hn
  simp only [Scr.redraw, Scr.cr, hup, if_true, Scr.eraseDown, List.take_zero, Scr.putLines, Scr.puts,
    overlayAt_blank, Nat.zero_add]
  exact Scr.foldl_lines ls rest l l.length

end Clikit.Progress
