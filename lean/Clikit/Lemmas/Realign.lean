import Clikit.Lemmas.ParserInv
import Clikit.Model.Sem
/-!
# Positionals go to the arguments in order; omitted command names are re-inserted (C01)

`fill vals fa` is the obvious specification of "assign the values to the arguments in order, a
trailing multi-valued argument takes everything that is left, surplus values are dropped".
This file proves that

* the token loop's `parseArgument` extends a `fill` by one value (`parseArgument_fill`),
* `_copy_argument_values` (`copyLoop`) computes a `fill` (`copyLoop_fill`),
* `_insert_missing_command_names` (`insertMissing`) turns `fill vals` into
  `fill (insertNames cmds vals)`: the command names that were not typed are inserted behind the
  typed ones and every other value moves behind them (`insertMissing_fill`).
-/
namespace Clikit.Parser
open Clikit

/-- multi-valued arguments stand in the last position only (C06 guarantees it for real formats) -/
def MultiLast : List FArg → Prop
  | [] => True
  | [_] => True
  | a :: b :: r => a.multi = false ∧ MultiLast (b :: r)

/-- `multiLastB` (Model/Parser.lean, evaluated by the driver on every format read from the real builder) decides `MultiLast` -/
theorem multiLastB_iff : ∀ (l : List FArg), multiLastB l = true ↔ MultiLast l
  | [] => by simp [multiLastB, MultiLast]
  | [_] => by simp [multiLastB, MultiLast]
  | a :: b :: r => by
    have ih := multiLastB_iff (b :: r)
    simp only [multiLastB, MultiLast, Bool.and_eq_true, Bool.not_eq_true', ih]

/-- `nodupKeysB` decides that the argument keys are distinct -/
theorem nodupKeysB_iff : ∀ (l : List FArg), nodupKeysB l = true ↔ (l.map (·.key)).Nodup
  | [] => by simp [nodupKeysB]
  | a :: r => by
    have ih := nodupKeysB_iff r
    simp only [nodupKeysB, List.map_cons, List.nodup_cons, Bool.and_eq_true, Bool.not_eq_true', ih,
      List.any_eq_false, beq_iff_eq, List.mem_map, not_exists, not_and]

/-- assign values to arguments in order; a multi-valued argument takes all that is left;
values without an argument are dropped -/
def fill : List V → List FArg → List (ArgKey × RawArg)
  | [], _ => []
  | _ :: _, [] => []
  | v :: vs, a :: as => if a.multi then [(a.key, .many (v :: vs))] else (a.key, .one v) :: fill vs as

/-- do `n` values fit: there are as many arguments, or the last one is multi-valued -/
def fits (n : Nat) (fa : List FArg) : Bool :=
  decide (n ≤ fa.length) || (fa.getLast?.map (·.multi) == some true)

/-- the typed values with the omitted command names put back: the leading values that match the
command names one by one stay, the remaining names follow them, then everything else -/
def insertNames : List CmdName → List V → List V
  | [], vals => vals
  | cn :: cmds, .tok s :: vals =>
    if s != [] && cn.matches s then .tok s :: insertNames cmds vals
    else (cn :: cmds).map V.cmd ++ (.tok s :: vals)
  | cn :: cmds, vals => (cn :: cmds).map V.cmd ++ vals

/-- how many leading values are typed command names -/
def matched : List CmdName → List V → Nat
  | cn :: cmds, .tok s :: vals => if s != [] && cn.matches s then matched cmds vals + 1 else 0
  | _, _ => 0

/-- the positional values of a list of items, in order -/
def posVals : List Sem → List V
  | [] => []
  | .pos v :: r => .tok v :: posVals r
  | .opt _ _ :: r => posVals r

/-! ### `fill`, `fits`, `MultiLast` -/

theorem fill_nil_right (vals : List V) : fill vals [] = [] := by
  cases vals <;> rfl

theorem fill_nil_left (fa : List FArg) : fill [] fa = [] := by
  cases fa <;> rfl

theorem fill_cons_single {a : FArg} (h : a.multi = false) (v : V) (vs : List V) (as : List FArg) :
    fill (v :: vs) (a :: as) = (a.key, .one v) :: fill vs as := by
  simp [fill, h]

theorem fill_cons_multi {a : FArg} (h : a.multi = true) (v : V) (vs : List V) (as : List FArg) :
    fill (v :: vs) (a :: as) = [(a.key, .many (v :: vs))] := by
  simp [fill, h]

theorem MultiLast.tail {a : FArg} {as : List FArg} (h : MultiLast (a :: as)) : MultiLast as := by
  cases as with
  | nil => trivial
  | cons b r => exact h.2

theorem MultiLast.head_multi {a : FArg} {as : List FArg} (h : MultiLast (a :: as)) (hm : a.multi = true) : as = [] := by
  cases as with
  | nil => rfl
  | cons b r => rw [h.1] at hm; cases hm

theorem MultiLast.of_append : ∀ {pre suf : List FArg}, MultiLast (pre ++ suf) → MultiLast suf := by
  intro pre
  induction pre with
  | nil => intro suf h; exact h
  | cons a pre ih => intro suf h; exact ih (MultiLast.tail h)

/-- every argument that is followed by another one is single-valued -/
theorem MultiLast.init_single : ∀ {pre : List FArg} {a : FArg} {suf : List FArg}, MultiLast (pre ++ a :: suf) →
    ∀ p ∈ pre, p.multi = false := by
  intro pre
  induction pre with
  | nil => intro a suf _ p hp; cases hp
  | cons b pre ih =>
    intro a suf h p hp
    rcases List.mem_cons.mp hp with rfl | hp
    · cases hpre : pre with
      | nil => rw [hpre] at h; exact h.1
      | cons c r => rw [hpre] at h; exact h.1
    · exact ih (MultiLast.tail h) p hp

theorem fits_zero (fa : List FArg) : fits 0 fa = true := by simp [fits]

theorem fits_nil (n : Nat) : fits n [] = decide (n = 0) := by
  simp [fits]

theorem fits_cons_single {a : FArg} (h : a.multi = false) (n : Nat) (as : List FArg) :
    fits (n + 1) (a :: as) = fits n as := by
  cases as with
  | nil => simp [fits, h]
  | cons b r => simp [fits, List.getLast?_cons_cons]

theorem fits_single_multi {a : FArg} (h : a.multi = true) (n : Nat) : fits n [a] = true := by
  simp [fits, h]

/-- the values go through single-valued arguments one by one -/
theorem fill_append : ∀ (xs : List V) (as : List FArg) (ys : List V) (bs : List FArg),
    xs.length = as.length → (∀ a ∈ as, a.multi = false) →
    fill (xs ++ ys) (as ++ bs) = fill xs as ++ fill ys bs := by
  intro xs
  induction xs with
  | nil =>
    intro as ys bs hl _
    have : as = [] := List.length_eq_zero_iff.mp hl.symm
    subst this
    simp [fill_nil_left]
  | cons x xs ih =>
    intro as ys bs hl hs
    cases as with
    | nil => simp at hl
    | cons a as =>
      have ha : a.multi = false := hs a List.mem_cons_self
      simp only [List.cons_append, fill_cons_single ha]
      rw [ih as ys bs (by simpa using hl) (fun b hb => hs b (List.mem_cons_of_mem _ hb))]

theorem fits_append : ∀ (as : List FArg) (n : Nat) (bs : List FArg), (∀ a ∈ as, a.multi = false) →
    fits (as.length + n) (as ++ bs) = fits n bs := by
  intro as
  induction as with
  | nil => intro n bs _; simp
  | cons a as ih =>
    intro n bs hs
    have : (a :: as).length + n = (as.length + n) + 1 := by simp; omega
    rw [this, List.cons_append, fits_cons_single (hs a List.mem_cons_self)]
    exact ih n bs (fun b hb => hs b (List.mem_cons_of_mem _ hb))

/-- nothing is lost when the values fit -/
theorem flattenArgs_fill : ∀ (fa : List FArg) (vals : List V), fits vals.length fa = true →
    flattenArgs (fill vals fa) = vals := by
  intro fa
  induction fa with
  | nil =>
    intro vals h
    cases vals with
    | nil => rfl
    | cons v vs => simp [fits_nil] at h
  | cons a as ih =>
    intro vals h
    cases vals with
    | nil => rfl
    | cons v vs =>
      cases hm : a.multi with
      | true => simp [fill_cons_multi hm, flattenArgs]
      | false =>
        simp only [List.length_cons, fits_cons_single hm] at h
        simp [fill_cons_single hm, flattenArgs, ih vs h]

/-- the keys of a `fill` are the keys of the first arguments -/
theorem fill_keys : ∀ (fa : List FArg) (vals : List V), MultiLast fa →
    (fill vals fa).map (·.1) = (fa.map (·.key)).take vals.length := by
  intro fa
  induction fa with
  | nil => intro vals _; simp [fill_nil_right]
  | cons a as ih =>
    intro vals h
    cases vals with
    | nil => rfl
    | cons v vs =>
      cases hm : a.multi with
      | true =>
        have := h.head_multi hm
        subst this
        simp [fill_cons_multi hm]
      | false =>
        simp [fill_cons_single hm, ih vs h.tail]

theorem fill_keys_single (fa : List FArg) (vals : List V) (hs : ∀ a ∈ fa, a.multi = false) (hl : vals.length = fa.length) :
    (fill vals fa).map (·.1) = fa.map (·.key) := by
  induction fa generalizing vals with
  | nil => simp [fill_nil_right]
  | cons a as ih =>
    cases vals with
    | nil => simp at hl
    | cons v vs =>
      simp [fill_cons_single (hs a List.mem_cons_self), ih vs (fun b hb => hs b (List.mem_cons_of_mem _ hb)) (by simpa using hl)]

theorem fill_length_single (fa : List FArg) (vals : List V) (hs : ∀ a ∈ fa, a.multi = false) (hl : vals.length = fa.length) :
    (fill vals fa).length = fa.length := by
  have := congrArg List.length (fill_keys_single fa vals hs hl)
  simpa using this

/-! ### dictionary facts -/

theorem dictGet?_append_last {k : ArgKey} {v : RawArg} {d : List (ArgKey × RawArg)} (h : k ∉ d.map (·.1)) :
    dictGet? k (d ++ [(k, v)]) = some v := by
  induction d with
  | nil => simp [dictGet?]
  | cons kv r ih =>
    obtain ⟨k', v'⟩ := kv
    simp only [List.map_cons, List.mem_cons, not_or] at h
    have hne : (k' == k) = false := by
      cases hb : (k' == k) with
      | false => rfl
      | true => exact absurd (eq_of_beq hb).symm h.1
    simp [dictGet?, hne, ih h.2]

theorem dictSet_append_last {k : ArgKey} {v v' : RawArg} {d : List (ArgKey × RawArg)} (h : k ∉ d.map (·.1)) :
    dictSet k v' (d ++ [(k, v)]) = d ++ [(k, v')] := by
  induction d with
  | nil => simp [dictSet]
  | cons kv r ih =>
    obtain ⟨k', w⟩ := kv
    simp only [List.map_cons, List.mem_cons, not_or] at h
    have hne : (k' == k) = false := by
      cases hb : (k' == k) with
      | false => rfl
      | true => exact absurd (eq_of_beq hb).symm h.1
    simp [dictSet, hne, ih h.2]

/-- overwriting the slot right behind `P` (whose keys are different) -/
theorem dictSet_append_mid {k : ArgKey} {v v' : RawArg} {P Q : List (ArgKey × RawArg)} (h : k ∉ P.map (·.1)) :
    dictSet k v' (P ++ (k, v) :: Q) = P ++ (k, v') :: Q := by
  induction P with
  | nil => simp [dictSet]
  | cons kv r ih =>
    obtain ⟨k', w⟩ := kv
    simp only [List.map_cons, List.mem_cons, not_or] at h
    have hne : (k' == k) = false := by
      cases hb : (k' == k) with
      | false => rfl
      | true => exact absurd (eq_of_beq hb).symm h.1
    simp [dictSet, hne, ih h.2]

/-- writing the entries `X` (distinct keys) into a dictionary `P ++ Q`, where the keys of `Q` are
the first keys of `X` and those of `P` are different: the slots of `Q` are overwritten in place and
the other entries are appended, i.e. the result is `P ++ X` -/
theorem foldSet_prefix : ∀ (X P Q : List (ArgKey × RawArg)), (X.map (·.1)).Nodup →
    (∀ x ∈ X, x.1 ∉ P.map (·.1)) → Q.map (·.1) <+: X.map (·.1) →
    X.foldl (fun d (kv : ArgKey × RawArg) => dictSet kv.1 kv.2 d) (P ++ Q) = P ++ X := by
  intro X
  induction X with
  | nil =>
    intro P Q _ _ hq
    have : Q = [] := by simpa using hq
    subst this
    simp
  | cons x X ih =>
    intro P Q hnd hp hq
    simp only [List.map_cons, List.nodup_cons] at hnd
    have hxP : x.1 ∉ P.map (·.1) := hp x List.mem_cons_self
    have hp' : ∀ y ∈ X, y.1 ∉ (P ++ [x]).map (·.1) := by
      intro y hy hmem
      simp only [List.map_append, List.map_cons, List.map_nil, List.mem_append, List.mem_singleton] at hmem
      rcases hmem with hmem | hmem
      · exact hp y (List.mem_cons_of_mem _ hy) hmem
      · exact hnd.1 (hmem ▸ List.mem_map_of_mem hy)
    simp only [List.foldl_cons]
    cases Q with
    | nil =>
      rw [List.append_nil, dictSet_of_not_mem hxP]
      have := ih (P ++ [x]) [] hnd.2 hp' (by simp)
      simpa using this
    | cons q Q =>
      simp only [List.map_cons, List.cons_prefix_cons] at hq
      obtain ⟨k, w⟩ := q
      obtain ⟨kx, vx⟩ := x
      simp only at hq hxP
      obtain ⟨hk, hq⟩ := hq
      subst hk
      rw [dictSet_append_mid hxP]
      have := ih (P ++ [(k, vx)]) Q hnd.2 hp' hq
      simpa using this

/-! ### `_parse_argument` -/

theorem split_at {α : Type} : ∀ (l : List α) (n : Nat), n < l.length → ∃ pre a suf, l = pre ++ a :: suf ∧ pre.length = n := by
  intro l
  induction l with
  | nil => intro n h; simp at h
  | cons x l ih =>
    intro n h
    cases n with
    | zero => exact ⟨[], x, l, rfl, rfl⟩
    | succ n =>
      obtain ⟨pre, a, suf, h1, h2⟩ := ih n (by simpa using h)
      exact ⟨x :: pre, a, suf, by rw [h1]; rfl, by simp [h2]⟩

theorem split_last {α : Type} : ∀ (l : List α), l ≠ [] → ∃ pre a, l = pre ++ [a] := by
  intro l h
  exact ⟨l.dropLast, l.getLast h, (List.dropLast_concat_getLast h).symm⟩

/-- the next argument is free -/
theorem parseArgument_free {fa : List FArg} {a : FArg} (len : Bool) (tok : Str) (σ : St)
    (hget : fa[σ.args.length]? = some a) :
    parseArgument fa len tok σ =
      if a.multi then appendArg a.key tok σ else .ok { σ with args := dictSet a.key (.one (.tok tok)) σ.args } := by
  have hlt : σ.args.length < fa.length := by
    rcases Nat.lt_or_ge σ.args.length fa.length with h' | h'
    · exact h'
    · rw [List.getElem?_eq_none h'] at hget; cases hget
  have hhas : hasArgAt fa (σ.args.length : Int) = true := by rw [hasArgAt_nat]; simp [hlt]
  unfold parseArgument
  simp only [hhas, if_true, getArgAt_nat hget]

/-- all arguments are taken -/
theorem parseArgument_full {fa : List FArg} {a : FArg} (len : Bool) (tok : Str) (σ : St) (m : Nat)
    (hlen : σ.args.length = m + 1) (hfa : fa.length = m + 1) (hget : fa[m]? = some a) :
    parseArgument fa len tok σ =
      if a.multi then appendArg a.key tok σ else if len then .ok σ else .error (.cannotParse, σ) := by
  have hhas : hasArgAt fa (σ.args.length : Int) = false := by rw [hasArgAt_nat, hlen, hfa]; simp
  have hpos : decide (((m + 1 : Nat) : Int) > 0) = true := by simp
  have hhas1 : hasArgAt fa (m : Int) = true := by rw [hasArgAt_nat]; simp [hfa]
  rw [hlen] at hhas
  unfold parseArgument
  simp only [hlen, hhas, Bool.false_eq_true, if_false, hpos, cast_succ_sub_one, hhas1, Bool.and_self, if_true,
    getArgAt_nat hget]

/-- a positional token is stored behind the ones that are there: strictly when it fits, always
in lenient mode (where a surplus one is dropped, as `fill` does) -/
theorem parseArgument_fill {fa : List FArg} (hml : MultiLast fa) (hnd : (fa.map (·.key)).Nodup)
    (len : Bool) (tok : Str) (vals : List V) (opts : List (Str × RawOpt)) :
    parseArgument fa len tok { args := fill vals fa, opts := opts } =
      if fits (vals.length + 1) fa || len then .ok { args := fill (vals ++ [.tok tok]) fa, opts := opts }
      else .error (.cannotParse, { args := fill vals fa, opts := opts }) := by
  rcases Nat.lt_or_ge vals.length fa.length with hlt | hge
  · -- the next argument is free
    obtain ⟨pre, a, suf, hfa, hpl⟩ := split_at fa vals.length hlt
    subst hfa
    have hpre : ∀ p ∈ pre, p.multi = false := hml.init_single
    have hfit : fits (vals.length + 1) (pre ++ a :: suf) = true := by
      simp only [fits, Bool.or_eq_true, decide_eq_true_eq]
      left; simp; omega
    have h1 : fill vals (pre ++ a :: suf) = fill vals pre := by
      have := fill_append vals pre [] (a :: suf) hpl.symm hpre
      simpa [fill_nil_left] using this
    have hlen : (fill vals pre).length = pre.length := fill_length_single pre vals hpre hpl.symm
    have hkeys : (fill vals pre).map (·.1) = pre.map (·.key) := fill_keys_single pre vals hpre hpl.symm
    have hnotin : a.key ∉ (fill vals pre).map (·.1) := by
      rw [hkeys]
      simp only [List.map_append, List.map_cons] at hnd
      have := (List.nodup_append.mp hnd).2.2
      intro hmem
      exact this _ hmem _ List.mem_cons_self rfl
    have hget : (pre ++ a :: suf)[(fill vals pre).length]? = some a := by rw [hlen]; simp
    have h2 : fill (vals ++ [.tok tok]) (pre ++ a :: suf) = fill vals pre ++ fill [.tok tok] (a :: suf) :=
      fill_append vals pre [.tok tok] (a :: suf) hpl.symm hpre
    rw [h1, h2, hfit, Bool.true_or, if_pos rfl]
    rw [parseArgument_free len tok { args := fill vals pre, opts := opts } hget]
    cases hm : a.multi with
    | true =>
      simp only [if_true, appendArg, dictGet?_none_of_not_mem hnotin, dictSet_of_not_mem hnotin, fill_cons_multi hm]
    | false =>
      simp only [Bool.false_eq_true, if_false, dictSet_of_not_mem hnotin, fill_cons_single hm, fill_nil_left]
  · -- all arguments are taken
    cases hfa0 : fa with
    | nil =>
      simp [fill_nil_right, fits_nil, parseArgument, hasArgAt]
    | cons b fb =>
      obtain ⟨pre, a, hfa⟩ := split_last fa (by rw [hfa0]; simp)
      rw [← hfa0]
      clear hfa0 b fb
      subst hfa
      have hpre : ∀ p ∈ pre, p.multi = false := hml.init_single
      have hlt : pre.length < vals.length := by simp at hge; omega
      obtain ⟨v1, w, ws, hv, hvl⟩ := split_at vals pre.length hlt
      subst hv
      have h1 : fill (v1 ++ w :: ws) (pre ++ [a]) = fill v1 pre ++ fill (w :: ws) [a] :=
        fill_append v1 pre (w :: ws) [a] hvl hpre
      have h2 : fill ((v1 ++ w :: ws) ++ [.tok tok]) (pre ++ [a]) = fill v1 pre ++ fill (w :: (ws ++ [.tok tok])) [a] := by
        have := fill_append v1 pre (w :: (ws ++ [.tok tok])) [a] hvl hpre
        simpa using this
      have hlen1 : (fill v1 pre).length = pre.length := fill_length_single pre v1 hpre hvl
      have hkeys : (fill v1 pre).map (·.1) = pre.map (·.key) := fill_keys_single pre v1 hpre hvl
      have hnotin : a.key ∉ (fill v1 pre).map (·.1) := by
        rw [hkeys]
        simp only [List.map_append, List.map_cons] at hnd
        have := (List.nodup_append.mp hnd).2.2
        intro hmem
        exact this _ hmem _ List.mem_cons_self rfl
      have hget : (pre ++ [a])[pre.length]? = some a := by simp
      rw [h1, h2]
      cases hm : a.multi with
      | true =>
        have hfit : fits ((v1 ++ w :: ws).length + 1) (pre ++ [a]) = true := by simp [fits, hm]
        rw [hfit, Bool.true_or, if_pos rfl]
        rw [parseArgument_full len tok _ pre.length (by simp [fill_cons_multi hm, hlen1]) (by simp) hget]
        simp only [hm, if_true, appendArg, fill_cons_multi hm, dictGet?_append_last hnotin, dictSet_append_last hnotin,
          List.cons_append]
      | false =>
        have hfit : fits ((v1 ++ w :: ws).length + 1) (pre ++ [a]) = false := by
          simp [fits, hm]; omega
        rw [hfit, Bool.false_or]
        rw [parseArgument_full len tok _ pre.length (by simp [fill_cons_single hm, fill_nil_right, hlen1]) (by simp) hget]
        simp only [hm, Bool.false_eq_true, if_false, fill_cons_single hm, fill_nil_right]

/-! ### `_copy_argument_values` -/

/-- once a multi-valued argument has its list, every further value is appended to it -/
theorem copyLoop_multi (len : Bool) {a : FArg} (hm : a.multi = true) (args : List FArg) :
    ∀ (vals l : List V) (fixed : List (ArgKey × RawArg)), a.key ∉ fixed.map (·.1) →
    copyLoop len vals (a :: args) (fixed ++ [(a.key, .many l)]) =
      .ok (some (a :: args), fixed ++ [(a.key, .many (l ++ vals))]) := by
  intro vals
  induction vals with
  | nil => intro l fixed _; simp [copyLoop]
  | cons v vs ih =>
    intro l fixed hk
    simp only [copyLoop, hm, if_true, dictGet?_append_last hk, dictSet_append_last hk]
    rw [ih (l ++ [v]) fixed hk]
    simp

/-- `_copy_argument_values` appends the `fill` of its values (the keys being new) -/
theorem copyLoop_fill (len : Bool) : ∀ (vals : List V) (args : List FArg) (fixed : List (ArgKey × RawArg)),
    (args.map (·.key)).Nodup → (∀ a ∈ args, a.key ∉ fixed.map (·.1)) →
    (fits vals.length args = true ∨ len = true) →
    ∃ r, copyLoop len vals args fixed = .ok (r, fixed ++ fill vals args) := by
  intro vals
  induction vals with
  | nil => intro args fixed _ _ _; exact ⟨some args, by simp [copyLoop, fill_nil_left]⟩
  | cons v vs ih =>
    intro args fixed hnd hk hf
    cases args with
    | nil =>
      have hl : len = true := by
        rcases hf with hf | hf
        · simp [fits_nil] at hf
        · exact hf
      exact ⟨none, by simp [copyLoop, hl, fill_nil_right]⟩
    | cons a as =>
      have hka : a.key ∉ fixed.map (·.1) := hk a List.mem_cons_self
      simp only [List.map_cons, List.nodup_cons] at hnd
      cases hm : a.multi with
      | true =>
        refine ⟨some (a :: as), ?_⟩
        simp only [copyLoop, hm, if_true, dictGet?_none_of_not_mem hka, dictSet_of_not_mem hka, fill_cons_multi hm]
        rw [copyLoop_multi len hm as vs [v] fixed hka]
        simp
      | false =>
        have hk' : ∀ b ∈ as, b.key ∉ (fixed ++ [(a.key, RawArg.one v)]).map (·.1) := by
          intro b hb hmem
          simp only [List.map_append, List.map_cons, List.map_nil, List.mem_append, List.mem_singleton] at hmem
          rcases hmem with hmem | hmem
          · exact hk b (List.mem_cons_of_mem _ hb) hmem
          · exact hnd.1 (hmem ▸ List.mem_map_of_mem hb)
        have hf' : fits vs.length as = true ∨ len = true := by
          rcases hf with hf | hf
          · left; simpa only [List.length_cons, fits_cons_single hm] using hf
          · right; exact hf
        obtain ⟨r, hr⟩ := ih as (fixed ++ [(a.key, .one v)]) hnd.2 hk' hf'
        refine ⟨r, ?_⟩
        simp only [copyLoop, hm, Bool.false_eq_true, if_false, dictSet_of_not_mem hka, fill_cons_single hm]
        rw [hr]
        simp

/-- strict mode: surplus values are "too many arguments" -/
theorem copyLoop_surplus : ∀ (vals : List V) (args : List FArg) (fixed : List (ArgKey × RawArg)),
    MultiLast args → fits vals.length args = false →
    copyLoop false vals args fixed = .error .cannotParse := by
  intro vals
  induction vals with
  | nil => intro args fixed _ hf; simp [fits_zero] at hf
  | cons v vs ih =>
    intro args fixed hml hf
    cases args with
    | nil => simp [copyLoop]
    | cons a as =>
      cases hm : a.multi with
      | true =>
        have := hml.head_multi hm
        subst this
        rw [fits_single_multi hm] at hf
        cases hf
      | false =>
        simp only [List.length_cons, fits_cons_single hm] at hf
        simp only [copyLoop, hm, Bool.false_eq_true, if_false]
        exact ih as _ hml.tail hf

/-- values for single-valued arguments with new keys are stored one by one -/
theorem copyLoop_append (len : Bool) : ∀ (xs : List V) (ps : List FArg) (ys : List V) (rest : List FArg)
    (fixed : List (ArgKey × RawArg)), xs.length = ps.length → (∀ p ∈ ps, p.multi = false) →
    (ps.map (·.key)).Nodup → (∀ p ∈ ps, p.key ∉ fixed.map (·.1)) →
    copyLoop len (xs ++ ys) (ps ++ rest) fixed = copyLoop len ys rest (fixed ++ fill xs ps) := by
  intro xs
  induction xs with
  | nil =>
    intro ps ys rest fixed hl _ _ _
    have : ps = [] := List.length_eq_zero_iff.mp hl.symm
    subst this
    simp [fill_nil_left]
  | cons x xs ih =>
    intro ps ys rest fixed hl hs hnd hk
    cases ps with
    | nil => simp at hl
    | cons p ps =>
      have hm : p.multi = false := hs p List.mem_cons_self
      have hkp : p.key ∉ fixed.map (·.1) := hk p List.mem_cons_self
      simp only [List.map_cons, List.nodup_cons] at hnd
      have hk' : ∀ b ∈ ps, b.key ∉ (fixed ++ [(p.key, RawArg.one x)]).map (·.1) := by
        intro b hb hmem
        simp only [List.map_append, List.map_cons, List.map_nil, List.mem_append, List.mem_singleton] at hmem
        rcases hmem with hmem | hmem
        · exact hk b (List.mem_cons_of_mem _ hb) hmem
        · exact hnd.1 (hmem ▸ List.mem_map_of_mem hb)
      simp only [List.cons_append, copyLoop, hm, Bool.false_eq_true, if_false, dictSet_of_not_mem hkp,
        fill_cons_single hm]
      rw [ih ps ys rest _ (by simpa using hl) (fun b hb => hs b (List.mem_cons_of_mem _ hb)) hnd.2 hk']
      simp

/-! ### `_skip_command_names` and the re-inserted names -/

theorem matched_le : ∀ (cmds : List CmdName) (vals : List V),
    matched cmds vals ≤ cmds.length ∧ matched cmds vals ≤ vals.length := by
  intro cmds
  induction cmds with
  | nil => intro vals; simp [matched]
  | cons cn cmds ih =>
    intro vals
    cases vals with
    | nil => simp [matched]
    | cons v vs =>
      cases v with
      | cmd c => simp [matched]
      | tok s =>
        simp only [matched]
        split
        · have := ih vs; simp; omega
        · simp

/-- `_skip_command_names` consumes exactly the `matched` leading values, names and arguments -/
theorem skipCmdNames_matched : ∀ (cmds : List CmdName) (vals : List V) (args : List FArg),
    skipCmdNames vals cmds args =
      (vals.drop (matched cmds vals), cmds.drop (matched cmds vals), args.drop (matched cmds vals)) := by
  intro cmds
  induction cmds with
  | nil => intro vals args; cases vals with
    | nil => simp [skipCmdNames, matched]
    | cons v vs => cases v <;> simp [skipCmdNames, matched]
  | cons cn cmds ih =>
    intro vals args
    cases vals with
    | nil => simp [skipCmdNames, matched]
    | cons v vs =>
      cases v with
      | cmd c => simp [skipCmdNames, matched]
      | tok s =>
        simp only [skipCmdNames, matched]
        cases hc : (s != [] && cn.matches s) with
        | true =>
          simp only [if_true, ih vs args.tail, List.drop_succ_cons, List.drop_tail]
        | false => simp

/-- the typed names stay, the other names follow them, then everything else -/
theorem insertNames_eq : ∀ (cmds : List CmdName) (vals : List V),
    insertNames cmds vals =
      vals.take (matched cmds vals) ++ ((cmds.drop (matched cmds vals)).map V.cmd ++ vals.drop (matched cmds vals)) := by
  intro cmds
  induction cmds with
  | nil => intro vals; cases vals with
    | nil => simp [insertNames, matched]
    | cons v vs => cases v <;> simp [insertNames, matched]
  | cons cn cmds ih =>
    intro vals
    cases vals with
    | nil => simp [insertNames, matched]
    | cons v vs =>
      cases v with
      | cmd c => simp [insertNames, matched]
      | tok s =>
        simp only [insertNames, matched]
        cases hc : (s != [] && cn.matches s) with
        | true => simp only [if_true, List.take_succ_cons, List.drop_succ_cons, List.cons_append, ← ih vs]
        | false => simp

/-! ### `_insert_missing_command_names` -/

/-- the first `_copy_argument_values`: the names that were not typed go onto their pseudo-arguments -/
theorem realign_first (len : Bool) (p2 reals : List FArg) (names : List V)
    (hs2 : ∀ p ∈ p2, p.multi = false) (hn : names.length = p2.length) (hnd2 : ((p2 ++ reals).map (·.key)).Nodup) :
    copyLoop len names (p2 ++ reals) [] = .ok (some reals, fill names p2) := by
  rw [List.map_append] at hnd2
  have := copyLoop_append len names p2 [] reals [] hn hs2 (List.nodup_append.mp hnd2).1 (by simp)
  simpa [copyLoop] using this

/-- the second `_copy_argument_values` continues the first one -/
theorem realign_second (len : Bool) (p2 reals : List FArg) (names d : List V)
    (hs2 : ∀ p ∈ p2, p.multi = false) (hn : names.length = p2.length) (hnd2 : ((p2 ++ reals).map (·.key)).Nodup) :
    copyLoop len d reals (fill names p2) = copyLoop len (names ++ d) (p2 ++ reals) [] := by
  rw [List.map_append] at hnd2
  have := copyLoop_append len names p2 d reals [] hn hs2 (List.nodup_append.mp hnd2).1 (by simp)
  simpa using this.symm

theorem realign_fits (p1 rest : List FArg) (v1 w : List V) (hs1 : ∀ p ∈ p1, p.multi = false)
    (hv1 : v1.length = p1.length) : fits (v1 ++ w).length (p1 ++ rest) = fits w.length rest := by
  rw [List.length_append, hv1]
  exact fits_append p1 _ _ hs1

/-- writing the re-aligned values `w` back into the argument dictionary, which holds the typed
names `v1` and the (fewer) values `d` in the places of `w` -/
theorem realign_fold (p1 rest : List FArg) (v1 w d : List V) (hs1 : ∀ p ∈ p1, p.multi = false)
    (hv1 : v1.length = p1.length) (hdw : d.length ≤ w.length)
    (hml : MultiLast (p1 ++ rest)) (hnd : ((p1 ++ rest).map (·.key)).Nodup) :
    (fill w rest).foldl (fun d (kv : ArgKey × RawArg) => dictSet kv.1 kv.2 d) (fill (v1 ++ d) (p1 ++ rest)) =
      fill (v1 ++ w) (p1 ++ rest) := by
  have hml2 : MultiLast rest := hml.of_append
  rw [List.map_append] at hnd
  have hnd2 := (List.nodup_append.mp hnd).2.1
  rw [fill_append v1 p1 d _ hv1 hs1, fill_append v1 p1 w _ hv1 hs1]
  apply foldSet_prefix
  · rw [fill_keys _ _ hml2]
    exact hnd2.sublist (List.take_sublist _ _)
  · intro x hx hmem
    rw [fill_keys_single p1 v1 hs1 hv1] at hmem
    have hx' : x.1 ∈ (fill w rest).map (·.1) := List.mem_map_of_mem hx
    rw [fill_keys _ _ hml2] at hx'
    exact (List.nodup_append.mp hnd).2.2 _ hmem _ (List.mem_of_mem_take hx') rfl
  · rw [fill_keys _ _ hml2, fill_keys _ _ hml2]
    exact List.take_prefix_take_left hdw

/-- **Re-alignment.**  On the state the token loop leaves (`fill vals` of the typed positionals)
`_insert_missing_command_names` gives the `fill` of the values with the omitted command names
put back - whenever they fit, and always in lenient mode; otherwise (strict) it is the
cannot-parse error. -/
theorem insertMissing_fill (f : Fmt) (hml : MultiLast f.fargs) (hnd : (f.fargs.map (·.key)).Nodup)
    (len : Bool) (vals : List V) (opts : List (Str × RawOpt))
    (hfit : fits vals.length f.fargs = true) :
    insertMissing f len { args := fill vals f.fargs, opts := opts } =
      if fits (insertNames f.cmds vals).length f.fargs || len then
        .ok { args := fill (insertNames f.cmds vals) f.fargs, opts := opts }
      else .error .cannotParse := by
  obtain ⟨hk1, hk2⟩ := matched_le f.cmds vals
  have hps : (pseudoArgs f.cmds.length).length = f.cmds.length := by simp [pseudoArgs]
  have hfargs : f.fargs = (pseudoArgs f.cmds.length).take (matched f.cmds vals) ++
      ((pseudoArgs f.cmds.length).drop (matched f.cmds vals) ++
        f.args.map (fun a => ({ key := .real a.name, required := a.required, multi := a.multi } : FArg))) := by
    rw [← List.append_assoc, List.take_append_drop]; rfl
  have hdrop : f.fargs.drop (matched f.cmds vals) = (pseudoArgs f.cmds.length).drop (matched f.cmds vals) ++
      f.args.map (fun a => ({ key := .real a.name, required := a.required, multi := a.multi } : FArg)) := by
    unfold Fmt.fargs
    rw [List.drop_append_of_le_length (by rw [hps]; exact hk1)]
  have hs1 : ∀ p ∈ (pseudoArgs f.cmds.length).take (matched f.cmds vals), p.multi = false :=
    fun p hp => (mem_pseudoArgs (List.mem_of_mem_take hp)).1
  have hs2 : ∀ p ∈ (pseudoArgs f.cmds.length).drop (matched f.cmds vals), p.multi = false :=
    fun p hp => (mem_pseudoArgs (List.mem_of_mem_drop hp)).1
  have hv1 : (vals.take (matched f.cmds vals)).length = ((pseudoArgs f.cmds.length).take (matched f.cmds vals)).length := by
    simp only [List.length_take, hps]; omega
  have hn : ((f.cmds.drop (matched f.cmds vals)).map V.cmd).length =
      ((pseudoArgs f.cmds.length).drop (matched f.cmds vals)).length := by
    simp only [List.length_map, List.length_drop, hps]
  have hvals : fill vals f.fargs = fill (vals.take (matched f.cmds vals) ++ vals.drop (matched f.cmds vals)) f.fargs := by
    rw [List.take_append_drop]
  unfold insertMissing
  simp only [flattenArgs_fill _ _ hfit, skipCmdNames_matched, hdrop]
  rw [hvals, insertNames_eq]
  rw [hfargs] at hml hnd ⊢
  have hnd2 := (List.nodup_append.mp (List.map_append ▸ hnd)).2.1
  simp only [realign_first len _ _ _ hs2 hn hnd2]
  rw [realign_second len _ _ _ _ hs2 hn hnd2, realign_fits _ _ _ _ hs1 hv1]
  cases hc : (fits ((f.cmds.drop (matched f.cmds vals)).map V.cmd ++ vals.drop (matched f.cmds vals)).length
      ((pseudoArgs f.cmds.length).drop (matched f.cmds vals) ++
        f.args.map (fun a => ({ key := .real a.name, required := a.required, multi := a.multi } : FArg))) || len) with
  | true =>
    obtain ⟨r, hr⟩ := copyLoop_fill len ((f.cmds.drop (matched f.cmds vals)).map V.cmd ++ vals.drop (matched f.cmds vals))
      _ [] hnd2 (by simp) (by simpa using hc)
    simp only [hr, List.nil_append, if_true]
    rw [realign_fold _ _ _ _ _ hs1 hv1 (by simp) hml hnd]
  | false =>
    simp only [Bool.or_eq_false_iff] at hc
    obtain ⟨hc1, hc2⟩ := hc
    subst hc2
    rw [copyLoop_surplus _ _ _ hml.of_append hc1]
    simp

/-- what the user sees of the re-alignment: every command-name slot is taken (by the typed name or
by the inserted one) and the REAL arguments are filled, in order, with the positionals that follow
the typed command names -/
theorem fill_insertNames (cmds : List CmdName) (reals : List FArg) (vals : List V) :
    fill (insertNames cmds vals) (pseudoArgs cmds.length ++ reals) =
      fill ((insertNames cmds vals).take cmds.length) (pseudoArgs cmds.length) ++
      fill (vals.drop (matched cmds vals)) reals ∧
    ((insertNames cmds vals).take cmds.length).length = cmds.length := by
  obtain ⟨hk1, hk2⟩ := matched_le cmds vals
  have hps : (pseudoArgs cmds.length).length = cmds.length := by simp [pseudoArgs]
  have hlen : (vals.take (matched cmds vals) ++ (cmds.drop (matched cmds vals)).map V.cmd).length = cmds.length := by
    simp only [List.length_append, List.length_take, List.length_map, List.length_drop]; omega
  have htake : (insertNames cmds vals).take cmds.length =
      vals.take (matched cmds vals) ++ (cmds.drop (matched cmds vals)).map V.cmd := by
    rw [insertNames_eq, ← List.append_assoc, List.take_append_of_le_length (by omega), List.take_of_length_le (by omega)]
  refine ⟨?_, by rw [htake, hlen]⟩
  rw [htake]
  conv => lhs; rw [insertNames_eq, ← List.append_assoc]
  exact fill_append _ _ _ _ (by rw [hlen, hps]) (fun p hp => (mem_pseudoArgs hp).1)

/-- all command names typed: nothing moves -/
theorem insertNames_all_given : ∀ (cmds : List CmdName) (typed : List Str) (rest : List V),
    typed.length = cmds.length →
    (∀ i (h : i < typed.length) (h' : i < cmds.length), typed[i] ≠ [] ∧ cmds[i].matches typed[i] = true) →
    insertNames cmds (typed.map V.tok ++ rest) = typed.map V.tok ++ rest := by
  intro cmds
  induction cmds with
  | nil =>
    intro typed rest hl _
    simp [insertNames]
  | cons cn cmds ih =>
    intro typed rest hl hm
    cases typed with
    | nil => simp at hl
    | cons t ts =>
      have h0 := hm 0 (by simp) (by simp)
      simp only [List.getElem_cons_zero] at h0
      have hc : (t != [] && cn.matches t) = true := by simp [h0.1, h0.2]
      simp only [List.map_cons, List.cons_append, insertNames, hc, if_true]
      rw [ih ts rest (by simpa using hl) (fun i h h' => by
        have := hm (i + 1) (by simp; omega) (by simp; omega)
        simpa using this)]

/-- only the first `k` names typed and the next value is not the `k`-th name: the other names
are inserted behind them -/
theorem insertNames_prefix_given : ∀ (cmds : List CmdName) (typed : List Str) (rest : List V),
    typed.length ≤ cmds.length →
    (∀ i (h : i < typed.length) (h' : i < cmds.length), typed[i] ≠ [] ∧ cmds[i].matches typed[i] = true) →
    (∀ s r c, rest = .tok s :: r → cmds[typed.length]? = some c → (s != [] && c.matches s) = false) →
    insertNames cmds (typed.map V.tok ++ rest) =
      typed.map V.tok ++ (cmds.drop typed.length).map V.cmd ++ rest := by
  intro cmds
  induction cmds with
  | nil =>
    intro typed rest hl _ _
    have : typed = [] := List.length_eq_zero_iff.mp (by simpa using hl)
    subst this
    simp [insertNames]
  | cons cn cmds ih =>
    intro typed rest hl hm hr
    cases typed with
    | nil =>
      cases rest with
      | nil => simp [insertNames]
      | cons v r =>
        cases v with
        | cmd c => simp [insertNames]
        | tok s =>
          have := hr s r cn rfl (by simp)
          simp [insertNames, this]
    | cons t ts =>
      have h0 := hm 0 (by simp) (by simp)
      simp only [List.getElem_cons_zero] at h0
      have hc : (t != [] && cn.matches t) = true := by simp [h0.1, h0.2]
      simp only [List.map_cons, List.cons_append, insertNames, hc, if_true, List.length_cons, List.drop_succ_cons]
      rw [ih ts rest (by simpa using hl) (fun i h h' => by
        have := hm (i + 1) (by simp; omega) (by simp; omega)
        simpa using this) (fun s r c h1 h2 => hr s r c h1 (by simpa using h2))]

/-! ### The items of a line: positionals fill the arguments in order -/

/-- an option item leaves the argument dictionary alone -/
theorem storeOpt_args {o : Opt} {n : Str} {v : Option Str} {σ σ' : St} (h : storeOpt o n v σ = .ok σ') :
    σ'.args = σ.args := by
  unfold storeOpt at h
  split_all h
  all_goals (first | cases h | skip)
  all_goals rfl

theorem posVals_append (a b : List Sem) : posVals (a ++ b) = posVals a ++ posVals b := by
  induction a with
  | nil => rfl
  | cons s r ih => cases s <;> simp [posVals, ih]

theorem posVals_isTok : ∀ (sems : List Sem), ∀ v ∈ posVals sems, v.isTok = true := by
  intro sems
  induction sems with
  | nil => intro v hv; cases hv
  | cons s r ih =>
    intro v hv
    cases s with
    | pos w =>
      simp only [posVals, List.mem_cons] at hv
      rcases hv with hv | hv
      · subst hv; rfl
      · exact ih v hv
    | opt o w => exact ih v hv

/-- running items from a state whose argument dictionary is the `fill` of `vals`: the positionals
among the items are appended to `vals`, in order; option items do not touch the arguments -/
theorem runSems_fill (f : Fmt) (hml : MultiLast f.fargs) (hnd : (f.fargs.map (·.key)).Nodup) (len : Bool) :
    ∀ (sems : List Sem) (vals : List V) (o : List (Str × RawOpt)) (σ : St),
    runSems f len sems { args := fill vals f.fargs, opts := o } = .ok σ →
    σ.args = fill (vals ++ posVals sems) f.fargs := by
  intro sems
  induction sems with
  | nil =>
    intro vals o σ h
    simp only [runSems] at h
    cases h
    simp [posVals]
  | cons s r ih =>
    intro vals o σ h
    cases s with
    | pos v =>
      simp only [runSems, runSem, parseArgument_fill hml hnd] at h
      cases hc : (fits (vals.length + 1) f.fargs || len) with
      | true =>
        simp only [hc, if_true] at h
        have := ih _ _ _ h
        simpa [posVals] using this
      | false =>
        simp only [hc, Bool.false_eq_true, if_false] at h
        cases h
    | opt op v =>
      simp only [runSems, runSem] at h
      cases hs : storeOpt op op.long v { args := fill vals f.fargs, opts := o } with
      | error e => rw [hs] at h; cases h
      | ok σ1 =>
        rw [hs] at h
        have ha : σ1 = { args := fill vals f.fargs, opts := σ1.opts } := by
          have := storeOpt_args hs
          cases σ1
          simp only at this
          subst this
          rfl
        rw [ha] at h
        simpa [posVals] using ih _ _ _ h

end Clikit.Parser
