import Clikit.Model.ParserWF
import Clikit.Lemmas.ParserInv
import Clikit.Lemmas.Spelling
/-!
The executable well-formedness checks of `Model/ParserWF.lean` decide exactly the hypotheses
`FmtWF` (Lemmas/ParserInv.lean) and `LongOK` (Lemmas/Spelling.lean).
-/
namespace Clikit.Parser

theorem nodupStrB_iff : ∀ (l : List Str), nodupStrB l = true ↔ l.Nodup
  | [] => by simp [nodupStrB]
  | a :: r => by
    simp only [nodupStrB, Bool.and_eq_true, Bool.not_eq_true', List.nodup_cons, nodupStrB_iff r]
    constructor
    · intro ⟨h1, h2⟩
      refine ⟨fun hm => ?_, h2⟩
      have : r.contains a = true := List.contains_iff_mem.mpr hm
      rw [h1] at this; cases this
    · intro ⟨h1, h2⟩
      refine ⟨?_, h2⟩
      cases hc : r.contains a with
      | false => rfl
      | true => exact absurd (List.contains_iff_mem.mp hc) h1

theorem noOtherB_iff {α : Type} (r : Except Err α) : noOtherB r = true ↔ NoOther r := by
  unfold noOtherB NoOther
  constructor
  · intro h t ht
    subst ht
    cases h
  · intro h
    split
    · rename_i t
      exact absurd rfl (h t)
    · rfl

theorem optModeB_iff (o : Opt) :
    optModeB o = true ↔ (o.accepts = true → o.valReq = true ∨ o.valOpt = true ∨ o.multi = true) := by
  unfold optModeB
  cases o.accepts <;> cases o.valReq <;> cases o.valOpt <;> cases o.multi <;> simp

theorem optDefaultB_iff (cv : Conv) (o : Opt) :
    optDefaultB cv o = true ↔
      (o.valOpt = true → o.multi = false → ∃ s, o.default = .scalar s ∧ NoOther (conv cv o.ty o.nullable s)) := by
  unfold optDefaultB
  cases hv : o.valOpt with
  | false => simp
  | true =>
    cases hm : o.multi with
    | true => simp
    | false =>
      simp only [Bool.not_false, Bool.and_self, Bool.not_true, Bool.false_or, forall_const]
      cases hd : o.default with
      | scalar s =>
        simp only [noOtherB_iff]
        constructor
        · intro h; exact ⟨s, rfl, h⟩
        · intro ⟨s', hs, h⟩
          cases hs
          exact h
      | list l =>
        simp

/-- **`fmtWFB` decides `FmtWF`** -/
theorem fmtWFB_iff (cv : Conv) (f : Fmt) : fmtWFB cv f = true ↔ FmtWF cv f := by
  unfold fmtWFB
  simp only [Bool.and_eq_true, nodupStrB_iff, List.all_eq_true, optModeB_iff, optDefaultB_iff]
  constructor
  · intro ⟨⟨h1, h2⟩, h3⟩
    exact ⟨h1, h2, h3⟩
  · intro h
    exact ⟨⟨h.argNames, h.optModes⟩, h.defaults⟩

/-- **`longOKB` decides `LongOK`** -/
theorem longOKB_iff (f : Fmt) (o : Opt) : longOKB f o = true ↔ LongOK f o := by
  unfold longOKB LongOK
  simp only [Bool.and_eq_true, beq_iff_eq, Bool.not_eq_true', List.isEmpty_eq_false_iff]
  constructor
  · intro ⟨⟨h1, h2⟩, h3⟩
    refine ⟨h1, fun hm => ?_, h3⟩
    have : o.long.contains '=' = true := List.contains_iff_mem.mpr hm
    rw [h2] at this; cases this
  · intro ⟨h1, h2, h3⟩
    refine ⟨⟨h1, ?_⟩, h3⟩
    cases hc : o.long.contains '=' with
    | false => rfl
    | true => exact absurd (List.contains_iff_mem.mp hc) h2

theorem allLongOKB_iff (f : Fmt) : allLongOKB f = true ↔ ∀ o ∈ f.opts, LongOK f o := by
  unfold allLongOKB
  simp only [List.all_eq_true, longOKB_iff]

/-- **`allShortOKB` (with `allLongOKB`) gives `ShortOK`** for every option that has a short name; a
short name is one character -/
theorem allShortOKB_sound (f : Fmt) (hl : allLongOKB f = true) (hs : allShortOKB f = true) :
    ∀ o ∈ f.opts, ∀ s, o.short = some s → ∃ c, s = [c] ∧ ShortOK f o c := by
  intro o ho s hsome
  have h1 := ((allLongOKB_iff f).mp hl o ho).1
  have h2 : shortOKB f o = true := List.all_eq_true.mp hs o ho
  unfold shortOKB at h2
  rw [hsome] at h2
  match s, h2 with
  | [c], h2 => exact ⟨c, rfl, by simpa using h2, h1⟩

end Clikit.Parser
