import Clikit.Model.Flatten
import Clikit.Lemmas.Builder
import Clikit.Lemmas.Realign
import Clikit.Lemmas.Spelling
/-!
# The flattened view of a built format satisfies the parser's format hypotheses

Helper lemmas for the bridge theorems of `Props/C06.lean`: from the invariant `InvF f` of the
builder model (`Lemmas/Builder.lean`) to the facts the parser theorems assume about the flattened
format `flattenRec aa oa f` (`Model/Flatten.lean`): `MultiLast` of its arguments, distinct argument
keys, every option found under its long name and under its (non-empty) short name.
-/
namespace Clikit.Flatten
open Clikit Clikit.Parser

/-! ### lists -/

theorem mem_dropLast_append {α : Type} {a : α} {p s : List α} (h : a ∈ (p ++ s).dropLast) :
    a ∈ p ∨ a ∈ s.dropLast := by
  cases s with
  | nil => rw [List.append_nil] at h; exact Or.inl (List.dropLast_subset p h)
  | cons b s =>
    rw [List.dropLast_append_cons] at h
    exact List.mem_append.mp h

/-- `MultiLast` in the form the builder's invariant states it (`ArgsOK.multiLast`) -/
theorem multiLast_of_dropLast : ∀ (l : List FArg), (∀ a ∈ l.dropLast, a.multi = false) → MultiLast l
  | [], _ => trivial
  | [_], _ => trivial
  | a :: b :: r, h => by
    refine ⟨h a (by simp [List.dropLast]), multiLast_of_dropLast (b :: r) (fun x hx => h x ?_)⟩
    simp only [List.dropLast_cons_cons]
    exact List.mem_cons_of_mem _ hx

theorem find?_unique {α : Type} {p : α → Bool} {l : List α} {a : α} (ha : a ∈ l) (hp : p a = true)
    (hu : ∀ b ∈ l, p b = true → b = a) : l.find? p = some a := by
  cases hf : l.find? p with
  | none => exact absurd hp (List.find?_eq_none.mp hf a ha)
  | some b => rw [hu b (List.mem_of_find?_eq_some hf) (List.find?_some hf)]

/-! ### arguments -/

/-- the argument of the parser's `_fmt` made from a real argument -/
def toFArg (a : Parser.Arg) : FArg := { key := .real a.name, required := a.required, multi := a.multi }

theorem fargs_eq (f : Fmt) : f.fargs = pseudoArgs f.cmds.length ++ f.args.map toFArg := rfl

theorem pseudoArgs_single (n : Nat) : ∀ a ∈ pseudoArgs n, a.multi = false := by
  intro a ha
  simp only [pseudoArgs, List.mem_map] at ha
  obtain ⟨j, _, rfl⟩ := ha
  rfl

/-- a list of builder arguments obeying the builder's rules, flattened behind any number of
command-name pseudo-arguments, has its multi-valued argument last -/
theorem multiLast_of_argsOK (aa : ArgsFmt.Arg → ArgAttrs) (n : Nat) (as : List ArgsFmt.Arg)
    (h : ArgsFmt.ArgsOK as) : MultiLast (pseudoArgs n ++ (as.map (flatArg aa)).map toFArg) := by
  apply multiLast_of_dropLast
  intro a ha
  rcases mem_dropLast_append ha with hp | hr
  · exact pseudoArgs_single n a hp
  · rw [← List.map_dropLast, ← List.map_dropLast] at hr
    simp only [List.mem_map] at hr
    obtain ⟨_, ⟨a0, ha0, rfl⟩, rfl⟩ := hr
    exact h.multiLast a0 ha0

theorem flatArg_names (aa : ArgsFmt.Arg → ArgAttrs) (as : List ArgsFmt.Arg) :
    (as.map (flatArg aa)).map (·.name) = as.map (·.name) := by
  simp [List.map_map, Function.comp_def, flatArg]

/-! ### options -/

@[simp] theorem flatOpt_long (oa : ArgsFmt.Opt → OptAttrs) (o : ArgsFmt.Opt) : (flatOpt oa o).long = o.long := rfl
@[simp] theorem flatOpt_short (oa : ArgsFmt.Opt → OptAttrs) (o : ArgsFmt.Opt) : (flatOpt oa o).short = o.short := rfl

/-- "every name identifies at most one option" over a listing of builder options -/
def NamesUnique (os : List ArgsFmt.Opt) : Prop :=
  ∀ n, ∀ o1 ∈ os, ∀ o2 ∈ os, n ∈ o1.names → n ∈ o2.names → o1 = o2

theorem long_mem_names (o : ArgsFmt.Opt) : o.long ∈ o.names := (ArgsFmt.Opt.mem_names o o.long).mpr (Or.inl rfl)

theorem short_mem_names {o : ArgsFmt.Opt} {s : Str} (h : o.short = some s) (hs : s ≠ []) : s ∈ o.names :=
  (ArgsFmt.Opt.mem_names o s).mpr (Or.inr ⟨h, hs⟩)

/-- lookup by long name in the flattened listing -/
theorem getOpt?_long (oa : ArgsFmt.Opt → OptAttrs) (cmds : List Parser.CmdName) (args : List Parser.Arg)
    (os : List ArgsFmt.Opt) (hu : NamesUnique os) (o : ArgsFmt.Opt) (ho : o ∈ os) :
    Fmt.getOpt? { cmds := cmds, args := args, opts := os.map (flatOpt oa) } o.long = some (flatOpt oa o) := by
  have h1 : os.find? ((fun x : Parser.Opt => x.long == o.long) ∘ flatOpt oa) = some o := by
    apply find?_unique ho
    · simp
    · intro b hb hpb
      simp only [Function.comp, flatOpt_long, beq_iff_eq] at hpb
      exact hu o.long b hb o ho (hpb ▸ long_mem_names b) (long_mem_names o)
  simp only [Fmt.getOpt?, List.find?_map, h1, Option.map_some]

/-- lookup by a non-empty short name in the flattened listing -/
theorem getOpt?_short (oa : ArgsFmt.Opt → OptAttrs) (cmds : List Parser.CmdName) (args : List Parser.Arg)
    (os : List ArgsFmt.Opt) (hu : NamesUnique os) (o : ArgsFmt.Opt) (ho : o ∈ os) (s : Str)
    (hs : o.short = some s) (hne : s ≠ []) :
    Fmt.getOpt? { cmds := cmds, args := args, opts := os.map (flatOpt oa) } s = some (flatOpt oa o) := by
  simp only [Fmt.getOpt?, List.find?_map]
  cases h1 : os.find? ((fun x : Parser.Opt => x.long == s) ∘ flatOpt oa) with
  | some b =>
    have hb := List.mem_of_find?_eq_some h1
    have hpb := List.find?_some h1
    simp only [Function.comp, flatOpt_long, beq_iff_eq] at hpb
    have : b = o := hu s b hb o ho (hpb ▸ long_mem_names b) (short_mem_names hs hne)
    simp [this]
  | none =>
    have h2 : os.find? ((fun x : Parser.Opt => x.short == some s) ∘ flatOpt oa) = some o := by
      apply find?_unique ho
      · simp [hs]
      · intro b hb hpb
        simp only [Function.comp, flatOpt_short, beq_iff_eq] at hpb
        exact hu s b hb o ho (short_mem_names hpb hne) (short_mem_names hs hne)
    simp [h2]

end Clikit.Flatten

/-! ### the listed options of a built format carry the names the constructors validated

`InvF` says nothing about the shape of the names themselves; the closure `Built` does (its elements
pass `Elem.wfB` / `Op.wfB`).  `BOptsWF` is the corresponding invariant of a builder, preserved by every
call of the public API. -/

namespace Clikit.ArgsFmt

/-- every option listed by the format or one of its bases has a long name of at least two characters
and a short name (if any) of exactly one -/
def OptsWF (f : FormatRec) : Prop := ∀ o ∈ dictVals f.optChain, o.wf
def baseOptsWF : Option FormatRec → Prop
  | some g => OptsWF g
  | none => True
/-- the same for a builder -/
def BOptsWF (b : Builder) : Prop := (∀ o ∈ dictVals b.own.opts, o.wf) ∧ baseOptsWF b.base

theorem mem_dictVals_dictSet {ν : Type} {k : Str} {v x : ν} : ∀ {d : Dict ν},
    x ∈ dictVals (dictSet k v d) → x = v ∨ x ∈ dictVals d
  | [], h => by simp [dictSet] at h; exact Or.inl h
  | (k', v') :: r, h => by
    simp only [dictSet] at h
    split at h
    · simp only [dictVals_cons, List.mem_cons] at h ⊢
      rcases h with h | h
      · exact Or.inl h
      · exact Or.inr (Or.inr h)
    · simp only [dictVals_cons, List.mem_cons] at h ⊢
      rcases h with h | h
      · exact Or.inr (Or.inl h)
      · rcases mem_dictVals_dictSet h with h | h
        · exact Or.inl h
        · exact Or.inr (Or.inr h)

theorem BOptsWF.addOption {b b' : Builder} {o : Opt} (hwf : o.wf) (h : BOptsWF b)
    (hb : b.addOption o = .ok b') : BOptsWF b' := by
  obtain ⟨_, _, rfl⟩ := addOption_ok hb
  refine ⟨fun x hx => ?_, h.2⟩
  rcases mem_dictVals_dictSet hx with rfl | hx
  · exact hwf
  · exact h.1 x hx

theorem BOptsWF.addCommandOption {b b' : Builder} {c : CmdOpt} (h : BOptsWF b)
    (hb : b.addCommandOption c = .ok b') : BOptsWF b' := by
  obtain ⟨_, _, _, _, rfl⟩ := addCommandOption_ok hb
  exact h

theorem BOptsWF.addArgument {b b' : Builder} {a : Arg} (h : BOptsWF b)
    (hb : b.addArgument a = .ok b') : BOptsWF b' := by
  rw [addArgument_eq] at hb
  split at hb
  · cases hb
  · injection hb with hb; subst hb; exact h

theorem BOptsWF.addCommandName {b b' : Builder} {n : CmdName} (h : BOptsWF b)
    (hb : b.addCommandName n = .ok b') : BOptsWF b' := by
  unfold Builder.addCommandName at hb
  injection hb with hb; subst hb; exact h

theorem addAll_pres {ε : Type} {add : Builder → ε → Except Err Builder} {P : ε → Prop} {Q : Builder → Prop}
    (hadd : ∀ b e b', P e → Q b → add b e = .ok b' → Q b') :
    ∀ (es : List ε) (b : Builder), (∀ e ∈ es, P e) → Q b → Q (addAll add b es).1
  | [], _, _, h => h
  | e :: es, b, hP, h => by
    unfold addAll
    cases hr : add b e with
    | ok b' =>
      simp only
      exact addAll_pres hadd es b' (fun x hx => hP x (by simp [hx])) (hadd b e b' (hP e (by simp)) h hr)
    | error err => exact h

theorem one_pres {ε : Type} {add : Builder → ε → Except Err Builder} {P : ε → Prop} {Q : Builder → Prop}
    (hadd : ∀ b e b', P e → Q b → add b e = .ok b' → Q b')
    (b : Builder) (e : ε) (hP : P e) (h : Q b) : Q (one add b e).1 := by
  unfold one
  cases hr : add b e with
  | ok b' => exact hadd b e b' hP h hr
  | error err => exact h

/-- every call of the public builder API preserves `BOptsWF` -/
theorem BOptsWF.step (b : Builder) (op : Op) (hwf : op.wf) (h : BOptsWF b) : BOptsWF (step b op).1 := by
  cases op with
  | addOption o => exact one_pres (P := Opt.wf) (fun _ _ _ hp hq hr => BOptsWF.addOption hp hq hr) b o hwf h
  | addOptions os => exact addAll_pres (P := Opt.wf) (fun _ _ _ hp hq hr => BOptsWF.addOption hp hq hr) os b hwf h
  | setOptions os =>
    exact addAll_pres (P := Opt.wf) (fun _ _ _ hp hq hr => BOptsWF.addOption hp hq hr) os _ hwf
      ⟨fun x hx => (by simp [dictVals] at hx), h.2⟩
  | addCommandOption c =>
    exact one_pres (P := fun _ => True) (fun _ _ _ _ hq hr => BOptsWF.addCommandOption hq hr) b c trivial h
  | addCommandOptions cs =>
    exact addAll_pres (P := fun _ => True) (fun _ _ _ _ hq hr => BOptsWF.addCommandOption hq hr) cs b
      (fun _ _ => trivial) h
  | setCommandOptions cs =>
    exact addAll_pres (P := fun _ => True) (fun _ _ _ _ hq hr => BOptsWF.addCommandOption hq hr) cs _
      (fun _ _ => trivial) h
  | addArgument a =>
    exact one_pres (P := fun _ => True) (fun _ _ _ _ hq hr => BOptsWF.addArgument hq hr) b a trivial h
  | addArguments as =>
    exact addAll_pres (P := fun _ => True) (fun _ _ _ _ hq hr => BOptsWF.addArgument hq hr) as b
      (fun _ _ => trivial) h
  | setArguments as =>
    exact addAll_pres (P := fun _ => True) (fun _ _ _ _ hq hr => BOptsWF.addArgument hq hr) as _
      (fun _ _ => trivial) h
  | addCommandName n =>
    exact one_pres (P := fun _ => True) (fun _ _ _ _ hq hr => BOptsWF.addCommandName hq hr) b n trivial h
  | addCommandNames ns =>
    exact addAll_pres (P := fun _ => True) (fun _ _ _ _ hq hr => BOptsWF.addCommandName hq hr) ns b
      (fun _ _ => trivial) h
  | setCommandNames ns =>
    exact addAll_pres (P := fun _ => True) (fun _ _ _ _ hq hr => BOptsWF.addCommandName hq hr) ns _
      (fun _ _ => trivial) h

theorem BOptsWF.run (ops : List Op) (b : Builder) (hwf : ∀ op ∈ ops, op.wf) (h : BOptsWF b) :
    BOptsWF (run b ops) := by
  induction ops generalizing b with
  | nil => exact h
  | cons op ops ih => exact ih _ (fun o ho => hwf o (by simp [ho])) (BOptsWF.step b op (hwf op (by simp)) h)

theorem BOptsWF.seqAdd (es : List Elem) (b : Builder) (hwf : ∀ e ∈ es, e.wf) (h : BOptsWF b) :
    BOptsWF (seqAdd b es).1 := by
  induction es generalizing b with
  | nil => exact h
  | cons e es ih =>
    have hr : ∀ x ∈ es, x.wf := fun x hx => hwf x (by simp [hx])
    cases ho : e.toOp? with
    | none => simp only [ArgsFmt.seqAdd, ho]; exact ih b hr h
    | some op =>
      have hs := BOptsWF.step b op (hwf e (by simp) op ho) h
      cases hst : ArgsFmt.step b op with
      | mk b' r =>
        rw [hst] at hs
        cases r with
        | none => simp only [ArgsFmt.seqAdd, ho, hst]; exact ih b' hr hs
        | some err => simp only [ArgsFmt.seqAdd, ho, hst]; exact hs

theorem BOptsWF.empty {base : Option FormatRec} (h : baseOptsWF base) : BOptsWF (Builder.empty base) :=
  ⟨fun x hx => (by simp [Builder.empty, dictVals] at hx), h⟩

/-- the built format lists the builder's own options and the base's -/
theorem BOptsWF.format {b : Builder} (h : BOptsWF b) : OptsWF (format b) := by
  intro o ho
  have e : (ArgsFmt.format b).optChain = b.own.opts ++ baseOpts b.base := by
    simp only [ArgsFmt.format, optChain_mk, Builder.getOptions]
  rw [e, dictVals_append, List.mem_append] at ho
  rcases ho with ho | ho
  · exact h.1 o ho
  · cases hb : b.base with
    | none => rw [hb] at ho; cases ho
    | some g => rw [hb] at ho; have := h.2; rw [hb] at this; exact this o ho

end Clikit.ArgsFmt
