import Clikit.Lemmas.SectionIndent
import Clikit.Model.SectionGate
/-!
Lemmas for the gate layer of C15: a gated history is simulated by the indented history without the
suppressed calls (`gflat`): same sections, same stream.
-/
namespace Clikit.Section
open Clikit.Term Clikit.Gen

/-- the whole history -/
theorem runG_sim (ansi : Bool) (w : Nat) (gops : List GOp) : ∀ (g : GState),
    (runG ansi w g gops).1.st = (runI ansi w g.st (gflat g.cfg gops)).1 ∧
    (runG ansi w g gops).2 = (runI ansi w g.st (gflat g.cfg gops)).2 := by
  induction gops with
  | nil => intro g; exact ⟨rfl, rfl⟩
  | cons op r ih =>
    intro g
    cases op with
    | create n q v =>
      have h := ih (stepG ansi w g (.create n q v)).1
      simp only [stepG, stepIO] at h
      simp only [runG, stepG, gflat, runI, stepIO, List.nil_append]
      exact h
    | indent i n =>
      have h := ih (stepG ansi w g (.indent i n)).1
      simp only [stepG, stepIO] at h
      simp only [runG, stepG, gflat, runI, stepIO, List.nil_append]
      exact h
    | verbosity i v =>
      have h := ih (stepG ansi w g (.verbosity i v)).1
      simp only [stepG] at h
      simp only [runG, stepG, gflat, List.nil_append]
      exact h
    | quiet i q =>
      have h := ih (stepG ansi w g (.quiet i q)).1
      simp only [stepG] at h
      simp only [runG, stepG, gflat, List.nil_append]
      exact h
    | write i ls f =>
      have h := ih (stepG ansi w g (.write i ls f)).1
      cases hp : passes g.cfg i f with
      | false =>
        simp only [stepG, hp, Bool.false_eq_true, if_false] at h
        simp only [runG, stepG, gflat, hp, Bool.false_eq_true, if_false, List.nil_append]
        exact h
      | true =>
        simp only [stepG, hp, if_true] at h
        simp only [runG, stepG, gflat, hp, if_true, runI]
        exact ⟨h.1, by rw [h.2]⟩
    | op o =>
      have h := ih (stepG ansi w g (.op o)).1
      cases hp : passes g.cfg (target o) none with
      | false =>
        simp only [stepG, hp, Bool.false_eq_true, if_false] at h
        simp only [runG, stepG, gflat, hp, Bool.false_eq_true, if_false, List.nil_append]
        exact h
      | true =>
        simp only [stepG, hp, if_true] at h
        simp only [runG, stepG, gflat, hp, if_true, runI]
        exact ⟨h.1, by rw [h.2]⟩

end Clikit.Section
