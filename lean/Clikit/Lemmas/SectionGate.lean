import Clikit.Lemmas.SectionIndent
import Clikit.Model.SectionGate
/-!
Lemmas for the gate layer of C15: a calm gated history is simulated by the indented history without the
suppressed calls (`gflat`): same sections, same stream.
-/
namespace Clikit.Section
open Clikit.Term Clikit.Gen

theorem locate_spec {secs : List Sec} {i : Nat} {a : List Sec} {s : Sec} {b : List Sec}
    (h : locate secs i = some (a, s, b)) : secs = a ++ s :: b := by
  unfold locate at h
  split at h
  · exact split3_spec _ _ _ _ _ h
  · cases h

/-- `clear` / `clear(n)` on a section that holds nothing: nothing happens -/
theorem modify_clear_nothing (w n : Nat) (secs : List Sec) (i : Nat) (h : holdsNothing secs i = true) :
    modify secs i (fun a s => clearSec w a s n) = (secs, []) := by
  unfold modify
  unfold holdsNothing at h
  cases hl : locate secs i with
  | none => rfl
  | some t =>
    obtain ⟨a, s, b⟩ := t
    rw [hl] at h
    simp only at h
    simp only [clearSec, h, if_true]
    rw [← locate_spec hl]

theorem quietSecs_nothing (w : Nat) (secs : List Sec) (o : Op)
    (h : clears o = false ∨ holdsNothing secs (target o) = true) :
    quietSecs w secs o = secs := by
  cases o with
  | create => rfl
  | write i ls => rfl
  | clear i =>
    have h : holdsNothing secs i = true := by simpa [clears, target] using h
    simp only [quietSecs, modify_clear_nothing w 0 secs i h]
  | clearN i n =>
    have h : holdsNothing secs i = true := by simpa [clears, target] using h
    simp only [quietSecs, modify_clear_nothing w n secs i h]
  | overwrite i ls =>
    have h : holdsNothing secs i = true := by simpa [clears, target] using h
    simp only [quietSecs, modify_clear_nothing w 0 secs i h]

/-- the whole history -/
theorem runG_sim (ansi : Bool) (w : Nat) (gops : List GOp) : ∀ (g : GState), calmG ansi w g gops = true →
    (runG ansi w g gops).1.st = (runI ansi w g.st (gflat g.cfg gops)).1 ∧
    (runG ansi w g gops).2 = (runI ansi w g.st (gflat g.cfg gops)).2 := by
  induction gops with
  | nil => intro g _; exact ⟨rfl, rfl⟩
  | cons op r ih =>
    intro g hc
    simp only [calmG, Bool.and_eq_true] at hc
    obtain ⟨h1, h2⟩ := hc
    cases op with
    | create n q v =>
      have h := ih _ h2
      simp only [stepG, stepIO] at h
      simp only [runG, stepG, gflat, runI, stepIO, List.nil_append]
      exact h
    | indent i n =>
      have h := ih _ h2
      simp only [stepG, stepIO] at h
      simp only [runG, stepG, gflat, runI, stepIO, List.nil_append]
      exact h
    | verbosity i v =>
      have h := ih _ h2
      simp only [stepG] at h
      simp only [runG, stepG, gflat, List.nil_append]
      exact h
    | quiet i q =>
      have h := ih _ h2
      simp only [stepG] at h
      simp only [runG, stepG, gflat, List.nil_append]
      exact h
    | write i ls f =>
      have h := ih _ h2
      cases hp : passes g.cfg i f with
      | false =>
        simp only [stepG, hp, Bool.false_eq_true, if_false] at h
        simp only [runG, stepG, gflat, hp, Bool.false_eq_true, if_false, List.nil_append]
        exact h
      | true =>
        simp only [stepG, hp, if_true] at h
        simp only [runG, stepG, gflat, hp, if_true, runI]
        exact ⟨h.1, by rw [h.2]⟩
    | op o =>
      have h := ih _ h2
      cases hq : (cfgOf g.cfg (target o)).quiet with
      | true =>
        have hn : clears o = false ∨ holdsNothing g.st.secs (target o) = true := by simpa [hq] using h1
        have hs : (if ansi then quietSecs w g.st.secs o else g.st.secs) = g.st.secs := by
          cases ansi
          · rfl
          · simp only [if_true]; exact quietSecs_nothing w _ o hn
        simp only [stepG, hq, if_true, hs] at h
        simp only [runG, stepG, gflat, hq, if_true, hs, List.nil_append]
        exact h
      | false =>
        simp only [stepG, hq, Bool.false_eq_true, if_false] at h
        simp only [runG, stepG, gflat, hq, Bool.false_eq_true, if_false, runI]
        exact ⟨h.1, by rw [h.2]⟩

end Clikit.Section
