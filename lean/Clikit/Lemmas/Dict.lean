import Clikit.Base
/-! Lemmas about the association lists with Python `dict` semantics (`Clikit/Base.lean`). -/
namespace Clikit

variable {κ ν : Type} [BEq κ] [LawfulBEq κ]

theorem dictGet?_none_of_not_mem {k : κ} : ∀ {d : List (κ × ν)}, k ∉ d.map (·.1) → dictGet? k d = none := by
  intro d
  induction d with
  | nil => intro _; rfl
  | cons kv r ih =>
    intro h
    obtain ⟨k', v'⟩ := kv
    simp only [List.map_cons, List.mem_cons, not_or] at h
    have hne : (k' == k) = false := by
      cases hb : (k' == k) with
      | false => rfl
      | true => exact absurd (eq_of_beq hb).symm h.1
    simp [dictGet?, hne, ih h.2]

theorem dictSet_of_not_mem {k : κ} {v : ν} : ∀ {d : List (κ × ν)}, k ∉ d.map (·.1) → dictSet k v d = d ++ [(k, v)] := by
  intro d
  induction d with
  | nil => intro _; rfl
  | cons kv r ih =>
    intro h
    obtain ⟨k', v'⟩ := kv
    simp only [List.map_cons, List.mem_cons, not_or] at h
    have hne : (k' == k) = false := by
      cases hb : (k' == k) with
      | false => rfl
      | true => exact absurd (eq_of_beq hb).symm h.1
    simp [dictSet, hne, ih h.2]

theorem dictGet?_mem {k : κ} {v : ν} : ∀ {d : List (κ × ν)}, dictGet? k d = some v → (k, v) ∈ d := by
  intro d
  induction d with
  | nil => intro h; simp [dictGet?] at h
  | cons kv r ih =>
    intro h
    obtain ⟨k', v'⟩ := kv
    simp only [dictGet?] at h
    split at h
    · rename_i hb
      have := eq_of_beq hb
      simp at h; subst h; subst this
      exact List.mem_cons_self
    · exact List.mem_cons_of_mem _ (ih h)

theorem mem_dictSet {k : κ} {v : ν} {p : κ × ν} : ∀ {d : List (κ × ν)}, p ∈ dictSet k v d → p = (k, v) ∨ p ∈ d := by
  intro d
  induction d with
  | nil => intro h; simp [dictSet] at h; exact Or.inl h
  | cons kv r ih =>
    intro h
    obtain ⟨k', v'⟩ := kv
    simp only [dictSet] at h
    split at h
    · rename_i hb
      have hk := eq_of_beq hb
      rcases List.mem_cons.mp h with h | h
      · subst hk; exact Or.inl h
      · exact Or.inr (List.mem_cons_of_mem _ h)
    · rcases List.mem_cons.mp h with h | h
      · exact Or.inr (h ▸ List.mem_cons_self)
      · rcases ih h with h | h
        · exact Or.inl h
        · exact Or.inr (List.mem_cons_of_mem _ h)

theorem dictSet_keys_of_mem {k : κ} {v : ν} : ∀ {d : List (κ × ν)}, k ∈ d.map (·.1) →
    (dictSet k v d).map (·.1) = d.map (·.1) := by
  intro d
  induction d with
  | nil => intro h; simp at h
  | cons kv r ih =>
    intro h
    obtain ⟨k', v'⟩ := kv
    simp only [dictSet]
    split
    · rename_i hb; simp [eq_of_beq hb]
    · rename_i hb
      simp only [List.map_cons, List.mem_cons] at h
      rcases h with h | h
      · subst h; simp at hb
      · simp [ih h]

theorem dictSet_length_of_mem {k : κ} {v : ν} {d : List (κ × ν)} (h : k ∈ d.map (·.1)) :
    (dictSet k v d).length = d.length := by
  have := congrArg List.length (dictSet_keys_of_mem (v := v) h)
  simpa using this

theorem dictGet?_dictSet (k p : κ) (v : ν) : ∀ (d : List (κ × ν)),
    dictGet? p (dictSet k v d) = if k == p then some v else dictGet? p d := by
  intro d
  induction d with
  | nil => simp [dictSet, dictGet?]
  | cons kv r ih =>
    obtain ⟨k', v'⟩ := kv
    simp only [dictSet]
    by_cases hk : (k' == k) = true
    · have hkk : k' = k := eq_of_beq hk
      subst hkk
      simp only [hk, if_true, dictGet?]
      by_cases hp : (k' == p) = true <;> simp [hp]
    · simp only [hk, Bool.false_eq_true, if_false, dictGet?]
      by_cases hp : (k' == p) = true
      · have hpp : k' = p := eq_of_beq hp
        subst hpp
        have : (k == k') = false := by
          cases hb : (k == k') with
          | false => rfl
          | true => exact absurd (by rw [eq_of_beq hb]; exact beq_self_eq_true _) hk
        simp [this]
      · simp [hp, ih]

end Clikit
