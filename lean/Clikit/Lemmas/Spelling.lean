import Clikit.Lemmas.ParserInv
/-!
Step lemmas of the token loop (C01): what one spelled item - a positional, `--name=value`,
`--name value`, `--name`, `-nvalue`, `-n value`, `-n`, a group of short flags - does to the
parser state, with the look-ahead and push-back of the code resolved.
-/
namespace Clikit.Parser

/-- the result of the token loop does not depend on the fuel, as long as there is enough -/
theorem loop_fuel_irrelevant (f : Fmt) (len : Bool) : ∀ (n m : Nat) (toks : List Str) (po : Bool) (σ : St),
    toks.length < n → toks.length < m → loop f len n toks po σ = loop f len m toks po σ := by
  intro n
  induction n with
  | zero => intro m toks po σ h; omega
  | succ n ih =>
    intro m toks po σ hn hm
    cases m with
    | zero => omega
    | succ m =>
      cases toks with
      | nil => simp [loop]
      | cons tok rest =>
        simp only [loop]
        cases hs : step f len tok rest po σ with
        | error e => rfl
        | ok p =>
          obtain ⟨σ', rest', po'⟩ := p
          have hl := step_len hs
          simp only [List.length_cons] at hn hm
          exact ih m rest' po' σ' (by omega) (by omega)

/-- the token loop with exactly the fuel `parse()` gives it -/
def loopF (f : Fmt) (len : Bool) (toks : List Str) (po : Bool) (σ : St) : PR St :=
  loop f len (toks.length + 1) toks po σ

theorem loopF_nil (f : Fmt) (len : Bool) (po : Bool) (σ : St) : loopF f len [] po σ = .ok σ := by
  simp [loopF, loop]

/-- one iteration: pop a token, run `step`, continue on what it left -/
theorem loopF_cons (f : Fmt) (len : Bool) (tok : Str) (rest : List Str) (po : Bool) (σ : St) :
    loopF f len (tok :: rest) po σ =
      match step f len tok rest po σ with
      | .error e => .error e
      | .ok (σ', rest', po') => loopF f len rest' po' σ' := by
  simp only [loopF, List.length_cons, loop]
  cases hs : step f len tok rest po σ with
  | error e => rfl
  | ok p =>
    obtain ⟨σ', rest', po'⟩ := p
    have hl := step_len hs
    exact loop_fuel_irrelevant f len _ _ rest' po' σ' (by omega) (by omega)


/-! ### Shapes -/

/-- a token that is a positional argument before `--`: `""`, `"-"`, or not starting with `-` -/
def posLike (v : Str) : Bool := v == [] || v == ['-'] || v.head? != some '-'

/-- a token that can follow an option as its separate value: non-empty, not starting with `-` -/
def valueLike (v : Str) : Bool := match v with
  | [] => false
  | c :: _ => c != '-'

/-- what may follow an option spelled without a value when the option would accept one: nothing,
or a token starting with `-` (anything else would be taken as its value) -/
def stopsValue (rest : List Str) : Bool := match rest with
  | [] => true
  | t :: _ => t.head? == some '-'

/-- continue the loop with the same remaining tokens -/
def cont (r : PR St) (rest : List Str) (po : Bool) : PR (St × List Str × Bool) :=
  match r with
  | .error e => .error e
  | .ok σ' => .ok (σ', rest, po)

def contOpt (r : PR St) (rest : List Str) : PR (St × List Str) :=
  match r with
  | .error e => .error e
  | .ok σ' => .ok (σ', rest)

/-- closes `match x with … = match x with …` goals whose two sides come from different
(but identical) auxiliary matchers -/
macro "same_match" : tactic => `(tactic| first | rfl | (split <;> rename_i hsm <;> simp [hsm]))

/-! ### Positionals and the separator -/

theorem step_pos (f : Fmt) (len : Bool) (v : Str) (rest : List Str) (σ : St) (hv : posLike v = true) :
    step f len v rest true σ = cont (parseArgument f.fargs len v σ) rest true := by
  unfold step cont
  cases v with
  | nil =>
    simp only [Bool.true_and, beq_self_eq_true, if_true]
    cases parseArgument f.fargs len [] σ <;> rfl
  | cons c cs =>
    by_cases hc : c = '-'
    · subst hc
      have hcs : cs = [] := by
        cases cs with
        | nil => rfl
        | cons d ds => simp [posLike] at hv
      subst hcs
      simp only [shortTest]
      cases parseArgument f.fargs len ['-'] σ <;> simp
    · have h2 : ((c :: cs).take 2 == ['-', '-']) = false := by
        cases cs <;> simp [hc]
      have h1 : ((c :: cs) == ['-', '-']) = false := by
        cases cs <;> simp [hc]
      have h3 : (c == '-') = false := by simp [hc]
      simp only [h1, h2, shortTest, h3, Bool.true_and, Bool.false_and, Bool.false_eq_true, if_false, if_true]
      cases parseArgument f.fargs len (c :: cs) σ <;> simp

theorem step_tail (f : Fmt) (len : Bool) (v : Str) (rest : List Str) (σ : St) :
    step f len v rest false σ = cont (parseArgument f.fargs len v σ) rest false := by
  simp only [step, cont, shortTest, Bool.false_and, Bool.false_eq_true, if_false]
  cases parseArgument f.fargs len v σ <;> rfl

theorem step_dashes (f : Fmt) (len : Bool) (rest : List Str) (σ : St) :
    step f len ['-', '-'] rest true σ = .ok (σ, rest, false) := by
  simp [step]

/-! ### Long options -/

theorem splitEq_eq (L v : Str) (hL : '=' ∉ L) : splitEq (L ++ '=' :: v) = (L, some v) := by
  induction L with
  | nil => simp [splitEq]
  | cons c r ih =>
    simp only [List.mem_cons, not_or] at hL
    have hc : (c == '=') = false := by simp; exact fun h => hL.1 h.symm
    simp [splitEq, hc, ih hL.2]

theorem splitEq_none (L : Str) (hL : '=' ∉ L) : splitEq L = (L, none) := by
  induction L with
  | nil => simp [splitEq]
  | cons c r ih =>
    simp only [List.mem_cons, not_or] at hL
    have hc : (c == '=') = false := by simp; exact fun h => hL.1 h.symm
    simp [splitEq, hc, ih hL.2]

/-- an attached value (possibly empty = "no value") -/
theorem addLong_val (f : Fmt) (L : Str) (o : Opt) (v : Str) (rest : List Str) (σ : St)
    (ho : f.getOpt? L = some o) (ha : o.accepts = true) :
    addLong f L (some v) rest σ = contOpt (storeOpt o L (if v == [] then none else some v) σ) rest := by
  unfold addLong contOpt
  simp only [ho, Option.isSome_some, ha, Bool.not_true, Bool.and_false, Bool.false_eq_true, if_false, peekValue,
    Option.isNone_some, Bool.false_and]
  by_cases hv : v = []
  · subst hv; simp only [beq_self_eq_true, if_true]; same_match
  · have : (some v == some ([] : Str)) = false := by simp [hv]
    have hv' : (v == []) = false := by simp [hv]
    simp only [this, hv', Bool.false_eq_true, if_false]; same_match

/-- no value, an option that does not accept one -/
theorem addLong_none_flag (f : Fmt) (L : Str) (o : Opt) (rest : List Str) (σ : St)
    (ho : f.getOpt? L = some o) (ha : o.accepts = false) :
    addLong f L none rest σ = contOpt (storeOpt o L none σ) rest := by
  unfold addLong contOpt
  simp only [ho, ha, peekValue, Option.isSome_none, Bool.false_and, Bool.false_eq_true, if_false, Bool.and_false,
    Option.isNone_none, Bool.true_and]
  same_match

/-- no value, the option would accept one, but nothing usable follows -/
theorem addLong_none_stop (f : Fmt) (L : Str) (o : Opt) (rest : List Str) (σ : St)
    (ho : f.getOpt? L = some o) (hs : stopsValue rest = true) :
    addLong f L none rest σ = contOpt (storeOpt o L none σ) rest := by
  unfold addLong contOpt
  cases rest with
  | nil =>
    simp only [ho, peekValue, Option.isSome_none, Bool.false_and, Bool.false_eq_true, if_false, List.length_nil,
      bne_self_eq_false, Bool.and_false]
    same_match
  | cons t r =>
    cases t with
    | nil => simp [stopsValue] at hs
    | cons c cs =>
      have hc : c = '-' := by simpa [stopsValue] using hs
      subst hc
      cases ha : o.accepts <;>
        simp only [ho, ha, peekValue, Option.isSome_none, Bool.false_and, Bool.false_eq_true, if_false,
          Option.isNone_none, Bool.true_and, Bool.and_false, List.length_cons, bne_self_eq_false, Bool.and_true,
          Nat.add_one_ne_zero, bne_iff_ne, ne_eq, not_false_eq_true, decide_true, if_true, not_true_eq_false] <;>
        same_match

/-- no value attached, the option accepts one and a value-like token follows: it is taken -/
theorem addLong_none_take (f : Fmt) (L : Str) (o : Opt) (v : Str) (rest : List Str) (σ : St)
    (ho : f.getOpt? L = some o) (ha : o.accepts = true) (hv : valueLike v = true) :
    addLong f L none (v :: rest) σ = contOpt (storeOpt o L (some v) σ) rest := by
  unfold addLong contOpt
  cases v with
  | nil => simp [valueLike] at hv
  | cons c cs =>
    have hc : (c != '-') = true := by simpa [valueLike] using hv
    simp only [ho, ha, peekValue, hc, Option.isSome_none, Bool.false_and, Bool.false_eq_true, if_false,
      Option.isNone_none, Bool.true_and, List.length_cons, if_true]
    simp only [bne_iff_ne, ne_eq, Nat.add_one_ne_zero, not_false_eq_true, decide_true, if_true]
    have : (some (c :: cs) == some ([] : Str)) = false := by simp
    simp only [this, Bool.false_eq_true, if_false]
    same_match

theorem popValue_take (v : Str) (rest : List Str) (hv : valueLike v = true) : popValue (v :: rest) = (some v, rest) := by
  cases v with
  | nil => simp [valueLike] at hv
  | cons c cs =>
    have hc : (c == '-') = false := by simpa [valueLike] using hv
    simp [popValue, hc]

theorem popValue_stop (rest : List Str) (hs : stopsValue rest = true) : popValue rest = (none, rest) := by
  cases rest with
  | nil => rfl
  | cons t r =>
    cases t with
    | nil => simp [stopsValue] at hs
    | cons c cs =>
      have hc : c = '-' := by simpa [stopsValue] using hs
      subst hc
      simp [popValue]

/-- `--name=value` -/
theorem parseLong_eq (f : Fmt) (L : Str) (o : Opt) (v : Str) (rest : List Str) (σ : St)
    (hL : '=' ∉ L) (ho : f.getOpt? L = some o) (ha : o.accepts = true) :
    parseLong f (L ++ '=' :: v) rest σ = contOpt (storeOpt o L (if v == [] then none else some v) σ) rest := by
  unfold parseLong
  simp only [splitEq_eq L v hL]
  exact addLong_val f L o v rest σ ho ha

/-- `--name value` -/
theorem parseLong_sp (f : Fmt) (L : Str) (o : Opt) (v : Str) (rest : List Str) (σ : St)
    (hL : '=' ∉ L) (ho : f.getOpt? L = some o) (ha : o.accepts = true) (hv : valueLike v = true) :
    parseLong f L (v :: rest) σ = contOpt (storeOpt o L (some v) σ) rest := by
  unfold parseLong
  simp only [splitEq_none L hL, ho, ha, if_true, popValue_take v rest hv]
  have hv' : (v == []) = false := by cases v <;> simp_all [valueLike]
  rw [addLong_val f L o v rest σ ho ha]
  simp [hv']

/-- `--name` for a flag, or for an option whose value is optional when nothing usable follows -/
theorem parseLong_bare (f : Fmt) (L : Str) (o : Opt) (rest : List Str) (σ : St)
    (hL : '=' ∉ L) (ho : f.getOpt? L = some o) (hs : o.accepts = false ∨ stopsValue rest = true) :
    parseLong f L rest σ = contOpt (storeOpt o L none σ) rest := by
  unfold parseLong
  simp only [splitEq_none L hL, ho]
  cases ha : o.accepts with
  | false => simp only [Bool.false_eq_true, if_false]; exact addLong_none_flag f L o rest σ ho ha
  | true =>
    rcases hs with h | h
    · rw [ha] at h; cases h
    · simp only [if_true, popValue_stop rest h]
      exact addLong_none_stop f L o rest σ ho h

/-- a token `--name…` (name non-empty) is handed to `_parse_long_option` -/
theorem step_long (f : Fmt) (len : Bool) (name : Str) (rest : List Str) (σ : St) (hn : name ≠ []) :
    step f len ('-' :: '-' :: name) rest true σ =
      match parseLong f name rest σ with
      | .error e => .error e
      | .ok (σ', rest') => .ok (σ', rest', true) := by
  unfold step
  have h1 : (('-' :: '-' :: name) == ['-', '-']) = false := by
    cases name with
    | nil => exact absurd rfl hn
    | cons c cs => simp
  have h2 : (('-' :: '-' :: name).take 2 == ['-', '-']) = true := by simp
  have h0 : (('-' :: '-' :: name) == ([] : Str)) = false := by simp
  simp only [h0, h1, h2, Bool.true_and, Bool.false_eq_true, if_false, if_true, List.drop_succ_cons, List.drop_zero]
  same_match

end Clikit.Parser
