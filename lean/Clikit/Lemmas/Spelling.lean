import Clikit.Lemmas.ParserInv
import Clikit.Model.Sem
/-!
Step lemmas of the token loop (C01): what one spelled item - a positional, `--name=value`,
`--name value`, `--name`, `-nvalue`, `-n value`, `-n`, a group of short flags - does to the
parser state, with the look-ahead and push-back of the code resolved.
-/
namespace Clikit.Parser

/-- the result of the token loop does not depend on the fuel, as long as there is enough -/
theorem loop_fuel_irrelevant (f : Fmt) (len : Bool) : ∀ (n m : Nat) (toks : List Str) (po : Bool) (σ : St),
    toks.length < n → toks.length < m → loop f len n toks po σ = loop f len m toks po σ := by
  intro n
  induction n with
  | zero => intro m toks po σ h; omega
  | succ n ih =>
    intro m toks po σ hn hm
    cases m with
    | zero => omega
    | succ m =>
      cases toks with
      | nil => simp [loop]
      | cons tok rest =>
        simp only [loop]
        cases hs : step f len tok rest po σ with
        | error e => rfl
        | ok p =>
          obtain ⟨σ', rest', po'⟩ := p
          have hl := step_len hs
          simp only [List.length_cons] at hn hm
          exact ih m rest' po' σ' (by omega) (by omega)

/-- the token loop with exactly the fuel `parse()` gives it -/
def loopF (f : Fmt) (len : Bool) (toks : List Str) (po : Bool) (σ : St) : PR St :=
  loop f len (toks.length + 1) toks po σ

theorem loopF_nil (f : Fmt) (len : Bool) (po : Bool) (σ : St) : loopF f len [] po σ = .ok σ := by
  simp [loopF, loop]

/-- one iteration: pop a token, run `step`, continue on what it left -/
theorem loopF_cons (f : Fmt) (len : Bool) (tok : Str) (rest : List Str) (po : Bool) (σ : St) :
    loopF f len (tok :: rest) po σ =
      match step f len tok rest po σ with
      | .error e => .error e
      | .ok (σ', rest', po') => loopF f len rest' po' σ' := by
  simp only [loopF, List.length_cons, loop]
  cases hs : step f len tok rest po σ with
  | error e => rfl
  | ok p =>
    obtain ⟨σ', rest', po'⟩ := p
    have hl := step_len hs
    exact loop_fuel_irrelevant f len _ _ rest' po' σ' (by omega) (by omega)


/-! ### Shapes -/

/-- a token that is a positional argument before `--`: `""`, `"-"`, or not starting with `-` -/
def posLike (v : Str) : Bool := v == [] || v == ['-'] || v.head? != some '-'

/-- a token that can follow an option as its separate value: non-empty, not starting with `-` -/
def valueLike (v : Str) : Bool := match v with
  | [] => false
  | c :: _ => c != '-'

/-- what may follow an option spelled without a value when the option would accept one: nothing,
or a token starting with `-` (anything else would be taken as its value) -/
def stopsValue (rest : List Str) : Bool := match rest with
  | [] => true
  | t :: _ => t.head? == some '-'

/-- continue the loop with the same remaining tokens -/
def cont (r : PR St) (rest : List Str) (po : Bool) : PR (St × List Str × Bool) :=
  match r with
  | .error e => .error e
  | .ok σ' => .ok (σ', rest, po)

def contOpt (r : PR St) (rest : List Str) : PR (St × List Str) :=
  match r with
  | .error e => .error e
  | .ok σ' => .ok (σ', rest)

/-- closes `match x with … = match x with …` goals whose two sides come from different
(but identical) auxiliary matchers -/
macro "same_match" : tactic => `(tactic| first | rfl | (split <;> rename_i hsm <;> simp [hsm]))

/-! ### Positionals and the separator -/

theorem step_pos (f : Fmt) (len : Bool) (v : Str) (rest : List Str) (σ : St) (hv : posLike v = true) :
    step f len v rest true σ = cont (parseArgument f.fargs len v σ) rest true := by
  unfold step cont
  cases v with
  | nil =>
    simp only [Bool.true_and, beq_self_eq_true, if_true]
    cases parseArgument f.fargs len [] σ <;> rfl
  | cons c cs =>
    by_cases hc : c = '-'
    · subst hc
      have hcs : cs = [] := by
        cases cs with
        | nil => rfl
        | cons d ds => simp [posLike] at hv
      subst hcs
      simp only [shortTest]
      cases parseArgument f.fargs len ['-'] σ <;> simp
    · have h2 : ((c :: cs).take 2 == ['-', '-']) = false := by
        cases cs <;> simp [hc]
      have h1 : ((c :: cs) == ['-', '-']) = false := by
        cases cs <;> simp [hc]
      have h3 : (c == '-') = false := by simp [hc]
      simp only [h1, h2, shortTest, h3, Bool.true_and, Bool.false_and, Bool.false_eq_true, if_false, if_true]
      cases parseArgument f.fargs len (c :: cs) σ <;> simp

theorem step_tail (f : Fmt) (len : Bool) (v : Str) (rest : List Str) (σ : St) :
    step f len v rest false σ = cont (parseArgument f.fargs len v σ) rest false := by
  simp only [step, cont, shortTest, Bool.false_and, Bool.false_eq_true, if_false]
  cases parseArgument f.fargs len v σ <;> rfl

theorem step_dashes (f : Fmt) (len : Bool) (rest : List Str) (σ : St) :
    step f len ['-', '-'] rest true σ = .ok (σ, rest, false) := by
  simp [step]

/-! ### Long options -/

theorem splitEq_eq (L v : Str) (hL : '=' ∉ L) : splitEq (L ++ '=' :: v) = (L, some v) := by
  induction L with
  | nil => simp [splitEq]
  | cons c r ih =>
    simp only [List.mem_cons, not_or] at hL
    have hc : (c == '=') = false := by simp; exact fun h => hL.1 h.symm
    simp [splitEq, hc, ih hL.2]

theorem splitEq_none (L : Str) (hL : '=' ∉ L) : splitEq L = (L, none) := by
  induction L with
  | nil => simp [splitEq]
  | cons c r ih =>
    simp only [List.mem_cons, not_or] at hL
    have hc : (c == '=') = false := by simp; exact fun h => hL.1 h.symm
    simp [splitEq, hc, ih hL.2]

/-- an attached value (possibly empty = "no value") -/
theorem addLong_val (f : Fmt) (L : Str) (o : Opt) (v : Str) (rest : List Str) (σ : St)
    (ho : f.getOpt? L = some o) (ha : o.accepts = true) :
    addLong f L (some v) rest σ = contOpt (storeOpt o L (if v == [] then none else some v) σ) rest := by
  unfold addLong contOpt
  simp only [ho, Option.isSome_some, ha, Bool.not_true, Bool.and_false, Bool.false_eq_true, if_false, peekValue,
    Option.isNone_some, Bool.false_and]
  by_cases hv : v = []
  · subst hv; simp only [beq_self_eq_true, if_true]; same_match
  · have : (some v == some ([] : Str)) = false := by simp [hv]
    have hv' : (v == []) = false := by simp [hv]
    simp only [this, hv', Bool.false_eq_true, if_false]; same_match

/-- no value, an option that does not accept one -/
theorem addLong_none_flag (f : Fmt) (L : Str) (o : Opt) (rest : List Str) (σ : St)
    (ho : f.getOpt? L = some o) (ha : o.accepts = false) :
    addLong f L none rest σ = contOpt (storeOpt o L none σ) rest := by
  unfold addLong contOpt
  simp only [ho, ha, peekValue, Option.isSome_none, Bool.false_and, Bool.false_eq_true, if_false, Bool.and_false,
    Option.isNone_none, Bool.true_and]
  same_match

/-- no value, the option would accept one, but nothing usable follows -/
theorem addLong_none_stop (f : Fmt) (L : Str) (o : Opt) (rest : List Str) (σ : St)
    (ho : f.getOpt? L = some o) (hs : stopsValue rest = true) :
    addLong f L none rest σ = contOpt (storeOpt o L none σ) rest := by
  unfold addLong contOpt
  cases rest with
  | nil =>
    simp only [ho, peekValue, Option.isSome_none, Bool.false_and, Bool.false_eq_true, if_false, List.length_nil,
      bne_self_eq_false, Bool.and_false]
    same_match
  | cons t r =>
    cases t with
    | nil => simp [stopsValue] at hs
    | cons c cs =>
      have hc : c = '-' := by simpa [stopsValue] using hs
      subst hc
      cases ha : o.accepts <;>
        simp only [ho, ha, peekValue, Option.isSome_none, Bool.false_and, Bool.false_eq_true, if_false,
          Option.isNone_none, Bool.true_and, Bool.and_false, List.length_cons, bne_self_eq_false, Bool.and_true,
          Nat.add_one_ne_zero, bne_iff_ne, ne_eq, not_false_eq_true, decide_true, if_true, not_true_eq_false] <;>
        same_match

/-- no value attached, the option accepts one and a value-like token follows: it is taken -/
theorem addLong_none_take (f : Fmt) (L : Str) (o : Opt) (v : Str) (rest : List Str) (σ : St)
    (ho : f.getOpt? L = some o) (ha : o.accepts = true) (hv : valueLike v = true) :
    addLong f L none (v :: rest) σ = contOpt (storeOpt o L (some v) σ) rest := by
  unfold addLong contOpt
  cases v with
  | nil => simp [valueLike] at hv
  | cons c cs =>
    have hc : (c != '-') = true := by simpa [valueLike] using hv
    simp only [ho, ha, peekValue, hc, Option.isSome_none, Bool.false_and, Bool.false_eq_true, if_false,
      Option.isNone_none, Bool.true_and, List.length_cons, if_true]
    simp only [bne_iff_ne, ne_eq, Nat.add_one_ne_zero, not_false_eq_true, decide_true, if_true]
    have : (some (c :: cs) == some ([] : Str)) = false := by simp
    simp only [this, Bool.false_eq_true, if_false]
    same_match

theorem popValue_take (v : Str) (rest : List Str) (hv : valueLike v = true) : popValue (v :: rest) = (some v, rest) := by
  cases v with
  | nil => simp [valueLike] at hv
  | cons c cs =>
    have hc : (c == '-') = false := by simpa [valueLike] using hv
    simp [popValue, hc]

theorem popValue_stop (rest : List Str) (hs : stopsValue rest = true) : popValue rest = (none, rest) := by
  cases rest with
  | nil => rfl
  | cons t r =>
    cases t with
    | nil => simp [stopsValue] at hs
    | cons c cs =>
      have hc : c = '-' := by simpa [stopsValue] using hs
      subst hc
      simp [popValue]

/-- `--name=value` -/
theorem parseLong_eq (f : Fmt) (L : Str) (o : Opt) (v : Str) (rest : List Str) (σ : St)
    (hL : '=' ∉ L) (ho : f.getOpt? L = some o) (ha : o.accepts = true) :
    parseLong f (L ++ '=' :: v) rest σ = contOpt (storeOpt o L (if v == [] then none else some v) σ) rest := by
  unfold parseLong
  simp only [splitEq_eq L v hL]
  exact addLong_val f L o v rest σ ho ha

/-- `--name value` -/
theorem parseLong_sp (f : Fmt) (L : Str) (o : Opt) (v : Str) (rest : List Str) (σ : St)
    (hL : '=' ∉ L) (ho : f.getOpt? L = some o) (ha : o.accepts = true) (hv : valueLike v = true) :
    parseLong f L (v :: rest) σ = contOpt (storeOpt o L (some v) σ) rest := by
  unfold parseLong
  simp only [splitEq_none L hL, ho, ha, if_true, popValue_take v rest hv]
  have hv' : (v == []) = false := by cases v <;> simp_all [valueLike]
  rw [addLong_val f L o v rest σ ho ha]
  simp [hv']

/-- `--name` for a flag, or for an option whose value is optional when nothing usable follows -/
theorem parseLong_bare (f : Fmt) (L : Str) (o : Opt) (rest : List Str) (σ : St)
    (hL : '=' ∉ L) (ho : f.getOpt? L = some o) (hs : o.accepts = false ∨ stopsValue rest = true) :
    parseLong f L rest σ = contOpt (storeOpt o L none σ) rest := by
  unfold parseLong
  simp only [splitEq_none L hL, ho]
  cases ha : o.accepts with
  | false => simp only [Bool.false_eq_true, if_false]; exact addLong_none_flag f L o rest σ ho ha
  | true =>
    rcases hs with h | h
    · rw [ha] at h; cases h
    · simp only [if_true, popValue_stop rest h]
      exact addLong_none_stop f L o rest σ ho h

/-- a token `--name…` (name non-empty) is handed to `_parse_long_option` -/
theorem step_long (f : Fmt) (len : Bool) (name : Str) (rest : List Str) (σ : St) (hn : name ≠ []) :
    step f len ('-' :: '-' :: name) rest true σ =
      match parseLong f name rest σ with
      | .error e => .error e
      | .ok (σ', rest') => .ok (σ', rest', true) := by
  unfold step
  have h1 : (('-' :: '-' :: name) == ['-', '-']) = false := by
    cases name with
    | nil => exact absurd rfl hn
    | cons c cs => simp
  have h2 : (('-' :: '-' :: name).take 2 == ['-', '-']) = true := by simp
  have h0 : (('-' :: '-' :: name) == ([] : Str)) = false := by simp
  simp only [h0, h1, h2, Bool.true_and, Bool.false_eq_true, if_false, if_true, List.drop_succ_cons, List.drop_zero]
  same_match


/-! ### Short options -/

/-- a token `-x…` (x not a dash) is handed to `_parse_short_option` -/
theorem step_short (f : Fmt) (len : Bool) (c : Char) (r : Str) (rest : List Str) (σ : St) (hc : c ≠ '-') :
    step f len ('-' :: c :: r) rest true σ =
      match parseShort f (c :: r) rest σ with
      | .error e => .error e
      | .ok (σ', rest') => .ok (σ', rest', true) := by
  unfold step
  have h0 : (('-' :: c :: r) == ([] : Str)) = false := by simp
  have h1 : (('-' :: c :: r) == ['-', '-']) = false := by cases r <;> simp [hc]
  have h2 : (('-' :: c :: r).take 2 == ['-', '-']) = false := by simp [hc]
  have h3 : (('-' :: c :: r) != ['-']) = true := by simp
  simp only [h0, h1, h2, h3, shortTest, Bool.true_and, Bool.false_eq_true, if_false, if_true, beq_self_eq_true,
    Bool.and_self, List.drop_succ_cons, List.drop_zero]
  same_match

theorem addShort_eq (f : Fmt) (c : Str) (o : Opt) (value : Option Str) (rest : List Str) (σ : St)
    (hc : f.getOpt? c = some o) : addShort f c value rest σ = addLong f o.long value rest σ := by
  simp [addShort, hc]

/-- `-nVALUE` -/
theorem parseShort_att (f : Fmt) (c : Char) (o : Opt) (v : Str) (rest : List Str) (σ : St)
    (hc : f.getOpt? [c] = some o) (hl : f.getOpt? o.long = some o) (ha : o.accepts = true) (hv : v ≠ []) :
    parseShort f (c :: v) rest σ = contOpt (storeOpt o o.long (some v) σ) rest := by
  unfold parseShort
  have hlen : v.length ≥ 1 := by cases v <;> simp_all
  have hv' : (v == []) = false := by simp [hv]
  simp only [if_pos hlen, hc, ha, if_true, addShort_eq f [c] o _ rest σ hc, addLong_val f o.long o v rest σ hl ha, hv',
    Bool.false_eq_true, if_false]

/-- `-n VALUE` -/
theorem parseShort_sp (f : Fmt) (c : Char) (o : Opt) (v : Str) (rest : List Str) (σ : St)
    (hc : f.getOpt? [c] = some o) (hl : f.getOpt? o.long = some o) (ha : o.accepts = true) (hv : valueLike v = true) :
    parseShort f [c] (v :: rest) σ = contOpt (storeOpt o o.long (some v) σ) rest := by
  unfold parseShort
  have hv' : (v == []) = false := by cases v <;> simp_all [valueLike]
  have hn : ¬ (([] : Str).length ≥ 1) := by simp
  simp only [if_neg hn, hc, ha, if_true, popValue_take v rest hv, addShort_eq f [c] o _ rest σ hc,
    addLong_val f o.long o v rest σ hl ha, hv', Bool.false_eq_true, if_false]

/-- `-n` for a flag, or for an option whose value is optional when nothing usable follows -/
theorem parseShort_bare (f : Fmt) (c : Char) (o : Opt) (rest : List Str) (σ : St)
    (hc : f.getOpt? [c] = some o) (hl : f.getOpt? o.long = some o) (hs : o.accepts = false ∨ stopsValue rest = true) :
    parseShort f [c] rest σ = contOpt (storeOpt o o.long none σ) rest := by
  unfold parseShort
  have hn : ¬ (([] : Str).length ≥ 1) := by simp
  simp only [if_neg hn, hc]
  cases ha : o.accepts with
  | false =>
    simp only [Bool.false_eq_true, if_false, addShort_eq f [c] o _ rest σ hc]
    exact addLong_none_flag f o.long o rest σ hl ha
  | true =>
    rcases hs with h | h
    · rw [ha] at h; cases h
    · simp only [if_true, popValue_stop rest h, addShort_eq f [c] o _ rest σ hc]
      exact addLong_none_stop f o.long o rest σ hl h


/-! ### The meaning of spelled items, without tokens -/

theorem runSems_append (f : Fmt) (len : Bool) (a b : List Sem) (σ : St) :
    runSems f len (a ++ b) σ =
      match runSems f len a σ with
      | .error e => .error e
      | .ok σ' => runSems f len b σ' := by
  induction a generalizing σ with
  | nil => rfl
  | cons s r ih =>
    simp only [List.cons_append, runSems]
    cases runSem f len s σ with
    | error e => rfl
    | ok σ' => exact ih σ'

/-- a long option of the format, spelled by its long name -/
def LongOK (f : Fmt) (o : Opt) : Prop := f.getOpt? o.long = some o ∧ '=' ∉ o.long ∧ o.long ≠ []

/-- a short name `c` of the format denoting option `o` -/
def ShortOK (f : Fmt) (o : Opt) (c : Char) : Prop :=
  f.getOpt? [c] = some o ∧ f.getOpt? o.long = some o

/-- the tokens a short-option token can look at: an optional separate value, then the rest -/
def withTake (take : Option Str) (next : List Str) : List Str :=
  match take with
  | none => next
  | some v => v :: next

/-- the characters after the `-` of a short-option token and what they mean.
`take = some v`: the last option of the group takes the following token `v` as its value. -/
inductive GroupSpells (f : Fmt) : Option Str → List Str → Str → List Sem → Prop
  | done {next} : GroupSpells f none next [] []
  | flag {take next o c r sems} : ShortOK f o c → o.accepts = false → GroupSpells f take next r sems →
      GroupSpells f take next (c :: r) (.opt o none :: sems)
  | att {next o c r} : ShortOK f o c → o.accepts = true → r ≠ [] → GroupSpells f none next (c :: r) [.opt o (some r)]
  | bare {next o c} : ShortOK f o c → o.accepts = true → stopsValue next = true →
      GroupSpells f none next [c] [.opt o none]
  | sp {next o c v} : ShortOK f o c → o.accepts = true → valueLike v = true →
      GroupSpells f (some v) next [c] [.opt o (some v)]

/-- result of an option sub-parser: the state after the items, and the tokens `next` left -/
def optResult (r : PR St) (next : List Str) : PR (St × List Str) :=
  match r with
  | .error e => .error e
  | .ok σ' => .ok (σ', next)

theorem contOpt_eq_optResult (r : PR St) (next : List Str) : contOpt r next = optResult r next := by
  cases r <;> rfl

/-- `_parse_short_option_set` on the characters of a group does what the items mean -/
theorem parseShortSet_group (f : Fmt) (len : Bool) {take : Option Str} {next : List Str} {chars : Str} {sems : List Sem}
    (h : GroupSpells f take next chars sems) (σ : St) :
    parseShortSet f chars (withTake take next) σ = optResult (runSems f len sems σ) next := by
  induction h generalizing σ with
  | done => rfl
  | @flag take next o c r sems hs ha _ ih =>
    unfold parseShortSet
    simp only [hs.1, ha, Bool.false_eq_true, if_false, addLong_none_flag f o.long o _ σ hs.2 ha, runSems, runSem]
    cases storeOpt o o.long none σ with
    | error e => rfl
    | ok σ' => simp only [contOpt]; exact ih σ'
  | @att next o c r hs ha hr =>
    unfold parseShortSet
    have hre : r.isEmpty = false := by cases r <;> simp_all
    have hr' : (r == []) = false := by simp [hr]
    simp only [hs.1, ha, if_true, hre, Bool.false_eq_true, if_false, withTake,
      addLong_val f o.long o r next σ hs.2 ha, hr', runSems, runSem, contOpt_eq_optResult]
    cases storeOpt o o.long (some r) σ <;> rfl
  | @bare next o c hs ha hstop =>
    unfold parseShortSet
    simp only [hs.1, ha, if_true, List.isEmpty_nil, withTake, addLong_none_stop f o.long o next σ hs.2 hstop,
      runSems, runSem, contOpt_eq_optResult]
    cases storeOpt o o.long none σ <;> rfl
  | @sp next o c v hs ha hv =>
    unfold parseShortSet
    simp only [hs.1, ha, if_true, List.isEmpty_nil, withTake, addLong_none_take f o.long o v next σ hs.2 ha hv,
      runSems, runSem, contOpt_eq_optResult]
    cases storeOpt o o.long (some v) σ <;> rfl

/-- `_parse_short_option` on the whole token: the single-option forms and the group form agree
with the meaning of the items -/
theorem parseShort_group (f : Fmt) (len : Bool) {take : Option Str} {next : List Str} {chars : Str} {sems : List Sem}
    (h : GroupSpells f take next chars sems) (hne : chars ≠ []) (σ : St) :
    parseShort f chars (withTake take next) σ = optResult (runSems f len sems σ) next := by
  cases h with
  | done => exact absurd rfl hne
  | @flag take next o c r sems hs ha hrest =>
    cases r with
    | nil =>
      cases hrest
      rw [show withTake none next = next from rfl, parseShort_bare f c o next σ hs.1 hs.2 (Or.inl ha)]
      simp only [runSems, runSem, contOpt_eq_optResult]
      cases storeOpt o o.long none σ <;> rfl
    | cons d ds =>
      have hlen : (d :: ds).length ≥ 1 := by simp
      have := parseShortSet_group f len (GroupSpells.flag hs ha hrest) σ
      unfold parseShort
      simp only [if_pos hlen, hs.1, ha, Bool.false_eq_true, if_false]
      exact this
  | @att next o c r hs ha hr =>
    rw [show withTake none next = next from rfl, parseShort_att f c o r next σ hs.1 hs.2 ha hr]
    simp only [runSems, runSem, contOpt_eq_optResult]
    cases storeOpt o o.long (some r) σ <;> rfl
  | @bare next o c hs ha hstop =>
    rw [show withTake none next = next from rfl, parseShort_bare f c o next σ hs.1 hs.2 (Or.inr hstop)]
    simp only [runSems, runSem, contOpt_eq_optResult]
    cases storeOpt o o.long none σ <;> rfl
  | @sp next o c v hs ha hv =>
    rw [show withTake (some v) next = v :: next from rfl, parseShort_sp f c o v next σ hs.1 hs.2 ha hv]
    simp only [runSems, runSem, contOpt_eq_optResult]
    cases storeOpt o o.long (some v) σ <;> rfl


/-! ### One spelled item, and a whole line -/

def dd : Str := ['-', '-']

/-- `Spells f next toks sems`: the tokens `toks`, standing before the tokens `next`, spell the
items `sems` - every way of writing an option or a positional that the library's conventions
make unambiguous (the side conditions are exactly those conventions). -/
inductive Spells (f : Fmt) : List Str → List Str → List Sem → Prop
  /-- a positional before `--`: `""`, `"-"`, or a token not starting with `-` -/
  | pos {next v} : posLike v = true → Spells f next [v] [.pos v]
  /-- `--name=value` -/
  | longEq {next o v} : LongOK f o → o.accepts = true → v ≠ [] →
      Spells f next [dd ++ o.long ++ '=' :: v] [.opt o (some v)]
  /-- `--name=` : explicitly no value -/
  | longEqNone {next o} : LongOK f o → o.accepts = true →
      Spells f next [dd ++ o.long ++ ['=']] [.opt o none]
  /-- `--name value` (the value is non-empty and does not start with `-`) -/
  | longSp {next o v} : LongOK f o → o.accepts = true → valueLike v = true →
      Spells f next [dd ++ o.long, v] [.opt o (some v)]
  /-- `--name` for a flag; or for a value-taking option when nothing usable follows -/
  | longBare {next o} : LongOK f o → (o.accepts = false ∨ stopsValue next = true) →
      Spells f next [dd ++ o.long] [.opt o none]
  /-- `-n`, `-nVALUE`, `-n VALUE`, `-abc`, `-abnVALUE`, `-abn VALUE` -/
  | short {next take c r sems} : c ≠ '-' → GroupSpells f take next (c :: r) sems →
      Spells f next (('-' :: c :: r) :: (match take with | none => [] | some v => [v])) sems

/-- continuing the loop after some items -/
def thenLoop (f : Fmt) (len : Bool) (r : PR St) (next : List Str) (po : Bool) : PR St :=
  match r with
  | .error e => .error e
  | .ok σ' => loopF f len next po σ'

/-- **One item**: the token loop on the tokens of an item followed by `next` does what the item
means and continues with `next`. -/
theorem spells_step (f : Fmt) (len : Bool) {next toks : List Str} {sems : List Sem} (h : Spells f next toks sems)
    (σ : St) : loopF f len (toks ++ next) true σ = thenLoop f len (runSems f len sems σ) next true := by
  cases h with
  | @pos v hv =>
    simp only [List.singleton_append, loopF_cons, step_pos f len v next σ hv, runSems, runSem, thenLoop, cont]
    cases parseArgument f.fargs len v σ <;> rfl
  | @longEq o v hl ha hv =>
    obtain ⟨h1, h2, h3⟩ := hl
    have hn : o.long ++ '=' :: v ≠ [] := by simp
    have hv' : (v == []) = false := by simp [hv]
    simp only [dd, List.cons_append, List.nil_append, List.singleton_append, loopF_cons,
      step_long f len (o.long ++ '=' :: v) next σ hn, parseLong_eq f o.long o v next σ h2 h1 ha, hv',
      Bool.false_eq_true, if_false, runSems, runSem, thenLoop, contOpt]
    cases storeOpt o o.long (some v) σ <;> rfl
  | @longEqNone o hl ha =>
    obtain ⟨h1, h2, h3⟩ := hl
    have hn : o.long ++ ['='] ≠ [] := by simp
    simp only [dd, List.cons_append, List.nil_append, List.singleton_append, loopF_cons,
      step_long f len (o.long ++ ['=']) next σ hn, parseLong_eq f o.long o [] next σ h2 h1 ha,
      beq_self_eq_true, if_true, runSems, runSem, thenLoop, contOpt]
    cases storeOpt o o.long none σ <;> rfl
  | @longSp o v hl ha hv =>
    obtain ⟨h1, h2, h3⟩ := hl
    simp only [dd, List.cons_append, List.nil_append, loopF_cons, step_long f len o.long (v :: next) σ h3,
      parseLong_sp f o.long o v next σ h2 h1 ha hv, runSems, runSem, thenLoop, contOpt]
    cases storeOpt o o.long (some v) σ <;> rfl
  | @longBare o hl hs =>
    obtain ⟨h1, h2, h3⟩ := hl
    simp only [dd, List.cons_append, List.nil_append, List.singleton_append, loopF_cons,
      step_long f len o.long next σ h3, parseLong_bare f o.long o next σ h2 h1 hs, runSems, runSem, thenLoop,
      contOpt]
    cases storeOpt o o.long none σ <;> rfl
  | @short take c r _ hc hg =>
    have hp := parseShort_group f len hg (by simp) σ
    cases take with
    | none =>
      simp only [List.cons_append, List.nil_append, loopF_cons, step_short f len c r next σ hc]
      simp only [withTake] at hp
      rw [hp]
      simp only [optResult, thenLoop]
      cases runSems f len sems σ <;> rfl
    | some v =>
      simp only [List.cons_append, List.nil_append, loopF_cons, step_short f len c r (v :: next) σ hc]
      simp only [withTake] at hp
      rw [hp]
      simp only [optResult, thenLoop]
      cases runSems f len sems σ <;> rfl

/-- after `--` every token is a positional -/
theorem loopF_tail (f : Fmt) (len : Bool) (tail : List Str) (σ : St) :
    loopF f len tail false σ = runSems f len (tail.map Sem.pos) σ := by
  induction tail generalizing σ with
  | nil => simp [loopF_nil, runSems]
  | cons v r ih =>
    simp only [loopF_cons, step_tail, List.map_cons, runSems, runSem, cont]
    cases parseArgument f.fargs len v σ with
    | error e => rfl
    | ok σ' => exact ih σ'

/-- a whole command line: items, optionally followed by `--` and arbitrary tokens -/
inductive SpellsLine (f : Fmt) : List Str → List Sem → Prop
  | nil : SpellsLine f [] []
  | tail {tail} : SpellsLine f (dd :: tail) (tail.map Sem.pos)
  | cons {next toks sems sems'} : Spells f next toks sems → SpellsLine f next sems' →
      SpellsLine f (toks ++ next) (sems ++ sems')

/-- **The token loop implements the meaning of the spelled line.** -/
theorem loop_spells (f : Fmt) (len : Bool) {line : List Str} {sems : List Sem} (h : SpellsLine f line sems) (σ : St) :
    loopF f len line true σ = runSems f len sems σ := by
  induction h generalizing σ with
  | nil => simp [loopF_nil, runSems]
  | @tail tail =>
    simp only [dd, loopF_cons, step_dashes]
    exact loopF_tail f len tail σ
  | @cons next toks sems sems' hs _ ih =>
    rw [spells_step f len hs σ, runSems_append]
    simp only [thenLoop]
    cases runSems f len sems σ with
    | error e => rfl
    | ok σ' => exact ih σ'


/-! ### A well-formed prefix followed by anything (used for the single-fault theorems of C02) -/

/-- items spelled by `toks`, standing before the tokens `next` -/
inductive SpellsPrefix (f : Fmt) : List Str → List Str → List Sem → Prop
  | nil {next} : SpellsPrefix f next [] []
  | cons {next toks toks' sems sems'} : Spells f (toks' ++ next) toks sems → SpellsPrefix f next toks' sems' →
      SpellsPrefix f next (toks ++ toks') (sems ++ sems')

theorem loop_prefix (f : Fmt) (len : Bool) {next toks : List Str} {sems : List Sem}
    (h : SpellsPrefix f next toks sems) (σ : St) :
    loopF f len (toks ++ next) true σ = thenLoop f len (runSems f len sems σ) next true := by
  induction h generalizing σ with
  | nil => simp [runSems, thenLoop]
  | @cons toks toks' sems sems' hs _ ih =>
    rw [List.append_assoc, spells_step f len hs σ, runSems_append]
    simp only [thenLoop]
    cases runSems f len sems σ with
    | error e => rfl
    | ok σ' => simpa [thenLoop] using ih σ'

/-- the loop stops with `e` at the first token of `next`, after a well-formed prefix -/
theorem loop_prefix_error (f : Fmt) (len : Bool) {next toks : List Str} {sems : List Sem}
    (h : SpellsPrefix f next toks sems) (σ σ' : St) (e : Err) (tok : Str) (rest : List Str)
    (hn : next = tok :: rest) (hrun : runSems f len sems σ = .ok σ')
    (hstep : step f len tok rest true σ' = .error (e, σ')) :
    loopF f len (toks ++ next) true σ = .error (e, σ') := by
  rw [loop_prefix f len h σ, hrun, hn]
  simp only [thenLoop, loopF_cons, hstep]

end Clikit.Parser
