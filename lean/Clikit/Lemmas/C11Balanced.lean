import Clikit.Lemmas.C11Markup
/-!
The deciders of `Model/Markup.lean` (`balancedB`, `cleanB`, `messageOkB`) decide the hypotheses
of the message theorems of Props/C11: `Balanced`, `ESC ∉ msg`, `'\\' ∉ msg`.
-/
namespace Clikit.Markup
open Clikit Clikit.Style

theorem Balanced.append {rv : Resolver} {a b : List Tok} (ha : Balanced rv a) (hb : Balanced rv b) :
    Balanced rv (a ++ b) := by
  induction ha with
  | nil => simpa using hb
  | text s r _ ih => exact .text s _ ih
  | unknownOpen t r hv _ ih => exact .unknownOpen t _ hv ih
  | unknownClose t r hv _ ih => exact .unknownClose t _ hv ih
  | pair t t' p p' body r hv hv' he hbody _ _ ihr =>
    have e : (Tok.open t :: (body ++ Tok.close t' :: r)) ++ b
        = Tok.open t :: (body ++ Tok.close t' :: (r ++ b)) := by simp
    rw [e]
    exact .pair t t' p p' body _ hv hv' he hbody ihr
  | pairAny t p body r hv hbody _ _ ihr =>
    have e : (Tok.open t :: (body ++ Tok.closeAny :: r)) ++ b
        = Tok.open t :: (body ++ Tok.closeAny :: (r ++ b)) := by simp
    rw [e]
    exact .pairAny t p body _ hv hbody ihr

/-- the token `c` closes the open style `p` -/
def Closes (rv : Resolver) (p : PastelStyle) (c : Tok) : Prop :=
  c = .closeAny ∨ ∃ t' p', c = .close t' ∧ rv t' = .style p' ∧ p'.eqv p = true

/-- what the stack parser has established when the styles `stk` are open: the rest of the list
closes them one after the other, with balanced stretches in between -/
def BalStk (rv : Resolver) : Stack → List Tok → Prop
  | [], toks => Balanced rv toks
  | p :: s, toks => ∃ body c r, toks = body ++ c :: r ∧ Balanced rv body ∧ Closes rv p c ∧ BalStk rv s r

theorem BalStk.prepend {rv : Resolver} {x : List Tok} (hx : Balanced rv x) :
    ∀ {stk : Stack} {toks : List Tok}, BalStk rv stk toks → BalStk rv stk (x ++ toks)
  | [], _, h => hx.append h
  | _ :: _, _, ⟨body, c, r, e, hb, hc, hr⟩ =>
    ⟨x ++ body, c, r, by rw [e, List.append_assoc], hx.append hb, hc, hr⟩

theorem Balanced.wrap {rv : Resolver} {p : PastelStyle} {c : Tok} {t : Str} {body : List Tok}
    (hv : rv t = .style p) (hb : Balanced rv body) (hc : Closes rv p c) :
    Balanced rv (.open t :: (body ++ [c])) := by
  rcases hc with rfl | ⟨t', p', rfl, hv', he⟩
  · exact .pairAny t p body [] hv hb .nil
  · exact .pair t t' p p' body [] hv hv' he hb .nil

theorem balancedAux_sound (rv : Resolver) : ∀ (toks : List Tok) (stk : Stack),
    balancedAux rv stk toks = true → BalStk rv stk toks := by
  intro toks
  induction toks with
  | nil =>
    intro stk h
    cases stk with
    | nil => exact .nil
    | cons p s => simp [balancedAux] at h
  | cons tok r ih =>
    intro stk h
    cases tok with
    | text s =>
      simp only [balancedAux] at h
      exact BalStk.prepend (x := [.text s]) (.text s [] .nil) (ih stk h)
    | «open» t =>
      simp only [balancedAux] at h
      cases hv : rv t with
      | invalid => simp [hv] at h
      | unknown =>
        simp only [hv] at h
        exact BalStk.prepend (x := [.open t]) (.unknownOpen t [] hv .nil) (ih stk h)
      | style p =>
        simp only [hv] at h
        obtain ⟨body, c, r', e, hb, hc, hr⟩ := ih (p :: stk) h
        have e' : Tok.open t :: r = (Tok.open t :: (body ++ [c])) ++ r' := by rw [e]; simp
        rw [e']
        exact BalStk.prepend (Balanced.wrap hv hb hc) hr
    | close t =>
      simp only [balancedAux] at h
      cases hv : rv t with
      | invalid => simp [hv] at h
      | unknown =>
        simp only [hv] at h
        exact BalStk.prepend (x := [.close t]) (.unknownClose t [] hv .nil) (ih stk h)
      | style p' =>
        simp only [hv] at h
        cases stk with
        | nil => simp at h
        | cons p s =>
          simp only [Bool.and_eq_true] at h
          exact ⟨[], .close t, r, rfl, .nil, Or.inr ⟨t, p', rfl, hv, h.1⟩, ih s h.2⟩
    | closeAny =>
      simp only [balancedAux] at h
      cases stk with
      | nil => simp at h
      | cons p s => exact ⟨[], .closeAny, r, rfl, .nil, Or.inl rfl, ih s h⟩

/-- a balanced stretch is invisible to the stack parser -/
theorem balancedAux_append (rv : Resolver) {a : List Tok} (ha : Balanced rv a) :
    ∀ (stk : Stack) (b : List Tok), balancedAux rv stk (a ++ b) = balancedAux rv stk b := by
  induction ha with
  | nil => intro stk b; rfl
  | text s r _ ih => intro stk b; simp only [List.cons_append, balancedAux, ih]
  | unknownOpen t r hv _ ih => intro stk b; simp only [List.cons_append, balancedAux, hv, ih]
  | unknownClose t r hv _ ih => intro stk b; simp only [List.cons_append, balancedAux, hv, ih]
  | pair t t' p p' body r hv hv' he _ _ ihb ihr =>
    intro stk b
    simp only [List.cons_append, List.append_assoc, balancedAux, hv]
    rw [ihb]
    simp only [balancedAux, hv', he, Bool.true_and]
    exact ihr stk b
  | pairAny t p body r hv _ _ ihb ihr =>
    intro stk b
    simp only [List.cons_append, List.append_assoc, balancedAux, hv]
    rw [ihb]
    simp only [balancedAux]
    exact ihr stk b

/-- `balancedB` decides `Balanced` -/
theorem balancedB_iff (rv : Resolver) (toks : List Tok) : balancedB rv toks = true ↔ Balanced rv toks := by
  constructor
  · exact balancedAux_sound rv toks []
  · intro h
    have := balancedAux_append rv h [] []
    rw [List.append_nil] at this
    rw [balancedB, this]
    rfl

/-- `cleanB` decides "no escape byte, no backslash" -/
theorem cleanB_iff (msg : Str) : cleanB msg = true ↔ (ESC ∉ msg ∧ '\\' ∉ msg) := by
  simp [cleanB]

/-- `messageOkB` decides the three hypotheses of `Props.C11.message_balanced` -/
theorem messageOkB_iff (rv : Resolver) (msg : Str) :
    messageOkB rv msg = true ↔
      (ESC ∉ msg ∧ '\\' ∉ msg ∧ Balanced rv (seg (lastOr ' ' msg) (lex msg))) := by
  simp only [messageOkB, Bool.and_eq_true, cleanB_iff, balancedB_iff, pieces, and_assoc]

end Clikit.Markup
