import Clikit.Model.RunListeners
import Clikit.Lemmas.Dispatcher
/-!
Helper lemmas for the bridge between the run model (C04) and the dispatcher model (C12):
`Model/RunListeners.lean`.  The dispatcher side is used through its invariant (`Dispatcher.Inv`,
`run_agrees`, `Inv.getListeners`, `Inv.dispatch`) and the facts about `specOrder`
(`specOrder_desc`, `specOrder_byKey`, `specOrder_perm`, `desc_unique`) - nothing about the sort is
re-proved here.
-/
namespace Clikit.RunListeners
open Clikit Clikit.Dispatcher

/-! ### the dispatcher model never fails on a registration history -/

theorem logOf_opsOf (regs : List Registration) : logOf (opsOf regs) = regLog regs := by
  unfold opsOf
  induction regLog regs with
  | nil => rfl
  | cons r t ih => simp [logOf_cons, regOf, ih]

theorem run_opsOf (regs : List Registration) :
    ∃ s outs, Dispatcher.run Dispatcher.init (opsOf regs) = .ok (s, outs) ∧ Inv s (regLog regs) := by
  obtain ⟨s, outs, h1, h2, _⟩ := run_agrees (opsOf regs) Dispatcher.init [] Inv.init
  exact ⟨s, outs, h1, by simpa [logOf_opsOf] using h2⟩

theorem sortedOf_eq (regs : List Registration) :
    sortedOf regs = (specOrder (regLog regs) preHandle).map (fun r => r.l) := by
  obtain ⟨s, outs, h1, h2⟩ := run_opsOf regs
  obtain ⟨s', h3, _⟩ := h2.getListeners preHandle
  simp only [sortedOf, h1, h3]

theorem calledOf_eq (regs : List Registration) :
    calledOf regs = (callSeq (regLog regs) preHandle false).map (fun r => r.l) := by
  obtain ⟨s, outs, h1, h2⟩ := run_opsOf regs
  obtain ⟨s', h3, _⟩ := h2.dispatch preHandle false
  simp only [calledOf, h1, h3]

/-! ### from the dispatcher's callables back to the registrations -/

theorem back_regOfIdx {regs : List Registration} {x : Registration × Nat} (hx : x ∈ regs.zipIdx) :
    back regs (regOfIdx x).l = some x.1 := by
  obtain ⟨r, i⟩ := x
  exact List.mk_mem_zipIdx_iff_getElem?.1 hx

/-- every registration in the log stands for the registration at its position -/
theorem back_of_mem {regs : List Registration} {x : Reg} (hx : x ∈ regLog regs) :
    ∃ r, back regs x.l = some r ∧ r.ev = x.ev ∧ r.prio = x.prio ∧ halts r.l = x.l.stops := by
  obtain ⟨y, hy, rfl⟩ := List.mem_map.1 hx
  exact ⟨y.1, back_regOfIdx hy, rfl, rfl, rfl⟩

theorem filterMap_congr' {α β : Type} {f g : α → Option β} : ∀ {l : List α}, (∀ x ∈ l, f x = g x) →
    l.filterMap f = l.filterMap g
  | [], _ => rfl
  | x :: t, h => by
    rw [List.filterMap_cons, List.filterMap_cons, h x (by simp),
      filterMap_congr' (fun y hy => h y (by simp [hy]))]

theorem map_fst_filter_zipIdx (q : Registration → Bool) (regs : List Registration) :
    ((regs.zipIdx).filter (fun x => q x.1)).map Prod.fst = regs.filter q := by
  have h := List.filter_map (f := Prod.fst) (p := q) (l := regs.zipIdx)
  rw [List.zipIdx_map_fst] at h
  rw [h]
  rfl

/-- selecting registrations on the dispatcher side and going back = selecting them in the history -/
theorem filterMap_back_filter (regs : List Registration) (Q : Reg → Bool) (q : Registration → Bool)
    (hQ : ∀ x, Q (regOfIdx x) = q x.1) :
    ((regLog regs).filter Q).filterMap (fun r => back regs r.l) = regs.filter q := by
  rw [← map_fst_filter_zipIdx]
  unfold regLog
  rw [List.filter_map, List.filterMap_map]
  have hfun : (Q ∘ regOfIdx) = (fun x : Registration × Nat => q x.1) := by
    funext x; exact hQ x
  rw [hfun, ← List.filterMap_eq_map]
  apply filterMap_congr'
  intro x hx
  exact back_regOfIdx (List.mem_filter.1 hx).1

theorem orderedRegs_eq (regs : List Registration) :
    orderedRegs regs = (specOrder (regLog regs) preHandle).filterMap (fun r => back regs r.l) := by
  simp only [orderedRegs, sortedOf_eq, List.filterMap_map]
  rfl

/-- the calling order in terms of the specification order of C12 (no dispatcher state involved) -/
theorem orderOf_spec (regs : List Registration) :
    orderOf regs =
      ((specOrder (regLog regs) preHandle).filterMap (fun r => back regs r.l)).map (fun r => r.l) := by
  rw [orderOf, orderedRegs_eq]

theorem mem_specOrder_log {regs : List Registration} {x : Reg}
    (hx : x ∈ specOrder (regLog regs) preHandle) : x ∈ regLog regs ∧ x.ev = preHandle := by
  have := (specOrder_perm (regLog regs) preHandle).mem_iff.1 hx
  exact mem_regsFor.1 this

/-- highest priority first -/
theorem orderedRegs_desc (regs : List Registration) : Desc Registration.prio (orderedRegs regs) := by
  rw [orderedRegs_eq]
  unfold Desc
  rw [List.pairwise_filterMap]
  refine List.Pairwise.imp_of_mem ?_ (specOrder_desc (regLog regs) preHandle)
  intro a b ha hb hab r hr r' hr'
  obtain ⟨ra, h1, _, h2, _⟩ := back_of_mem (mem_specOrder_log ha).1
  obtain ⟨rb, h3, _, h4, _⟩ := back_of_mem (mem_specOrder_log hb).1
  rw [h1] at hr; rw [h3] at hr'
  cases hr; cases hr'
  rw [h2, h4]; exact hab

/-- registration order within every priority, and only PRE_HANDLE registrations -/
theorem orderedRegs_byKey (regs : List Registration) (p : Int) :
    byKey Registration.prio p (orderedRegs regs) =
      regs.filter (fun r => r.ev == preHandle && r.prio == p) := by
  have h1 : byKey Registration.prio p (orderedRegs regs) =
      (byKey Reg.prio p (specOrder (regLog regs) preHandle)).filterMap (fun r => back regs r.l) := by
    rw [orderedRegs_eq]
    unfold byKey
    rw [List.filter_filterMap, List.filterMap_filter]
    apply filterMap_congr'
    intro x hx
    obtain ⟨r, hr, _, hp, _⟩ := back_of_mem (mem_specOrder_log hx).1
    simp [hr, ← hp, Option.filter]
  rw [h1, specOrder_byKey]
  unfold byKey regsFor
  rw [List.filter_filter]
  exact filterMap_back_filter regs _ _ (fun x => by simp [regOfIdx, Bool.and_comm])

/-- exactly the PRE_HANDLE registrations, each once -/
theorem orderedRegs_perm (regs : List Registration) :
    (orderedRegs regs).Perm (regs.filter (fun r => r.ev == preHandle)) := by
  rw [orderedRegs_eq]
  have h := (specOrder_perm (regLog regs) preHandle).filterMap (fun r => back regs r.l)
  refine h.trans ?_
  unfold regsFor
  rw [filterMap_back_filter regs _ (fun r => r.ev == preHandle) (fun x => by simp [regOfIdx])]

/-- the order is determined by the PRE_HANDLE registrations of every priority, in their order -/
theorem orderedRegs_congr (regs regs' : List Registration)
    (h : ∀ p, regs.filter (fun r => r.ev == preHandle && r.prio == p) =
              regs'.filter (fun r => r.ev == preHandle && r.prio == p)) :
    orderedRegs regs = orderedRegs regs' := by
  apply desc_unique Registration.prio _ _ (orderedRegs_desc regs) (orderedRegs_desc regs')
  intro p
  rw [orderedRegs_byKey, orderedRegs_byKey, h p]

/-! ### `dispatchPre` and its call log -/

theorem dispatchPreLog_fst : ∀ (ls : List Run.Listener) (h : Option Run.RetVal),
    (dispatchPreLog ls h).1 = Run.dispatchPre ls h
  | [], h => rfl
  | .pass :: r, h => by simp [dispatchPreLog, Run.dispatchPre, dispatchPreLog_fst r h]
  | .handled c stop :: r, h => by
    cases stop <;> simp [dispatchPreLog, Run.dispatchPre, dispatchPreLog_fst r (some c)]
  | .fail e :: _, h => rfl
  | .stopOnly :: _, h => rfl

/-- the listeners called do not depend on the event's `handled` state: the prefix through the first
listener that stops propagation or raises -/
theorem dispatchPreLog_snd : ∀ (ls : List Run.Listener) (h : Option Run.RetVal),
    (dispatchPreLog ls h).2 = takeThrough halts ls
  | [], h => rfl
  | .pass :: r, h => by simp [dispatchPreLog, takeThrough, halts, dispatchPreLog_snd r h]
  | .handled c stop :: r, h => by
    cases stop <;> simp [dispatchPreLog, takeThrough, halts, dispatchPreLog_snd r (some c)]
  | .fail e :: _, h => by simp [dispatchPreLog, takeThrough, halts]
  | .stopOnly :: _, h => by simp [dispatchPreLog, takeThrough, halts]

theorem consulted_eq (ls : List Run.Listener) : consulted ls = takeThrough halts ls :=
  dispatchPreLog_snd ls none

theorem takeThrough_filterMap {α β : Type} (p : α → Bool) (q : β → Bool) (g : α → Option β) :
    ∀ l : List α, (∀ x ∈ l, ∃ r, g x = some r ∧ q r = p x) →
      takeThrough q (l.filterMap g) = (takeThrough p l).filterMap g
  | [], _ => rfl
  | x :: t, h => by
    obtain ⟨r, hr, hq⟩ := h x (by simp)
    have ih := takeThrough_filterMap p q g t (fun y hy => h y (by simp [hy]))
    cases hp : p x with
    | true => simp [takeThrough, hr, hq, hp]
    | false => simp [takeThrough, hr, hq, hp, ih]

/-- the listeners `dispatchPre` consults on the dispatcher's order are the registrations the
dispatcher's specification says a dispatch calls -/
theorem consulted_orderOf (regs : List Registration) :
    consulted (orderOf regs) =
      ((callSeq (regLog regs) preHandle false).filterMap (fun r => back regs r.l)).map (fun r => r.l) := by
  rw [consulted_eq, orderOf, Dispatcher.takeThrough_map, orderedRegs_eq]
  congr 1
  simp only [callSeq, Bool.false_eq_true, if_false]
  apply takeThrough_filterMap (fun r : Reg => r.l.stops)
  intro x hx
  obtain ⟨r, h1, _, _, h2⟩ := back_of_mem (mem_specOrder_log hx).1
  exact ⟨r, h1, h2⟩

/-! ### what `dispatchPre` returns, from the listeners it consulted -/

theorem lastHandled_append (a b : List Run.Listener) (h : Option Run.RetVal) :
    lastHandled (a ++ b) h = lastHandled b (lastHandled a h) := by
  induction a generalizing h with
  | nil => rfl
  | cons x t ih => cases x <;> simp [lastHandled, ih]

/-- the result of `dispatchPre`: the exception of the failing listener if the walk ended at one,
otherwise the code of the last consulted listener that marked the command handled -/
theorem dispatchPre_eq : ∀ (ls : List Run.Listener) (h : Option Run.RetVal),
    Run.dispatchPre ls h =
      match (takeThrough halts ls).getLast? with
      | some (.fail e) => .error e
      | _ => .ok (lastHandled (takeThrough halts ls) h)
  | [], h => rfl
  | .pass :: r, h => by
    rw [Run.dispatchPre, dispatchPre_eq r h]
    cases hr : takeThrough halts r with
    | nil => simp [takeThrough, halts, hr, lastHandled]
    | cons a b => simp [takeThrough, halts, hr, lastHandled, List.getLast?_cons_cons]
  | .handled c true :: r, h => by simp [Run.dispatchPre, takeThrough, halts, lastHandled]
  | .handled c false :: r, h => by
    rw [Run.dispatchPre, if_neg (by simp), dispatchPre_eq r (some c)]
    cases hr : takeThrough halts r with
    | nil => simp [takeThrough, halts, hr, lastHandled]
    | cons a b => simp [takeThrough, halts, hr, lastHandled, List.getLast?_cons_cons]
  | .fail e :: _, h => by simp [Run.dispatchPre, takeThrough, halts]
  | .stopOnly :: _, h => by simp [Run.dispatchPre, takeThrough, halts, lastHandled]

theorem takeThrough_all_false {α : Type} (p : α → Bool) : ∀ (l : List α), (∀ x ∈ l, p x = false) →
    takeThrough p l = l
  | [], _ => rfl
  | x :: t, h => by
    simp [takeThrough, h x (by simp), takeThrough_all_false p t (fun y hy => h y (by simp [hy]))]

theorem takeThrough_append_of_false {α : Type} (p : α → Bool) (a b : List α) (h : ∀ x ∈ a, p x = false) :
    takeThrough p (a ++ b) = a ++ takeThrough p b := by
  induction a with
  | nil => rfl
  | cons x t ih =>
    simp [takeThrough, h x (by simp), ih (fun y hy => h y (by simp [hy]))]

theorem lastHandled_of_none_handled : ∀ (b : List Run.Listener) (h : Option Run.RetVal),
    (∀ x ∈ b, isHandled x = false) → lastHandled b h = h
  | [], _, _ => rfl
  | x :: t, h, hb => by
    have hx := hb x (by simp)
    have ht := lastHandled_of_none_handled t h (fun y hy => hb y (by simp [hy]))
    cases x <;> simp_all [lastHandled, isHandled]

theorem lastHandled_isSome_of_mem : ∀ (l : List Run.Listener) (h : Option Run.RetVal),
    ((∃ x ∈ l, isHandled x = true) ∨ h.isSome = true) → (lastHandled l h).isSome = true
  | [], h, hm => by simpa [lastHandled] using hm
  | x :: t, h, hm => by
    cases x with
    | handled c s => exact lastHandled_isSome_of_mem t (some c) (Or.inr rfl)
    | pass =>
      refine lastHandled_isSome_of_mem t h ?_
      rcases hm with ⟨y, hy, hh⟩ | hm
      · rcases List.mem_cons.1 hy with rfl | hy
        · simp [isHandled] at hh
        · exact Or.inl ⟨y, hy, hh⟩
      · exact Or.inr hm
    | fail e =>
      refine lastHandled_isSome_of_mem t h ?_
      rcases hm with ⟨y, hy, hh⟩ | hm
      · rcases List.mem_cons.1 hy with rfl | hy
        · simp [isHandled] at hh
        · exact Or.inl ⟨y, hy, hh⟩
      · exact Or.inr hm
    | stopOnly =>
      refine lastHandled_isSome_of_mem t h ?_
      rcases hm with ⟨y, hy, hh⟩ | hm
      · rcases List.mem_cons.1 hy with rfl | hy
        · simp [isHandled] at hh
        · exact Or.inl ⟨y, hy, hh⟩
      · exact Or.inr hm

end Clikit.RunListeners
