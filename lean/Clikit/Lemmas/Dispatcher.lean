import Clikit.Model.Dispatcher
/-!
Lemmas for C12: Python-dict association lists, uniqueness of a stable descending sort,
the refinement invariant between the concrete dispatcher state and the log of registrations.
-/
namespace Clikit

/-! ### association lists -/
section Dict
variable {κ ν : Type} [BEq κ] [LawfulBEq κ]

theorem dictGet?_dictSet (k k' : κ) (v : ν) (d : List (κ × ν)) :
    dictGet? k' (dictSet k v d) = if k == k' then some v else dictGet? k' d := by
  induction d with
  | nil => by_cases h : k = k' <;> simp [dictSet, dictGet?, h]
  | cons x r ih =>
    obtain ⟨k0, v0⟩ := x
    by_cases h1 : k0 = k <;> by_cases h2 : k = k' <;> simp_all [dictSet, dictGet?]

theorem dictGet?_eq_none (k : κ) (d : List (κ × ν)) :
    dictGet? k d = none ↔ k ∉ d.map Prod.fst := by
  induction d with
  | nil => simp [dictGet?]
  | cons x r ih =>
    obtain ⟨k0, v0⟩ := x
    by_cases h : k0 = k
    · simp_all [dictGet?]
    · have h' : ¬ k = k0 := fun e => h e.symm
      simp_all [dictGet?]

theorem dictHas_iff (k : κ) (d : List (κ × ν)) : dictHas k d = true ↔ k ∈ d.map Prod.fst := by
  have := dictGet?_eq_none k d
  unfold dictHas
  cases h : dictGet? k d <;> simp_all

theorem dictGet?_mem {k : κ} {v : ν} {d : List (κ × ν)} (h : dictGet? k d = some v) :
    (k, v) ∈ d := by
  induction d with
  | nil => simp [dictGet?] at h
  | cons x r ih =>
    obtain ⟨k0, v0⟩ := x
    by_cases h1 : k0 = k <;> simp_all [dictGet?]

theorem mem_dictGet? {k : κ} {v : ν} {d : List (κ × ν)} (nd : (d.map Prod.fst).Nodup)
    (h : (k, v) ∈ d) : dictGet? k d = some v := by
  induction d with
  | nil => simp at h
  | cons x r ih =>
    obtain ⟨k0, v0⟩ := x
    simp only [List.map_cons, List.nodup_cons, List.mem_map, not_exists, not_and] at nd
    simp only [List.mem_cons, Prod.mk.injEq] at h
    by_cases h1 : k0 = k
    · subst h1
      rcases h with h | h
      · simp [dictGet?, h.2]
      · exact absurd rfl (nd.1 (k0, v) h)
    · rcases h with h | h
      · exact absurd h.1.symm h1
      · simp [dictGet?, h1, ih nd.2 h]

theorem keys_dictSet (k : κ) (v : ν) (d : List (κ × ν)) :
    (dictSet k v d).map Prod.fst =
      if k ∈ d.map Prod.fst then d.map Prod.fst else d.map Prod.fst ++ [k] := by
  induction d with
  | nil => simp [dictSet]
  | cons x r ih =>
    obtain ⟨k0, v0⟩ := x
    by_cases h1 : k0 = k
    · simp [dictSet, h1]
    · have h1' : ¬ k = k0 := fun h => h1 h.symm
      by_cases h2 : k ∈ r.map Prod.fst <;> simp_all [dictSet]

theorem nodup_dictSet (k : κ) (v : ν) (d : List (κ × ν)) (nd : (d.map Prod.fst).Nodup) :
    ((dictSet k v d).map Prod.fst).Nodup := by
  rw [keys_dictSet]
  split
  · exact nd
  · rename_i h
    rw [List.nodup_append]
    exact ⟨nd, by simp, by
      intro a ha b hb
      simp only [List.mem_singleton] at hb
      subst hb
      intro hab
      exact h (hab ▸ ha)⟩

theorem dictSet_ne_nil (k : κ) (v : ν) (d : List (κ × ν)) : dictSet k v d ≠ [] := by
  cases d with
  | nil => simp [dictSet]
  | cons x r => obtain ⟨k0, v0⟩ := x; by_cases h : k0 = k <;> simp [dictSet, h]

theorem dictSet_dictSet (k : κ) (v1 v2 : ν) (d : List (κ × ν)) :
    dictSet k v2 (dictSet k v1 d) = dictSet k v2 d := by
  induction d with
  | nil => simp [dictSet]
  | cons x r ih =>
    obtain ⟨k0, v0⟩ := x
    by_cases h : k0 = k <;> simp_all [dictSet]

theorem dictDel_sublist (k : κ) (d : List (κ × ν)) : (dictDel k d).Sublist d := by
  induction d with
  | nil => simp [dictDel]
  | cons x r ih =>
    obtain ⟨k0, v0⟩ := x
    by_cases h : k0 = k
    · simp [dictDel, h]
    · simp only [dictDel, beq_iff_eq, h, if_false]
      exact ih.cons_cons _

theorem nodup_dictDel (k : κ) (d : List (κ × ν)) (nd : (d.map Prod.fst).Nodup) :
    ((dictDel k d).map Prod.fst).Nodup :=
  List.Nodup.sublist ((dictDel_sublist k d).map _) nd

theorem dictGet?_dictDel_ne {k k' : κ} (h : k ≠ k') (d : List (κ × ν)) :
    dictGet? k' (dictDel k d) = dictGet? k' d := by
  induction d with
  | nil => simp [dictDel]
  | cons x r ih =>
    obtain ⟨k0, v0⟩ := x
    by_cases h1 : k0 = k
    · subst h1; simp [dictDel, dictGet?, h]
    · by_cases h2 : k0 = k' <;> simp_all [dictDel, dictGet?]

theorem dictGet?_dictDel_self (k : κ) (d : List (κ × ν)) (nd : (d.map Prod.fst).Nodup) :
    dictGet? k (dictDel k d) = none := by
  induction d with
  | nil => simp [dictDel, dictGet?]
  | cons x r ih =>
    obtain ⟨k0, v0⟩ := x
    simp only [List.map_cons, List.nodup_cons] at nd
    by_cases h1 : k0 = k
    · subst h1
      simp only [dictDel, beq_self_eq_true, if_true]
      exact (dictGet?_eq_none _ _).2 nd.1
    · simp [dictDel, dictGet?, h1, ih nd.2]

theorem dictDel_of_not_has {k : κ} {d : List (κ × ν)} (h : dictHas k d = false) :
    dictDel k d = d := by
  induction d with
  | nil => simp [dictDel]
  | cons x r ih =>
    obtain ⟨k0, v0⟩ := x
    by_cases h1 : k0 = k <;> simp_all [dictDel, dictHas, dictGet?]

end Dict

/-! ### stable descending sorts are unique -/
section Sorted
variable {α : Type}

/-- `l` is ordered by descending key -/
def Desc (key : α → Int) (l : List α) : Prop := l.Pairwise (fun a b => key a ≥ key b)

/-- the elements of key `p`, in list order -/
def byKey (key : α → Int) (p : Int) (l : List α) : List α := l.filter (fun a => key a == p)

theorem byKey_cons (key : α → Int) (p : Int) (a : α) (l : List α) :
    byKey key p (a :: l) = if key a = p then a :: byKey key p l else byKey key p l := by
  by_cases h : key a = p <;> simp [byKey, h]

theorem mem_byKey {key : α → Int} {p : Int} {a : α} {l : List α} :
    a ∈ byKey key p l ↔ a ∈ l ∧ key a = p := by
  simp [byKey]

/-- Two lists that are both sorted by descending key and that list the elements of every
key in the same order are equal: "sorted by descending priority, registration order among
equal priorities" determines the result. -/
theorem desc_unique (key : α → Int) : ∀ (l1 l2 : List α), Desc key l1 → Desc key l2 →
    (∀ p, byKey key p l1 = byKey key p l2) → l1 = l2
  | [], [], _, _, _ => rfl
  | [], b :: t2, _, _, h => by
    have := h (key b); simp [byKey] at this
  | a :: t1, [], _, _, h => by
    have := h (key a); simp [byKey] at this
  | a :: t1, b :: t2, d1, d2, h => by
    have d1' := List.pairwise_cons.1 d1
    have d2' := List.pairwise_cons.1 d2
    have ha : a ∈ byKey key (key a) (b :: t2) := by rw [← h]; simp [byKey_cons]
    have hb : b ∈ byKey key (key b) (a :: t1) := by rw [h]; simp [byKey_cons]
    have hab : key b ≥ key a := by
      rcases List.mem_cons.1 (mem_byKey.1 ha).1 with e | m
      · subst e; exact Int.le_refl _
      · exact d2'.1 a m
    have hba : key a ≥ key b := by
      rcases List.mem_cons.1 (mem_byKey.1 hb).1 with e | m
      · subst e; exact Int.le_refl _
      · exact d1'.1 b m
    have hk : key a = key b := Int.le_antisymm hab hba
    have h0 := h (key a)
    simp only [byKey_cons, hk, if_true] at h0
    have hhead : a = b := (List.cons.inj h0).1
    subst hhead
    have htail : ∀ p, byKey key p t1 = byKey key p t2 := by
      intro p
      have hp := h p
      simp only [byKey_cons] at hp
      by_cases e : key a = p
      · simp only [e, if_true] at hp; exact (List.cons.inj hp).2
      · simpa only [e, if_false] using hp
    rw [desc_unique key t1 t2 d1'.2 d2'.2 htail]

end Sorted

namespace Dispatcher

/-! ### the specification order -/

theorem insR_perm (r : Reg) : ∀ l : List Reg, (insR r l).Perm (r :: l)
  | [] => by simp [insR]
  | y :: t => by
    simp only [insR]
    split
    · exact List.Perm.refl _
    · exact ((insR_perm r t).cons y).trans (List.Perm.swap r y t)

theorem insR_desc (r : Reg) : ∀ l : List Reg, Desc Reg.prio l → Desc Reg.prio (insR r l)
  | [], _ => by simp [insR, Desc]
  | y :: t, h => by
    have h' := List.pairwise_cons.1 h
    simp only [insR]
    split
    · rename_i hgt
      refine List.pairwise_cons.2 ⟨?_, h⟩
      intro z hz
      rcases List.mem_cons.1 hz with e | m
      · subst e; omega
      · have := h'.1 z m; omega
    · rename_i hle
      refine List.pairwise_cons.2 ⟨?_, insR_desc r t h'.2⟩
      intro z hz
      rcases List.mem_cons.1 ((insR_perm r t).mem_iff.1 hz) with e | m
      · subst e; omega
      · exact h'.1 z m

theorem insR_byKey (r : Reg) (p : Int) : ∀ l : List Reg, Desc Reg.prio l →
    byKey Reg.prio p (insR r l) = byKey Reg.prio p l ++ byKey Reg.prio p [r]
  | [], _ => by simp [insR, byKey]
  | y :: t, h => by
    have h' := List.pairwise_cons.1 h
    simp only [insR]
    split
    · rename_i hgt
      by_cases e : r.prio = p
      · have hnil : byKey Reg.prio p (y :: t) = [] := by
          simp only [byKey, List.filter_eq_nil_iff, beq_iff_eq]
          intro z hz
          rcases List.mem_cons.1 hz with e' | m
          · subst e'; omega
          · have := h'.1 z m; omega
        rw [byKey_cons, if_pos e, hnil]; simp [byKey, e]
      · simp [e, byKey]
    · rw [byKey_cons, byKey_cons, insR_byKey r p t h'.2]
      split <;> simp

/-- folding `insR` over `rs` starting from a sorted accumulator -/
theorem foldl_insR (rs : List Reg) : ∀ acc : List Reg, Desc Reg.prio acc →
    Desc Reg.prio (rs.foldl (fun acc r => insR r acc) acc) ∧
    (rs.foldl (fun acc r => insR r acc) acc).Perm (acc ++ rs) ∧
    ∀ p, byKey Reg.prio p (rs.foldl (fun acc r => insR r acc) acc)
          = byKey Reg.prio p acc ++ byKey Reg.prio p rs := by
  induction rs with
  | nil => intro acc h; simp [h, byKey]
  | cons r t ih =>
    intro acc h
    obtain ⟨i1, i2, i3⟩ := ih (insR r acc) (insR_desc r acc h)
    refine ⟨i1, ?_, ?_⟩
    · refine i2.trans ?_
      refine ((insR_perm r acc).append_right t).trans ?_
      simpa using (List.perm_middle (a := r) (l₁ := acc) (l₂ := t)).symm
    · intro p
      rw [List.foldl_cons, i3 p, insR_byKey r p acc h, byKey_cons]
      by_cases e : r.prio = p <;> simp [byKey, e]

theorem specOrder_desc (log : List Reg) (e : Nat) : Desc Reg.prio (specOrder log e) :=
  (foldl_insR (regsFor log e) [] (by simp [Desc])).1

theorem specOrder_perm (log : List Reg) (e : Nat) : (specOrder log e).Perm (regsFor log e) := by
  simpa [specOrder] using (foldl_insR (regsFor log e) [] (by simp [Desc])).2.1

theorem specOrder_byKey (log : List Reg) (e : Nat) (p : Int) :
    byKey Reg.prio p (specOrder log e) = byKey Reg.prio p (regsFor log e) := by
  simpa [byKey, specOrder] using (foldl_insR (regsFor log e) [] (by simp [Desc])).2.2 p


/-! ### what `_sort_listeners` computes -/

/-- the buckets written out as (priority, listener) pairs, bucket by bucket -/
def expand (d : Buckets) : List (Int × Listener) :=
  d.flatMap (fun b => b.2.map (fun l => (b.1, l)))

theorem expand_cons (b : Int × List Listener) (d : Buckets) :
    expand (b :: d) = b.2.map (fun l => (b.1, l)) ++ expand d := by
  simp [expand]

theorem expand_snd (d : Buckets) : (expand d).map Prod.snd = flatten d := by
  induction d with
  | nil => simp [expand, flatten]
  | cons b r ih =>
    rw [expand_cons, List.map_append, ih]
    simp [flatten, Function.comp_def]

theorem byKey_append {α : Type} (key : α → Int) (p : Int) (a b : List α) :
    byKey key p (a ++ b) = byKey key p a ++ byKey key p b := by
  simp [byKey]

theorem expand_byKey (p : Int) : ∀ d : Buckets, (d.map Prod.fst).Nodup →
    byKey Prod.fst p (expand d) = ((dictGet? p d).getD []).map (fun l => (p, l))
  | [], _ => by simp [expand, byKey, dictGet?]
  | (k0, b0) :: r, nd => by
    simp only [List.map_cons, List.nodup_cons] at nd
    rw [expand_cons, byKey_append, expand_byKey p r nd.2]
    by_cases h : k0 = p
    · subst h
      have hn : dictGet? k0 r = none := (dictGet?_eq_none _ _).2 nd.1
      simp [dictGet?, hn, byKey]
    · simp [dictGet?, h, byKey]

theorem sortBuckets_perm (d : Buckets) : (sortBuckets d).Perm d :=
  List.mergeSort_perm _ _

theorem sortBuckets_pairwise (d : Buckets) :
    (sortBuckets d).Pairwise (fun a b => a.1 ≥ b.1) := by
  have h := List.pairwise_mergeSort
    (le := fun (a b : Int × List Listener) => decide (Gen.C12.sortKey a.1 ≤ Gen.C12.sortKey b.1))
    (by intro a b c; simp only [decide_eq_true_eq]; unfold Gen.C12.sortKey; omega)
    (by intro a b; simp only [Bool.or_eq_true, decide_eq_true_eq]; unfold Gen.C12.sortKey; omega) d
  refine h.imp ?_
  intro a b hab
  simp only [decide_eq_true_eq] at hab
  unfold Gen.C12.sortKey at hab
  omega

theorem expand_sort_desc (d : Buckets) : Desc Prod.fst (expand (sortBuckets d)) := by
  unfold Desc expand
  rw [List.pairwise_flatMap]
  refine ⟨?_, ?_⟩
  · intro b _
    rw [List.pairwise_map]
    exact List.pairwise_of_forall_sublist (fun _ => Int.le_refl _)   -- one bucket, one priority
  · refine (sortBuckets_pairwise d).imp ?_
    intro a b hab x hx y hy
    simp only [List.mem_map] at hx hy
    obtain ⟨_, _, rfl⟩ := hx
    obtain ⟨_, _, rfl⟩ := hy
    exact hab

theorem dictGet?_perm {κ ν : Type} [BEq κ] [LawfulBEq κ] {d d' : List (κ × ν)}
    (nd : (d.map Prod.fst).Nodup) (hp : d'.Perm d) (k : κ) : dictGet? k d' = dictGet? k d := by
  have nd' : (d'.map Prod.fst).Nodup := (hp.map Prod.fst).nodup_iff.2 nd
  cases h : dictGet? k d with
  | none =>
    rw [dictGet?_eq_none] at h ⊢
    intro hm
    exact h ((hp.map Prod.fst).mem_iff.1 hm)
  | some v => exact mem_dictGet? nd' (hp.mem_iff.2 (dictGet?_mem h))

/-- the refinement invariant of one event's priority dict: distinct priorities, and the
bucket of priority `p` holds the listeners registered with `p`, in registration order -/
structure BkInv (d : Buckets) (rs : List Reg) : Prop where
  nodup : (d.map Prod.fst).Nodup
  bucket : ∀ p, (dictGet? p d).getD [] = (byKey Reg.prio p rs).map (fun r => r.l)

def pr (r : Reg) : Int × Listener := (r.prio, r.l)

/-- `_sort_listeners` computes the specification order. -/
theorem sort_eq_spec {d : Buckets} {log : List Reg} {e : Nat} (h : BkInv d (regsFor log e)) :
    flatten (sortBuckets d) = (specOrder log e).map (fun r => r.l) := by
  have key : expand (sortBuckets d) = (specOrder log e).map pr := by
    apply desc_unique Prod.fst _ _ (expand_sort_desc d)
    · unfold Desc
      rw [List.pairwise_map]
      exact specOrder_desc log e
    · intro p
      have nds : ((sortBuckets d).map Prod.fst).Nodup :=
        ((sortBuckets_perm d).map Prod.fst).nodup_iff.2 h.nodup
      rw [expand_byKey p _ nds, dictGet?_perm h.nodup (sortBuckets_perm d), h.bucket p]
      have e1 : byKey Prod.fst p ((specOrder log e).map pr)
          = (byKey Reg.prio p (specOrder log e)).map pr := by
        simp only [byKey, List.filter_map]; rfl
      rw [e1, specOrder_byKey, List.map_map]
      apply List.map_congr_left
      intro r hr
      have := (mem_byKey.1 hr).2
      simp [pr, this]
  rw [← expand_snd, key, List.map_map]
  rfl


/-! ### `add_listener` without the dead `KeyError` branches -/

def addSimple (s : State) (e : Nat) (l : Listener) (p : Int) : State :=
  let d0 := (dictGet? e s.listeners).getD []
  { listeners := dictSet e (dictSet p ((dictGet? p d0).getD [] ++ [l]) d0) s.listeners,
    sorted := dictDel e s.sorted }

theorem addListener_eq (s : State) (e : Nat) (l : Listener) (p : Int) :
    addListener s e l p = .ok (addSimple s e l p) := by
  have hs : (if dictHas e s.sorted then dictDel e s.sorted else s.sorted) = dictDel e s.sorted := by
    cases h : dictHas e s.sorted
    · simp [dictDel_of_not_has h]
    · simp
  unfold addListener addSimple
  rw [hs]
  cases h1 : dictGet? e s.listeners with
  | none =>
    simp [lookup, dictHas, h1, dictGet?_dictSet, dictSet_dictSet, dictGet?, dictSet, bind, Except.bind, pure, Except.pure]
  | some d0 =>
    cases h2 : dictGet? p d0 with
    | none =>
      simp [lookup, dictHas, h1, h2, dictGet?_dictSet, dictSet_dictSet, bind, Except.bind, pure, Except.pure]
    | some b =>
      simp [lookup, dictHas, h1, h2, dictGet?_dictSet, dictSet_dictSet, bind, Except.bind, pure, Except.pure]


/-! ### the refinement invariant -/

theorem regsFor_append (a b : List Reg) (e : Nat) :
    regsFor (a ++ b) e = regsFor a e ++ regsFor b e := by
  simp [regsFor]

theorem regsFor_single (r : Reg) (e : Nat) :
    regsFor [r] e = if r.ev = e then [r] else [] := by
  by_cases h : r.ev = e <;> simp [regsFor, h]

theorem specOrder_congr {log log' : List Reg} {e : Nat} (h : regsFor log' e = regsFor log e) :
    specOrder log' e = specOrder log e := by
  simp [specOrder, h]

theorem BkInv.nil : BkInv [] [] := ⟨by simp, by simp [dictGet?, byKey]⟩

theorem BkInv.step {d : Buckets} {rs : List Reg} (h : BkInv d rs) (e : Nat) (p : Int) (l : Listener) :
    BkInv (dictSet p ((dictGet? p d).getD [] ++ [l]) d) (rs ++ [⟨e, p, l⟩]) := by
  refine ⟨nodup_dictSet _ _ _ h.nodup, ?_⟩
  intro q
  rw [dictGet?_dictSet, byKey_append, List.map_append, ← h.bucket q]
  by_cases hq : p = q
  · subst hq; simp [byKey]
  · simp [hq, byKey]

/-- concrete state `s` represents the log of registrations `log` -/
structure Inv (s : State) (log : List Reg) : Prop where
  sortedNodup : (s.sorted.map Prod.fst).Nodup
  absent : ∀ e, dictGet? e s.listeners = none → regsFor log e = []
  present : ∀ e d, dictGet? e s.listeners = some d →
    regsFor log e ≠ [] ∧ BkInv d (regsFor log e)
  cache : ∀ e c, dictGet? e s.sorted = some c →
    c = (specOrder log e).map (fun r => r.l) ∧ dictHas e s.listeners = true

theorem Inv.init : Inv init [] :=
  ⟨by simp [Dispatcher.init], by simp [regsFor], by simp [Dispatcher.init, dictGet?],
   by simp [Dispatcher.init, dictGet?]⟩

theorem Inv.add {s : State} {log : List Reg} (h : Inv s log) (e : Nat) (l : Listener) (p : Int) :
    Inv (addSimple s e l p) (log ++ [⟨e, p, l⟩]) := by
  refine ⟨nodup_dictDel _ _ h.sortedNodup, ?_, ?_, ?_⟩
  · intro e' hn
    simp only [addSimple, dictGet?_dictSet] at hn
    by_cases he : e = e'
    · simp [he] at hn
    · simp only [beq_iff_eq, he, if_false] at hn
      rw [regsFor_append, regsFor_single, if_neg he, List.append_nil]
      exact h.absent e' hn
  · intro e' d' hd
    simp only [addSimple, dictGet?_dictSet] at hd
    by_cases he : e = e'
    · subst he
      simp only [beq_self_eq_true, if_true, Option.some.injEq] at hd
      subst hd
      rw [regsFor_append, regsFor_single, if_pos rfl]
      refine ⟨by simp, ?_⟩
      cases hl : dictGet? e s.listeners with
      | none => rw [h.absent e hl]; exact BkInv.nil.step e p l
      | some d0 => exact (h.present e d0 hl).2.step e p l
    · simp only [beq_iff_eq, he, if_false] at hd
      rw [regsFor_append, regsFor_single, if_neg he, List.append_nil]
      exact h.present e' d' hd
  · intro e' c hc
    simp only [addSimple] at hc ⊢
    by_cases he : e = e'
    · subst he
      rw [dictGet?_dictDel_self _ _ h.sortedNodup] at hc
      cases hc
    · rw [dictGet?_dictDel_ne he] at hc
      have := h.cache e' c hc
      refine ⟨?_, ?_⟩
      · rw [this.1]
        congr 1
        apply specOrder_congr
        rw [regsFor_append, regsFor_single, if_neg he, List.append_nil]
      · simp only [dictHas, dictGet?_dictSet, beq_iff_eq, he, if_false]
        exact this.2

theorem lookup_some {κ ν : Type} [BEq κ] {k : κ} {d : List (κ × ν)} {v : ν}
    (h : dictGet? k d = some v) : lookup k d = .ok v := by
  simp [lookup, h]

theorem Inv.sortListeners {s : State} {log : List Reg} (h : Inv s log) {e : Nat} {d : Buckets}
    (hd : dictGet? e s.listeners = some d) :
    sortListeners s e = .ok { s with sorted := dictSet e ((specOrder log e).map (fun r => r.l)) s.sorted }
    ∧ Inv { s with sorted := dictSet e ((specOrder log e).map (fun r => r.l)) s.sorted } log := by
  refine ⟨?_, ?_⟩
  · simp [Dispatcher.sortListeners, lookup_some hd, bind, Except.bind, pure, Except.pure,
      sort_eq_spec (h.present e d hd).2]
  · refine ⟨nodup_dictSet _ _ _ h.sortedNodup, h.absent, h.present, ?_⟩
    intro e' c hc
    simp only [dictGet?_dictSet] at hc
    by_cases he : e = e'
    · subst he
      simp only [beq_self_eq_true, if_true, Option.some.injEq] at hc
      exact ⟨hc.symm, by simp [dictHas, hd]⟩
    · simp only [beq_iff_eq, he, if_false] at hc
      exact h.cache e' c hc


/-! ### each operation against the log -/

theorem specOrder_of_no_regs {log : List Reg} {e : Nat} (h : regsFor log e = []) :
    specOrder log e = [] := by
  simp [specOrder, h]

theorem Inv.getListeners {s : State} {log : List Reg} (h : Inv s log) (e : Nat) :
    ∃ s', getListeners s e = .ok (s', (specOrder log e).map (fun r => r.l)) ∧ Inv s' log := by
  cases hl : dictGet? e s.listeners with
  | none =>
    refine ⟨s, ?_, h⟩
    simp [Dispatcher.getListeners, dictHas, hl, specOrder_of_no_regs (h.absent e hl)]
  | some d =>
    cases hc : dictGet? e s.sorted with
    | none =>
      obtain ⟨h1, h2⟩ := h.sortListeners hl
      refine ⟨_, ?_, h2⟩
      simp [Dispatcher.getListeners, dictHas, hl, hc, h1, lookup, dictGet?_dictSet, bind, Except.bind,
        pure, Except.pure]
    | some c =>
      refine ⟨s, ?_, h⟩
      simp [Dispatcher.getListeners, dictHas, hl, hc, lookup, (h.cache e c hc).1, bind, Except.bind,
        pure, Except.pure]

theorem doDispatch_eq : ∀ (ls : List Listener) (st : Bool),
    doDispatch ls st = (if st then [] else takeThrough (fun l => l.stops) ls,
                        st || (takeThrough (fun l => l.stops) ls).any (fun l => l.stops))
  | [], st => by cases st <;> simp [doDispatch, takeThrough]
  | l :: rest, true => by simp [doDispatch]
  | l :: rest, false => by
    cases hl : l.stops
    · simp [doDispatch, takeThrough, hl, doDispatch_eq rest false]
    · simp [doDispatch, takeThrough, hl, doDispatch_eq rest true]

theorem takeThrough_map {α β : Type} (f : α → β) (p : β → Bool) : ∀ l : List α,
    takeThrough p (l.map f) = (takeThrough (fun a => p (f a)) l).map f
  | [] => by simp [takeThrough]
  | x :: t => by
    cases h : p (f x) <;> simp [takeThrough, h, takeThrough_map f p t]

theorem Inv.dispatch {s : State} {log : List Reg} (h : Inv s log) (e : Nat) (st : Bool) :
    ∃ s', dispatch s e st = .ok (s', (callSeq log e st).map (fun r => r.l),
        st || (callSeq log e st).any (fun r => r.l.stops)) ∧ Inv s' log := by
  obtain ⟨s', h1, h2⟩ := h.getListeners e
  refine ⟨s', ?_, h2⟩
  simp only [Dispatcher.dispatch, h1, bind, Except.bind, pure, Except.pure]
  cases hs : specOrder log e with
  | nil => cases st <;> simp [callSeq, hs, takeThrough]
  | cons r t =>
    rw [← hs, doDispatch_eq, takeThrough_map]
    cases st <;> simp [callSeq, hs, List.any_map, Function.comp_def]

/-! ### events of user classes -/

/-- An event class that implements the stop protocol FAITHFULLY - after `stop_propagation()` it
reports itself stopped, and what listeners otherwise do to it does not change that report - is,
for the dispatcher, the stock event: the same listeners are called and the same answer is
reported afterwards, wherever the class keeps its state. -/
theorem doDispatchEv_faithful {σ : Type} (P : EvProto σ)
    (hstop : ∀ s, P.isStopped (P.stop s) = true)
    (htouch : ∀ s, P.isStopped (P.touch s) = P.isStopped s) : ∀ (ls : List Listener) (s : σ),
    (doDispatchEv P ls s).1 = (doDispatch ls (P.isStopped s)).1 ∧
      P.isStopped (doDispatchEv P ls s).2 = (doDispatch ls (P.isStopped s)).2
  | [], s => by simp [doDispatchEv, doDispatch]
  | l :: rest, s => by
    cases h : P.isStopped s
    · cases hl : l.stops
      · have ih := doDispatchEv_faithful P hstop htouch rest (P.touch s)
        rw [htouch, h] at ih
        simp [doDispatchEv, doDispatch, h, hl, ih.1, ih.2]
      · have ih := doDispatchEv_faithful P hstop htouch rest (P.stop (P.touch s))
        rw [hstop] at ih
        simp [doDispatchEv, doDispatch, h, hl, ih.1, ih.2]
    · simp [doDispatchEv, doDispatch, h]

theorem doDispatchEv_stopped {σ : Type} (P : EvProto σ) (ls : List Listener) {s : σ}
    (h : P.isStopped s = true) : doDispatchEv P ls s = ([], s) := by
  cases ls <;> simp [doDispatchEv, h]

/-- the budget event: the listeners called are the first `n - c` of the prefix through the first
stopping listener, and afterwards the event reports itself stopped iff one of them stopped it or
the budget is used up -/
theorem doDispatchEv_budget (n : Nat) : ∀ (ls : List Listener) (c : Nat),
    (doDispatchEv (budgetEvent n) ls (c, false)).1 = (takeThrough (fun l => l.stops) ls).take (n - c) ∧
      (budgetEvent n).isStopped (doDispatchEv (budgetEvent n) ls (c, false)).2 =
        (((takeThrough (fun l => l.stops) ls).take (n - c)).any (fun l => l.stops) ||
          decide (n ≤ c + ((takeThrough (fun l => l.stops) ls).take (n - c)).length))
  | [], c => by simp [doDispatchEv, takeThrough, budgetEvent]
  | l :: rest, c => by
    by_cases hn : n ≤ c
    · have : n - c = 0 := by omega
      simp [doDispatchEv, budgetEvent, hn, this]
    · obtain ⟨k, hk⟩ : ∃ k, n - c = k + 1 := ⟨n - c - 1, by omega⟩
      have hk' : n - (c + 1) = k := by omega
      cases hl : l.stops
      · have ih := doDispatchEv_budget n rest (c + 1)
        rw [hk'] at ih
        simp only [doDispatchEv, budgetEvent, hn, decide_false, Bool.or_false, Bool.false_eq_true,
          if_false, hl, takeThrough, hk, List.take_succ_cons, List.any_cons, Bool.false_or,
          List.length_cons] at ih ⊢
        refine ⟨by rw [ih.1], ?_⟩
        rw [ih.2]
        congr 2
        apply propext
        omega
      · have hst : (budgetEvent n).isStopped (c, false) = false := by simp [budgetEvent, hn]
        have hst2 : (budgetEvent n).isStopped ((budgetEvent n).stop ((budgetEvent n).touch (c, false))) = true := by
          simp [budgetEvent]
        rw [doDispatchEv]
        simp only [hst, hl, Bool.false_eq_true, if_false, if_true]
        rw [doDispatchEv_stopped _ rest hst2]
        simp [takeThrough, hl, hk, budgetEvent]

theorem Inv.dispatchN {s : State} {log : List Reg} (h : Inv s log) (e : Nat) (n : Nat) :
    ∃ s', dispatchN s e n = .ok (s', (callSeqN log e n).map (fun r => r.l),
        (callSeqN log e n).any (fun r => r.l.stops) || decide (n ≤ (callSeqN log e n).length)) ∧
      Inv s' log := by
  obtain ⟨s', h1, h2⟩ := h.getListeners e
  refine ⟨s', ?_, h2⟩
  simp only [Dispatcher.dispatchN, h1, bind, Except.bind, pure, Except.pure]
  have hb := doDispatchEv_budget n ((specOrder log e).map (fun r => r.l)) 0
  simp only [Nat.sub_zero, Nat.zero_add] at hb
  cases hs : specOrder log e with
  | nil => simp [callSeqN, callSeq, hs, takeThrough, budgetEvent]
  | cons r t =>
    rw [← hs, hb.1, hb.2, takeThrough_map]
    simp only [callSeqN, callSeq, hs, Bool.false_eq_true, if_false, ← List.map_take, List.any_map,
      List.length_map, Function.comp_def]
    simp

/-- every registration sits in the bucket of its priority -/
theorem BkInv.reg_in_bucket {d : Buckets} {rs : List Reg} (h : BkInv d rs) {x : Reg} (hx : x ∈ rs) :
    ∃ b, (x.prio, b) ∈ d ∧ x.l ∈ b := by
  have hb := h.bucket x.prio
  have hm : x.l ∈ (byKey Reg.prio x.prio rs).map (fun r => r.l) :=
    List.mem_map.2 ⟨x, mem_byKey.2 ⟨hx, rfl⟩, rfl⟩
  rw [← hb] at hm
  cases hg : dictGet? x.prio d with
  | none => simp [hg] at hm
  | some b => exact ⟨b, dictGet?_mem hg, by simpa [hg] using hm⟩

/-- every listener in a bucket was registered with the bucket's priority -/
theorem BkInv.bucket_has_reg {d : Buckets} {rs : List Reg} (h : BkInv d rs) {p : Int}
    {b : List Listener} {l : Listener} (hb : (p, b) ∈ d) (hl : l ∈ b) :
    ∃ x ∈ rs, x.l = l ∧ x.prio = p := by
  have hg := mem_dictGet? h.nodup hb
  have := h.bucket p
  rw [hg] at this
  simp only [Option.getD_some] at this
  rw [this] at hl
  obtain ⟨x, hx, rfl⟩ := List.mem_map.1 hl
  exact ⟨x, (mem_byKey.1 hx).1, rfl, (mem_byKey.1 hx).2⟩

theorem BkInv.ne_nil {d : Buckets} {rs : List Reg} (h : BkInv d rs) (hrs : rs ≠ []) : d ≠ [] := by
  cases rs with
  | nil => exact absurd rfl hrs
  | cons x t =>
    obtain ⟨b, hb, _⟩ := h.reg_in_bucket (x := x) (by simp)
    intro hd; simp [hd] at hb

theorem Inv.hasListeners {s : State} {log : List Reg} (h : Inv s log) (e : Nat) :
    hasListeners s e = .ok (!(regsFor log e).isEmpty) := by
  cases hl : dictGet? e s.listeners with
  | none => simp [Dispatcher.hasListeners, dictHas, hl, h.absent e hl]
  | some d =>
    obtain ⟨h1, h2⟩ := h.present e d hl
    have hd := h2.ne_nil h1
    have hlen : 0 < d.length := List.length_pos_iff.2 hd
    simp [Dispatcher.hasListeners, dictHas, hl, lookup, bind, Except.bind, pure, Except.pure, hlen, h1]

theorem mem_regsFor {log : List Reg} {e : Nat} {r : Reg} : r ∈ regsFor log e ↔ r ∈ log ∧ r.ev = e := by
  simp [regsFor]

theorem Inv.hasAnyListeners {s : State} {log : List Reg} (h : Inv s log) :
    hasAnyListeners s = !log.isEmpty := by
  cases log with
  | nil =>
    have : s.listeners = [] := by
      cases hs : s.listeners with
      | nil => rfl
      | cons x t =>
        obtain ⟨k, d⟩ := x
        have := (h.present k d (by simp [hs, dictGet?])).1
        simp [regsFor] at this
    simp [Dispatcher.hasAnyListeners, this]
  | cons r t =>
    have hne : regsFor (r :: t) r.ev ≠ [] := by
      intro hn
      have : r ∈ regsFor (r :: t) r.ev := mem_regsFor.2 ⟨by simp, rfl⟩
      simp [hn] at this
    cases hl : dictGet? r.ev s.listeners with
    | none => exact absurd (h.absent _ hl) hne
    | some d =>
      have hd := (h.present _ d hl).2.ne_nil hne
      have hm := dictGet?_mem hl
      simp only [Dispatcher.hasAnyListeners, List.isEmpty_cons, Bool.not_false, List.any_eq_true]
      exact ⟨_, hm, by cases d <;> simp_all⟩

theorem Inv.getPriority {s : State} {log : List Reg} (h : Inv s log) (e : Nat) (l : Listener) :
    ∃ r, getPriority s e l = .ok r ∧ (r = none ↔ ∀ x ∈ regsFor log e, x.l ≠ l) ∧
      ∀ p, r = some p → ∃ x ∈ regsFor log e, x.l = l ∧ x.prio = p := by
  cases hl : dictGet? e s.listeners with
  | none =>
    refine ⟨none, by simp [Dispatcher.getPriority, dictHas, hl], ?_, by simp⟩
    simp [h.absent e hl]
  | some d =>
    obtain ⟨_, h2⟩ := h.present e d hl
    refine ⟨(d.find? (fun b => b.2.contains l)).map (fun b => b.1), ?_, ?_, ?_⟩
    · simp [Dispatcher.getPriority, dictHas, hl, lookup, bind, Except.bind, pure, Except.pure]
    · rw [Option.map_eq_none_iff, List.find?_eq_none]
      constructor
      · intro hf x hx hxl
        obtain ⟨b, hb, hm⟩ := h2.reg_in_bucket hx
        exact hf (x.prio, b) hb (by simpa [hxl] using hm)
      · intro hf b hb hc
        obtain ⟨x, hx, hxl, _⟩ := h2.bucket_has_reg (p := b.1) (b := b.2) hb (by simpa using hc)
        exact hf x hx hxl
    · intro p hp
      rw [Option.map_eq_some_iff] at hp
      obtain ⟨b, hb, rfl⟩ := hp
      have hc := List.find?_some hb
      exact h2.bucket_has_reg (p := b.1) (b := b.2) (List.mem_of_find?_eq_some hb) (by simpa using hc)

theorem Inv.sortAll {log : List Reg} : ∀ (items : List (Nat × Buckets)) (s : State), Inv s log →
    (∀ x ∈ items, dictHas x.1 s.listeners = true) →
    ∃ s', sortAll items s = .ok s' ∧ Inv s' log ∧ s'.listeners = s.listeners ∧
      (∀ k, dictHas k s.sorted = true → dictHas k s'.sorted = true) ∧
      ∀ x ∈ items, dictHas x.1 s'.sorted = true
  | [], s, h, _ => ⟨s, rfl, h, rfl, fun _ hk => hk, by simp⟩
  | (e, b) :: rest, s, h, hit => by
    have he : dictHas e s.listeners = true := hit (e, b) (by simp)
    cases hc : dictGet? e s.sorted with
    | some c =>
      obtain ⟨s', r1, r2, r3, r4, r5⟩ := Inv.sortAll rest s h (fun x hx => hit x (by simp [hx]))
      refine ⟨s', ?_, r2, r3, r4, ?_⟩
      · simp [Dispatcher.sortAll, dictHas, hc, r1, bind, Except.bind, pure, Except.pure]
      · intro x hx
        rcases List.mem_cons.1 hx with rfl | hx
        · exact r4 _ (by simp [dictHas, hc])
        · exact r5 x hx
    | none =>
      cases hl : dictGet? e s.listeners with
      | none => simp [dictHas, hl] at he
      | some d =>
        obtain ⟨h1, h2⟩ := h.sortListeners hl
        obtain ⟨s', r1, r2, r3, r4, r5⟩ := Inv.sortAll rest _ h2 (fun x hx => hit x (by simp [hx]))
        refine ⟨s', ?_, r2, r3, ?_, ?_⟩
        · simp [Dispatcher.sortAll, dictHas, hc, h1, r1, bind, Except.bind]
        · intro k hk
          apply r4
          simp only [dictHas, dictGet?_dictSet] at hk ⊢
          split <;> simp_all
        · intro x hx
          rcases List.mem_cons.1 hx with rfl | hx
          · exact r4 _ (by simp [dictHas, dictGet?_dictSet])
          · exact r5 x hx

theorem Inv.getAllListeners {s : State} {log : List Reg} (h : Inv s log) :
    ∃ s' d, getAllListeners s = .ok (s', d) ∧ Inv s' log ∧ (d.map Prod.fst).Nodup ∧
      ∀ e, dictGet? e d = if (regsFor log e).isEmpty then none
                           else some ((specOrder log e).map (fun r => r.l)) := by
  obtain ⟨s', r1, r2, r3, _, r5⟩ := Inv.sortAll s.listeners s h
    (fun x hx => (dictHas_iff _ _).2 (List.mem_map.2 ⟨x, hx, rfl⟩))
  refine ⟨s', s'.sorted, ?_, r2, r2.sortedNodup, ?_⟩
  · simp [Dispatcher.getAllListeners, r1, bind, Except.bind, pure, Except.pure]
  · intro e
    cases hr : regsFor log e with
    | nil =>
      simp only [List.isEmpty_nil, if_true]
      cases hc : dictGet? e s'.sorted with
      | none => rfl
      | some c =>
        have hh := (r2.cache e c hc).2
        cases hl : dictGet? e s'.listeners with
        | none => simp [dictHas, hl] at hh
        | some d => exact absurd hr (r2.present e d hl).1
    | cons x t =>
      simp only [List.isEmpty_cons, Bool.false_eq_true, if_false]
      cases hl : dictGet? e s.listeners with
      | none => have := h.absent e hl; simp [hr] at this
      | some d =>
        have hs := r5 (e, d) (dictGet?_mem hl)
        cases hc : dictGet? e s'.sorted with
        | none => simp [dictHas, hc] at hs
        | some c => rw [(r2.cache e c hc).1]


/-! ### histories -/

/-- What the property demands of the output of one operation, given the registrations made
before it.  (`get_listeners()` returns a dict: only the mapping matters, not the key order.
`get_listener_priority`: `None` iff the listener is not registered for the event, otherwise
a priority it was registered with - which is *the* priority when there is only one.) -/
def Agrees (log : List Reg) : Op → Out → Prop
  | .add _ _ _, o => o = .unit
  | .dispatch e st, o =>
    o = .called ((callSeq log e st).map (fun r => r.l))
          (st || (callSeq log e st).any (fun r => r.l.stops))
  | .dispatchN e n, o =>
    o = .called ((callSeqN log e n).map (fun r => r.l))
          ((callSeqN log e n).any (fun r => r.l.stops) || decide (n ≤ (callSeqN log e n).length))
  | .hasListeners (some e), o => o = .bool (!(regsFor log e).isEmpty)
  | .hasListeners none, o => o = .bool (!log.isEmpty)
  | .getListeners (some e), o => o = .list ((specOrder log e).map (fun r => r.l))
  | .getListeners none, o => ∃ d, o = .dict d ∧ (d.map Prod.fst).Nodup ∧
      ∀ e, dictGet? e d = if (regsFor log e).isEmpty then none
                           else some ((specOrder log e).map (fun r => r.l))
  | .getPriority e l, o => ∃ r, o = .prio r ∧ (r = none ↔ ∀ x ∈ regsFor log e, x.l ≠ l) ∧
      ∀ p, r = some p → ∃ x ∈ regsFor log e, x.l = l ∧ x.prio = p

/-- `outs` are acceptable outputs for `ops` run after the registrations `log` -/
def AgreesAll : List Reg → List Op → List Out → Prop
  | _, [], [] => True
  | log, op :: ops, o :: os => Agrees log op o ∧ AgreesAll (log ++ regOf op) ops os
  | _, _, _ => False

/-- operations whose acceptable output is unique (everything except the dict-valued
`get_listeners()` and `get_listener_priority`, see `Agrees`) -/
def determined : Op → Bool
  | .getListeners none => false
  | .getPriority _ _ => false
  | _ => true

theorem step_agrees {s : State} {log : List Reg} (h : Inv s log) (op : Op) :
    ∃ s' o, step s op = .ok (s', o) ∧ Inv s' (log ++ regOf op) ∧ Agrees log op o := by
  cases op with
  | add e l p =>
    refine ⟨addSimple s e l p, .unit, ?_, h.add e l p, rfl⟩
    simp [step, addListener_eq, bind, Except.bind, pure, Except.pure]
  | dispatch e st =>
    obtain ⟨s', h1, h2⟩ := h.dispatch e st
    refine ⟨s', _, ?_, by simpa [regOf] using h2, rfl⟩
    simp [step, h1, bind, Except.bind, pure, Except.pure]
  | dispatchN e n =>
    obtain ⟨s', h1, h2⟩ := h.dispatchN e n
    refine ⟨s', _, ?_, by simpa [regOf] using h2, rfl⟩
    simp [step, h1, bind, Except.bind, pure, Except.pure]
  | hasListeners eo =>
    cases eo with
    | none =>
      exact ⟨s, _, rfl, by simpa [regOf] using h, by simp [Agrees, h.hasAnyListeners]⟩
    | some e =>
      refine ⟨s, _, ?_, by simpa [regOf] using h, rfl⟩
      simp [step, h.hasListeners e, bind, Except.bind, pure, Except.pure]
  | getListeners eo =>
    cases eo with
    | none =>
      obtain ⟨s', d, h1, h2, h3, h4⟩ := h.getAllListeners
      refine ⟨s', .dict d, ?_, by simpa [regOf] using h2, d, rfl, h3, h4⟩
      simp [step, h1, bind, Except.bind, pure, Except.pure]
    | some e =>
      obtain ⟨s', h1, h2⟩ := h.getListeners e
      refine ⟨s', _, ?_, by simpa [regOf] using h2, rfl⟩
      simp [step, h1, bind, Except.bind, pure, Except.pure]
  | getPriority e l =>
    obtain ⟨r, h1, h2, h3⟩ := h.getPriority e l
    refine ⟨s, .prio r, ?_, by simpa [regOf] using h, r, rfl, h2, h3⟩
    simp [step, h1, bind, Except.bind, pure, Except.pure]

theorem logOf_cons (op : Op) (ops : List Op) : logOf (op :: ops) = regOf op ++ logOf ops := by
  simp [logOf]

theorem logOf_append (a b : List Op) : logOf (a ++ b) = logOf a ++ logOf b := by
  simp [logOf]

/-- Refinement over ALL histories: from any state representing `log`, running `ops` raises
nothing, ends in a state representing the extended log, and every output is acceptable. -/
theorem run_agrees : ∀ (ops : List Op) (s : State) (log : List Reg), Inv s log →
    ∃ s' outs, run s ops = .ok (s', outs) ∧ Inv s' (log ++ logOf ops) ∧ AgreesAll log ops outs
  | [], s, log, h => ⟨s, [], rfl, by simpa [logOf] using h, trivial⟩
  | op :: ops, s, log, h => by
    obtain ⟨s1, o, h1, h2, h3⟩ := step_agrees h op
    obtain ⟨s2, os, r1, r2, r3⟩ := run_agrees ops s1 _ h2
    refine ⟨s2, o :: os, ?_, ?_, h3, r3⟩
    · simp [run, h1, r1, bind, Except.bind, pure, Except.pure]
    · simpa [logOf_cons, List.append_assoc] using r2

theorem AgreesAll.length : ∀ {log : List Reg} {ops : List Op} {outs : List Out},
    AgreesAll log ops outs → outs.length = ops.length
  | _, [], [], _ => rfl
  | _, [], _ :: _, h => by simp [AgreesAll] at h
  | _, _ :: _, [], h => by simp [AgreesAll] at h
  | _, _ :: _, _ :: _, h => by simp [AgreesAll.length h.2]

/-- the output at a position is acceptable w.r.t. the registrations made before it -/
theorem AgreesAll.at : ∀ {log : List Reg} (pre : List Op) {op : Op} {post : List Op} {outs : List Out},
    AgreesAll log (pre ++ op :: post) outs →
    ∃ o, outs[pre.length]? = some o ∧ Agrees (log ++ logOf pre) op o
  | log, [], op, post, [], h => by simp [AgreesAll] at h
  | log, [], op, post, o :: os, h => ⟨o, by simp, by simpa [logOf] using h.1⟩
  | log, p :: pre, op, post, [], h => by simp [AgreesAll] at h
  | log, p :: pre, op, post, o :: os, h => by
    obtain ⟨o', h1, h2⟩ := AgreesAll.at pre h.2
    exact ⟨o', by simpa using h1, by simpa [logOf_cons, List.append_assoc] using h2⟩

theorem mem_events : ∀ {log : List Reg} {e : Nat}, e ∈ events log ↔ ∃ r ∈ log, r.ev = e
  | [], e => by simp [events]
  | r :: t, e => by
    simp only [events, List.mem_cons, List.mem_filter, bne_iff_ne, ne_eq, mem_events (log := t),
      exists_eq_or_imp]
    constructor
    · rintro (h | ⟨h, _⟩)
      · exact Or.inl h.symm
      · exact Or.inr h
    · rintro (h | h)
      · exact Or.inl h.symm
      · by_cases he : e = r.ev
        · exact Or.inl he
        · exact Or.inr ⟨h, he⟩

theorem nodup_events : ∀ log : List Reg, (events log).Nodup
  | [] => by simp [events]
  | r :: t => by
    simp only [events, List.nodup_cons, List.mem_filter, bne_self_eq_false, Bool.false_eq_true,
      and_false, not_false_eq_true, true_and]
    exact List.Nodup.sublist List.filter_sublist (nodup_events t)

theorem dictGet?_tabulate {ν : Type} (f : Nat → ν) (e : Nat) : ∀ l : List Nat,
    dictGet? e (l.map (fun k => (k, f k))) = if e ∈ l then some (f e) else none
  | [] => by simp [dictGet?]
  | k :: t => by
    by_cases h : k = e
    · subst h; simp [dictGet?]
    · have h' : ¬ e = k := fun x => h x.symm
      simp [dictGet?, h, h', dictGet?_tabulate f e t]

/-- the executable specification is an acceptable output -/
theorem specOut_agrees (log : List Reg) (op : Op) : Agrees log op (specOut log op) := by
  cases op with
  | add e l p => rfl
  | dispatch e st => rfl
  | dispatchN e n => rfl
  | hasListeners eo => cases eo <;> rfl
  | getListeners eo =>
    cases eo with
    | some e => rfl
    | none =>
      refine ⟨_, rfl, ?_, ?_⟩
      · simpa [Function.comp_def] using nodup_events log
      · intro e
        rw [dictGet?_tabulate (fun e => (specOrder log e).map (fun r => r.l))]
        have : e ∈ events log ↔ ¬ (regsFor log e).isEmpty = true := by
          rw [mem_events, List.isEmpty_iff]
          constructor
          · rintro ⟨r, hr, he⟩ hn
            have : r ∈ regsFor log e := mem_regsFor.2 ⟨hr, he⟩
            simp [hn] at this
          · intro hn
            cases hr : regsFor log e with
            | nil => exact absurd hr hn
            | cons r t =>
              have : r ∈ regsFor log e := by simp [hr]
              exact ⟨r, (mem_regsFor.1 this).1, (mem_regsFor.1 this).2⟩
        by_cases he : e ∈ events log
        · simp [he, this.1 he]
        · have : (regsFor log e).isEmpty = true := by
            cases hh : (regsFor log e).isEmpty
            · exact absurd (this.2 (by simp [hh])) he
            · rfl
          simp [he, this]
  | getPriority e l =>
    refine ⟨_, rfl, ?_, ?_⟩
    · rw [Option.map_eq_none_iff, List.find?_eq_none]
      simp
    · intro p hp
      rw [Option.map_eq_some_iff] at hp
      obtain ⟨x, hx, rfl⟩ := hp
      exact ⟨x, List.mem_of_find?_eq_some hx, by simpa using List.find?_some hx, rfl⟩

end Dispatcher
end Clikit
