import Clikit.Model.Markup
import Clikit.Lemmas.C11Style
/-!
Lemmas about the style-stack run of pastel's tag machine (C11), and the notion of a balanced
token list the property statement speaks about.
-/
namespace Clikit.Markup
open Clikit Clikit.Style

/-- no token text (and no tag name) contains an escape byte -/
def EscFree (toks : List Tok) : Prop := ∀ t ∈ toks, ESC ∉ t.lit

/-- Balanced style tags, relative to what the tags denote: text and tags that are no styles
anywhere; an opening style tag is closed by `</>` or by a tag denoting an equal style, with a
balanced body in between. -/
inductive Balanced (rv : Resolver) : List Tok → Prop
  | nil : Balanced rv []
  | text (s : Str) (r : List Tok) : Balanced rv r → Balanced rv (.text s :: r)
  | unknownOpen (t : Str) (r : List Tok) : rv t = .unknown → Balanced rv r → Balanced rv (.open t :: r)
  | unknownClose (t : Str) (r : List Tok) : rv t = .unknown → Balanced rv r → Balanced rv (.close t :: r)
  | pair (t t' : Str) (p p' : PastelStyle) (body r : List Tok) :
      rv t = .style p → rv t' = .style p' → p'.eqv p = true →
      Balanced rv body → Balanced rv r → Balanced rv (.open t :: (body ++ .close t' :: r))
  | pairAny (t : Str) (p : PastelStyle) (body r : List Tok) :
      rv t = .style p → Balanced rv body → Balanced rv r →
      Balanced rv (.open t :: (body ++ .closeAny :: r))

/-- `stripAnsi` on the output of a run -/
def stripRes : Except Err (Str × Stack) → Except Err (Str × Stack)
  | .ok (o, st) => .ok (stripAnsi o, st)
  | .error e => .error e

theorem applyCur_false (st : Stack) (s : Str) : applyCur false st s = s := by
  simp [applyCur]

theorem strip_applyCur (st : Stack) (s : Str) (h : ESC ∉ s) (rest : Str) :
    stripAnsi (applyCur true st s ++ rest) = s ++ stripAnsi rest := by
  unfold applyCur
  split
  · exact stripAnsi_wrap _ s h rest
  · exact stripAnsi_text s h rest

theorem EscFree.tail {t : Tok} {r : List Tok} (h : EscFree (t :: r)) : EscFree r :=
  fun x hx => h x (List.mem_cons_of_mem _ hx)

theorem EscFree.head {t : Tok} {r : List Tok} (h : EscFree (t :: r)) : ESC ∉ t.lit :=
  h t (by simp)

/-- deleting the escape sequences of a colorized run gives the non-colorized run: same text, same
final stack, same error -/
theorem render_strip (rv : Resolver) : ∀ (toks : List Tok) (st : Stack), EscFree toks →
    stripRes (render rv true st toks) = render rv false st toks := by
  intro toks
  induction toks with
  | nil => intro st _; simp [render, stripRes, stripAnsi, stripAux]
  | cons tok r ih =>
    intro st hf
    have hr := hf.tail
    have hl := hf.head
    cases tok with
    | text s =>
      simp only [render]
      rw [← ih st hr]
      cases render rv true st r with
      | error e => simp [stripRes]
      | ok p =>
        obtain ⟨o, st'⟩ := p
        simp only [stripRes, applyCur_false]
        rw [strip_applyCur st s hl]
    | «open» t =>
      simp only [render]
      cases rv t with
      | invalid => simp [stripRes]
      | unknown =>
        simp only []
        rw [← ih st hr]
        cases render rv true st r with
        | error e => simp [stripRes]
        | ok p =>
          obtain ⟨o, st'⟩ := p
          simp only [stripRes, applyCur_false]
          rw [strip_applyCur st _ hl]
      | style p => simp only []; exact ih (p :: st) hr
    | close t =>
      simp only [render]
      cases rv t with
      | invalid => simp [stripRes]
      | unknown =>
        simp only []
        rw [← ih st hr]
        cases render rv true st r with
        | error e => simp [stripRes]
        | ok p =>
          obtain ⟨o, st'⟩ := p
          simp only [stripRes, applyCur_false]
          rw [strip_applyCur st _ hl]
      | style p =>
        simp only []
        cases popStyle p st with
        | error e => simp [stripRes]
        | ok st1 => simp only []; exact ih st1 hr
    | closeAny =>
      simp only [render]
      exact ih st.tail hr

/-- what a non-colorized run prints is `texts` -/
theorem render_plain_texts (rv : Resolver) : ∀ (toks : List Tok) (st : Stack) (o : Str) (st' : Stack),
    render rv false st toks = .ok (o, st') → o = texts rv toks := by
  intro toks
  induction toks with
  | nil => intro st o st' h; simp [render] at h; simp [texts, h.1]
  | cons tok r ih =>
    intro st o st' h
    cases tok with
    | text s =>
      simp only [render] at h
      cases hr : render rv false st r with
      | error e => simp [hr] at h
      | ok p =>
        obtain ⟨o1, s1⟩ := p
        simp only [hr, applyCur_false, Except.ok.injEq, Prod.mk.injEq] at h
        rw [← h.1, ih st o1 s1 hr]; rfl
    | «open» t =>
      simp only [render] at h
      simp only [texts]
      cases hv : rv t with
      | invalid => simp [hv] at h
      | unknown =>
        simp only [hv] at h
        cases hr : render rv false st r with
        | error e => simp [hr] at h
        | ok p =>
          obtain ⟨o1, s1⟩ := p
          simp only [hr, applyCur_false, Except.ok.injEq, Prod.mk.injEq] at h
          rw [← h.1, ih st o1 s1 hr]
      | style p =>
        simp only [hv] at h
        simpa using ih (p :: st) o st' h
    | close t =>
      simp only [render] at h
      simp only [texts]
      cases hv : rv t with
      | invalid => simp [hv] at h
      | unknown =>
        simp only [hv] at h
        cases hr : render rv false st r with
        | error e => simp [hr] at h
        | ok p =>
          obtain ⟨o1, s1⟩ := p
          simp only [hr, applyCur_false, Except.ok.injEq, Prod.mk.injEq] at h
          rw [← h.1, ih st o1 s1 hr]
      | style p =>
        simp only [hv] at h
        cases hp : popStyle p st with
        | error e => simp [hp] at h
        | ok st1 =>
          simp only [hp] at h
          simpa using ih st1 o st' h
    | closeAny =>
      simp only [render] at h
      simpa [texts] using ih st.tail o st' h

/-- every character of `texts` comes from a text token or from a tag that is no style -/
theorem texts_mem (rv : Resolver) : ∀ (toks : List Tok) (c : Char), c ∈ texts rv toks →
    ∃ t ∈ toks, c ∈ t.lit ∧ (t.isTag = true → ∃ n, (t = .open n ∨ t = .close n) ∧ rv n = .unknown) := by
  intro toks
  induction toks with
  | nil => intro c h; simp [texts] at h
  | cons tok r ih =>
    intro c h
    have lift : (∃ t ∈ r, c ∈ t.lit ∧ (t.isTag = true → ∃ n, (t = .open n ∨ t = .close n) ∧ rv n = .unknown)) →
        ∃ t ∈ tok :: r, c ∈ t.lit ∧ (t.isTag = true → ∃ n, (t = .open n ∨ t = .close n) ∧ rv n = .unknown) := by
      rintro ⟨t, ht, h1, h2⟩
      exact ⟨t, List.mem_cons_of_mem _ ht, h1, h2⟩
    cases tok with
    | text s =>
      simp only [texts] at h
      rcases List.mem_append.mp h with h | h
      · exact ⟨.text s, by simp, h, by simp [Tok.isTag]⟩
      · exact lift (ih c h)
    | «open» t =>
      simp only [texts] at h
      rcases List.mem_append.mp h with h | h
      · cases hv : rv t with
        | unknown =>
          rw [hv] at h
          exact ⟨.open t, by simp, h, fun _ => ⟨t, Or.inl rfl, hv⟩⟩
        | invalid => rw [hv] at h; simp at h
        | style p => rw [hv] at h; simp at h
      · exact lift (ih c h)
    | close t =>
      simp only [texts] at h
      rcases List.mem_append.mp h with h | h
      · cases hv : rv t with
        | unknown =>
          rw [hv] at h
          exact ⟨.close t, by simp, h, fun _ => ⟨t, Or.inr rfl, hv⟩⟩
        | invalid => rw [hv] at h; simp at h
        | style p => rw [hv] at h; simp at h
      · exact lift (ih c h)
    | closeAny =>
      simp only [texts] at h
      exact lift (ih c h)

/-- a run over `a ++ b` is the run over `a` followed by the run over `b` on the stack `a` left -/
theorem render_append (rv : Resolver) (col : Bool) : ∀ (a : List Tok) (st : Stack) (b : List Tok),
    render rv col st (a ++ b) =
      match render rv col st a with
      | .ok (o1, s1) =>
        match render rv col s1 b with
        | .ok (o2, s2) => .ok (o1 ++ o2, s2)
        | .error e => .error e
      | .error e => .error e := by
  intro a
  induction a with
  | nil =>
    intro st b
    simp only [List.nil_append, render]
    cases render rv col st b with
    | error e => rfl
    | ok p => obtain ⟨o, s⟩ := p; simp
  | cons tok r ih =>
    intro st b
    cases tok with
    | text s =>
      simp only [List.cons_append, render, ih st b]
      cases render rv col st r with
      | error e => rfl
      | ok p =>
        obtain ⟨o1, s1⟩ := p
        simp only []
        cases render rv col s1 b with
        | error e => rfl
        | ok q => obtain ⟨o2, s2⟩ := q; simp
    | «open» t =>
      simp only [List.cons_append, render]
      cases rv t with
      | invalid => rfl
      | unknown =>
        simp only [ih st b]
        cases render rv col st r with
        | error e => rfl
        | ok p =>
          obtain ⟨o1, s1⟩ := p
          simp only []
          cases render rv col s1 b with
          | error e => rfl
          | ok q => obtain ⟨o2, s2⟩ := q; simp
      | style p => simp only [ih (p :: st) b]
    | close t =>
      simp only [List.cons_append, render]
      cases rv t with
      | invalid => rfl
      | unknown =>
        simp only [ih st b]
        cases render rv col st r with
        | error e => rfl
        | ok p =>
          obtain ⟨o1, s1⟩ := p
          simp only []
          cases render rv col s1 b with
          | error e => rfl
          | ok q => obtain ⟨o2, s2⟩ := q; simp
      | style p =>
        simp only []
        cases popStyle p st with
        | error e => rfl
        | ok st1 => simp only [ih st1 b]
    | closeAny =>
      simp only [List.cons_append, render, ih st.tail b]

theorem popStyle_top (p p' : PastelStyle) (st : Stack) (h : p'.eqv p = true) :
    popStyle p' (p :: st) = .ok st := by
  simp [popStyle, dropThrough, h]

/-- a balanced token list is accepted in either mode and leaves the stack as it found it -/
theorem balanced_run (rv : Resolver) (col : Bool) (toks : List Tok) (hb : Balanced rv toks) :
    ∀ st, ∃ o, render rv col st toks = .ok (o, st) := by
  induction hb with
  | nil => intro st; exact ⟨[], rfl⟩
  | text s r _ ih =>
    intro st
    obtain ⟨o, h⟩ := ih st
    exact ⟨applyCur col st s ++ o, by simp only [render, h]⟩
  | unknownOpen t r hv _ ih =>
    intro st
    obtain ⟨o, h⟩ := ih st
    exact ⟨applyCur col st (Tok.open t).lit ++ o, by simp only [render, hv, h]⟩
  | unknownClose t r hv _ ih =>
    intro st
    obtain ⟨o, h⟩ := ih st
    exact ⟨applyCur col st (Tok.close t).lit ++ o, by simp only [render, hv, h]⟩
  | pair t t' p p' body r hv hv' he _ _ ihb ihr =>
    intro st
    obtain ⟨o1, h1⟩ := ihb (p :: st)
    obtain ⟨o2, h2⟩ := ihr st
    refine ⟨o1 ++ o2, ?_⟩
    simp only [render, hv, render_append, h1, hv', popStyle_top p p' st he, h2]
  | pairAny t p body r hv _ _ ihb ihr =>
    intro st
    obtain ⟨o1, h1⟩ := ihb (p :: st)
    obtain ⟨o2, h2⟩ := ihr st
    refine ⟨o1 ++ o2, ?_⟩
    simp only [render, hv, render_append, h1, List.tail_cons, h2]

end Clikit.Markup
