import Clikit.Model.Table
import Clikit.Lemmas.Wrap
/-!
Lemmas about the table model (C14).  Core Lean only.
-/
namespace Clikit.Table
open Clikit.Wrap

/-! ### strings -/

theorem splitLines_ne_nil (s : Str) : splitLines s ≠ [] := by
  induction s with
  | nil => simp [splitLines]
  | cons c r ih =>
    rw [splitLines]
    split
    · simp
    · split <;> simp

theorem splitLines_len_le (s : Str) : ∀ l ∈ splitLines s, l.length ≤ s.length := by
  induction s with
  | nil => intro l hl; simp [splitLines] at hl; simp [hl]
  | cons c r ih =>
    intro l hl
    rw [splitLines] at hl
    split at hl
    · rcases List.mem_cons.mp hl with h | h
      · simp [h]
      · have := ih l h; simp only [List.length_cons]; omega
    · split at hl
      · rename_i l0 ls heq
        rcases List.mem_cons.mp hl with h | h
        · have := ih l0 (by rw [heq]; exact List.mem_cons_self)
          subst h; simp only [List.length_cons]; omega
        · have := ih l (by rw [heq]; exact List.mem_cons_of_mem _ h)
          simp only [List.length_cons]; omega
      · simp at hl; subst hl; simp

theorem nonblank_cons_nl (s : Str) : nonblank ('\n' :: s) = nonblank s := by
  simp [nonblank, isWs]

theorem nonblank_flatten_splitLines (s : Str) : nonblank (splitLines s).flatten = nonblank s := by
  induction s with
  | nil => rfl
  | cons c r ih =>
    rw [splitLines]
    split
    · rename_i hc
      have : c = '\n' := by simpa using hc
      subst this
      simp only [List.flatten_cons, List.nil_append, ih, nonblank_cons_nl]
    · split
      · rename_i l0 ls heq
        rw [heq] at ih
        simp only [List.flatten_cons, List.cons_append] at ih ⊢
        simp only [nonblank, List.filter_cons] at ih ⊢
        rw [ih]
      · rename_i heq
        exact absurd heq (splitLines_ne_nil r)

theorem nonblank_joinLines (ls : List Str) : nonblank (joinLines ls) = nonblank ls.flatten := by
  induction ls with
  | nil => rfl
  | cons l r ih =>
    cases r with
    | nil => simp [joinLines]
    | cons l2 r2 =>
      rw [joinLines, nonblank_append, nonblank_cons_nl, ih, List.flatten_cons (l := l),
        nonblank_append]

theorem splitLines_append_nl (a b : Str) :
    splitLines (a ++ '\n' :: b) = splitLines a ++ splitLines b := by
  induction a with
  | nil => simp [splitLines]
  | cons c r ih =>
    rw [List.cons_append, splitLines, splitLines]
    split
    · simp [ih]
    · rw [ih]
      cases h : splitLines r with
      | nil => exact absurd h (splitLines_ne_nil r)
      | cons l ls => simp

theorem listMax_le (xs : List Nat) (w : Nat) (h : ∀ x ∈ xs, x ≤ w) : listMax xs ≤ w := by
  induction xs with
  | nil => simp [listMax]
  | cons x r ih =>
    have h1 := h x List.mem_cons_self
    have h2 := ih (fun y hy => h y (List.mem_cons_of_mem _ hy))
    simp only [listMax]; omega

theorem le_listMax (xs : List Nat) (x : Nat) (h : x ∈ xs) : x ≤ listMax xs := by
  induction xs with
  | nil => simp at h
  | cons y r ih =>
    simp only [listMax]
    rcases List.mem_cons.mp h with h | h
    · subst h; omega
    · have := ih h; omega

theorem lines_le_maxLineLen (s : Str) : ∀ l ∈ splitLines s, l.length ≤ maxLineLen s := by
  intro l hl
  exact le_listMax _ _ (List.mem_map.mpr ⟨l, hl, rfl⟩)

theorem lines_joinLines_le (ls : List Str) (w : Nat) (h : ∀ l ∈ ls, l.length ≤ w) :
    ∀ x ∈ splitLines (joinLines ls), x.length ≤ w := by
  induction ls with
  | nil => intro x hx; simp [joinLines, splitLines] at hx; simp [hx]
  | cons l r ih =>
    cases r with
    | nil =>
      intro x hx
      have := splitLines_len_le l x (by simpa [joinLines] using hx)
      have := h l List.mem_cons_self
      omega
    | cons l2 r2 =>
      intro x hx
      rw [joinLines, splitLines_append_nl] at hx
      rcases List.mem_append.mp hx with hx | hx
      · have := splitLines_len_le l x hx
        have := h l List.mem_cons_self
        omega
      · exact ih (fun y hy => h y (List.mem_cons_of_mem _ hy)) x hx

theorem maxLineLen_joinLines_le (ls : List Str) (w : Nat) (h : ∀ l ∈ ls, l.length ≤ w) :
    maxLineLen (joinLines ls) ≤ w := by
  apply listMax_le
  intro x hx
  obtain ⟨l, hl, rfl⟩ := List.mem_map.mp hx
  exact lines_joinLines_le ls w h l hl

theorem filter_dropWhile_ws (l : Str) :
    (l.dropWhile isWs).filter (fun c => !isWs c) = l.filter (fun c => !isWs c) := by
  induction l with
  | nil => rfl
  | cons c r ih =>
    rw [List.dropWhile_cons]
    cases h : isWs c <;> simp [h, ih]

theorem nonblank_rstrip (s : Str) : nonblank (rstrip s) = nonblank s := by
  unfold nonblank rstrip
  rw [List.filter_reverse, filter_dropWhile_ws, ← List.filter_reverse, List.reverse_reverse]

theorem rstrip_length_le (s : Str) : (rstrip s).length ≤ s.length := by
  unfold rstrip
  rw [List.length_reverse]
  have := (List.dropWhile_sublist (p := isWs) (l := s.reverse)).length_le
  simpa using this

theorem rstrip_of_last (a : Str) (c : Char) (h : isWs c = false) : rstrip (a ++ [c]) = a ++ [c] := by
  unfold rstrip
  simp [h]

theorem dropWhile_all {α} (p : α → Bool) (l : List α) (h : ∀ x ∈ l, p x = true) :
    l.dropWhile p = [] := by
  induction l with
  | nil => rfl
  | cons x r ih =>
    rw [List.dropWhile_cons, h x List.mem_cons_self]
    exact ih (fun y hy => h y (List.mem_cons_of_mem _ hy))

theorem rstrip_all_ws (s : Str) (h : ∀ c ∈ s, isWs c = true) : rstrip s = [] := by
  unfold rstrip
  have : s.reverse.dropWhile isWs = [] :=
    dropWhile_all _ _ (fun c hc => h c (List.mem_reverse.mp hc))
  simp [this]

/-! ### the short/long split -/

theorem countLong_le_length (ls : List LCol) : countLong ls ≤ ls.length := by
  induction ls with
  | nil => simp [countLong]
  | cons x r ih =>
    obtain ⟨l, b⟩ := x
    cases b <;> simp only [countLong, List.length_cons] <;> omega

/-- One pass of the split.  `q` bounds the short lengths (`q = a0 / n`).  No subtraction
underflows (`l ≤ q ≤ a`); the budget `countLong * q (+ e) ≤ a` is kept. -/
theorem splitPass_inv (n a0 q : Nat) (hq : ∀ l, l * n ≤ a0 → l ≤ q) :
    ∀ (ls : List LCol) (a e : Nat), countLong ls * q + e ≤ a →
      (splitPass n a0 ls a).2.1 + shortSum (splitPass n a0 ls a).1 = a + shortSum ls ∧
      countLong (splitPass n a0 ls a).1 * q + e ≤ (splitPass n a0 ls a).2.1 ∧
      countLong (splitPass n a0 ls a).1 ≤ countLong ls ∧
      (q = 0 → (splitPass n a0 ls a).2.1 = a) ∧
      (splitPass n a0 ls a).1.map Prod.fst = ls.map Prod.fst ∧
      ((splitPass n a0 ls a).2.2 = true → countLong (splitPass n a0 ls a).1 < countLong ls) ∧
      ((splitPass n a0 ls a).2.2 = false →
          (splitPass n a0 ls a).1 = ls ∧ (splitPass n a0 ls a).2.1 = a) ∧
      (∀ l, (l, true) ∈ (splitPass n a0 ls a).1 → (l, true) ∈ ls ∧ ¬ l * n ≤ a0) := by
  intro ls
  induction ls with
  | nil => intro a e h; simp [splitPass, countLong, shortSum] at h ⊢; exact h
  | cons x r ih =>
    intro a e h
    obtain ⟨l, b⟩ := x
    cases b with
    | false =>
      simp only [countLong] at h
      obtain ⟨i1, i2, i3, i4, i5, i6, i7, i8⟩ := ih a e h
      simp only [splitPass, countLong, shortSum, List.map_cons, i5]
      refine ⟨by omega, i2, i3, i4, trivial, i6, ?_, ?_⟩
      · intro hr; obtain ⟨e1, e2⟩ := i7 hr; exact ⟨by rw [e1], e2⟩
      · intro l' hl'
        simp only [List.mem_cons, Prod.mk.injEq, Bool.true_eq_false, and_false, false_or] at hl' ⊢
        exact i8 l' hl'
    | true =>
      simp only [countLong, Nat.add_mul, Nat.one_mul] at h
      by_cases hc : l * n ≤ a0
      · have hlq := hq l hc
        obtain ⟨i1, i2, i3, i4, i5, i6, i7, i8⟩ := ih (a - l) e (by omega)
        simp only [splitPass, hc, if_true, countLong, shortSum, List.map_cons, i5]
        refine ⟨by omega, i2, by omega, ?_, trivial, ?_, ?_, ?_⟩
        · intro hq0; have := i4 hq0; omega
        · intro _; omega
        · intro hr; simp at hr
        · intro l' hl'
          simp only [List.mem_cons, Prod.mk.injEq, Bool.true_eq_false, and_false, false_or] at hl'
          obtain ⟨e1, e2⟩ := i8 l' hl'
          exact ⟨List.mem_cons_of_mem _ e1, e2⟩
      · obtain ⟨i1, i2, i3, i4, i5, i6, i7, i8⟩ := ih a (q + e) (by omega)
        simp only [splitPass, hc, if_false, countLong, shortSum, List.map_cons, i5, Nat.add_mul,
          Nat.one_mul]
        refine ⟨i1, by omega, by omega, i4, trivial, ?_, ?_, ?_⟩
        · intro hr; have := i6 hr; omega
        · intro hr; obtain ⟨e1, e2⟩ := i7 hr; exact ⟨by rw [e1], e2⟩
        · intro l' hl'
          rcases List.mem_cons.mp hl' with h1 | h1
          · have : l' = l := by simpa using h1
            subst this; exact ⟨List.mem_cons_self, hc⟩
          · obtain ⟨e1, e2⟩ := i8 l' h1
            exact ⟨List.mem_cons_of_mem _ e1, e2⟩

/-- The `while repeat` loop terminates within the fuel and leaves at least one character
per remaining long column. -/
theorem splitLoop_inv (n : Nat) (hn : 1 ≤ n) :
    ∀ (f : Nat) (ls : List LCol) (a : Nat), ls.length = n → countLong ls < f → countLong ls ≤ a →
      ∃ ls' a', splitLoop n f ls a = .ok (ls', a') ∧
        a' + shortSum ls' = a + shortSum ls ∧ countLong ls' ≤ a' ∧
        ls'.map Prod.fst = ls.map Prod.fst ∧
        (∀ l, (l, true) ∈ ls' → (l, true) ∈ ls ∧ ¬ l * n ≤ a) := by
  intro f
  induction f with
  | zero => intro ls a _ h; omega
  | succ f ih =>
    intro ls a hlen hf hcnt
    have hq : ∀ l, l * n ≤ a → l ≤ a / n := fun l h => (Nat.le_div_iff_mul_le (by omega)).mpr h
    have h1 : countLong ls ≤ n := hlen ▸ countLong_le_length ls
    have h2 : countLong ls * (a / n) ≤ n * (a / n) := Nat.mul_le_mul_right _ h1
    have h3 : n * (a / n) ≤ a := Nat.mul_div_le a n
    generalize a / n = q at *
    obtain ⟨i1, i2, i3, i4, i5, i6, i7, i8⟩ := splitPass_inv n a q hq ls a 0 (by omega)
    rw [splitLoop]
    generalize splitPass n a ls a = p at *
    cases hrep : p.2.2 with
    | true =>
      simp only [if_true]
      have hlen' : p.1.length = n := by
        have := congrArg List.length i5
        simpa [hlen] using this
      have hcnt' : countLong p.1 ≤ p.2.1 := by
        by_cases hq0 : q = 0
        · have := i4 hq0; omega
        · have : countLong p.1 ≤ countLong p.1 * q := Nat.le_mul_of_pos_right _ (by omega)
          omega
      obtain ⟨ls', a', e1, e2, e3, e4, e5⟩ := ih p.1 p.2.1 hlen' (by have := i6 hrep; omega) hcnt'
      refine ⟨ls', a', e1, by omega, e3, by rw [e4, i5], ?_⟩
      intro l hl
      exact i8 l (e5 l hl).1
    | false =>
      simp only [Bool.false_eq_true, if_false]
      obtain ⟨e1, e2⟩ := i7 hrep
      refine ⟨p.1, p.2.1, rfl, i1, by rw [e1, e2]; exact hcnt, i5, i8⟩

/-! ### wrapping one column -/

/-- the cell `_wrap_column` leaves when `textwrap` does not raise -/
def wrapCellP (w : Nat) (c : Cell) : Cell :=
  if c.len > w then ⟨joinLines (wrap w c.text), maxLineLen (joinLines (wrap w c.text))⟩ else c

/-- every line of the cell fits the recorded cell length -/
def CellOk (c : Cell) : Prop := ∀ l ∈ splitLines c.text, l.length ≤ c.len

theorem wrapCell_ok (w : Nat) (hw : 1 ≤ w) (c : Cell) : wrapCell w c = .ok (wrapCellP w c) := by
  unfold wrapCell wrapCellP
  split
  · rw [wrapE_ok w hw]; rfl
  · rfl

theorem wrapColumn_ok (w : Nat) (hw : 1 ≤ w) (col : Column) :
    wrapColumn w col = .ok (col.map (wrapCellP w)) := by
  induction col with
  | nil => rfl
  | cons c r ih => simp only [wrapColumn, wrapCell_ok w hw, ih, List.map_cons]; rfl

theorem wrapCellP_len (w : Nat) (c : Cell) : (wrapCellP w c).len ≤ w := by
  unfold wrapCellP
  split
  · exact maxLineLen_joinLines_le _ _ (wrap_len w c.text)
  · omega

theorem wrapCellP_cellOk (w : Nat) (c : Cell) (h : CellOk c) : CellOk (wrapCellP w c) := by
  unfold wrapCellP
  split
  · exact lines_le_maxLineLen _
  · exact h

theorem wrapCellP_text (w : Nat) (hw : 1 ≤ w) (c : Cell) :
    nonblank (splitLines (wrapCellP w c).text).flatten = nonblank c.text := by
  unfold wrapCellP
  split
  · simp only
    rw [nonblank_flatten_splitLines, nonblank_joinLines, wrap_content w hw]
  · exact nonblank_flatten_splitLines _

theorem mkCell_cellOk (s : Str) : CellOk (mkCell s) := splitLines_len_le _

theorem mkCell_text (s : Str) : nonblank (splitLines (mkCell s).text).flatten = nonblank s := by
  simp only [mkCell]
  rw [nonblank_flatten_splitLines, nonblank_rstrip]

theorem colLen_le (col : Column) (w : Nat) (h : ∀ c ∈ col, c.len ≤ w) : colLen col ≤ w := by
  apply listMax_le
  intro x hx
  obtain ⟨c, hc, rfl⟩ := List.mem_map.mp hx
  exact h c hc

theorem len_le_colLen (col : Column) (c : Cell) (h : c ∈ col) : c.len ≤ colLen col :=
  le_listMax _ _ (List.mem_map.mpr ⟨c, h, rfl⟩)

/-! ### the width distribution -/

/-- what the distribution loop does with one column -/
def DistRel (e : LCol × Column) (o : ColOut) : Prop :=
  (e.1.2 = false → o = ⟨none, e.1.1, e.2⟩) ∧
  (e.1.2 = true → ∃ w, o.assigned = some w ∧ 1 ≤ w ∧ o.cells = e.2.map (wrapCellP w) ∧
      o.width = colLen o.cells ∧ o.width ≤ w)

theorem distribute_inv (share : Nat → Nat → Nat → Nat) :
    ∀ (es : List (LCol × Column)) (av ac : Nat),
      countLong (es.map (·.1)) ≤ av → longSum (es.map (·.1)) ≤ ac →
      (∀ e ∈ es, e.1.2 = true → 1 ≤ e.1.1) →
      ∃ outs, distribute share es av ac = .ok outs ∧ outs.length = es.length ∧
        (outs.map (·.width)).sum ≤ av + shortSum (es.map (·.1)) ∧
        ∀ p ∈ es.zip outs, DistRel p.1 p.2 := by
  intro es
  induction es with
  | nil => intro av ac _ _ _; exact ⟨[], rfl, rfl, by simp [shortSum], by simp⟩
  | cons e r ih =>
    intro av ac hcnt hsum hpos
    obtain ⟨⟨l, b⟩, col⟩ := e
    have hpos' : ∀ e ∈ r, e.1.2 = true → 1 ≤ e.1.1 := fun e he => hpos e (List.mem_cons_of_mem _ he)
    cases b with
    | false =>
      simp only [List.map_cons, countLong, longSum, shortSum] at hcnt hsum ⊢
      obtain ⟨outs, h1, h2, h3, h4⟩ := ih av ac hcnt hsum hpos'
      refine ⟨⟨none, l, col⟩ :: outs, ?_, by simp [h2], ?_, ?_⟩
      · simp only [distribute, h1]; rfl
      · simp only [List.map_cons, List.sum_cons]; omega
      · intro p hp
        rw [List.zip_cons_cons] at hp
        rcases List.mem_cons.mp hp with hp | hp
        · subst hp; exact ⟨fun _ => rfl, fun h => by simp at h⟩
        · exact h4 p hp
    | true =>
      simp only [List.map_cons, countLong, longSum, shortSum] at hcnt hsum ⊢
      have hl : 1 ≤ l := hpos ((l, true), col) List.mem_cons_self rfl
      generalize hrem : countLong (r.map (·.1)) = remaining at *
      -- the width handed to `_wrap_column`
      have hw : ∃ w, assignWidth share l av ac remaining = .ok w ∧
          1 ≤ w ∧ w + remaining ≤ av := by
        unfold assignWidth
        by_cases h0 : remaining = 0
        · exact ⟨av, by simp [h0]; rfl, by omega, by omega⟩
        · have hac : ac ≠ 0 := by omega
          exact ⟨max 1 (min (share l ac av) (av - remaining)), by simp [h0, hac]; rfl, by omega,
            by omega⟩
      obtain ⟨w, hweq, hw1, hw2⟩ := hw
      have hlen : colLen (col.map (wrapCellP w)) ≤ w :=
        colLen_le _ _ (fun c hc => by
          obtain ⟨c0, _, rfl⟩ := List.mem_map.mp hc
          exact wrapCellP_len w c0)
      obtain ⟨outs, h1, h2, h3, h4⟩ :=
        ih (av - colLen (col.map (wrapCellP w))) (ac - l) (by omega) (by omega) hpos'
      refine ⟨⟨some w, colLen (col.map (wrapCellP w)), col.map (wrapCellP w)⟩ :: outs, ?_,
        by simp [h2], ?_, ?_⟩
      · simp only [distribute, hrem, hweq, bind, Except.bind, wrapColumn_ok w hw1, h1]; rfl
      · simp only [List.map_cons, List.sum_cons]; omega
      · intro p hp
        rw [List.zip_cons_cons] at hp
        rcases List.mem_cons.mp hp with hp | hp
        · subst hp
          exact ⟨fun h => by simp at h, fun _ => ⟨w, rfl, hw1, rfl, rfl, hlen⟩⟩
        · exact h4 p hp

/-! ### `fit` -/

theorem mem_zip_map_self {α β} (f : α → β) (l : List α) (p : α × β) (h : p ∈ l.zip (l.map f)) :
    p.2 = f p.1 := by
  induction l with
  | nil => simp at h
  | cons x r ih =>
    rw [List.map_cons, List.zip_cons_cons] at h
    rcases List.mem_cons.mp h with h | h
    · subst h; rfl
    · exact ih h

theorem mem_zip3 {α β γ} (l1 : List α) :
    ∀ (l2 : List β) (l3 : List γ) (b : β) (c : γ), l1.length = l2.length → (b, c) ∈ l2.zip l3 →
      ∃ a, ((a, b), c) ∈ (l1.zip l2).zip l3 := by
  induction l1 with
  | nil => intro l2 l3 b c hl h; cases l2 <;> simp_all
  | cons x r ih =>
    intro l2 l3 b c hl h
    cases l2 with
    | nil => simp at hl
    | cons y r2 =>
      cases l3 with
      | nil => simp at h
      | cons z r3 =>
        simp only [List.zip_cons_cons, List.mem_cons, Prod.mk.injEq] at h ⊢
        rcases h with ⟨h1, h2⟩ | h
        · exact ⟨x, Or.inl ⟨⟨rfl, h1⟩, h2⟩⟩
        · obtain ⟨a, ha⟩ := ih r2 r3 b c (by simpa using hl) h
          exact ⟨a, Or.inr ha⟩

theorem zip_map_eq {α β γ} (f : α → γ) (g : β → γ) (l1 : List α) :
    ∀ (l2 : List β), l1.map f = l2.map g → ∀ a b, (a, b) ∈ l1.zip l2 → f a = g b := by
  induction l1 with
  | nil => intro l2 _ a b h; simp at h
  | cons x r ih =>
    intro l2 hm a b h
    cases l2 with
    | nil => simp at h
    | cons y r2 =>
      simp only [List.map_cons, List.cons.injEq] at hm
      simp only [List.zip_cons_cons, List.mem_cons, Prod.mk.injEq] at h
      rcases h with ⟨h1, h2⟩ | h
      · subst h1 h2; exact hm.1
      · exact ih r2 hm.2 a b h

theorem shortSum_allLong (ls : List Nat) : shortSum (ls.map (fun l => (l, true))) = 0 := by
  induction ls with
  | nil => rfl
  | cons x r ih => simp only [List.map_cons, shortSum, ih]

/-- what `fit` does with one column of a table of `n` columns at `avail` characters -/
def FitRel (n avail : Nat) (col : Column) (o : ColOut) : Prop :=
  (o.assigned = none ∧ o.width = colLen col ∧ o.cells = col) ∨
  (∃ w, o.assigned = some w ∧ 1 ≤ w ∧ o.cells = col.map (wrapCellP w) ∧
      o.width = colLen o.cells ∧ o.width ≤ w ∧ ¬ colLen col * n ≤ avail)

/-- `CellWrapper.fit` with at least one character per column: it does not raise, the widths
sum to at most the available width, every wrapped column was given a width ≥ 1. -/
theorem fit_spec (share : Nat → Nat → Nat → Nat) (avail : Nat) (cols : List Column)
    (h : cols.length ≤ avail) :
    ∃ outs, fit share avail cols = .ok outs ∧ outs.length = cols.length ∧
      (outs.map (·.width)).sum ≤ avail ∧
      ∀ p ∈ cols.zip outs, FitRel cols.length avail p.1 p.2 := by
  unfold fit
  split
  · rename_i hfit
    refine ⟨_, rfl, by simp, ?_, ?_⟩
    · simpa [Function.comp_def] using hfit
    · intro p hp
      have := mem_zip_map_self _ cols p hp
      exact Or.inl (by rw [this]; exact ⟨rfl, rfl, rfl⟩)
  · rename_i hnofit
    have hn : 1 ≤ cols.length := by
      cases cols with
      | nil => simp at hnofit
      | cons c r => simp
    unfold wrapColumns
    simp only [List.length_map, bind, Except.bind]
    rw [if_neg (by omega)]
    obtain ⟨ls', a', e1, e2, e3, e4, e5⟩ := splitLoop_inv cols.length hn (cols.length + 1)
      ((cols.map colLen).map (fun l => (l, true))) avail (by simp)
      (by have := countLong_le_length ((cols.map colLen).map (fun l => (l, true)))
          simp only [List.length_map] at this; omega)
      (by have := countLong_le_length ((cols.map colLen).map (fun l => (l, true)))
          simp only [List.length_map] at this; omega)
    rw [shortSum_allLong] at e2
    have hfst : ls'.map Prod.fst = cols.map colLen := by
      rw [e4]; simp [Function.comp_def]
    have hlen' : ls'.length = cols.length := by
      have := congrArg List.length hfst; simpa using this
    have hmap1 : (ls'.zip cols).map (·.1) = ls' := List.map_fst_zip (by omega)
    obtain ⟨outs, d1, d2, d3, d4⟩ := distribute_inv share (ls'.zip cols) a' (longSum ls')
      (by rw [hmap1]; exact e3) (by rw [hmap1]; exact Nat.le_refl _)
      (by
        intro e he htrue
        obtain ⟨⟨l, b⟩, c⟩ := e
        simp only at htrue
        subst htrue
        have := (e5 l (List.of_mem_zip he).1).2
        apply Nat.pos_of_ne_zero
        intro h0; subst h0; simp at this)
    rw [hmap1] at d3
    refine ⟨outs, ?_, by rw [d2, List.length_zip]; omega, by omega, ?_⟩
    · simp only [e1]; exact d1
    · intro p hp
      obtain ⟨c, o⟩ := p
      obtain ⟨lc, hlc⟩ := mem_zip3 ls' cols outs c o hlen' hp
      have hrel := d4 _ hlc
      have hmem := List.of_mem_zip hlc
      have hlc1 : lc.1 = colLen c := zip_map_eq Prod.fst colLen ls' cols hfst lc c hmem.1
      obtain ⟨l, b⟩ := lc
      simp only at hlc1
      subst hlc1
      cases b with
      | false =>
        have := hrel.1 rfl
        simp only at this
        exact Or.inl (by rw [this]; exact ⟨rfl, rfl, rfl⟩)
      | true =>
        obtain ⟨w, r1, r2, r3, r4, r5⟩ := hrel.2 rfl
        have := (e5 _ (List.of_mem_zip hmem.1).1).2
        exact Or.inr ⟨w, r1, r2, r3, r4, r5, by simpa using this⟩

/-! ### drawing: widths -/

theorem rep_succ (n : Nat) (s : Str) : rep (n + 1) s = s ++ rep n s := by
  simp [rep, List.replicate_succ]

theorem rep_length (n : Nat) (s : Str) : (rep n s).length = n * s.length := by
  induction n with
  | zero => simp [rep]
  | succ n ih => rw [rep_succ, List.length_append, ih, Nat.succ_mul]; omega

/-- widths of the pieces of one line: every cell (incl. its format excess) is followed by the
centre border (`c`), the last one by the right border (`r`) -/
def pieceWidths (c r : Nat) : List Nat → List Nat
  | [] => []
  | [x] => [x + r]
  | x :: y :: xs => (x + c) :: pieceWidths c r (y :: xs)

def gridWidth (c r : Nat) (xs : List Nat) : Nat := (pieceWidths c r xs).sum

/-- the width of every line of the table before the trailing-blank strip -/
def tableWidth (st : Clikit.Gen.C14.TableStyle) (indent : Nat) (outs : List ColOut) : Nat :=
  indent + st.border.line_vl_char.length
    + gridWidth st.border.line_vc_char.length st.border.line_vr_char.length
        (outs.map (fun o => o.width + excess st))

theorem gridWidth_cons (c r x : Nat) (ws : List Nat) (k : Nat) :
    gridWidth c r ((x :: ws).map (· + k)) = (x :: ws).sum + (ws.length + 1) * k + ws.length * c + r := by
  induction ws generalizing x with
  | nil => simp [gridWidth, pieceWidths] <;> omega
  | cons y r2 ih =>
    have := ih y
    simp only [gridWidth, List.map_cons, pieceWidths, List.sum_cons, List.length_cons, Nat.add_mul,
      Nat.one_mul] at this ⊢
    omega

theorem padCell_length (pad : Str) (hp : pad.length = 1) (a w : Nat) (line : Str)
    (h : line.length ≤ w) : ∃ p, padCell pad a w line = some p ∧ p.length = w := by
  unfold padCell
  rw [if_pos h]
  simp only
  split
  · exact ⟨_, rfl, by simp [rep_length, hp]; omega⟩
  · split
    · exact ⟨_, rfl, by simp [rep_length, hp]; omega⟩
    · exact ⟨_, rfl, by simp [rep_length, hp]; omega⟩

theorem getD_nil_or_mem {α} (ls : List (List α)) (k : Nat) : ls.getD k [] = [] ∨ ls.getD k [] ∈ ls := by
  rw [List.getD_eq_getElem?_getD]
  cases h : ls[k]? with
  | none => exact Or.inl rfl
  | some x => exact Or.inr (List.mem_of_getElem? h)

/-- every line of every cell of the row fits its column -/
def RowFits (row : List RowCol) : Prop := ∀ c ∈ row, ∀ l ∈ c.2.2, l.length ≤ c.1

theorem rowPieces_widths (st : Clikit.Gen.C14.TableStyle) (fmt : Str × Str)
    (hp : st.padding_char.length = 1) (k : Nat) :
    ∀ row, RowFits row →
      (rowPieces st fmt k row).map List.length
        = pieceWidths st.border.line_vc_char.length st.border.line_vr_char.length
            (row.map (fun c => c.1 + fmtLen fmt)) := by
  intro row
  induction row with
  | nil => intro _; rfl
  | cons c r ih =>
    intro hfit
    obtain ⟨w, a, ls⟩ := c
    have hline : (ls.getD k []).length ≤ w := by
      rcases getD_nil_or_mem ls k with h | h
      · rw [h]; simp
      · exact hfit (w, a, ls) List.mem_cons_self _ h
    obtain ⟨p, hp1, hp2⟩ := padCell_length st.padding_char hp a w _ hline
    have ih' := ih (fun c hc => hfit c (List.mem_cons_of_mem _ hc))
    cases r with
    | nil =>
      simp only [rowPieces, hp1, List.isEmpty_nil, if_true, List.map_cons, List.map_nil, pieceWidths,
        List.length_append, hp2, fmtLen]
      congr 1; omega
    | cons c2 r2 =>
      rw [rowPieces, List.map_cons, ih']
      simp only [hp1, List.isEmpty_cons, Bool.false_eq_true, if_false, List.map_cons, pieceWidths,
        List.length_append, hp2, fmtLen]
      congr 1; omega

theorem borderBody_length (lineCh c r : Str) (h1 : lineCh.length = 1) :
    ∀ lens, (borderBody lineCh c r lens).length = gridWidth c.length r.length lens := by
  intro lens
  induction lens with
  | nil => rfl
  | cons x xs ih =>
    cases xs with
    | nil => simp [borderBody, gridWidth, pieceWidths, rep_length, h1]
    | cons y ys =>
      rw [borderBody, List.length_append, List.length_append, ih]
      simp only [gridWidth, pieceWidths, List.sum_cons, rep_length, h1]; omega

theorem borderBody_blank (c r : Str) (hc : ∀ x ∈ c, isWs x = true) (hr : ∀ x ∈ r, isWs x = true) :
    ∀ lens, ∀ x ∈ borderBody [] c r lens, isWs x = true := by
  intro lens
  have hrep : ∀ n, rep n ([] : Str) = [] := by
    intro n; induction n with
    | zero => rfl
    | succ n ih => rw [rep_succ, ih]; rfl
  induction lens with
  | nil => intro x hx; simp [borderBody] at hx
  | cons y ys ih =>
    cases ys with
    | nil => intro x hx; simp only [borderBody, hrep, List.nil_append] at hx; exact hr x hx
    | cons z zs =>
      intro x hx
      simp only [borderBody, hrep, List.nil_append] at hx ih
      rcases List.mem_append.mp hx with h | h
      · exact hc x h
      · exact ih x h

theorem rep_blank (n : Nat) : ∀ x ∈ rep n [' '], isWs x = true := by
  induction n with
  | zero => intro x hx; simp [rep] at hx
  | succ n ih =>
    intro x hx
    rw [rep_succ] at hx
    rcases List.mem_append.mp hx with h | h
    · simp at h; subst h; decide
    · exact ih x h

/-! ### drawing: the rows of the fitted columns -/

/-- the fitted columns are consistent: every line of every cell fits the column width -/
def OutsOk (outs : List ColOut) : Prop := ∀ o ∈ outs, ∀ c ∈ o.cells, CellOk c ∧ c.len ≤ o.width

theorem rowDataFrom_widths (aligns : List Nat) (i : Nat) :
    ∀ (outs : List ColOut) (j : Nat), (rowDataFrom aligns i j outs).map (·.1) = outs.map (·.width) := by
  intro outs
  induction outs with
  | nil => intro j; rfl
  | cons o r ih => intro j; simp only [rowDataFrom, List.map_cons, ih]

theorem rowDataFrom_fits (aligns : List Nat) (i : Nat) :
    ∀ (outs : List ColOut) (j : Nat), OutsOk outs → RowFits (rowDataFrom aligns i j outs) := by
  intro outs
  induction outs with
  | nil => intro j _ c hc; simp [rowDataFrom] at hc
  | cons o r ih =>
    intro j hok c hc
    rw [rowDataFrom] at hc
    rcases List.mem_cons.mp hc with h | h
    · subst h
      intro l hl
      simp only at hl ⊢
      rw [List.getD_eq_getElem?_getD] at hl
      cases hget : o.cells[i]? with
      | none =>
        rw [hget] at hl
        simp [splitLines] at hl
        subst hl; simp
      | some cell =>
        rw [hget] at hl
        have hmem := List.mem_of_getElem? hget
        obtain ⟨h1, h2⟩ := hok o List.mem_cons_self cell hmem
        have := h1 l hl
        omega
    · exact ih (j + 1) (fun o' ho' => hok o' (List.mem_cons_of_mem _ ho')) c h

theorem rowLineRaw_length (st : Clikit.Gen.C14.TableStyle) (fmt : Str × Str)
    (hp : st.padding_char.length = 1) (hf : fmtLen fmt = excess st) (indent : Nat)
    (outs : List ColOut) (hok : OutsOk outs) (aligns : List Nat) (i k : Nat) :
    (rowLineRaw st fmt indent (rowData outs aligns i) k).length = tableWidth st indent outs := by
  unfold rowLineRaw tableWidth gridWidth rowData
  rw [List.length_append, List.length_append, rep_length, List.length_flatten,
    rowPieces_widths st fmt hp k _ (rowDataFrom_fits aligns i outs 0 hok)]
  have : (rowDataFrom aligns i 0 outs).map (fun c => c.1 + fmtLen fmt)
      = outs.map (fun o => o.width + excess st) := by
    have := rowDataFrom_widths aligns i outs 0
    rw [hf]
    calc (rowDataFrom aligns i 0 outs).map (fun c => c.1 + excess st)
        = ((rowDataFrom aligns i 0 outs).map (·.1)).map (· + excess st) := by simp [Function.comp_def]
      _ = outs.map (fun o => o.width + excess st) := by rw [this]; simp [Function.comp_def]
  rw [this]
  simp

/-- `col_width_const`: the pieces of every line of every row have the same widths -/
theorem rowPieces_const (st : Clikit.Gen.C14.TableStyle) (fmt : Str × Str)
    (hp : st.padding_char.length = 1) (outs : List ColOut) (hok : OutsOk outs) (aligns : List Nat)
    (i k : Nat) :
    (rowPieces st fmt k (rowData outs aligns i)).map List.length
      = pieceWidths st.border.line_vc_char.length st.border.line_vr_char.length
          (outs.map (fun o => o.width + fmtLen fmt)) := by
  unfold rowData
  rw [rowPieces_widths st fmt hp k _ (rowDataFrom_fits aligns i outs 0 hok)]
  congr 1
  have := rowDataFrom_widths aligns i outs 0
  calc (rowDataFrom aligns i 0 outs).map (fun c => c.1 + fmtLen fmt)
      = ((rowDataFrom aligns i 0 outs).map (·.1)).map (· + fmtLen fmt) := by simp [Function.comp_def]
    _ = outs.map (fun o => o.width + fmtLen fmt) := by rw [this]; simp [Function.comp_def]

/-! ### styles -/

/-- a border line either lines up with the rows (one line character per cell character,
corner/crossing strings as long as the vertical border strings) or is entirely blank (then
`draw_border` does not write it) -/
def borderOk (st : Clikit.Gen.C14.TableStyle) (lineCh l c r : Str) : Bool :=
  (lineCh.length == 1 && l.length == st.border.line_vl_char.length
    && c.length == st.border.line_vc_char.length && r.length == st.border.line_vr_char.length)
  || (lineCh.isEmpty && l.all isWs && c.all isWs && r.all isWs)

/-- what the rectangle needs from a table style: a one-character padding, the format of every
drawn row as wide as `excess_column_width`, three well-formed borders -/
def styleOk (st : Clikit.Gen.C14.TableStyle) (hasHeader : Bool) : Bool :=
  st.padding_char.length == 1 && fmtLen st.cell_format == excess st
  && (!hasHeader || fmtLen st.header_cell_format == excess st)
  && borderOk st st.border.line_ht_char st.border.corner_tl_char st.border.crossing_t_char st.border.corner_tr_char
  && borderOk st st.border.line_hc_char st.border.crossing_l_char st.border.crossing_c_char st.border.crossing_r_char
  && borderOk st st.border.line_hb_char st.border.corner_bl_char st.border.crossing_b_char st.border.corner_br_char

theorem borderRaw_ok (st : Clikit.Gen.C14.TableStyle) (indent : Nat) (outs : List ColOut)
    (lineCh l c r : Str) (h : borderOk st lineCh l c r = true) :
    (borderRaw indent (outs.map (fun o => o.width + excess st)) lineCh l c r).length
        = tableWidth st indent outs
    ∨ rstrip (borderRaw indent (outs.map (fun o => o.width + excess st)) lineCh l c r) = [] := by
  unfold borderOk at h
  rcases (Bool.or_eq_true _ _).mp h with h | h
  · left
    simp only [Bool.and_eq_true, beq_iff_eq] at h
    obtain ⟨⟨⟨h1, h2⟩, h3⟩, h4⟩ := h
    unfold borderRaw tableWidth
    rw [List.length_append, List.length_append, rep_length, borderBody_length _ _ _ h1, h2, h3, h4]
    simp
  · right
    simp only [Bool.and_eq_true, List.all_eq_true, List.isEmpty_iff] at h
    obtain ⟨⟨⟨h1, h2⟩, h3⟩, h4⟩ := h
    subst h1
    apply rstrip_all_ws
    intro x hx
    unfold borderRaw at hx
    rcases List.mem_append.mp hx with hx | hx
    · rcases List.mem_append.mp hx with hx | hx
      · exact rep_blank indent x hx
      · exact h2 x hx
    · exact borderBody_blank c r h3 h4 _ x hx

/-- `rect` on the drawing level: every line, before the trailing-blank strip, is exactly
`tableWidth` wide - except border lines that are entirely blank (not written at all) -/
theorem renderRowsRaw_width (st : Clikit.Gen.C14.TableStyle) (hasHeader : Bool)
    (hst : styleOk st hasHeader = true) (outs : List ColOut) (hok : OutsOk outs)
    (aligns : List Nat) (nrows indent : Nat) :
    ∀ raw ∈ renderRowsRaw st aligns hasHeader nrows outs indent,
      raw.2.length = tableWidth st indent outs ∨ (raw.1 = true ∧ rstrip raw.2 = []) := by
  unfold styleOk at hst
  simp only [Bool.and_eq_true, beq_iff_eq, Bool.or_eq_true, Bool.not_eq_true'] at hst
  obtain ⟨⟨⟨⟨⟨hp, hc⟩, hh⟩, htop⟩, hmid⟩, hbot⟩ := hst
  have hb : ∀ lineCh l c r, borderOk st lineCh l c r = true →
      ∀ raw : RawLine, raw = (true, borderRaw indent (outs.map (fun o => o.width + excess st)) lineCh l c r) →
      raw.2.length = tableWidth st indent outs ∨ (raw.1 = true ∧ rstrip raw.2 = []) := by
    intro lineCh l c r h raw hraw
    subst hraw
    rcases borderRaw_ok st indent outs lineCh l c r h with h' | h'
    · exact Or.inl h'
    · exact Or.inr ⟨rfl, h'⟩
  have hrow : ∀ fmt, fmtLen fmt = excess st → ∀ i, ∀ raw ∈
      (drawRowRaw st fmt indent (rowData outs aligns i)).map (fun s => ((false, s) : RawLine)),
      raw.2.length = tableWidth st indent outs ∨ (raw.1 = true ∧ rstrip raw.2 = []) := by
    intro fmt hf i raw hraw
    obtain ⟨s, hs, rfl⟩ := List.mem_map.mp hraw
    unfold drawRowRaw at hs
    obtain ⟨k, _, rfl⟩ := List.mem_map.mp hs
    exact Or.inl (rowLineRaw_length st fmt hp hf indent outs hok aligns i k)
  intro raw hraw
  unfold renderRowsRaw at hraw
  simp only at hraw
  split at hraw
  · rename_i hhdr
    have hh' : fmtLen st.header_cell_format = excess st := by
      rcases hh with h | h
      · rw [hhdr] at h; cases h
      · exact h
    simp only [List.mem_append, List.mem_singleton, List.mem_flatten, List.mem_map, List.mem_range] at hraw
    rcases hraw with (((h | h) | h) | h) | h
    · exact hb _ _ _ _ htop raw h
    · exact hrow _ hh' 0 raw (by simpa [List.mem_map] using h)
    · exact hb _ _ _ _ hmid raw h
    · obtain ⟨rowl, ⟨i, _, rfl⟩, hmem⟩ := h
      exact hrow _ hc (i + 1) raw hmem
    · exact hb _ _ _ _ hbot raw h
  · simp only [List.mem_append, List.mem_singleton, List.mem_flatten, List.mem_map, List.mem_range] at hraw
    rcases hraw with (h | h) | h
    · exact hb _ _ _ _ htop raw h
    · obtain ⟨rowl, ⟨i, _, rfl⟩, hmem⟩ := h
      exact hrow _ hc i raw hmem
    · exact hb _ _ _ _ hbot raw h

theorem finish_length (W : Nat) (raw : RawLine)
    (h : raw.2.length = W ∨ (raw.1 = true ∧ rstrip raw.2 = [])) :
    ∀ s, finish raw = some s → s.length ≤ W := by
  intro s hs
  unfold finish at hs
  simp only at hs
  split at hs
  · cases hs
  · cases hs
    rcases h with h | h
    · have := rstrip_length_le raw.2; omega
    · rw [h.2]; simp

/-! ### `Table.render` -/

/-- the terminal leaves at least one character per column beside the borders:
`available_width ≥ nb_columns` -/
def feasible (st : Clikit.Gen.C14.TableStyle) (t : Table) (width indent : Nat) : Prop :=
  indent + borderWidth st t.n + t.n * excess st + t.n ≤ width

/-- `available_width` for a feasible terminal width -/
def availOf (st : Clikit.Gen.C14.TableStyle) (t : Table) (width indent : Nat) : Nat :=
  width - (indent + borderWidth st t.n + t.n * excess st)

theorem initRows_length (n : Nat) (rows : List (List Str)) : (initRows n rows).length = n := by
  simp [initRows]

theorem initRows_cellOk (n : Nat) (rows : List (List Str)) :
    ∀ col ∈ initRows n rows, ∀ c ∈ col, CellOk c := by
  intro col hcol c hc
  unfold initRows at hcol
  obtain ⟨j, _, rfl⟩ := List.mem_map.mp hcol
  obtain ⟨r, _, rfl⟩ := List.mem_map.mp hc
  exact mkCell_cellOk _

theorem exists_zip_left {α β} (l1 : List α) :
    ∀ (l2 : List β) (b : β), l1.length = l2.length → b ∈ l2 → ∃ a, (a, b) ∈ l1.zip l2 := by
  induction l1 with
  | nil => intro l2 b hl hb; cases l2 <;> simp_all
  | cons x r ih =>
    intro l2 b hl hb
    cases l2 with
    | nil => simp at hb
    | cons y r2 =>
      rcases List.mem_cons.mp hb with h | h
      · subst h; exact ⟨x, by simp⟩
      · obtain ⟨a, ha⟩ := ih r2 b (by simpa using hl) h
        exact ⟨a, by simp [ha]⟩

theorem fitRel_outsOk (n avail : Nat) (cols : List Column) (outs : List ColOut)
    (hlen : outs.length = cols.length) (hcells : ∀ col ∈ cols, ∀ c ∈ col, CellOk c)
    (hrel : ∀ p ∈ cols.zip outs, FitRel n avail p.1 p.2) : OutsOk outs := by
  intro o ho c hc
  obtain ⟨col, hz⟩ := exists_zip_left cols outs o hlen.symm ho
  have hcol := (List.of_mem_zip hz).1
  rcases hrel _ hz with ⟨_, h2, h3⟩ | ⟨w, _, _, h3, h4, _, _⟩
  · simp only at h2 h3
    rw [h3] at hc
    exact ⟨hcells col hcol c hc, by rw [h2]; exact len_le_colLen col c hc⟩
  · simp only at h3 h4
    constructor
    · rw [h3] at hc
      obtain ⟨c0, hc0, rfl⟩ := List.mem_map.mp hc
      exact wrapCellP_cellOk w c0 (hcells col hcol c0 hc0)
    · rw [h4]; exact len_le_colLen _ c hc

/-- `Table.render` up to the drawing: for a feasible width the cell wrapper does not raise -/
theorem layout_spec (share : Nat → Nat → Nat → Nat) (st : Clikit.Gen.C14.TableStyle) (t : Table)
    (width indent : Nat) (hf : feasible st t width indent) :
    ∃ outs, layout share st t width indent = .ok outs ∧ outs.length = t.n ∧
      (outs.map (·.width)).sum ≤ availOf st t width indent ∧
      (∀ p ∈ (initRows t.n t.allRows).zip outs,
          FitRel t.n (availOf st t width indent) p.1 p.2) ∧
      OutsOk outs := by
  unfold feasible at hf
  have hav : availableWidth st t.n width indent = some (availOf st t width indent) := by
    unfold availableWidth availOf
    simp only
    rw [if_pos (by omega)]
  have hlen := initRows_length t.n t.allRows
  obtain ⟨outs, h1, h2, h3, h4⟩ := fit_spec share (availOf st t width indent)
    (initRows t.n t.allRows) (by rw [hlen]; unfold availOf; omega)
  rw [hlen] at h2 h4
  refine ⟨outs, ?_, h2, h3, h4, ?_⟩
  · unfold layout; rw [hav]; exact h1
  · exact fitRel_outsOk t.n _ _ outs (by rw [h2, hlen]) (initRows_cellOk _ _) h4

/-- the table is never wider than the terminal -/
theorem tableWidth_le (st : Clikit.Gen.C14.TableStyle) (t : Table) (width indent : Nat)
    (hf : feasible st t width indent) (outs : List ColOut) (hn : outs.length = t.n)
    (hsum : (outs.map (·.width)).sum ≤ availOf st t width indent) :
    tableWidth st indent outs ≤ width := by
  unfold feasible at hf
  unfold availOf at hsum
  unfold tableWidth
  rw [← hn] at hf hsum
  unfold borderWidth at hf hsum
  cases outs with
  | nil => simp [gridWidth, pieceWidths] at hf ⊢; omega
  | cons o r =>
    have : (o :: r).map (fun o => o.width + excess st)
        = ((o :: r).map (·.width)).map (· + excess st) := by simp [Function.comp_def]
    rw [this, List.map_cons, gridWidth_cons]
    simp only [List.length_cons, List.length_map, Nat.add_sub_cancel, Nat.add_mul, Nat.one_mul,
      List.map_cons] at hf hsum ⊢
    omega

/-! ### cell text -/

theorem cell_text_of_fitRel (n avail : Nat) (rows : List (List Str)) (j : Nat) (o : ColOut)
    (h : FitRel n avail (rows.map (fun r => mkCell (r.getD j []))) o) (i : Nat) :
    nonblank (splitLines ((o.cells.getD i ⟨[], 0⟩).text)).flatten
      = nonblank ((rows.getD i []).getD j []) := by
  rcases h with ⟨_, _, h3⟩ | ⟨w, _, hw, h3, _, _, _⟩
  · rw [h3]
    simp only [List.getD_eq_getElem?_getD, List.getElem?_map]
    cases rows[i]? with
    | none => simp [splitLines, nonblank]
    | some r => simp only [Option.map_some, Option.getD_some]; exact mkCell_text _
  · rw [h3]
    simp only [List.getD_eq_getElem?_getD, List.getElem?_map]
    cases rows[i]? with
    | none => simp [splitLines, nonblank]
    | some r =>
      simp only [Option.map_some, Option.getD_some]
      rw [wrapCellP_text w hw]
      simp only [mkCell]
      exact nonblank_rstrip _

theorem zip_getElem_mem {α β} (l1 : List α) (l2 : List β) (j : Nat) (h1 : j < l1.length)
    (h2 : j < l2.length) : (l1[j], l2[j]) ∈ l1.zip l2 := by
  have : j < (l1.zip l2).length := by simp [List.length_zip]; omega
  have h := List.getElem_mem this
  rwa [List.getElem_zip] at h

theorem initRows_getElem (n : Nat) (rows : List (List Str)) (j : Nat) (hj : j < n) :
    (initRows n rows)[j]'(by rw [initRows_length]; exact hj)
      = rows.map (fun r => mkCell (r.getD j [])) := by
  simp [initRows]

/-! ### styles whose right border is not blank: the strip removes nothing -/

/-- the string ends with a non-blank character -/
def solidEnd (s : Str) : Bool :=
  match s.getLast? with
  | some c => !isWs c
  | none => false

/-- the right border string and the three right corner/crossing strings end non-blank -/
def rightSolid (st : Clikit.Gen.C14.TableStyle) : Bool :=
  solidEnd st.border.line_vr_char && solidEnd st.border.corner_tr_char
  && solidEnd st.border.crossing_r_char && solidEnd st.border.corner_br_char

theorem solidEnd_rstrip (pre s : Str) (h : solidEnd s = true) :
    rstrip (pre ++ s) = pre ++ s ∧ pre ++ s ≠ [] := by
  unfold solidEnd at h
  split at h
  · rename_i c hc
    obtain ⟨ys, rfl⟩ := List.getLast?_eq_some_iff.mp hc
    have hws : isWs c = false := by simpa using h
    rw [← List.append_assoc]
    exact ⟨rstrip_of_last _ c hws, by simp⟩
  · cases h

theorem borderBody_suffix (lineCh c r : Str) :
    ∀ lens, lens ≠ [] → ∃ pre, borderBody lineCh c r lens = pre ++ r := by
  intro lens
  induction lens with
  | nil => intro h; exact absurd rfl h
  | cons x xs ih =>
    intro _
    cases xs with
    | nil => exact ⟨_, rfl⟩
    | cons y ys =>
      obtain ⟨pre, hpre⟩ := ih (by simp)
      exact ⟨rep x lineCh ++ c ++ pre, by rw [borderBody, hpre]; simp⟩

theorem rowPieces_suffix (st : Clikit.Gen.C14.TableStyle) (fmt : Str × Str)
    (hp : st.padding_char.length = 1) (k : Nat) :
    ∀ row, row ≠ [] → RowFits row →
      ∃ pre, (rowPieces st fmt k row).flatten = pre ++ st.border.line_vr_char := by
  intro row
  induction row with
  | nil => intro h; exact absurd rfl h
  | cons c r ih =>
    intro _ hfit
    obtain ⟨w, a, ls⟩ := c
    cases r with
    | nil =>
      have hline : (ls.getD k []).length ≤ w := by
        rcases getD_nil_or_mem ls k with h | h
        · rw [h]; simp
        · exact hfit (w, a, ls) List.mem_cons_self _ h
      obtain ⟨p, hp1, _⟩ := padCell_length st.padding_char hp a w _ hline
      exact ⟨fmt.1 ++ p ++ fmt.2, by
        simp only [rowPieces, hp1, List.isEmpty_nil, if_true, List.flatten_cons, List.flatten_nil,
          List.append_nil, List.append_assoc]⟩
    | cons c2 r2 =>
      obtain ⟨pre, hpre⟩ := ih (by simp) (fun c hc => hfit c (List.mem_cons_of_mem _ hc))
      rw [rowPieces, List.flatten_cons, hpre]
      exact ⟨_, (List.append_assoc _ _ _).symm⟩

theorem rowDataFrom_ne_nil (aligns : List Nat) (i j : Nat) (outs : List ColOut) (h : outs ≠ []) :
    rowDataFrom aligns i j outs ≠ [] := by
  cases outs with
  | nil => exact absurd rfl h
  | cons o r => simp [rowDataFrom]

/-- with a non-blank right border no line loses anything to the trailing-blank strip -/
theorem renderRowsRaw_solid (st : Clikit.Gen.C14.TableStyle) (hasHeader : Bool)
    (hp : st.padding_char.length = 1) (hsolid : rightSolid st = true)
    (outs : List ColOut) (hne : outs ≠ []) (hok : OutsOk outs)
    (aligns : List Nat) (nrows indent : Nat) :
    ∀ raw ∈ renderRowsRaw st aligns hasHeader nrows outs indent,
      rstrip raw.2 = raw.2 ∧ raw.2 ≠ [] := by
  unfold rightSolid at hsolid
  simp only [Bool.and_eq_true] at hsolid
  obtain ⟨⟨⟨hvr, htr⟩, hcr⟩, hbr⟩ := hsolid
  have hlens : outs.map (fun o => o.width + excess st) ≠ [] := by simpa using hne
  have hb : ∀ lineCh l c r, solidEnd r = true →
      ∀ raw : RawLine, raw = (true, borderRaw indent (outs.map (fun o => o.width + excess st)) lineCh l c r) →
      rstrip raw.2 = raw.2 ∧ raw.2 ≠ [] := by
    intro lineCh l c r h raw hraw
    subst hraw
    obtain ⟨pre, hpre⟩ := borderBody_suffix lineCh c r _ hlens
    simp only [borderRaw, hpre, ← List.append_assoc]
    exact solidEnd_rstrip _ r h
  have hrow : ∀ fmt i, ∀ raw ∈
      (drawRowRaw st fmt indent (rowData outs aligns i)).map (fun s => ((false, s) : RawLine)),
      rstrip raw.2 = raw.2 ∧ raw.2 ≠ [] := by
    intro fmt i raw hraw
    obtain ⟨s, hs, rfl⟩ := List.mem_map.mp hraw
    unfold drawRowRaw at hs
    obtain ⟨k, _, rfl⟩ := List.mem_map.mp hs
    obtain ⟨pre, hpre⟩ := rowPieces_suffix st fmt hp k (rowData outs aligns i)
      (rowDataFrom_ne_nil aligns i 0 outs hne) (rowDataFrom_fits aligns i outs 0 hok)
    simp only [rowLineRaw, hpre, ← List.append_assoc]
    exact solidEnd_rstrip _ _ hvr
  intro raw hraw
  unfold renderRowsRaw at hraw
  simp only at hraw
  split at hraw
  · simp only [List.mem_append, List.mem_singleton, List.mem_flatten, List.mem_map, List.mem_range] at hraw
    rcases hraw with (((h | h) | h) | h) | h
    · exact hb _ _ _ _ htr raw h
    · exact hrow _ 0 raw (by simpa [List.mem_map] using h)
    · exact hb _ _ _ _ hcr raw h
    · obtain ⟨rowl, ⟨i, _, rfl⟩, hmem⟩ := h
      exact hrow _ (i + 1) raw hmem
    · exact hb _ _ _ _ hbr raw h
  · simp only [List.mem_append, List.mem_singleton, List.mem_flatten, List.mem_map, List.mem_range] at hraw
    rcases hraw with (h | h) | h
    · exact hb _ _ _ _ htr raw h
    · obtain ⟨rowl, ⟨i, _, rfl⟩, hmem⟩ := h
      exact hrow _ i raw hmem
    · exact hb _ _ _ _ hbr raw h

/-- `r` is `.ok v` (decidable; used by the kernel-checked examples) -/
def okIs {α} [DecidableEq α] (r : Except Err α) (v : α) : Bool :=
  match r with
  | .ok x => decide (x = v)
  | .error _ => false

end Clikit.Table
