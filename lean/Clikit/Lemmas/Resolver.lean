import Clikit.Model.Resolver
/-! `CommandCollection.get` through the key under which the command is stored (C03). -/
namespace Clikit.Resolver
open Clikit

/-- `get` = find the key, then read `_commands` -/
theorem get?_eq_key (c : Coll) (n : Str) :
    c.get? n = match c.key? n with
      | none => none
      | some k => dictGet? k c.cmds := by
  unfold Coll.get? Coll.key?
  cases h1 : dictGet? n c.cmds with
  | some cmd => simp [h1]
  | none =>
    cases h2 : dictGet? n c.aliasIdx with
    | none => simp
    | some k =>
      simp only [dictHas]
      by_cases h3 : (dictGet? k c.cmds).isSome = true
      · simp [h3]
      · simp only [h3]
        cases h4 : dictGet? k c.cmds with
        | none => rfl
        | some cmd => simp [h4] at h3

/-- a key that is found is a key of `_commands` -/
theorem key?_some (c : Coll) (n k : Str) (h : c.key? n = some k) : ∃ cmd, dictGet? k c.cmds = some cmd := by
  unfold Coll.key? at h
  cases h1 : dictGet? n c.cmds with
  | some cmd =>
    simp only [h1, Option.some.injEq] at h
    subst h
    exact ⟨cmd, h1⟩
  | none =>
    simp only [h1] at h
    cases h2 : dictGet? n c.aliasIdx with
    | none => simp [h2] at h
    | some k' =>
      simp only [h2, dictHas] at h
      cases h3 : dictGet? k' c.cmds with
      | none => simp [h3] at h
      | some cmd =>
        simp only [h3, Option.isSome_some, if_true, Option.some.injEq] at h
        subst h
        exact ⟨cmd, h3⟩

theorem key?_none (c : Coll) (n : Str) (h : c.key? n = none) : c.get? n = none := by
  rw [get?_eq_key, h]

theorem key?_get (c : Coll) (n k : Str) (cmd : Cmd) (h : c.key? n = some k) (hc : dictGet? k c.cmds = some cmd) :
    c.get? n = some cmd := by
  rw [get?_eq_key, h]; exact hc

end Clikit.Resolver
