import Clikit.Model.Progress
/-!
# The rounded quotient never exceeds an integer bound (C16)

`roundQ a b` is the binary64 value nearest to `a / b`.  If `a / b ≤ n` for an integer
`n < 2^52`, then the rounded value is `≤ n` too (rounding is monotone and `n` is representable).
Consequence: `floor(percent * bar_width) ≤ bar_width` for `percent = step / max ≤ 1`, in the
model's float arithmetic - the bar never overflows its width because of rounding.
-/
namespace Clikit.Progress

theorem bitLenAux_spec (f : Nat) : ∀ n, n < f →
    n < 2 ^ bitLenAux f n ∧ (n ≠ 0 → 2 ^ (bitLenAux f n - 1) ≤ n) := by
  induction f with
  | zero => intro n h; omega
  | succ f ih =>
    intro n h
    unfold bitLenAux
    split
    · rename_i h0; subst h0; simp
    · rename_i h0
      have hlt : n / 2 < f := by omega
      obtain ⟨h1, h2⟩ := ih (n / 2) hlt
      constructor
      · rw [Nat.add_comm, Nat.pow_succ]; omega
      · intro _
        by_cases hz : n / 2 = 0
        · have : bitLenAux f (n / 2) = 0 := by
            rw [hz]; cases f <;> simp [bitLenAux]
          rw [this]; simp; omega
        · have h3 := h2 hz
          have hpos : bitLenAux f (n / 2) ≠ 0 := by
            intro h0'
            rw [h0'] at h1
            simp at h1
            omega
          have : 1 + bitLenAux f (n / 2) - 1 = (bitLenAux f (n / 2) - 1) + 1 := by omega
          rw [this, Nat.pow_succ]
          omega

theorem bitLen_upper (n : Nat) : n < 2 ^ bitLen n := (bitLenAux_spec (n + 1) n (by omega)).1

theorem bitLen_lower (n : Nat) (h : n ≠ 0) : 2 ^ (bitLen n - 1) ≤ n :=
  (bitLenAux_spec (n + 1) n (by omega)).2 h

/-- for quotients below `2^52` the scaling exponent is not negative -/
theorem roundShift_nonneg (a b : Nat) (ha : a ≠ 0) (h : a < 2 ^ 52 * b) : 0 ≤ roundShift a b := by
  have hlow := bitLen_lower a ha
  have hup := bitLen_upper b
  have h1 : 2 ^ (bitLen a - 1) < 2 ^ (52 + bitLen b) := by
    calc 2 ^ (bitLen a - 1) ≤ a := hlow
      _ < 2 ^ 52 * b := h
      _ ≤ 2 ^ 52 * 2 ^ bitLen b := Nat.mul_le_mul_left _ (Nat.le_of_lt hup)
      _ = 2 ^ (52 + bitLen b) := (Nat.pow_add 2 52 (bitLen b)).symm
  have h2 : bitLen a - 1 < 52 + bitLen b := (Nat.pow_lt_pow_iff_right (by decide)).mp h1
  unfold roundShift
  dsimp only
  split <;> omega

/-- rounding at a non-negative exponent keeps an integer upper bound -/
theorem roundAt_le (a b n : Nat) (k : Int) (hk : 0 ≤ k) (hb : 0 < b) (hab : a ≤ n * b) :
    (roundAt a b k).num ≤ n * (roundAt a b k).den := by
  unfold roundAt
  simp only [ge_iff_le, hk, if_true]
  generalize hK : k.toNat = K
  have hX : a * 2 ^ K ≤ b * (n * 2 ^ K) := by
    calc a * 2 ^ K ≤ n * b * 2 ^ K := Nat.mul_le_mul_right _ hab
      _ = b * (n * 2 ^ K) := by rw [Nat.mul_comm n b, Nat.mul_assoc]
  have hq : a * 2 ^ K / b ≤ n * 2 ^ K := Nat.div_le_of_le_mul hX
  have hdm := Nat.div_add_mod (a * 2 ^ K) b
  have hr : a * 2 ^ K % b < b := Nat.mod_lt _ hb
  split
  · rename_i hround
    show a * 2 ^ K / b + 1 ≤ n * 2 ^ K
    by_cases heq : a * 2 ^ K / b = n * 2 ^ K
    · exfalso
      rw [heq] at hdm
      have hr0 : a * 2 ^ K % b = 0 := by omega
      rw [hr0] at hround
      omega
    · omega
  · exact hq

/-- the rounded quotient keeps an integer upper bound `n < 2^52` -/
theorem roundQ_le (a b n : Nat) (hb : 0 < b) (hab : a ≤ n * b) (hn : n < 2 ^ 52) :
    (roundQ a b).num ≤ n * (roundQ a b).den := by
  unfold roundQ
  split
  · simp
  · rename_i h0
    have ha : a ≠ 0 := fun h => h0 (Or.inl h)
    have hlt : a < 2 ^ 52 * b :=
      Nat.lt_of_le_of_lt hab (Nat.mul_lt_mul_of_pos_right hn hb)
    exact roundAt_le a b n _ (roundShift_nonneg a b ha hlt) hb hab

theorem roundQ_den_pos (a b : Nat) : 0 < (roundQ a b).den := by
  unfold roundQ
  split
  · decide
  · unfold roundAt
    dsimp only
    split
    · exact Nat.pow_pos (by decide)
    · exact Nat.one_pos

/-- `floor(fl(fl(step / max) · width)) ≤ width` whenever `step ≤ max` and `width < 2^52` -/
theorem offset_le_width (step max width : Nat) (hm : max ≠ 0) (hs : step ≤ max) (hw : width < 2 ^ 52) :
    ((roundQ step max).mulNat width).floor ≤ width := by
  have h1 : (roundQ step max).num ≤ 1 * (roundQ step max).den :=
    roundQ_le step max 1 (Nat.pos_of_ne_zero hm) (by omega) (by decide)
  have hd := roundQ_den_pos step max
  unfold Dy.mulNat Dy.floor
  have h2 := roundQ_le ((roundQ step max).num * width) (roundQ step max).den width hd
    (by rw [Nat.mul_comm]; exact Nat.mul_le_mul_left _ (by omega)) hw
  have hd2 := roundQ_den_pos ((roundQ step max).num * width) (roundQ step max).den
  exact Nat.div_le_of_le_mul (Nat.le_trans h2 (Nat.le_of_eq (Nat.mul_comm _ _)))

end Clikit.Progress
