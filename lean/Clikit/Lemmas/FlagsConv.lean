import Clikit.Model.Flags
/-!
Helper lemmas for C07, conversion part: the `int()` model inverts `str()` on every integer
(induction over the decimal digits), the boolean words, typing of `parse_*`.
-/
namespace Clikit.Flags
open Clikit Clikit.Gen

/-! ### `int(str(n)) = n` -/

theorem lt10_cases {d : Nat} (h : d < 10) :
    d = 0 ∨ d = 1 ∨ d = 2 ∨ d = 3 ∨ d = 4 ∨ d = 5 ∨ d = 6 ∨ d = 7 ∨ d = 8 ∨ d = 9 := by omega

theorem digitChar_props {d : Nat} (h : d < 10) :
    digitVal? (digitChar d) = some d ∧ isWs (digitChar d) = false ∧ digitChar d ≠ '_' ∧
      digitChar d ≠ '-' ∧ digitChar d ≠ '+' := by
  rcases lt10_cases h with h | h | h | h | h | h | h | h | h | h <;> subst h <;> decide

theorem natRepr_lt {n : Nat} (h : n < 10) : natRepr n = [digitChar n] := by
  rw [natRepr]; simp [h]

theorem natRepr_ge {n : Nat} (h : ¬ n < 10) : natRepr n = natRepr (n / 10) ++ [digitChar (n % 10)] := by
  rw [natRepr]; simp [h]

theorem intBody_digit (d : Nat) (h : d < 10) (r : Str) (acc : Nat) :
    intBody (digitChar d :: r) acc = intBody r (acc * 10 + d) := by
  rw [intBody.eq_def]
  simp [(digitChar_props h).1]

/-- scanning the decimal text of `n` from value 0 leaves value `n` -/
theorem intBody_natRepr (n : Nat) : ∀ tail : Str, intBody (natRepr n ++ tail) 0 = intBody tail n := by
  induction n using Nat.strongRecOn with
  | _ n ih =>
    intro tail
    by_cases h : n < 10
    · rw [natRepr_lt h]
      simp [intBody_digit n h]
    · rw [natRepr_ge h, List.append_assoc, ih (n / 10) (by omega)]
      simp only [List.singleton_append]
      rw [intBody_digit _ (by omega)]
      congr 1
      omega

theorem natRepr_head (n : Nat) :
    ∃ c r, natRepr n = c :: r ∧ (digitVal? c).isSome = true ∧ isWs c = false ∧ c ≠ '-' ∧ c ≠ '+' := by
  induction n using Nat.strongRecOn with
  | _ n ih =>
    by_cases h : n < 10
    · have hp := digitChar_props h
      exact ⟨digitChar n, [], natRepr_lt h, by simp [hp.1], hp.2.1, hp.2.2.2.1, hp.2.2.2.2⟩
    · obtain ⟨c, r, hr, hc⟩ := ih (n / 10) (by omega)
      refine ⟨c, r ++ [digitChar (n % 10)], ?_, hc⟩
      rw [natRepr_ge h, hr]
      rfl

theorem isWs_not_digit {c : Char} (h : isWs c = true) : digitVal? c = none ∧ c ≠ '_' := by
  simp only [isWs, Bool.or_eq_true, beq_iff_eq] at h
  rcases h with ((((h | h) | h) | h) | h) | h <;> subst h <;> decide

theorem intBody_ws (tail : Str) (h : tail.all isWs = true) (acc : Nat) : intBody tail acc = some acc := by
  cases tail with
  | nil => rfl
  | cons c r =>
    have hc : isWs c = true := by
      simp only [List.all_cons, Bool.and_eq_true] at h; exact h.1
    have hp := isWs_not_digit hc
    rw [intBody.eq_def]
    simp [hp.1, hp.2, h]

theorem pyIntAbs_natRepr (n : Nat) (tail : Str) (h : tail.all isWs = true) :
    pyIntAbs (natRepr n ++ tail) = some n := by
  obtain ⟨c, r, hr, hc, _⟩ := natRepr_head n
  have : pyIntAbs (natRepr n ++ tail) = intBody (natRepr n ++ tail) 0 := by
    rw [hr]
    simp [pyIntAbs, hc]
  rw [this, intBody_natRepr, intBody_ws tail h]

theorem dropWhile_ws (ws rest : Str) (h : ws.all isWs = true)
    (hr : ∀ c r, rest = c :: r → isWs c = false) : (ws ++ rest).dropWhile isWs = rest := by
  induction ws with
  | nil =>
    cases rest with
    | nil => rfl
    | cons c r => simp [hr c r rfl]
  | cons w ws ih =>
    simp only [List.all_cons, Bool.and_eq_true] at h
    simp [h.1, ih h.2]

/-- `int()` inverts `str()` on every integer, also with surrounding whitespace -/
theorem pyInt_intRepr (n : Int) (ws ws' : Str) (h : ws.all isWs = true) (h' : ws'.all isWs = true) :
    pyInt (ws ++ (intRepr n ++ ws')) = some n := by
  cases n with
  | ofNat m =>
    obtain ⟨c, r, hr, hc, hw, hm, hp⟩ := natRepr_head m
    have hd : (ws ++ (intRepr (Int.ofNat m) ++ ws')).dropWhile isWs = natRepr m ++ ws' := by
      apply dropWhile_ws _ _ h
      intro c' r' he
      simp only [intRepr, hr, List.cons_append, List.cons.injEq] at he
      rw [← he.1]; exact hw
    unfold pyInt
    rw [hd]
    have hab := pyIntAbs_natRepr m ws' h'
    rw [hr] at hab ⊢
    simp only [List.cons_append] at hab ⊢
    split
    · next r' he => injection he with he1 _; exact absurd he1.symm hm.symm |> False.elim
    · next r' he => injection he with he1 _; exact absurd he1.symm hp.symm |> False.elim
    · rw [hab]; rfl
  | negSucc m =>
    have hd : (ws ++ (intRepr (Int.negSucc m) ++ ws')).dropWhile isWs = '-' :: (natRepr (m + 1) ++ ws') := by
      apply dropWhile_ws _ _ h
      intro c' r' he
      simp only [intRepr, List.cons_append, List.cons.injEq] at he
      rw [← he.1]; decide
    unfold pyInt
    rw [hd]
    simp only [pyIntAbs_natRepr (m + 1) ws' h', Option.map_some]
    rfl

/-- an explicit `+` sign is accepted as well -/
theorem pyInt_plus (m : Nat) (ws ws' : Str) (h : ws.all isWs = true) (h' : ws'.all isWs = true) :
    pyInt (ws ++ ('+' :: (natRepr m ++ ws'))) = some (Int.ofNat m) := by
  have hd : (ws ++ ('+' :: (natRepr m ++ ws'))).dropWhile isWs = '+' :: (natRepr m ++ ws') := by
    apply dropWhile_ws _ _ h
    intro c' r' he
    simp only [List.cons.injEq] at he
    rw [← he.1]; decide
  unfold pyInt
  rw [hd]
  simp only [pyIntAbs_natRepr m ws' h', Option.map_some]

theorem intRepr_ne_null (n : Int) : intRepr n ≠ nullText := by
  cases n with
  | ofNat m =>
    obtain ⟨c, r, hr, hc, _⟩ := natRepr_head m
    intro he
    simp only [intRepr, hr, nullText, List.cons.injEq] at he
    rw [he.1] at hc
    revert hc; decide
  | negSucc m =>
    intro he
    simp only [intRepr, nullText, List.cons.injEq] at he
    exact absurd he.1 (by decide)


/-! ### typed outcomes of `parse_*` -/

/-- conversions that do not go through the float engine's number-to-number casts -/
def engineFree : Conv → PyVal → Bool
  | .int, .float _ => false
  | .float, .int _ => false
  | .float, .bool _ => false
  | _, _ => true

/-- what the property demands of a conversion outcome -/
def ConvOutcomeOK (c : Conv) (nullable : Bool) : Except Err PyVal → Prop
  | .ok r => hasType c r = true ∨ (r = .none ∧ nullable = true)
  | .error e => e = .valueError

theorem boolText_cases (s : Str) :
    boolText s = .ok (.bool true) ∨ boolText s = .ok (.bool false) ∨ boolText s = .error .valueError := by
  unfold boolText
  split
  · simp
  · split
    · simp
    · split <;> simp

theorem convOK_boolText (nullable : Bool) (s : Str) : ConvOutcomeOK .boolean nullable (boolText s) := by
  rcases boolText_cases s with h | h | h <;> rw [h] <;> simp [ConvOutcomeOK, hasType]

theorem conv_typed_aux (eng : FloatEng) (c : Conv) (nullable : Bool) (v : PyVal)
    (h : engineFree c v = true) : ConvOutcomeOK c nullable (parseAs eng c nullable v) := by
  by_cases hn : (nullable && isNullish v) = true
  · have : parseAs eng c nullable v = .ok .none := by
      cases c <;> simp [parseAs, parseString, parseBoolean, parseInt, parseFloat, hn]
    rw [this]
    simp only [Bool.and_eq_true] at hn
    simp [ConvOutcomeOK, hn.1]
  · cases c with
    | string =>
      simp only [parseAs, parseString, hn]
      cases v <;> simp [ConvOutcomeOK, hasType]
    | boolean =>
      simp only [parseAs, parseBoolean, hn]
      cases v with
      | int n => exact convOK_boolText nullable _
      | str s => exact convOK_boolText nullable _
      | _ => simp [ConvOutcomeOK, hasType]
    | int =>
      simp only [parseAs, parseInt, hn]
      cases v with
      | none => simp [intCall, catchTypeValue, ConvOutcomeOK]
      | bool b => simp [intCall, catchTypeValue, ConvOutcomeOK, hasType]
      | int n => simp [intCall, catchTypeValue, ConvOutcomeOK, hasType]
      | str s =>
        simp only [intCall]
        cases pyInt s <;> simp [catchTypeValue, ConvOutcomeOK, hasType]
      | float x => simp [engineFree] at h
    | float =>
      simp only [parseAs, parseFloat, hn]
      cases v with
      | none => simp [floatCall, catchTypeValue, ConvOutcomeOK]
      | bool b => simp [engineFree] at h
      | int n => simp [engineFree] at h
      | str s =>
        simp only [floatCall]
        cases eng.ofStr s <;> simp [catchTypeValue, ConvOutcomeOK, hasType]
      | float x => simp [floatCall, catchTypeValue, ConvOutcomeOK, hasType]

theorem conv_none_iff_aux (eng : FloatEng) (c : Conv) (nullable : Bool) (v : PyVal) :
    parseAs eng c nullable v = .ok .none ↔ (nullable = true ∧ isNullish v = true) := by
  by_cases hn : (nullable && isNullish v) = true
  · have : parseAs eng c nullable v = .ok .none := by
      cases c <;> simp [parseAs, parseString, parseBoolean, parseInt, parseFloat, hn]
    simp only [Bool.and_eq_true] at hn
    exact ⟨fun _ => hn, fun _ => this⟩
  · have hn' : ¬ (nullable = true ∧ isNullish v = true) := by simpa using hn
    simp only [hn', iff_false]
    cases c with
    | string =>
      simp only [parseAs, parseString, hn]
      cases v <;> simp
    | boolean =>
      simp only [parseAs, parseBoolean, hn]
      cases v with
      | int n => rcases boolText_cases (intRepr n) with h | h | h <;> simp [h]
      | str s => rcases boolText_cases s with h | h | h <;> simp [h]
      | _ => simp
    | int =>
      simp only [parseAs, parseInt, hn]
      cases catchTypeValue (intCall eng v) <;> simp
    | float =>
      simp only [parseAs, parseFloat, hn]
      cases catchTypeValue (floatCall eng v) <;> simp


/-! ### the boolean words -/

theorem trueWords_cases {s : Str} (h : s ∈ trueWords) :
    s = "true".toList ∨ s = "1".toList ∨ s = "yes".toList ∨ s = "on".toList := by
  simpa [trueWords] using h

theorem falseWords_cases {s : Str} (h : s ∈ falseWords) :
    s = "false".toList ∨ s = "0".toList ∨ s = "no".toList ∨ s = "off".toList := by
  simpa [falseWords] using h

theorem boolText_true_iff (s : Str) : boolText s = .ok (.bool true) ↔ s ∈ trueWords := by
  unfold boolText
  by_cases h0 : s.isEmpty = true
  · have : s = [] := by simpa using h0
    subst this
    have : ([] : Str) ∉ trueWords := by decide
    simp [this]
  · rw [if_neg h0]
    by_cases h1 : falseWords.contains s = true
    · rw [if_pos h1]
      have hm : s ∈ falseWords := by simpa using h1
      have : s ∉ trueWords := by
        rcases falseWords_cases hm with h | h | h | h <;> subst h <;> decide
      simp [this]
    · rw [if_neg h1]
      by_cases h2 : trueWords.contains s = true
      · rw [if_pos h2]
        have hm : s ∈ trueWords := by simpa using h2
        simp [hm]
      · rw [if_neg h2]
        have hm : s ∉ trueWords := by simpa using h2
        simp [hm]

theorem boolText_false_iff (s : Str) :
    boolText s = .ok (.bool false) ↔ (s = [] ∨ s ∈ falseWords) := by
  unfold boolText
  by_cases h0 : s.isEmpty = true
  · have : s = [] := by simpa using h0
    subst this
    simp
  · rw [if_neg h0]
    have hne : s ≠ [] := by simpa using h0
    by_cases h1 : falseWords.contains s = true
    · rw [if_pos h1]
      have hm : s ∈ falseWords := by simpa using h1
      simp [hm]
    · rw [if_neg h1]
      have hm : s ∉ falseWords := by simpa using h1
      by_cases h2 : trueWords.contains s = true
      · rw [if_pos h2]; simp [hm, hne]
      · rw [if_neg h2]; simp [hm, hne]


theorem parseInt_of_pyInt (eng : FloatEng) (nullable : Bool) {s : Str} {n : Int}
    (h : pyInt s = some n) : parseInt eng nullable (.str s) = .ok (.int n) := by
  have hnull : pyInt nullText = none := by
    simp [pyInt, pyIntAbs, digitVal?, isWs, isAsciiDigit, nullText]
  have hne : (s == nullText) = false := by
    have : s ≠ nullText := by
      intro he
      rw [he, hnull] at h
      cases h
    simpa using this
  simp [parseInt, isNullish, hne, intCall, h, catchTypeValue]


/-! ### the float round-trip hypotheses are decided by `floatRtB` -/

theorem floatRtB_iff (eng : FloatEng) (x : PyFloat) :
    floatRtB eng x = true ↔ (eng.ofStr (eng.repr x) = some x ∧ eng.repr x ≠ nullText) := by
  simp [floatRtB]

end Clikit.Flags
