import Clikit.Model.CommandTree
/-! Lemmas on `Model/CommandTree.lean`: building a command tree commutes with descending into it. -/
namespace Clikit.CommandTree

theorem buildAll_getElem? (app : Option App) : ∀ (subs : List Cfg) (i : Nat),
    (buildAll app subs)[i]? = (subs[i]?).map (build app)
  | [], i => by simp [buildAll]
  | c :: cs, 0 => by simp [buildAll]
  | c :: cs, i + 1 => by simpa [buildAll] using buildAll_getElem? app cs i

theorem build_subs (app : Option App) (t : Cfg) : (build app t).subs = buildAll app t.subs := by
  cases t with
  | node s => simp [build, Cmd.subs, Cfg.subs]

theorem build_dispatcher (app : Option App) (t : Cfg) :
    (build app t).dispatcher = app.map (fun a => a.dispatcher) := by
  cases t with
  | node s => simp [build, Cmd.dispatcher]

theorem build_application (app : Option App) (t : Cfg) : (build app t).application = app := by
  cases t with
  | node s => simp [build, Cmd.application]

theorem descend_build (app : Option App) : ∀ (path : List Nat) (t : Cfg),
    descend (build app t) path = (descendCfg t path).map (build app)
  | [], t => by simp [descend, descendCfg]
  | i :: p, t => by
    simp only [descend, descendCfg, build_subs, buildAll_getElem?]
    cases h : t.subs[i]? with
    | none => simp
    | some s => simpa using descend_build app p s

end Clikit.CommandTree
