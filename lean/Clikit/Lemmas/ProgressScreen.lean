import Clikit.Lemmas.ProgressSetters
/-!
C16 - a whole ANSI history read on the terminal with rows (`Scr.write`, `Scr.feed`, `screenC` in
Model/Progress.lean): after every call the rows of the terminal are the rows that stood above the bar
followed by exactly the lines of the latest `_overwrite` (`ScrInv`, `runC_screen`).
-/
namespace Clikit.Progress

/-! ### the decimal round trip: `"\x1b[{n}A"` is read back as `n` -/

theorem digitsVal_append (a b : Str) (acc : Nat) :
    digitsVal (a ++ b) acc = digitsVal b (digitsVal a acc) := by
  induction a generalizing acc with
  | nil => rfl
  | cons c r ih => simp [digitsVal, ih]

theorem digitsAux_acc (f : Nat) : ∀ (n : Nat) (acc : Str), digitsAux f n acc = digitsAux f n [] ++ acc := by
  induction f with
  | zero => intro n acc; simp [digitsAux]
  | succ f ih =>
    intro n acc
    simp only [digitsAux]
    split
    · simp
    · rw [ih (n / 10) (_ :: acc), ih (n / 10) [_]]; simp

theorem digit_val : ∀ d, d < 10 → (Char.ofNat (48 + d)).toNat - 48 = d := by decide

theorem digitsVal_digitsAux (f : Nat) : ∀ n, n < f → digitsVal (digitsAux f n []) 0 = n := by
  induction f with
  | zero => intro n h; omega
  | succ f ih =>
    intro n h
    simp only [digitsAux]
    split
    · simp only [digitsVal]
      rw [digit_val _ (Nat.mod_lt _ (by decide))]; omega
    · rw [digitsAux_acc, digitsVal_append, ih (n / 10) (by omega)]
      simp only [digitsVal]
      rw [digit_val _ (Nat.mod_lt _ (by decide))]; omega

theorem digitsVal_natStr (n : Nat) : digitsVal (natStr n) 0 = n :=
  digitsVal_digitsAux (n + 1) n (by omega)

theorem parseCursorUp_cursorUp (n : Nat) : parseCursorUp (cursorUp n) = some n := by
  simp [parseCursorUp, cursorUp, digitsVal_natStr]

theorem parseCursorUp_some (w : Str) (k : Nat) (h : parseCursorUp w = some k) : w = cursorUp k := by
  unfold parseCursorUp at h
  split at h
  · dsimp only at h
    split at h
    · cases h; assumption
    · cases h
  · cases h

/-! ### one write -/

/-- text the terminal reads as text: no carriage return, no ESC -/
def Printable (s : Str) : Prop := ∀ ch ∈ s, ch ≠ '\r' ∧ ch ≠ ESC

theorem printableB_iff (s : Str) : printableB s = true ↔ Printable s := by
  simp [printableB, Printable]

theorem write_cr (x : Scr) : x.write ['\r'] = x.cr := by simp [Scr.write]

theorem write_erase (x : Scr) : x.write eraseDown = x.eraseDown := by
  have : eraseDown ≠ ['\r'] := by decide
  simp [Scr.write, this]

theorem write_up (x : Scr) (n : Nat) : x.write (cursorUp n) = x.up n := by
  have h1 : cursorUp n ≠ ['\r'] := by simp [cursorUp]
  have h2 : cursorUp n ≠ eraseDown := by
    intro he
    have he2 : natStr n ++ ['A'] = ['0', 'J'] := by simpa [cursorUp, eraseDown] using he
    have := congrArg List.getLast? he2
    simp at this
  simp [Scr.write, h1, h2, parseCursorUp_cursorUp]

theorem write_text (x : Scr) (w : Str) (h : Printable w) : x.write w = x.putLines (splitNL w) := by
  have h1 : w ≠ ['\r'] := by
    intro he; exact (h '\r' (by rw [he]; simp)).1 rfl
  have h2 : w ≠ eraseDown := by
    intro he; exact (h ESC (by rw [he]; simp [eraseDown])).2 rfl
  have h3 : parseCursorUp w = none := by
    cases hp : parseCursorUp w with
    | none => rfl
    | some k => exact absurd rfl (h ESC (by rw [parseCursorUp_some w k hp]; simp [cursorUp])).2
  simp [Scr.write, h1, h2, h3]

/-! ### `split("\n")` and `"\n".join` -/

theorem splitNL_noNL : ∀ (s : Str), ∀ l ∈ splitNL s, ∀ ch ∈ l, ch ≠ '\n' := by
  intro s
  induction s with
  | nil => intro l hl ch hch; simp [splitNL] at hl; subst hl; simp at hch
  | cons c r ih =>
    intro l hl ch hch
    unfold splitNL at hl
    split at hl
    · rcases List.mem_cons.mp hl with h | h
      · subst h; simp at hch
      · exact ih l h ch hch
    · rename_i hc
      have hc' : c ≠ '\n' := by simpa using hc
      split at hl
      · simp at hl; subst hl; simp at hch; rw [hch]; exact hc'
      · rename_i l0 ls hs
        rcases List.mem_cons.mp hl with h | h
        · subst h
          rcases List.mem_cons.mp hch with h2 | h2
          · rw [h2]; exact hc'
          · exact ih l0 (by rw [hs]; simp) ch h2
        · exact ih l (by rw [hs]; simp [h]) ch hch

theorem mem_splitNL : ∀ (s : Str), ∀ l ∈ splitNL s, ∀ ch ∈ l, ch ∈ s := by
  intro s
  induction s with
  | nil => intro l hl ch hch; simp [splitNL] at hl; subst hl; simp at hch
  | cons c r ih =>
    intro l hl ch hch
    unfold splitNL at hl
    split at hl
    · rcases List.mem_cons.mp hl with h | h
      · subst h; simp at hch
      · exact List.mem_cons_of_mem _ (ih l h ch hch)
    · split at hl
      · simp at hl; subst hl; simp at hch; rw [hch]; simp
      · rename_i l0 ls hs
        rcases List.mem_cons.mp hl with h | h
        · subst h
          rcases List.mem_cons.mp hch with h2 | h2
          · rw [h2]; simp
          · exact List.mem_cons_of_mem _ (ih l0 (by rw [hs]; simp) ch h2)
        · exact List.mem_cons_of_mem _ (ih l (by rw [hs]; simp [h]) ch hch)

theorem splitNL_append_nl (l : Str) (hl : ∀ ch ∈ l, ch ≠ '\n') (r : Str) :
    splitNL (l ++ '\n' :: r) = l :: splitNL r := by
  induction l with
  | nil => simp [splitNL]
  | cons c l ih =>
    have hc : (c == '\n') = false := by simpa using hl c (by simp)
    have := ih (fun ch hch => hl ch (by simp [hch]))
    simp [splitNL, hc, this]

theorem splitNL_joinNL : ∀ (ls : List Str), ls ≠ [] → (∀ l ∈ ls, ∀ ch ∈ l, ch ≠ '\n') →
    splitNL (joinNL ls) = ls
  | [], h, _ => absurd rfl h
  | [l], _, h => by simpa [joinNL] using splitNL_clean l (h l (by simp))
  | l :: l2 :: rest, _, h => by
    simp only [joinNL]
    rw [splitNL_append_nl l (h l (by simp)), splitNL_joinNL (l2 :: rest) (by simp)
      (fun l' hl' => h l' (by simp [hl']))]

theorem splitNL_length (s : Str) : (splitNL s).length = countNL s + 1 := by
  induction s with
  | nil => simp [splitNL, countNL]
  | cons c r ih =>
    unfold splitNL
    by_cases hc : (c == '\n') = true
    · simp only [hc, if_true, List.length_cons, ih]
      simp [countNL, hc]
    · have hc' : (c == '\n') = false := by simpa using hc
      have hcnt : countNL (c :: r) = countNL r := by simp [countNL, hc']
      simp only [hc', Bool.false_eq_true, if_false]
      cases hs : splitNL r with
      | nil => rw [hs] at ih; simp at ih
      | cons l0 ls => rw [hs] at ih; simpa [hcnt] using ih

theorem splitNL_replicate_nl (m : Nat) : splitNL (List.replicate m '\n') = List.replicate (m + 1) [] := by
  induction m with
  | zero => rfl
  | succ m ih => simp [List.replicate_succ, splitNL, ih]

theorem countNL_replicate_nl (m : Nat) : countNL (List.replicate m '\n') = m := by
  have := splitNL_length (List.replicate m '\n')
  rw [splitNL_replicate_nl] at this
  simp at this
  omega

theorem le_foldl_max (ls : List Str) : ∀ m : Nat,
    m ≤ ls.foldl (fun m l => Max.max m l.length) m ∧
    ∀ l ∈ ls, l.length ≤ ls.foldl (fun m l => Max.max m l.length) m := by
  induction ls with
  | nil => intro m; simp
  | cons a r ih =>
    intro m
    have := ih (Max.max m a.length)
    simp only [List.foldl_cons]
    refine ⟨by omega, ?_⟩
    intro l hl
    rcases List.mem_cons.mp hl with h | h
    · subst h; omega
    · exact this.2 l h

theorem le_maxLen (ls : List Str) (l : Str) (h : l ∈ ls) : l.length ≤ maxLen ls :=
  (le_foldl_max ls 0).2 l h

/-- the padded lines of a printable text are printable -/
theorem printable_padded (msg : Str) (k : Nat) (h : Printable msg) :
    Printable (joinNL ((splitNL msg).map (ljust k))) := by
  intro ch hch
  rcases mem_joinNL _ ch hch with h1 | ⟨l, hl, hcl⟩
  · rw [h1]; exact ⟨by decide, by decide⟩
  · obtain ⟨l0, hl0, rfl⟩ := List.mem_map.mp hl
    simp only [ljust, spaces, List.mem_append, List.mem_replicate] at hcl
    rcases hcl with h2 | h2
    · exact h ch (mem_splitNL msg l0 hl0 ch h2)
    · rw [h2.2]; exact ⟨by decide, by decide⟩

theorem padded_noNL (msg : Str) (k : Nat) :
    ∀ l ∈ (splitNL msg).map (ljust k), ∀ ch ∈ l, ch ≠ '\n' := by
  intro l hl ch hcl
  obtain ⟨l0, hl0, rfl⟩ := List.mem_map.mp hl
  simp only [ljust, spaces, List.mem_append, List.mem_replicate] at hcl
  rcases hcl with h2 | h2
  · exact splitNL_noNL msg l0 hl0 ch h2
  · rw [h2.2]; decide

/-! ### the terminal -/

theorem overlayAt_cover (row txt : Str) (h : row.length ≤ txt.length) : overlayAt row 0 txt = txt := by
  simp [overlayAt, ljust, spaces, List.drop_eq_nil_of_le h]

/-- the rows `bl` standing below are each covered by the line written over them -/
def Fits : List Str → List Str → Prop
  | [], _ => True
  | _ :: _, [] => False
  | b :: bs, l :: ls => b.length ≤ l.length ∧ Fits bs ls

theorem fits_of_le (m : Nat) : ∀ (L L' : List Str), (∀ l ∈ L, l.length ≤ m) → (∀ l ∈ L', m ≤ l.length) →
    L.length ≤ L'.length → Fits L L'
  | [], _, _, _, _ => trivial
  | _ :: _, [], _, _, h => by simp at h
  | b :: bs, l :: ls, h1, h2, h => by
    refine ⟨?_, fits_of_le m bs ls (fun x hx => h1 x (by simp [hx])) (fun x hx => h2 x (by simp [hx]))
      (by simpa using h)⟩
    have := h1 b (by simp); have := h2 l (by simp); omega

theorem showing_cons (ab : List Str) (a : Str) (M : List Str) (h : M ≠ []) :
    Scr.showing ab (a :: M) = Scr.showing (a :: ab) M := by
  cases M with
  | nil => exact absurd rfl h
  | cons _ _ => rfl

theorem showing_snoc : ∀ (T : List Str) (ab : List Str) (last : Str),
    Scr.showing ab (T ++ [last]) = ⟨T.reverse ++ ab, last, last.length, []⟩
  | [], ab, last => rfl
  | a :: T, ab, last => by
    rw [List.cons_append, showing_cons _ _ _ (by simp), showing_snoc T (a :: ab) last]; simp

/-- what `Scr.showing` means: the rows are the rows above followed by exactly the lines, nothing
below the cursor row, the cursor on the last line (at its end) -/
theorem showing_rows (ab L : List Str) (hne : L ≠ []) :
    (Scr.showing ab L).rows = ab.reverse ++ L ∧ (Scr.showing ab L).below = [] ∧
    (Scr.showing ab L).aboveRev.length = ab.length + (L.length - 1) ∧
    (Scr.showing ab L).cur = L.getLast hne ∧ (Scr.showing ab L).col = (L.getLast hne).length := by
  have hL := List.dropLast_concat_getLast hne
  generalize L.getLast hne = last at hL
  generalize L.dropLast = T at hL
  subst hL
  rw [showing_snoc]
  simp [Scr.rows]
  omega

theorem foldl_fits (ls : List Str) : ∀ (bl ab : List Str) (c0 : Str), Fits bl ls →
    ls.foldl Scr.lineStep ⟨ab, c0, c0.length, bl⟩ = Scr.showing ab (c0 :: ls) := by
  induction ls with
  | nil =>
    intro bl ab c0 h
    cases bl with
    | nil => rfl
    | cons _ _ => exact absurd h (by simp [Fits])
  | cons l ls ih =>
    intro bl ab c0 h
    rw [List.foldl_cons, showing_cons _ _ _ (by simp)]
    cases bl with
    | nil =>
      rw [Scr.lineStep_erased]
      exact ih [] _ _ trivial
    | cons b bs =>
      have : Scr.lineStep ⟨ab, c0, c0.length, b :: bs⟩ l = ⟨c0 :: ab, l, l.length, bs⟩ := by
        simp [Scr.lineStep, Scr.nl, Scr.puts, overlayAt_cover b l h.1]
      rw [this]
      exact ih bs _ _ h.2

/-- lines written from column 0 over rows they cover stand there exactly -/
theorem putLines_fits (ab : List Str) (c0 : Str) (bl : List Str) (l : Str) (ls : List Str)
    (h0 : c0.length ≤ l.length) (h : Fits bl ls) :
    Scr.putLines ⟨ab, c0, 0, bl⟩ (l :: ls) = Scr.showing ab (l :: ls) := by
  simp only [Scr.putLines, Scr.puts, overlayAt_cover c0 l h0, Nat.zero_add]
  exact foldl_fits ls bl ab l h

theorem Scr.up_exact (rest : List Str) (col : Nat) : ∀ (fa : List Str) (cur : Str) (below : List Str)
    (hd : Str) (tl : List Str), fa.reverse ++ [cur] = hd :: tl →
    Scr.up fa.length ⟨fa ++ rest, cur, col, below⟩ = ⟨rest, hd, col, tl ++ below⟩
  | [], cur, below, hd, tl, h => by
    simp at h; obtain ⟨rfl, rfl⟩ := h; rfl
  | a :: fa, cur, below, hd, tl, h => by
    have h' : (fa.reverse ++ [a]) ++ [cur] = hd :: tl := by simpa using h
    cases hft : fa.reverse ++ [a] with
    | nil => simp at hft
    | cons hd' tl' =>
      rw [hft] at h'
      simp at h'
      obtain ⟨rfl, rfl⟩ := h'
      simp only [List.length_cons, List.cons_append, Scr.up]
      rw [Scr.up_exact rest col fa a (cur :: below) hd' tl' hft]
      simp

theorem Scr.up_top (n : Nat) (cur : Str) (col : Nat) (below : List Str) :
    Scr.up n ⟨[], cur, col, below⟩ = ⟨[], cur, col, below⟩ := by
  cases n <;> rfl

theorem Scr.up_add : ∀ (a j : Nat) (x : Scr), Scr.up (a + j) x = Scr.up j (Scr.up a x)
  | 0, j, x => by simp [Scr.up]
  | a + 1, j, x => by
    rw [show a + 1 + j = (a + j) + 1 by omega]
    obtain ⟨ab, cur, col, below⟩ := x
    cases ab with
    | nil => simp only [Scr.up]; exact (Scr.up_top j cur col below).symm
    | cons r ab => simp only [Scr.up]; exact Scr.up_add a j _

/-- **A redraw over a standing frame.**  The lines `L` stand below `r`; a redraw that moves up over
them and either erases, or writes lines that cover them one by one, leaves exactly the new lines
below `r`. -/
theorem redraw_showing (r L L' : List Str) (hne : L ≠ []) (hne' : L' ≠ []) (erase : Bool)
    (hfit : erase = false → Fits L L') :
    Scr.redraw (Scr.showing r L) (L.length - 1) erase L' = Scr.showing r L' := by
  have hL := List.dropLast_concat_getLast hne
  generalize L.getLast hne = last at hL
  generalize L.dropLast = T at hL
  subst hL
  rw [showing_snoc]
  have hn : (T ++ [last]).length - 1 = T.reverse.length := by simp
  rw [hn]
  cases hL2 : T ++ [last] with
  | nil => simp at hL2
  | cons hd tl =>
    have hup := Scr.up_exact r 0 T.reverse last [] hd tl (by simpa using hL2)
    cases L' with
    | nil => exact absurd rfl hne'
    | cons l' ls' =>
      simp only [Scr.redraw, Scr.cr, hup, List.append_nil]
      cases erase with
      | true =>
        simp only [if_true, Scr.eraseDown, List.take_zero]
        exact putLines_fits r [] [] l' ls' (by simp) trivial
      | false =>
        have hf := hfit rfl
        rw [hL2] at hf
        simp only [Bool.false_eq_true, if_false]
        exact putLines_fits r hd tl l' ls' hf.1 hf.2

theorem replicate_nil_append (a b : Nat) :
    List.replicate a ([] : Str) ++ List.replicate b [] = List.replicate (a + b) [] := by
  simp

/-- a terminal on which nothing was written yet shows `n + 1` blank lines, for every `n` up to the
number of blank rows above the cursor -/
theorem fresh_eq_showing (k n : Nat) (restRev : List Str) (h : n ≤ k) :
    Scr.fresh k restRev =
      Scr.showing (List.replicate (k - n) [] ++ restRev) (List.replicate (n + 1) []) := by
  rw [List.replicate_succ', showing_snoc]
  simp only [Scr.fresh, List.reverse_replicate, List.length_nil, ← List.append_assoc, replicate_nil_append]
  rw [show n + (k - n) = k by omega]

/-- the first redraw on a terminal with nothing above the blank rows: the cursor stops at the top row -/
theorem redraw_fresh_top (k n : Nat) (L' : List Str) (hlen : k + 1 ≤ L'.length) (hk : k ≤ n) :
    Scr.redraw (Scr.fresh k []) n false L' = Scr.showing [] L' := by
  cases L' with
  | nil => simp at hlen
  | cons l' ls' =>
    have hup := Scr.up_exact [] 0 (List.replicate k ([] : Str)) [] [] [] (List.replicate k [])
      (by rw [List.reverse_replicate, ← List.replicate_succ', List.replicate_succ])
    simp only [List.length_replicate, List.append_nil] at hup
    obtain ⟨j, rfl⟩ : ∃ j, n = k + j := ⟨n - k, by omega⟩
    simp only [Scr.redraw, Scr.cr, Scr.fresh, List.append_nil, Scr.up_add, hup, Scr.up_top,
      Bool.false_eq_true, if_false]
    exact putLines_fits [] [] (List.replicate k []) l' ls' (by simp)
      (fits_of_le 0 _ _ (by intro l hl; simp [(List.mem_replicate.mp hl).2]) (by simp)
        (by simp at hlen ⊢; omega))

/-- the writes of `_overwrite`, read write by write, are the redraw -/
theorem feed_ansiWrites (x : Scr) (n : Nat) (erase : Bool) (lines : List Str) (hne : lines ≠ [])
    (hnl : ∀ l ∈ lines, ∀ ch ∈ l, ch ≠ '\n') (hpr : Printable (joinNL lines)) :
    x.feed (ansiWrites n erase lines) = x.redraw n erase lines := by
  have ht : ∀ y : Scr, y.write (joinNL lines) = y.putLines lines := by
    intro y; rw [write_text y _ hpr, splitNL_joinNL lines hne hnl]
  unfold ansiWrites Scr.feed Scr.redraw
  by_cases hn : n = 0 <;> cases erase <;>
    simp [hn, write_cr, write_up, write_erase, ht, Scr.up]

/-! ### the invariant -/

/-- **What stands on the terminal.**  Before the first write (`displayedLineCount = none`): the untouched
terminal.  Afterwards: below `restRev` (and `j ≤ k` of the blank rows) exactly the lines `L` of the latest
`_overwrite` - `displayedLineCount + 1` of them, none longer than `_last_messages_length` -, the cursor
on the last one, nothing below. -/
def ScrInv (k : Nat) (restRev : List Str) (s : State) (x : Scr) (acc : Option (List Str)) : Prop :=
  match s.displayedLineCount with
  | none => acc = none ∧ x = Scr.fresh k restRev
  | some n => ∃ L j, acc = some L ∧ j ≤ k ∧ L.length = n + 1 ∧ (∀ l ∈ L, l.length ≤ s.lastLen) ∧
      x = Scr.showing (List.replicate j [] ++ restRev) L

theorem ScrInv_congr (k : Nat) (restRev : List Str) (s s' : State) (x : Scr) (acc : Option (List Str))
    (h1 : s'.displayedLineCount = s.displayedLineCount) (h2 : s'.lastLen = s.lastLen)
    (h : ScrInv k restRev s x acc) : ScrInv k restRev s' x acc := by
  unfold ScrInv at *
  rw [h1, h2]
  exact h

/-- one `_overwrite` on a terminal that satisfies the invariant -/
theorem overwrite_screen (c : Config) (s : State) (t : Nat) (msg : Str) (hk : c.kind = .ansi)
    (hq : c.quiet = false) (k : Nat) (restRev : List Str) (x : Scr) (acc : Option (List Str))
    (hInv : ScrInv k restRev s x acc) (hcnt : countNL msg = s.formatLineCount) (hpr : Printable msg)
    (hfirst : s.displayedLineCount = none → s.formatLineCount ≤ k ∨ restRev = []) :
    ScrInv k restRev (overwrite c s t msg).1 (x.feed (overwrite c s t msg).2)
      (some ((splitNL msg).map (ljust s.lastLen))) := by
  have hlen : ((splitNL msg).map (ljust s.lastLen)).length = s.formatLineCount + 1 := by
    rw [List.length_map, splitNL_length, hcnt]
  have hne' : (splitNL msg).map (ljust s.lastLen) ≠ [] := by
    intro h; rw [h] at hlen; simp at hlen
  have hge : ∀ l ∈ (splitNL msg).map (ljust s.lastLen), s.lastLen ≤ l.length := by
    intro l hl
    obtain ⟨l0, _, rfl⟩ := List.mem_map.mp hl
    rw [ljust_length]; omega
  have hw : (overwrite c s t msg).2 =
      ansiWrites (s.displayedLineCount.getD s.formatLineCount)
        (decide (s.displayedLineCount.getD s.formatLineCount ≠ s.formatLineCount))
        ((splitNL msg).map (ljust s.lastLen)) := overwrite_ansi_writes c s t msg hk hq
  have hd : (overwrite c s t msg).1.displayedLineCount = some s.formatLineCount :=
    overwrite_displayedLineCount _ c s t msg
  have hll : (overwrite c s t msg).1.lastLen = maxLen ((splitNL msg).map (ljust s.lastLen)) :=
    (overwrite_fields c s t msg).2.2.2.2.2.2.2
  rw [hw, feed_ansiWrites x _ _ _ hne' (padded_noNL msg _) (printable_padded msg _ hpr)]
  simp only [ScrInv, hd, hll]
  suffices hs : ∃ j, j ≤ k ∧ Scr.redraw x (s.displayedLineCount.getD s.formatLineCount)
      (decide (s.displayedLineCount.getD s.formatLineCount ≠ s.formatLineCount))
      ((splitNL msg).map (ljust s.lastLen)) =
      Scr.showing (List.replicate j [] ++ restRev) ((splitNL msg).map (ljust s.lastLen)) by
    obtain ⟨j, hj, hx⟩ := hs
    exact ⟨_, j, rfl, hj, hlen, fun l hl => le_maxLen _ l hl, hx⟩
  unfold ScrInv at hInv
  cases hdl : s.displayedLineCount with
  | none =>
    rw [hdl] at hInv
    obtain ⟨_, rfl⟩ := hInv
    simp only [Option.getD_none, ne_eq, not_true_eq_false, decide_false]
    rcases hfirst hdl with h | h
    · refine ⟨k - s.formatLineCount, by omega, ?_⟩
      rw [fresh_eq_showing k s.formatLineCount restRev h]
      have := redraw_showing (List.replicate (k - s.formatLineCount) [] ++ restRev)
        (List.replicate (s.formatLineCount + 1) []) _ (by simp) hne' false
        (fun _ => fits_of_le 0 _ _ (by intro l hl; simp [(List.mem_replicate.mp hl).2]) (by simp)
          (by rw [hlen]; simp))
      simpa using this
    · subst h
      by_cases hle : s.formatLineCount ≤ k
      · refine ⟨k - s.formatLineCount, by omega, ?_⟩
        rw [fresh_eq_showing k s.formatLineCount [] hle]
        have := redraw_showing (List.replicate (k - s.formatLineCount) [] ++ [])
          (List.replicate (s.formatLineCount + 1) []) _ (by simp) hne' false
          (fun _ => fits_of_le 0 _ _ (by intro l hl; simp [(List.mem_replicate.mp hl).2]) (by simp)
            (by rw [hlen]; simp))
        simpa using this
      · refine ⟨0, by omega, ?_⟩
        simpa using redraw_fresh_top k s.formatLineCount _ (by rw [hlen]; omega) (by omega)
  | some n =>
    rw [hdl] at hInv
    obtain ⟨L, j, _, hj, hLlen, hLle, rfl⟩ := hInv
    have hLne : L ≠ [] := by intro h; rw [h] at hLlen; simp at hLlen
    refine ⟨j, hj, ?_⟩
    simp only [Option.getD_some]
    have hn : n = L.length - 1 := by omega
    rw [hn]
    apply redraw_showing _ L _ hLne hne'
    intro he
    have : L.length - 1 = s.formatLineCount := by simpa using he
    exact fits_of_le s.lastLen L _ hLle hge (by rw [hlen]; omega)

theorem afterSetter_screen_fields (s : State) (x : Setter) :
    (State.afterSetter s x).displayedLineCount = s.displayedLineCount ∧
    (State.afterSetter s x).lastLen = s.lastLen := by
  cases x <;> simp [State.afterSetter]

theorem ljust_nil (k : Nat) : ljust k [] = spaces k := by simp [ljust]

/-- one call (operation or setter) on a terminal that satisfies the invariant -/
theorem stepC_screen (c : Config) (s : State) (call : Call) (t : Nat) (hk : c.kind = .ansi)
    (hq : c.quiet = false) (k : Nat) (restRev : List Str) (x : Scr) (acc : Option (List Str))
    (hInv : ScrInv k restRev s x acc)
    (hfr : ∀ f, (stepC c s call t).2.frame = some f →
      countNL f.text = (stepC c s call t).2.st.formatLineCount ∧ Printable f.text)
    (hfirst : s.displayedLineCount = none → (stepC c s call t).2.writes ≠ [] →
      (stepC c s call t).2.st.formatLineCount ≤ k ∨ restRev = []) :
    ScrInv k restRev (stepC c s call t).2.st (x.feed (stepC c s call t).2.writes)
      (if (stepC c s call t).2.writes.isEmpty then acc
       else some (shownLines ⟨c, call, t, s, (stepC c s call t).2⟩)) := by
  cases call with
  | set y =>
    simp only [stepC, Scr.feed, List.foldl_nil, List.isEmpty_nil, if_true]
    exact ScrInv_congr k restRev s _ x acc (afterSetter_screen_fields s y).1 (afterSetter_screen_fields s y).2 hInv
  | op o =>
    simp only [stepC] at hfr hfirst ⊢
    rcases step_shape c s o t hq with h | h
    · obtain ⟨h1, _, h3, _, h5⟩ := h
      simp only [h1, Scr.feed, List.foldl_nil, List.isEmpty_nil, if_true]
      exact ScrInv_congr k restRev s _ x acc h5 h3 hInv
    · obtain ⟨s', msg, hs1, _, hsd, hs3, hs4, hs5⟩ := h
      have hflc : (step c s o t).st.formatLineCount = s'.formatLineCount := by
        rw [hs3]; exact (overwrite_fields c s' t msg).2.2.2.2.2.1
      have hwne : (step c s o t).writes ≠ [] := by rw [hs4]; exact overwrite_writes_ne c s' t msg hq
      have hInv' : ScrInv k restRev s' x acc := ScrInv_congr k restRev s s' x acc hsd hs1 hInv
      have hcp : countNL msg = s'.formatLineCount ∧ Printable msg := by
        rcases hs5 with ⟨_, hm, _⟩ | ⟨f, hf, hm⟩
        · rw [hm]
          refine ⟨countNL_replicate_nl _, ?_⟩
          intro ch hch
          rw [(List.mem_replicate.mp hch).2]; exact ⟨by decide, by decide⟩
        · rw [← hm, ← hflc]; exact hfr f hf
      have hsl : shownLines ⟨c, Call.op o, t, s, step c s o t⟩ = (splitNL msg).map (ljust s'.lastLen) := by
        rcases hs5 with ⟨hn, hm, _⟩ | ⟨f, hf, hm⟩
        · simp only [shownLines, hn, hflc, hm, splitNL_replicate_nl, List.map_replicate, ljust_nil, hs1]
        · simp only [shownLines, hf, hm, hs1]
      have := overwrite_screen c s' t msg hk hq k restRev x acc hInv' hcp.1 hcp.2
        (by intro hnone; rw [← hflc]; exact hfirst (by rw [← hsd]; exact hnone) hwne)
      rw [← hs3, ← hs4] at this
      have hemp : (step c s o t).writes.isEmpty = false := by
        cases hw : (step c s o t).writes with
        | nil => exact absurd hw hwne
        | cons _ _ => rfl
      simp only [hemp, hsl, Bool.false_eq_true, if_false]
      exact this

theorem stepC_kind (c : Config) (s : State) (call : Call) (t : Nat) :
    (stepC c s call t).1.kind = c.kind := by
  cases call with
  | op o => rfl
  | set x => exact Config.set_kind c x

theorem screenC_cons (x : Scr) (e : CEvent) (rest : List CEvent) :
    screenC x (e :: rest) = screenC (x.feed e.res.writes) rest := rfl

/-- **The invariant holds after every call of a history** (operations and setters) on an ANSI output
that is not quiet, when every frame drawn has as many line breaks as the format in use and contains
neither CR nor ESC, and the first write moves up over blank rows only (or there is nothing above). -/
theorem runC_screen (k : Nat) (restRev : List Str) : ∀ (calls : List (Call × Nat)) (c : Config) (s : State)
    (x : Scr) (acc : Option (List Str)), c.kind = .ansi → c.quiet = false → ScrInv k restRev s x acc →
    (∀ e ∈ runC c s calls, ∀ f, e.res.frame = some f →
      countNL f.text = e.res.st.formatLineCount ∧ Printable f.text) →
    (restRev = [] ∨ ∀ e ∈ runC c s calls, e.pre.displayedLineCount = none → e.res.writes ≠ [] →
      e.res.st.formatLineCount ≤ k) →
    ∀ evs1 evs2, runC c s calls = evs1 ++ evs2 →
      ∃ s', ScrInv k restRev s' (screenC x evs1) (lastLinesFrom acc evs1) := by
  intro calls
  induction calls with
  | nil =>
    intro c s x acc _ _ hInv _ _ evs1 evs2 h
    simp only [runC] at h
    have : evs1 = [] := by
      cases evs1 with
      | nil => rfl
      | cons _ _ => simp at h
    subst this
    exact ⟨s, hInv⟩
  | cons cl rest ih =>
    obtain ⟨call, t⟩ := cl
    intro c s x acc hk hq hInv hfr hfirst evs1 evs2 h
    cases evs1 with
    | nil => exact ⟨s, hInv⟩
    | cons e evs1 =>
      rw [runC_cons] at h hfr hfirst
      simp only [List.cons_append, List.cons.injEq] at h
      obtain ⟨he, hrest⟩ := h
      have hstep := stepC_screen c s call t hk hq k restRev x acc hInv
        (fun f hf => hfr ⟨c, call, t, s, (stepC c s call t).2⟩ List.mem_cons_self f hf)
        (fun hnone hw => by
          rcases hfirst with h | h
          · exact Or.inr h
          · exact Or.inl (h ⟨c, call, t, s, (stepC c s call t).2⟩ List.mem_cons_self hnone hw))
      have := ih (stepC c s call t).1 (stepC c s call t).2.st _ _
        (by rw [stepC_kind, hk]) (by rw [stepC_quiet, hq]) hstep
        (fun e' he' => hfr e' (by simp [he']))
        (by
          rcases hfirst with h | h
          · exact Or.inl h
          · exact Or.inr (fun e' he' => h e' (by simp [he'])))
        evs1 evs2 hrest
      rw [← he]
      simpa [screenC_cons, lastLinesFrom] using this

theorem lastLinesFrom_snoc (evs : List CEvent) (e : CEvent) : ∀ acc,
    lastLinesFrom acc (evs ++ [e]) =
      if e.res.writes.isEmpty then lastLinesFrom acc evs else some (shownLines e) := by
  induction evs with
  | nil => intro acc; simp [lastLinesFrom]
  | cons a r ih => intro acc; simp only [List.cons_append, lastLinesFrom, ih]

/-- a call that draws a frame writes -/
theorem frame_writes (c : Config) (s : State) (call : Call) (t : Nat) (hq : c.quiet = false) (f : Frame)
    (hf : (stepC c s call t).2.frame = some f) : (stepC c s call t).2.writes ≠ [] := by
  cases call with
  | set y => simp [stepC] at hf
  | op o =>
    simp only [stepC] at hf ⊢
    rcases step_shape c s o t hq with h | h
    · rw [h.2.1] at hf; cases hf
    · obtain ⟨s', msg, _, _, _, _, hs4, _⟩ := h
      rw [hs4]; exact overwrite_writes_ne c s' t msg hq

theorem framesFitB_iff (evs : List CEvent) :
    framesFitB evs = true ↔ ∀ e ∈ evs, ∀ f, e.res.frame = some f →
      countNL f.text = e.res.st.formatLineCount ∧ Printable f.text := by
  simp only [framesFitB, List.all_eq_true]
  constructor
  · intro h e he f hf
    have := h e he
    rw [hf] at this
    simpa [printableB_iff] using this
  · intro h e he
    cases hf : e.res.frame with
    | none => rfl
    | some f => simpa [printableB_iff] using h e he f hf

theorem firstMoveB_iff (k : Nat) (evs : List CEvent) :
    firstMoveB k evs = true ↔ ∀ e ∈ evs, e.pre.displayedLineCount = none → e.res.writes ≠ [] →
      e.res.st.formatLineCount ≤ k := by
  simp only [firstMoveB, List.all_eq_true]
  constructor
  · intro h e he hn hw
    have := h e he
    cases hwl : e.res.writes with
    | nil => exact absurd hwl hw
    | cons _ _ => simpa [hn, hwl] using this
  · intro h e he
    cases hn : e.pre.displayedLineCount with
    | some _ => simp
    | none =>
      cases hwl : e.res.writes with
      | nil => simp
      | cons a r => simpa [hn, hwl] using h e he hn (by rw [hwl]; simp)

end Clikit.Progress
