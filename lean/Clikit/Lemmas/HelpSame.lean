import Clikit.Lemmas.Help
import Clikit.Props.C01
import Clikit.Props.C03
/-!
# `help <path>` and `<path> --help` show the same page: the parser side (C13)

`Props/C13.help_same_page` shows that the two spellings hand the resolver the same leading
names.  This file discharges what the page additionally depends on - the outcomes of the
parses - from the *shape* of the command tree:

* `parse_flag_appended`: appending a switch that the format declares as a flag to a line of
  names never changes how the parse ends;
* `helpResolve_congr_tree`: the help resolver only looks at the parses of commands of the tree;
* `help_parse_typed` / `help_parse_switch`: what the `help` command of the default configuration
  makes of `help <path>` and of `<path> --help`.
-/
namespace Clikit.Help
open Clikit Clikit.Parser Clikit.Resolver
open Clikit.Props

/-! ## A flag appended to a line of names -/

/-- **`FlagOf f sw`**: the format `f` declares the token `sw` as a flag - `--long` of an option
found under its long name (`LongOK`), or `-c` of an option found under the short name `c` and
under its long name (`ShortOK`) - i.e. an option that accepts no value (`NO_VALUE`: neither
required nor multi-valued; the model keeps the mode predicates independent, C07 proves that a
constructed option has exactly these). -/
def FlagOf (f : Fmt) (sw : Str) : Prop :=
  ∃ o : Opt, o.accepts = false ∧ o.valReq = false ∧ o.multi = false ∧
    ((sw = '-' :: '-' :: o.long ∧ LongOK f o) ∨ (∃ c : Char, c ≠ '-' ∧ sw = ['-', c] ∧ ShortOK f o c))

/-- the option a flag token denotes is found under its long name -/
theorem FlagOf.elim {f : Fmt} {sw : Str} (h : FlagOf f sw) :
    ∃ o : Opt, o.accepts = false ∧ o.valReq = false ∧ o.multi = false ∧ f.getOpt? o.long = some o ∧
      Spells f [] [sw] [.opt o none] := by
  obtain ⟨o, ha, hr, hm, hsp⟩ := h
  rcases hsp with ⟨rfl, hl⟩ | ⟨c, hc, rfl, hs⟩
  · exact ⟨o, ha, hr, hm, hl.1, Spells.longBare (next := []) hl (Or.inl ha)⟩
  · exact ⟨o, ha, hr, hm, hs.2,
      Spells.short (take := none) (c := c) (r := []) hc (GroupSpells.flag hs ha GroupSpells.done)⟩

theorem posLike_of_nameLike {t : Str} (h : C03.nameLike t = true) : posLike t = true := by
  simp only [C03.nameLike, Bool.and_eq_true] at h
  simp only [posLike, Bool.or_eq_true]
  exact Or.inr h.2

/-- a line of positional tokens spells its positionals -/
theorem spellsLine_pos (f : Fmt) : ∀ (path : List Str), (∀ p ∈ path, posLike p = true) →
    SpellsLine f path (path.map Sem.pos) := by
  intro path
  induction path with
  | nil => intro _; exact .nil
  | cons p r ih =>
    intro hp
    exact SpellsLine.cons (toks := [p]) (sems := [.pos p]) (.pos (hp p List.mem_cons_self))
      (ih fun q hq => hp q (List.mem_cons_of_mem _ hq))

/-- ... followed by one more item -/
theorem spellsLine_pos_then (f : Fmt) (toks : List Str) (sems : List Sem) (hs : Spells f [] toks sems) :
    ∀ (path : List Str), (∀ p ∈ path, posLike p = true) →
    SpellsLine f (path ++ toks) (path.map Sem.pos ++ sems) := by
  intro path
  induction path with
  | nil =>
    intro _
    have := SpellsLine.cons hs SpellsLine.nil
    simpa using this
  | cons p r ih =>
    intro hp
    exact SpellsLine.cons (toks := [p]) (sems := [.pos p]) (.pos (hp p List.mem_cons_self))
      (ih fun q hq => hp q (List.mem_cons_of_mem _ hq))

/-- a positional never touches the options -/
theorem parseArgument_opts {fa : List FArg} {len : Bool} {tok : Str} {σ σ' : St}
    (h : parseArgument fa len tok σ = .ok σ') : σ'.opts = σ.opts := by
  unfold parseArgument at h
  split_all h
  all_goals (first | cases h | skip)
  all_goals (try (unfold appendArg at h; split_all h))
  all_goals (first | cases h | skip)
  all_goals rfl

theorem runSems_pos_opts (f : Fmt) (len : Bool) : ∀ (path : List Str) (σ σ' : St),
    runSems f len (path.map Sem.pos) σ = .ok σ' → σ'.opts = σ.opts := by
  intro path
  induction path with
  | nil => intro σ σ' h; simp only [List.map_nil, runSems] at h; cases h; rfl
  | cons p r ih =>
    intro σ σ' h
    simp only [List.map_cons, runSems, runSem] at h
    cases hp : parseArgument f.fargs len p σ with
    | error e => rw [hp] at h; cases h
    | ok σ1 =>
      rw [hp] at h
      rw [ih σ1 σ' h, parseArgument_opts hp]

/-- `_insert_missing_command_names` looks at the arguments only -/
theorem insertMissing_opts (f : Fmt) (len : Bool) (A : List (ArgKey × RawArg)) (O O' : List (Str × RawOpt)) :
    insertMissing f len { args := A, opts := O } =
      match insertMissing f len { args := A, opts := O' } with
      | .error e => .error e
      | .ok s => .ok { s with opts := O } := by
  unfold insertMissing
  simp only
  split
  · rfl
  · rfl
  · split <;> rfl

theorem insertMissing_ok_opts {f : Fmt} {len : Bool} {σ s : St} (h : insertMissing f len σ = .ok s) :
    s.opts = σ.opts := by
  unfold insertMissing at h
  split_all h
  all_goals (first | cases h | skip)
  all_goals rfl

/-- the second half of `parse()`: the options only matter for the last step, `storeOpts` -/
theorem finish_eq (cv : Conv) (f : Fmt) (len : Bool) (A : List (ArgKey × RawArg)) (O : List (Str × RawOpt)) :
    (finish cv f len { args := A, opts := O }).1 =
      match insertMissing f len { args := A, opts := [] } with
      | .error e => .error e
      | .ok s =>
        if !(missingArgs f s).isEmpty && !len then .error .cannotParse
        else
          match storeArgs cv f s.args { args := [], opts := [] } with
          | .error e => .error e
          | .ok a => storeOpts cv f O a := by
  unfold finish
  rw [insertMissing_opts f len A O []]
  cases hi : insertMissing f len { args := A, opts := [] } with
  | error e => rfl
  | ok s =>
    simp only
    have hm : missingArgs f { s with opts := O } = missingArgs f s := rfl
    rw [hm]
    split
    · rfl
    · simp only
      cases storeArgs cv f s.args { args := [], opts := [] } <;> rfl

/-- storing a flag never fails and leaves the arguments alone -/
theorem setOption_flag (cv : Conv) (f : Fmt) (o : Opt) (v : RawOpt) (a : Args)
    (hl : f.getOpt? o.long = some o) (ha : o.accepts = false) (hm : o.multi = false) :
    ∃ a', setOption cv f o.long v a = .ok a' ∧ a'.args = a.args := by
  unfold setOption
  simp only [hl, hm, ha, Bool.false_eq_true, if_false]
  split <;> exact ⟨_, rfl, rfl⟩

theorem storeOpts_flag (cv : Conv) (f : Fmt) (o : Opt) (v : RawOpt) (a : Args)
    (hl : f.getOpt? o.long = some o) (ha : o.accepts = false) (hm : o.multi = false) :
    ∃ a', storeOpts cv f [(o.long, v)] a = .ok a' ∧ a'.args = a.args := by
  obtain ⟨a', h1, h2⟩ := setOption_flag cv f o v a hl ha hm
  refine ⟨a', ?_, h2⟩
  simp only [storeOpts, Fmt.hasOpt, hl, Option.isSome_some, if_true, h1, bind, Except.bind]

/-- **A flag appended to a line of names changes no parse outcome**, in strict and in lenient
mode: the names are positionals (the token loop treats them alike with or without the flag
behind them; when it fails, it fails before it reaches the flag), the flag only adds an entry
to the options dictionary, the re-alignment and the validation of the arguments do not look
at the options, and storing a flag never fails. -/
theorem parse_flag_appended (cv : Conv) (f : Fmt) (len : Bool) (path : List Str) (sw : Str)
    (hp : ∀ p ∈ path, C03.nameLike p = true) (hf : FlagOf f sw) :
    outcome (parse cv f len (path ++ [sw])) = outcome (parse cv f len path) := by
  obtain ⟨o, ha, hr, hm, hl, hsp⟩ := hf.elim
  have hpos : ∀ p ∈ path, posLike p = true := fun p h => posLike_of_nameLike (hp p h)
  rw [C01.parse_spells cv f len _ _ (spellsLine_pos_then f [sw] _ hsp path hpos),
    C01.parse_spells cv f len _ _ (spellsLine_pos f path hpos)]
  unfold parseSem
  rw [runSems_append]
  cases hrun : runSems f len (path.map Sem.pos) St.empty with
  | error e => rfl
  | ok σ' =>
    have ho : σ'.opts = [] := runSems_pos_opts f len path _ _ hrun
    obtain ⟨A, O⟩ := σ'
    simp only at ho
    subst ho
    simp only [runSems, runSem, C01.opt_without_value o _ hr hm, afterLoop, dictSet]
    rw [finish_eq, finish_eq]
    cases insertMissing f len { args := A, opts := [] } with
    | error e => rfl
    | ok s =>
      simp only
      split
      · rfl
      · cases storeArgs cv f s.args { args := [], opts := [] } with
        | error e => rfl
        | ok a =>
          obtain ⟨a', h1, _⟩ := storeOpts_flag cv f o (if o.valOpt then .dflt o.default else .one (.bool true)) a hl ha hm
          simp only []
          rw [h1]; rfl

/-! ## The help resolver only parses with commands of the tree -/

/-- **`InTree app c`**: `c` is a command of the tree `app` - one of the list, or (recursively)
a sub-command of one of them -/
inductive InTree : List Cmd → Cmd → Prop
  | here {l : List Cmd} {c : Cmd} : c ∈ l → InTree l c
  | sub {l : List Cmd} {d c : Cmd} : d ∈ l → InTree d.subs c → InTree l c

/-- a sub-command of a command of the tree is a command of the tree -/
theorem InTree.child {l : List Cmd} {c d : Cmd} (h : InTree l c) (hd : d ∈ c.subs) : InTree l d := by
  induction h with
  | here hc => exact .sub hc (.here hd)
  | sub hm _ ih => exact .sub hm (ih hd)

theorem Coll.foldl_add_cmds_mem : ∀ (l : List Cmd) (c0 : Coll) (p : Str × Cmd),
    p ∈ (l.foldl Coll.add c0).cmds → p.2 ∈ l ∨ p ∈ c0.cmds := by
  intro l
  induction l with
  | nil => intro c0 p h; exact Or.inr h
  | cons x r ih =>
    intro c0 p h
    rcases ih (c0.add x) p h with h1 | h1
    · exact Or.inl (List.mem_cons_of_mem _ h1)
    · rcases mem_dictSet h1 with h2 | h2
      · left; rw [h2]; exact List.mem_cons_self
      · exact Or.inr h2

theorem Coll.ofList_cmds_mem {l : List Cmd} {p : Str × Cmd} (h : p ∈ (Coll.ofList l).cmds) : p.2 ∈ l := by
  rcases Coll.foldl_add_cmds_mem l Coll.empty p h with h1 | h1
  · exact h1
  · cases h1

/-- `CommandCollection.get` returns a command that was added -/
theorem Coll.ofList_get?_mem {l : List Cmd} {n : Str} {c : Cmd} (h : (Coll.ofList l).get? n = some c) : c ∈ l := by
  unfold Coll.get? at h
  split at h
  · rename_i cmd hg
    cases h
    exact Coll.ofList_cmds_mem (dictGet?_mem hg)
  · split at h
    · exact Coll.ofList_cmds_mem (dictGet?_mem h)
    · cases h

/-- iterating over a collection yields commands that were added -/
theorem Coll.ofList_values_mem {l : List Cmd} {c : Cmd} (h : c ∈ (Coll.ofList l).values) : c ∈ l := by
  unfold Coll.values at h
  obtain ⟨p, hp, rfl⟩ := List.mem_map.mp h
  exact Coll.ofList_cmds_mem hp

theorem namedColl_get?_mem {l : List Cmd} {n : Str} {c : Cmd} (h : (namedColl l).get? n = some c) : c ∈ l :=
  (List.mem_filter.mp (Coll.ofList_get?_mem h)).1

theorem defaultColl_values_mem {l : List Cmd} {c : Cmd} (h : c ∈ (defaultColl l).values) : c ∈ l :=
  (List.mem_filter.mp (Coll.ofList_values_mem h)).1

/-- the walk of C03 ends at a command of the tree -/
theorem walk_inTree (app : List Cmd) : ∀ (ls : List Str) (coll : Coll) (cur : Option (Cmd × List Str))
    (c : Cmd) (p : List Str), (∀ n d, coll.get? n = some d → InTree app d) →
    (∀ d q, cur = some (d, q) → InTree app d) → walk coll cur ls = some (c, p) → InTree app c := by
  intro ls
  induction ls with
  | nil => intro coll cur c p _ hcur h; exact hcur c p h
  | cons n r ih =>
    intro coll cur c p hcoll hcur h
    simp only [walk] at h
    cases hg : coll.get? n with
    | none => rw [hg] at h; exact hcur c p h
    | some c1 =>
      rw [hg] at h
      have h1 : InTree app c1 := hcoll n c1 hg
      refine ih _ _ c p (fun m d hm => h1.child (namedColl_get?_mem hm)) ?_ h
      intro d q hdq
      cases hdq
      exact h1

theorem walk_top_inTree (app : List Cmd) (ls : List Str) (c : Cmd) (p : List Str)
    (h : walk (namedColl app) none ls = some (c, p)) : InTree app c :=
  walk_inTree app ls _ none c p (fun _ _ hm => .here (namedColl_get?_mem hm)) (fun _ _ hn => by cases hn) h

theorem chooseDefault_congr_on (cv : Conv) (a b : List Str) : ∀ (l : List Cmd) (first : Option Cmd),
    (∀ d ∈ l, outcome (parse cv d.fmt d.lenient a) = outcome (parse cv d.fmt d.lenient b)) →
    chooseDefault cv a l first = chooseDefault cv b l first := by
  intro l
  induction l with
  | nil => intro first _; rfl
  | cons d r ih =>
    intro first h
    have hd := h d List.mem_cons_self
    have ih' := fun first => ih first (fun x hx => h x (List.mem_cons_of_mem _ hx))
    simp only [chooseDefault, tryParse]
    cases ha : parse cv d.fmt d.lenient a with
    | ok x =>
      cases hb : parse cv d.fmt d.lenient b with
      | ok y => rfl
      | error e => rw [ha, hb] at hd; cases hd
    | error e =>
      cases hb : parse cv d.fmt d.lenient b with
      | ok y => rw [ha, hb] at hd; cases hd
      | error e' =>
        rw [ha, hb] at hd
        simp only [outcome, Option.some.injEq] at hd
        subst hd
        cases e <;> simp only [ih']

theorem created_congr_on (cv : Conv) (a b : List Str) (c : Cmd) (path : List Str)
    (hd : outcome (parse cv c.fmt true a) = outcome (parse cv c.fmt true b)) :
    created cv c path a = created cv c path b := by
  simp only [created]
  cases ha : parse cv c.fmt true a with
  | ok x =>
    cases hb : parse cv c.fmt true b with
    | ok y => rfl
    | error e => rw [ha, hb] at hd; cases hd
  | error e =>
    cases hb : parse cv c.fmt true b with
    | ok y => rw [ha, hb] at hd; cases hd
    | error e' =>
      rw [ha, hb] at hd
      simp only [outcome, Option.some.injEq] at hd
      subst hd; rfl

theorem chooseDefault_mem (cv : Conv) (toks : List Str) : ∀ (l : List Cmd) (first : Option Cmd) (d : Cmd),
    chooseDefault cv toks l first = .ok (some d) → d ∈ l ∨ first = some d := by
  intro l
  induction l with
  | nil => intro first d h; simp only [chooseDefault] at h; cases h; exact Or.inr rfl
  | cons x r ih =>
    intro first d h
    simp only [chooseDefault] at h
    split at h
    · cases h
    · cases h; exact Or.inl List.mem_cons_self
    · rcases ih _ d h with h1 | h1
      · exact Or.inl (List.mem_cons_of_mem _ h1)
      · cases first with
        | none => simp only [Option.some.injEq] at h1; subst h1; exact Or.inl List.mem_cons_self
        | some f => exact Or.inr h1

/-- **The help resolver depends on the line only through its leading tokens and the outcomes of
the parses by commands of the tree** (the command the walk reaches, its default sub-commands,
or the application's default commands). -/
theorem helpResolve_congr_tree (cv : Conv) (app : List Cmd) (a b : List Str) (hl : lead a = lead b)
    (h : ∀ c, InTree app c → ∀ len, outcome (parse cv c.fmt len a) = outcome (parse cv c.fmt len b)) :
    helpResolve cv app a = helpResolve cv app b := by
  unfold helpResolve
  simp only [hl]
  split
  · rename_i c path hw
    have hc : InTree app c := walk_top_inTree app _ c path hw
    have hsub : ∀ d ∈ (defaultColl c.subs).values, InTree app d :=
      fun d hd => hc.child (defaultColl_values_mem hd)
    rw [chooseDefault_congr_on cv a b _ none (fun d hd => h d (hsub d hd) d.lenient)]
    split
    · rfl
    · rename_i d hcd
      have hd : d ∈ (defaultColl c.subs).values := by
        rcases chooseDefault_mem cv b _ none d hcd with h1 | h1
        · exact h1
        · cases h1
      exact created_congr_on cv a b d _ (h d (hsub d hd) true)
    · exact created_congr_on cv a b c _ (h c hc true)
  · split
    · rfl
    · have htop : ∀ d ∈ (defaultColl app).values, InTree app d :=
        fun d hd => .here (defaultColl_values_mem hd)
      rw [chooseDefault_congr_on cv a b _ none (fun d hd => h d (htop d hd) d.lenient)]
      split
      · rfl
      · rename_i d hcd
        have hd : d ∈ (defaultColl app).values := by
          rcases chooseDefault_mem cv b _ none d hcd with h1 | h1
          · exact h1
          · cases h1
        exact created_congr_on cv a b d _ (h d (htop d hd) true)
      · rfl

/-! ## The `help` command of the default configuration -/

/-- the args format `help` parses with: its own name as the only command name, and the
optional multi-valued string argument `command` (`config/default_application_config.py`) -/
structure HelpFmt (f : Fmt) (cn : CmdName) (arg : Arg) : Prop where
  cmds : f.cmds = [cn]
  cname : cn.name = helpName
  args : f.args = [arg]
  aname : arg.name = S "command"
  optional : arg.required = false
  multi : arg.multi = true
  ty : arg.ty = .string

def helpP0 : FArg := { key := .pseudo 0, required := true, multi := false }
def helpCA : FArg := { key := .real (S "command"), required := false, multi := true }

theorem HelpFmt.fargs {f : Fmt} {cn : CmdName} {arg : Arg} (h : HelpFmt f cn arg) : f.fargs = [helpP0, helpCA] := by
  simp [Fmt.fargs, pseudoArgs, h.cmds, h.args, h.aname, h.optional, h.multi, helpP0, helpCA, List.range_succ]

theorem helpFargs_ml : MultiLast [helpP0, helpCA] := ⟨rfl, trivial⟩
theorem helpFargs_nd : ([helpP0, helpCA].map (·.key)).Nodup := by decide
theorem helpFargs_fits (n : Nat) : fits n [helpP0, helpCA] = true := by simp [fits, helpCA]

/-- positionals on a format whose last argument is multi-valued are all stored -/
theorem runSems_pos_fill (f : Fmt) (hml : MultiLast f.fargs) (hnd : (f.fargs.map (·.key)).Nodup)
    (hfit : ∀ n, fits n f.fargs = true) (len : Bool) (O : List (Str × RawOpt)) :
    ∀ (toks : List Str) (vals : List V),
    runSems f len (toks.map Sem.pos) { args := fill vals f.fargs, opts := O } =
      .ok { args := fill (vals ++ toks.map V.tok) f.fargs, opts := O } := by
  intro toks
  induction toks with
  | nil => intro vals; simp [runSems]
  | cons t r ih =>
    intro vals
    simp only [List.map_cons, runSems, runSem, parseArgument_fill hml hnd, hfit, Bool.true_or, if_true]
    rw [ih]
    simp

theorem parseString_ok (nb : Bool) (v : Scalar) : ∃ r, parseString nb v = .ok r := by
  unfold parseString
  split
  · exact ⟨_, rfl⟩
  · cases v <;> exact ⟨_, rfl⟩

theorem convList_string_ok (cv : Conv) (nb : Bool) : ∀ l : List Scalar, ∃ r, convList cv .string nb l = .ok r := by
  intro l
  induction l with
  | nil => exact ⟨[], rfl⟩
  | cons v r ih =>
    obtain ⟨v', hv⟩ := parseString_ok nb v
    obtain ⟨r', hr⟩ := ih
    exact ⟨v' :: r', by simp only [convList, conv, hv, hr, bind, Except.bind, pure, Except.pure]⟩

theorem vScalars_map_tok : ∀ l : List Str, vScalars (l.map V.tok) = .ok (l.map Scalar.str) := by
  intro l
  induction l with
  | nil => rfl
  | cons t r ih => simp only [List.map_cons, vScalars, V.scalar, ih, bind, Except.bind, pure, Except.pure]

/-- the second half of `parse()` on the `help` format, after the re-alignment: the first value
(the name `help`, typed or re-inserted) takes the command-name slot, the names behind it go to
`command`; nothing can fail, and `command` is set exactly when there is a name -/
theorem help_finish (cv : Conv) (f : Fmt) (len : Bool) (cn : CmdName) (arg : Arg) (hf : HelpFmt f cn arg)
    (vals : List V) (v0 : V) (rest : List Str) (O : List (Str × RawOpt))
    (hvals : insertNames [cn] vals = v0 :: rest.map V.tok)
    (hO : ∀ a, ∃ a', storeOpts cv f O a = .ok a' ∧ a'.args = a.args) :
    ∃ a, (finish cv f len { args := fill vals f.fargs, opts := O }).1 = .ok a ∧
      dictHas (S "command") a.args = !rest.isEmpty := by
  have hfa := hf.fargs
  have hml : MultiLast f.fargs := hfa ▸ helpFargs_ml
  have hnd : (f.fargs.map (·.key)).Nodup := hfa ▸ helpFargs_nd
  have hfit : ∀ n, fits n f.fargs = true := fun n => hfa ▸ helpFargs_fits n
  rw [finish_eq, insertMissing_fill f hml hnd len vals [] (hfit _)]
  simp only [hfit, Bool.true_or, if_true, hf.cmds, hvals]
  rw [hfa, fill_cons_single (a := helpP0) rfl]
  cases rest with
  | nil =>
    have hmiss : missingArgs f { args := (helpP0.key, .one v0) :: fill (([] : List Str).map V.tok) [helpCA], opts := [] } = [] := by
      simp [missingArgs, hfa, helpP0, helpCA, fill, dictHas, dictGet?]
    rw [hmiss]
    simp only [List.isEmpty_nil, Bool.not_true, Bool.false_and, Bool.false_eq_true, if_false, List.map_nil,
      fill_nil_left, helpP0, storeArgs]
    obtain ⟨a', h1, h2⟩ := hO { args := [], opts := [] }
    exact ⟨a', h1, by rw [h2]; rfl⟩
  | cons t r =>
    have hmiss : missingArgs f { args := (helpP0.key, .one v0) :: fill ((t :: r).map V.tok) [helpCA], opts := [] } = [] := by
      simp [missingArgs, hfa, helpP0, helpCA, fill, dictHas, dictGet?]
    rw [hmiss]
    have hget : f.getArg? (S "command") = some arg := by
      simp [Fmt.getArg?, hf.args, hf.aname]
    obtain ⟨l', hl'⟩ := convList_string_ok cv arg.nullable ((t :: r).map Scalar.str)
    have hset : setArgument cv f (S "command") (.many ((t :: r).map V.tok)) { args := [], opts := [] } =
        .ok { args := [(S "command", .list l')], opts := [] } := by
      simp only [setArgument, hget, hf.multi, if_true, vScalars_map_tok, hf.ty, hl', hf.aname, bind, Except.bind,
        pure, Except.pure, dictSet]
    simp only [List.isEmpty_nil, Bool.not_true, Bool.false_and, Bool.false_eq_true, if_false, List.map_cons]
    rw [fill_cons_multi (a := helpCA) rfl]
    simp only [List.map_cons] at hset
    simp only [helpP0, helpCA, storeArgs, hget, Option.isSome_some, if_true, hset, bind, Except.bind]
    obtain ⟨a', h1, h2⟩ := hO { args := [(S "command", .list l')], opts := [] }
    refine ⟨a', h1, ?_⟩
    rw [h2]
    simp [dictHas, dictGet?]

theorem nameLike_helpName : C03.nameLike helpName = true := by decide

theorem stEmpty_fill (fa : List FArg) : St.empty = { args := fill [] fa, opts := [] } := by
  simp [St.empty, fill_nil_left]

/-- **`help <path>` parsed by the `help` command** (in either mode): the typed name `help` takes
the command-name slot, `command` receives the path - it is set exactly when the path is not empty -/
theorem help_parse_typed (cv : Conv) (f : Fmt) (len : Bool) (cn : CmdName) (arg : Arg) (hf : HelpFmt f cn arg)
    (path : List Str) (hp : ∀ p ∈ path, C03.nameLike p = true) :
    ∃ a, parse cv f len (helpName :: path) = .ok a ∧ dictHas (S "command") a.args = !path.isEmpty := by
  have hfa := hf.fargs
  have hml : MultiLast f.fargs := hfa ▸ helpFargs_ml
  have hnd : (f.fargs.map (·.key)).Nodup := hfa ▸ helpFargs_nd
  have hfit : ∀ n, fits n f.fargs = true := fun n => hfa ▸ helpFargs_fits n
  have hpos : ∀ p ∈ helpName :: path, posLike p = true := by
    intro p hm
    rcases List.mem_cons.mp hm with rfl | hm
    · exact posLike_of_nameLike nameLike_helpName
    · exact posLike_of_nameLike (hp p hm)
  rw [C01.parse_spells cv f len _ _ (spellsLine_pos f _ hpos)]
  unfold parseSem
  rw [stEmpty_fill f.fargs, runSems_pos_fill f hml hnd hfit len [] _ []]
  simp only [afterLoop, List.nil_append]
  apply help_finish cv f len cn arg hf _ (.tok helpName) path [] _ (fun a => ⟨a, rfl, rfl⟩)
  have hm : cn.matches helpName = true := by simp [CmdName.matches, hf.cname]
  have hne : (helpName != []) = true := by decide
  simp only [List.map_cons, insertNames, hm, hne, Bool.and_self, if_true]

/-- **`<path> --help` parsed by the `help` command**: the omitted name `help` is put back into
the command-name slot (`_insert_missing_command_names`), `command` receives the path again; the
switch is a flag and never makes the parse fail -/
theorem help_parse_switch (cv : Conv) (f : Fmt) (len : Bool) (cn : CmdName) (arg : Arg) (hf : HelpFmt f cn arg)
    (path : List Str) (sw : Str) (hp : ∀ p ∈ path, C03.nameLike p = true)
    (hh : ∀ p, path.head? = some p → cn.matches p = false) (hsw : FlagOf f sw) :
    ∃ a, parse cv f len (path ++ [sw]) = .ok a ∧ dictHas (S "command") a.args = !path.isEmpty := by
  have hfa := hf.fargs
  have hml : MultiLast f.fargs := hfa ▸ helpFargs_ml
  have hnd : (f.fargs.map (·.key)).Nodup := hfa ▸ helpFargs_nd
  have hfit : ∀ n, fits n f.fargs = true := fun n => hfa ▸ helpFargs_fits n
  obtain ⟨o, ha, hr, hm, hl, hsp⟩ := hsw.elim
  have hpos : ∀ p ∈ path, posLike p = true := fun p h => posLike_of_nameLike (hp p h)
  rw [C01.parse_spells cv f len _ _ (spellsLine_pos_then f [sw] _ hsp path hpos)]
  unfold parseSem
  rw [runSems_append, stEmpty_fill f.fargs, runSems_pos_fill f hml hnd hfit len [] _ []]
  simp only [runSems, runSem, C01.opt_without_value o _ hr hm, afterLoop, List.nil_append, dictSet]
  apply help_finish cv f len cn arg hf _ (.cmd cn) path _ _
    (fun a => storeOpts_flag cv f o _ a hl ha hm)
  cases path with
  | nil => rfl
  | cons p r =>
    have := hh p rfl
    simp only [List.map_cons, insertNames, this, Bool.and_false, Bool.false_eq_true, if_false, List.map_nil,
      List.cons_append, List.nil_append]

/-! ## Looking the `help` command up, resolving `help <path>` -/

/-- `_commands[k]` after adding `l` in order: the last command of `l` named `k` -/
theorem Coll.foldl_add_get (k : Str) : ∀ (l : List Cmd) (c0 : Coll),
    dictGet? k (l.foldl Coll.add c0).cmds =
      match l.reverse.find? (fun c => c.name == k) with
      | some c => some c
      | none => dictGet? k c0.cmds := by
  intro l
  induction l with
  | nil => intro c0; rfl
  | cons x r ih =>
    intro c0
    simp only [List.foldl_cons, ih, List.reverse_cons, List.find?_append]
    cases hr : r.reverse.find? (fun c => c.name == k) with
    | some c => rfl
    | none =>
      simp only [Option.none_or, Coll.add, dictGet?_dictSet, List.find?_cons, List.find?_nil]
      cases hx : (x.name == k) <;> simp

theorem find?_and {α : Type} (p q : α → Bool) : ∀ (l : List α) (h : α), l.find? p = some h → q h = true →
    l.find? (fun a => q a && p a) = some h := by
  intro l
  induction l with
  | nil => intro h hf; cases hf
  | cons x r ih =>
    intro h hf hq
    simp only [List.find?_cons] at hf ⊢
    cases hx : p x with
    | true => rw [hx] at hf; cases hf; simp [hq]
    | false => rw [hx] at hf; simp only [Bool.and_false]; exact ih h hf hq

/-- the command `application.get_command(k)` returns under its own name `k`, when it is not
anonymous, is also what the resolver finds under `k` among the named commands -/
theorem namedColl_get?_of_ofList (app : List Cmd) (k : Str) (h : Cmd) (hget : (Coll.ofList app).get? k = some h)
    (hname : h.name = k) (hanon : h.anonymous = false) : (namedColl app).get? k = some h := by
  have hA := fun (n : Str) (l : List Cmd) => Coll.foldl_add_get n l Coll.empty
  have hfind : app.reverse.find? (fun c => c.name == k) = some h := by
    unfold Coll.get? at hget
    have h1 := hA k app
    cases hd : dictGet? k (Coll.ofList app).cmds with
    | some c =>
      rw [hd] at hget
      cases hget
      unfold Coll.ofList at hd
      rw [hd] at h1
      cases hf : app.reverse.find? (fun c => c.name == k) with
      | some c' => rw [hf] at h1; exact h1.symm ▸ rfl
      | none => rw [hf] at h1; cases h1
    | none =>
      rw [hd] at hget
      exfalso
      cases ha : dictGet? k (Coll.ofList app).aliasIdx with
      | none => rw [ha] at hget; cases hget
      | some n =>
        rw [ha] at hget
        have h2 := hA n app
        unfold Coll.ofList at hget hd
        simp only at hget
        rw [hget] at h2
        cases hf : app.reverse.find? (fun c => c.name == n) with
        | none => rw [hf] at h2; cases h2
        | some c' =>
          rw [hf] at h2
          cases h2
          have := List.find?_some hf
          simp only [beq_iff_eq] at this
          rw [← this, hname] at hget
          rw [hget] at hd
          cases hd
  have hq : (!h.anonymous) = true := by simp [hanon]
  have hfind' : (app.filter fun c => !c.anonymous).reverse.find? (fun c => c.name == k) = some h := by
    rw [← List.filter_reverse, List.find?_filter]
    have := find?_and (fun c => c.name == k) (fun c => !c.anonymous) _ h hfind hq
    have hfe : (fun a : Cmd => decide ((!a.anonymous) = true ∧ (a.name == k) = true)) =
        (fun a => !a.anonymous && a.name == k) := by
      funext a; cases a.anonymous <;> cases (a.name == k) <;> rfl
    rw [hfe]; exact this
  have h3 := hA k (app.filter fun c => !c.anonymous)
  rw [hfind'] at h3
  unfold Coll.get? namedColl Coll.ofList
  rw [h3]

theorem walk_leaf (cur : Option (Cmd × List Str)) (ls : List Str) : walk (namedColl []) cur ls = cur := by
  cases ls with
  | nil => rfl
  | cons n r => rfl

/-- **`HelpCmd h sw`**: `h` is the `help` command as `DefaultApplicationConfig.configure` wires
it: named `help`, not anonymous, without sub-commands; its args format has the one command name
`help`, the one argument `command` (optional, multi-valued, string) and declares the switch
`sw` as a flag (the global option `--help` / `-h`).  Nothing is required of `h.lenient`. -/
structure HelpCmd (h : Cmd) (sw : Str) : Prop where
  name : h.name = helpName
  named : h.anonymous = false
  leaf : h.subs = []
  fmt : ∃ (cn : CmdName) (arg : Arg), h.fmt.cmds = [cn] ∧ cn.name = helpName ∧ h.fmt.args = [arg] ∧
    arg.name = S "command" ∧ arg.required = false ∧ arg.multi = true ∧ arg.ty = .string
  flag : FlagOf h.fmt sw

theorem HelpCmd.helpFmt {h : Cmd} {sw : Str} (hc : HelpCmd h sw) : ∃ cn arg, HelpFmt h.fmt cn arg := by
  obtain ⟨cn, arg, h1, h2, h3, h4, h5, h6, h7⟩ := hc.fmt
  exact ⟨cn, arg, ⟨h1, h2, h3, h4, h5, h6, h7⟩⟩

/-- **`help <path>` resolves to the `help` command**, which receives the path: the walk stops at
`help` (it has no sub-commands, whatever the path names), there is no default sub-command, and
its parse of the line succeeds -/
theorem resolve_help (cv : Conv) (app : List Cmd) (h : Cmd) (sw : Str) (path : List Str) (hc : HelpCmd h sw)
    (hnamed : (namedColl app).get? helpName = some h) (hp : ∀ p ∈ path, C03.nameLike p = true) :
    ∃ a, resolve cv app (helpName :: path) = .ok ([helpName], a) ∧
      dictHas (S "command") a.args = !path.isEmpty := by
  obtain ⟨cn, arg, hf⟩ := hc.helpFmt
  obtain ⟨a, hpa, hset⟩ := help_parse_typed cv h.fmt h.lenient cn arg hf path hp
  have hl : lead (helpName :: path) = helpName :: path := by
    apply C03.lead_of_path
    intro p hm
    rcases List.mem_cons.mp hm with rfl | hm
    · exact nameLike_helpName
    · exact hp p hm
  have hw : walk (namedColl app) none (lead (helpName :: path)) = some (h, [helpName]) := by
    rw [hl]
    simp only [walk, hnamed, hc.leaf, walk_leaf, hc.name]
  refine ⟨a, ?_, hset⟩
  rw [C03.resolve_deepest cv app _ h [helpName] hw, hc.leaf]
  have hv : (defaultColl ([] : List Cmd)).values = [] := rfl
  simp only [hv, pickDefault, tryParse, hpa, Resolver.created]

/-! ## The switch test of the listener -/

theorem takeWhile_all {α : Type} (p : α → Bool) : ∀ (l : List α), (∀ x ∈ l, p x = true) → l.takeWhile p = l := by
  intro l
  induction l with
  | nil => intro _; rfl
  | cons x r ih =>
    intro h
    simp only [List.takeWhile_cons, h x List.mem_cons_self, if_true]
    rw [ih fun y hy => h y (List.mem_cons_of_mem _ hy)]

theorem hasSwitch_names (toks : List Str) (hp : ∀ t ∈ toks, C03.nameLike t = true) : hasSwitch toks = false := by
  unfold hasSwitch
  simp only [Bool.or_eq_false_iff]
  constructor
  · cases hc : (toks.takeWhile (· != ['-', '-'])).contains (S "-h") with
    | false => rfl
    | true =>
      have hm := (List.takeWhile_sublist _).subset (List.contains_iff_mem.mp hc)
      have := hp _ hm
      exact absurd this (by decide)
  · cases hc : (toks.takeWhile (· != ['-', '-'])).contains (S "--help") with
    | false => rfl
    | true =>
      have hm := (List.takeWhile_sublist _).subset (List.contains_iff_mem.mp hc)
      have := hp _ hm
      exact absurd this (by decide)

theorem hasSwitch_appended (path : List Str) (sw : Str) (hp : ∀ t ∈ path, C03.nameLike t = true)
    (hsw : sw = S "-h" ∨ sw = S "--help") : hasSwitch (path ++ [sw]) = true := by
  have hall : ∀ t ∈ path ++ [sw], (t != ['-', '-']) = true := by
    intro t hm
    rcases List.mem_append.mp hm with hm | hm
    · have := hp t hm
      simp only [C03.nameLike, Bool.and_eq_true] at this
      exact this.1.2
    · simp only [List.mem_singleton] at hm
      subst hm
      rcases hsw with rfl | rfl <;> decide
  have htw : (path ++ [sw]).takeWhile (· != ['-', '-']) = path ++ [sw] := by
    exact takeWhile_all _ _ hall
  unfold hasSwitch
  simp only [htw, Bool.or_eq_true, List.contains_iff_mem, List.mem_append, List.mem_singleton]
  rcases hsw with rfl | rfl
  · exact Or.inl (Or.inr rfl)
  · exact Or.inr (Or.inr rfl)

end Clikit.Help
