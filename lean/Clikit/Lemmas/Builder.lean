import Clikit.Model.Builder
/-!
Helper lemmas for C06: association lists with Python `dict` semantics, the abstract
(element-list) view of a level, the invariant and its preservation.
-/
namespace Clikit.ArgsFmt

/-! ### dictionaries -/
section Dict
variable {ν : Type}

@[simp] theorem dictKeys_nil : dictKeys ([] : Dict ν) = [] := rfl
@[simp] theorem dictKeys_cons (p : Str × ν) (d : Dict ν) : dictKeys (p :: d) = p.1 :: dictKeys d := rfl
@[simp] theorem dictKeys_append (d e : Dict ν) : dictKeys (d ++ e) = dictKeys d ++ dictKeys e := by
  simp [dictKeys]
@[simp] theorem dictVals_nil : dictVals ([] : Dict ν) = [] := rfl
@[simp] theorem dictVals_cons (p : Str × ν) (d : Dict ν) : dictVals (p :: d) = p.2 :: dictVals d := rfl
@[simp] theorem dictVals_append (d e : Dict ν) : dictVals (d ++ e) = dictVals d ++ dictVals e := by
  simp [dictVals]

@[simp] theorem dictVals_map_pair {α : Type} (f : α → Str) (l : List α) :
    dictVals (l.map (fun a => (f a, a))) = l := by
  simp [dictVals, Function.comp_def]
@[simp] theorem dictKeys_map_pair {α : Type} (f : α → Str) (l : List α) :
    dictKeys (l.map (fun a => (f a, a))) = l.map f := by
  simp [dictKeys, Function.comp_def]

theorem dictGet?_eq_none_iff (k : Str) (d : Dict ν) : dictGet? k d = none ↔ k ∉ dictKeys d := by
  induction d with
  | nil => simp [dictGet?]
  | cons p d ih =>
    obtain ⟨k', v'⟩ := p
    by_cases h : k' = k
    · simp [dictGet?, h]
    · have h' : ¬ k = k' := fun e => h e.symm
      simp [dictGet?, h, h', ih]

theorem dictHas_iff (k : Str) (d : Dict ν) : dictHas k d = true ↔ k ∈ dictKeys d := by
  have := dictGet?_eq_none_iff k d
  unfold dictHas
  cases hg : dictGet? k d <;> simp_all

theorem dictHas_eq_decide (k : Str) (d : Dict ν) : dictHas k d = decide (k ∈ dictKeys d) := by
  have := dictHas_iff k d
  cases h : dictHas k d <;> simp_all

theorem dictGet?_mem {k : Str} {v : ν} {d : Dict ν} (h : dictGet? k d = some v) : (k, v) ∈ d := by
  induction d with
  | nil => simp [dictGet?] at h
  | cons p d ih =>
    obtain ⟨k', v'⟩ := p
    by_cases hk : k' = k
    · simp [dictGet?, hk] at h; simp [hk, h]
    · simp [dictGet?, hk] at h; simp [ih h]

theorem dictGet?_of_mem {k : Str} {v : ν} {d : Dict ν} (hn : (dictKeys d).Nodup) (h : (k, v) ∈ d) :
    dictGet? k d = some v := by
  induction d with
  | nil => simp at h
  | cons p d ih =>
    obtain ⟨k', v'⟩ := p
    simp at hn
    by_cases hk : k' = k
    · subst hk
      rcases List.mem_cons.1 h with h | h
      · cases h; simp [dictGet?]
      · exact absurd (List.mem_map_of_mem (f := Prod.fst) h) hn.1
    · rcases List.mem_cons.1 h with h | h
      · cases h; exact absurd rfl hk
      · simp [dictGet?, hk, ih hn.2 h]

theorem dictGet?_append (k : Str) (d e : Dict ν) :
    dictGet? k (d ++ e) = match dictGet? k d with | some v => some v | none => dictGet? k e := by
  induction d with
  | nil => simp [dictGet?]
  | cons p d ih =>
    obtain ⟨k', v'⟩ := p
    by_cases hk : k' = k <;> simp [dictGet?, hk, ih]

theorem dictSet_fresh {k : Str} (v : ν) {d : Dict ν} (h : k ∉ dictKeys d) : dictSet k v d = d ++ [(k, v)] := by
  induction d with
  | nil => rfl
  | cons p d ih =>
    obtain ⟨k', v'⟩ := p
    simp at h
    have hk : ¬ k' = k := fun e => h.1 e.symm
    simp [dictSet, hk, ih h.2]

theorem dictSet_append_fresh {k : Str} (v : ν) {d : Dict ν} (e : Dict ν) (h : k ∉ dictKeys d) :
    dictSet k v (d ++ e) = d ++ dictSet k v e := by
  induction d with
  | nil => rfl
  | cons p d ih =>
    obtain ⟨k', v'⟩ := p
    simp at h
    have hk : ¬ k' = k := fun e => h.1 e.symm
    simp [dictSet, hk, ih h.2]

theorem dictSet_same {k : Str} {v : ν} {d : Dict ν} (h : dictGet? k d = some v) : dictSet k v d = d := by
  induction d with
  | nil => simp [dictGet?] at h
  | cons p d ih =>
    obtain ⟨k', v'⟩ := p
    by_cases hk : k' = k
    · simp [dictGet?, hk] at h; simp [dictSet, hk, h]
    · simp [dictGet?, hk] at h; simp [dictSet, hk, ih h]

theorem dictGet?_dictSet (k k' : Str) (v : ν) (d : Dict ν) :
    dictGet? k (dictSet k' v d) = if k' = k then some v else dictGet? k d := by
  induction d with
  | nil => simp [dictSet, dictGet?]
  | cons p d ih =>
    obtain ⟨k'', v''⟩ := p
    by_cases h1 : k'' = k' <;> by_cases h2 : k'' = k <;> by_cases h3 : k' = k <;>
      simp_all [dictSet, dictGet?]

theorem dictKeys_dictSet_mem (k k' : Str) (v : ν) (d : Dict ν) :
    k ∈ dictKeys (dictSet k' v d) ↔ k = k' ∨ k ∈ dictKeys d := by
  rw [← dictHas_iff, ← dictHas_iff]
  unfold dictHas
  rw [dictGet?_dictSet]
  by_cases h : k' = k
  · simp [h]
  · have : ¬ k = k' := fun e => h e.symm
    simp [h, this]

theorem dictKeys_dictSet_count (n k : Str) (v : ν) (d : Dict ν) :
    (dictKeys (dictSet k v d)).count n = if k ∈ dictKeys d then (dictKeys d).count n
      else (dictKeys d).count n + (if k = n then 1 else 0) := by
  induction d with
  | nil => simp [dictSet, List.count_cons]
  | cons p d ih =>
    obtain ⟨k', v'⟩ := p
    by_cases hk : k' = k
    · simp [dictSet, hk]
    · have hk' : ¬ k = k' := fun e => hk e.symm
      simp [dictSet, hk, hk', List.count_cons, ih]
      split <;> omega

/-- `dictUpdate` onto fresh, pairwise distinct keys is concatenation. -/
theorem dictUpdate_fresh (d e : Dict ν) (h : (dictKeys d ++ dictKeys e).Nodup) : dictUpdate d e = d ++ e := by
  induction e generalizing d with
  | nil => simp [dictUpdate]
  | cons p e ih =>
    obtain ⟨k, v⟩ := p
    have hk : k ∉ dictKeys d := by
      intro hm
      have := (List.nodup_append.1 h).2.2 k hm k (by simp)
      exact this rfl
    rw [dictUpdate, dictSet_fresh v hk, ih]
    · simp
    · simpa [List.append_assoc] using h

/-! `dictSetAll` -/

theorem dictGet?_dictSetAll (k : Str) (v : ν) (ks : List Str) (d : Dict ν) :
    dictGet? k (dictSetAll v ks d) = if k ∈ ks then some v else dictGet? k d := by
  induction ks generalizing d with
  | nil => simp [dictSetAll]
  | cons a ks ih =>
    rw [dictSetAll, ih, dictGet?_dictSet]
    by_cases h1 : k ∈ ks <;> by_cases h2 : a = k <;> simp [h1, h2]
    intro h; exact absurd h.symm h2

theorem dictSetAll_same {v : ν} {ks : List Str} {d : Dict ν} (h : ∀ k ∈ ks, dictGet? k d = some v) :
    dictSetAll v ks d = d := by
  induction ks generalizing d with
  | nil => rfl
  | cons a ks ih =>
    rw [dictSetAll, dictSet_same (h a (by simp))]
    exact ih (fun k hk => h k (by simp [hk]))

theorem dictSetAll_append_fresh (v : ν) (ks : List Str) (d e : Dict ν) (h : ∀ k ∈ ks, k ∉ dictKeys d) :
    dictSetAll v ks (d ++ e) = d ++ dictSetAll v ks e := by
  induction ks generalizing e with
  | nil => rfl
  | cons a ks ih =>
    rw [dictSetAll, dictSet_append_fresh v e (h a (by simp)), ih _ (fun k hk => h k (by simp [hk]))]
    rfl

theorem dictKeys_dictSetAll_mem (k : Str) (v : ν) (ks : List Str) (d : Dict ν) :
    k ∈ dictKeys (dictSetAll v ks d) ↔ k ∈ ks ∨ k ∈ dictKeys d := by
  induction ks generalizing d with
  | nil => simp [dictSetAll]
  | cons a ks ih =>
    rw [dictSetAll, ih, dictKeys_dictSet_mem]
    simp only [List.mem_cons]
    constructor
    · rintro (h | h | h) <;> simp [h]
    · rintro ((h | h) | h) <;> simp [h]

theorem dictSet_keys_nodup (k : Str) (v : ν) (d : Dict ν) (h : (dictKeys d).Nodup) :
    (dictKeys (dictSet k v d)).Nodup := by
  rw [List.nodup_iff_count] at h
  rw [List.nodup_iff_count]
  intro n
  rw [dictKeys_dictSet_count]
  have := h n
  by_cases hk : k ∈ dictKeys d
  · simp [hk, this]
  · simp only [hk, if_false]
    by_cases hn : k = n
    · subst hn; have : (dictKeys d).count k = 0 := List.count_eq_zero.2 hk
      simp; omega
    · simp [hn]; exact this

theorem dictSetAll_keys_nodup (v : ν) (ks : List Str) (d : Dict ν) (h : (dictKeys d).Nodup) :
    (dictKeys (dictSetAll v ks d)).Nodup := by
  induction ks generalizing d with
  | nil => exact h
  | cons a ks ih => exact ih _ (dictSet_keys_nodup a v d h)

theorem dictSetAll_vals (v : ν) (ks : List Str) (d : Dict ν) (h : ∀ x ∈ dictVals d, x = v) :
    ∀ x ∈ dictVals (dictSetAll v ks d), x = v := by
  induction ks generalizing d with
  | nil => exact h
  | cons a ks ih =>
    apply ih
    intro x hx
    have : ∀ (d : Dict ν), (∀ x ∈ dictVals d, x = v) → ∀ x ∈ dictVals (dictSet a v d), x = v := by
      intro d
      induction d with
      | nil => intro _ x hx; simpa [dictSet] using hx
      | cons p d ihd =>
        obtain ⟨k', v'⟩ := p
        intro hd x hx
        by_cases hk : k' = a
        · simp [dictSet, hk] at hx
          rcases hx with hx | hx
          · exact hx
          · exact hd x (by simp [hx])
        · simp [dictSet, hk] at hx
          rcases hx with hx | hx
          · exact hd x (by simp [hx])
          · exact ihd (fun y hy => hd y (by simp [hy])) x hx
    exact this d h x hx

end Dict

/-! ### The abstract (element list) view of a level, chains, the invariant -/

/-- What a level *means*: the elements that were added, in order. -/
structure ALevel where
  names : List CmdName
  cs : List CmdOpt
  as : List Arg
  os : List Opt

/-- the entries one command option contributes to `_command_options` (one per distinct long
name / long alias) -/
def CmdOpt.longBlock (c : CmdOpt) : Dict CmdOpt := dictSetAll c c.longAliases [(c.long, c)]
/-- ... and to `_command_options_by_short_name` -/
def CmdOpt.shortBlock (c : CmdOpt) : Dict CmdOpt := dictSetAll c c.shortAliases (setIfTruthy c.short c [])
def Opt.shortPair (o : Opt) : Dict Opt := setIfTruthy o.short o []

/-- The fields a builder / format holds after the elements of `A` were added to a fresh one. -/
def ALevel.toLevel (A : ALevel) : Level :=
  { names := A.names
    copts := A.cs.flatMap CmdOpt.longBlock
    coptsS := A.cs.flatMap CmdOpt.shortBlock
    args := A.as.map (fun a => (a.name, a))
    opts := A.os.map (fun o => (o.long, o))
    optsS := A.os.flatMap Opt.shortPair
    hasMulti := A.as.any (·.multi)
    hasOpt := A.as.any (·.optional) }

/-- A level is well formed when its tables are exactly the tables of some element lists
(keys are the elements' own names, the short-name tables index the same elements, the two
flags summarise the arguments). -/
def Level.OK (l : Level) : Prop := ∃ A : ALevel, l = A.toLevel

/-- every key under which an option or command option of this level can be looked up -/
def Level.keys (l : Level) : List Str :=
  dictKeys l.opts ++ dictKeys l.optsS ++ dictKeys l.copts ++ dictKeys l.coptsS

namespace FormatRec

theorem ind {P : FormatRec → Prop} (h0 : ∀ l, P (.mk none l))
    (h1 : ∀ g l, P g → P (.mk (some g) l)) : ∀ f, P f
  | .mk none l => h0 l
  | .mk (some g) l => h1 g l (ind h0 h1 g)

/-- all lookup keys of the format and its bases -/
def keyChain : FormatRec → List Str
  | .mk b l => l.keys ++ (match b with | some g => g.keyChain | none => [])
/-- all arguments, base first (the listing order of `get_arguments`) -/
def argChain : FormatRec → Dict Arg
  | .mk b l => (match b with | some g => g.argChain | none => []) ++ l.args
/-- all options, own first (the listing order of `get_options`) -/
def optChain : FormatRec → Dict Opt
  | .mk b l => l.opts ++ (match b with | some g => g.optChain | none => [])
/-- all command-option entries, own first (the listing order of `get_command_options`) -/
def coptChain : FormatRec → List CmdOpt
  | .mk b l => dictVals l.copts ++ (match b with | some g => g.coptChain | none => [])
/-- all command names, base first -/
def nameChain : FormatRec → List CmdName
  | .mk b l => (match b with | some g => g.nameChain | none => []) ++ l.names
def AllOK : FormatRec → Prop
  | .mk b l => l.OK ∧ (match b with | some g => g.AllOK | none => True)

end FormatRec

def baseKeys : Option FormatRec → List Str | some g => g.keyChain | none => []
def baseArgs : Option FormatRec → Dict Arg | some g => g.argChain | none => []
def baseOpts : Option FormatRec → Dict Opt | some g => g.optChain | none => []
def baseCopts : Option FormatRec → List CmdOpt | some g => g.coptChain | none => []
def baseNames : Option FormatRec → List CmdName | some g => g.nameChain | none => []
def baseAllOK : Option FormatRec → Prop | some g => g.AllOK | none => True

@[simp] theorem keyChain_mk (b l) : (FormatRec.mk b l).keyChain = l.keys ++ baseKeys b := by
  cases b <;> rfl
@[simp] theorem argChain_mk (b l) : (FormatRec.mk b l).argChain = baseArgs b ++ l.args := by
  cases b <;> rfl
@[simp] theorem optChain_mk (b l) : (FormatRec.mk b l).optChain = l.opts ++ baseOpts b := by
  cases b <;> rfl
@[simp] theorem coptChain_mk (b l) : (FormatRec.mk b l).coptChain = dictVals l.copts ++ baseCopts b := by
  cases b <;> rfl
@[simp] theorem nameChain_mk (b l) : (FormatRec.mk b l).nameChain = baseNames b ++ l.names := by
  cases b <;> rfl
@[simp] theorem allOK_mk (b l) : (FormatRec.mk b l).AllOK ↔ l.OK ∧ baseAllOK b := by
  cases b <;> exact Iff.rfl

/-- The rules on the argument list: names are unique, only the last argument may be
multi-valued, no required argument after an optional one. -/
structure ArgsOK (as : List Arg) : Prop where
  names : (as.map (·.name)).Nodup
  multiLast : ∀ a ∈ as.dropLast, a.multi = false
  order : as.Pairwise (fun x y => ¬ (x.optional = true ∧ y.required = true))

/-- **The invariant** of a format (with its bases). -/
structure InvF (f : FormatRec) : Prop where
  ok : f.AllOK
  keys : f.keyChain.Nodup
  args : ArgsOK (dictVals f.argChain)

/-- a builder seen as the format it would be copied into field by field -/
def Builder.raw (b : Builder) : FormatRec := .mk b.base b.own

/-- **The invariant** of a builder. -/
def Inv (b : Builder) : Prop := InvF b.raw

def InvBase : Option FormatRec → Prop
  | some g => InvF g
  | none => True

/-! ### name lookup = membership in the key chain -/

theorem FormatRec.taken_iff (f : FormatRec) (n : Str) :
    (f.hasOption n true || f.hasCommandOption n true) = decide (n ∈ f.keyChain) := by
  induction f using FormatRec.ind with
  | h0 l =>
    simp only [FormatRec.hasOption, FormatRec.hasCommandOption, keyChain_mk, baseKeys, Level.keys,
      dictHas_eq_decide]
    rw [Bool.eq_iff_iff]; simp; grind
  | h1 g l ih =>
    simp only [FormatRec.hasOption, FormatRec.hasCommandOption, keyChain_mk, baseKeys, Level.keys,
      dictHas_eq_decide]
    rw [Bool.eq_iff_iff] at ih ⊢
    simp at ih ⊢
    rw [← ih]; grind

theorem Builder.nameTaken_some (b : Builder) (n : Str) :
    b.nameTaken (some n) = decide (n ∈ b.raw.keyChain) := by
  have hb : ∀ g, (FormatRec.hasOption g n true || FormatRec.hasCommandOption g n true) = true ↔ n ∈ g.keyChain := by
    intro g; rw [FormatRec.taken_iff]; simp
  unfold Builder.nameTaken Builder.hasOption Builder.hasCommandOption Builder.raw
  cases hbase : b.base with
  | none =>
    simp only [keyChain_mk, baseKeys, Level.keys, dictHas_eq_decide]
    rw [Bool.eq_iff_iff]; simp; grind
  | some g =>
    simp only [keyChain_mk, baseKeys, Level.keys, dictHas_eq_decide]
    rw [Bool.eq_iff_iff]
    have := hb g
    simp at this ⊢
    rw [← this]; grind

/-! ### consequences of the invariant for a format -/

theorem ArgsOK.prefix {xs ys : List Arg} (h : ArgsOK (xs ++ ys)) : ArgsOK xs := by
  refine ⟨?_, ?_, ?_⟩
  · have := h.names; simp only [List.map_append] at this
    exact (List.nodup_append.1 this).1
  · intro a ha
    by_cases hy : ys = []
    · subst hy; simpa using h.multiLast a (by simpa using ha)
    · apply h.multiLast a
      rw [List.dropLast_append_of_ne_nil hy]
      exact List.mem_append_left _ (List.dropLast_subset _ ha)
  · exact (List.pairwise_append.1 h.order).1

theorem ArgsOK.nil : ArgsOK [] := ⟨by simp, by simp, by simp⟩

theorem InvF.base {g : FormatRec} {l : Level} (h : InvF (.mk (some g) l)) : InvF g := by
  refine ⟨?_, ?_, ?_⟩
  · have := h.ok; simp [baseAllOK] at this; exact this.2
  · have := h.keys; simp only [keyChain_mk, baseKeys] at this
    exact (List.nodup_append.1 this).2.1
  · have := h.args; simp only [argChain_mk, baseArgs, dictVals_append] at this
    exact this.prefix

theorem InvF.ofBase {b : Option FormatRec} {l : Level} (h : InvF (.mk b l)) : InvBase b := by
  cases b with
  | none => trivial
  | some g => exact h.base

theorem Level.OK.args_keys {l : Level} (h : l.OK) : dictKeys l.args = (dictVals l.args).map (·.name) := by
  obtain ⟨A, rfl⟩ := h
  simp [ALevel.toLevel]

theorem FormatRec.argChain_keys (f : FormatRec) (h : f.AllOK) :
    dictKeys f.argChain = (dictVals f.argChain).map (·.name) := by
  induction f using FormatRec.ind with
  | h0 l => simp at h; simp [baseArgs, h.1.args_keys]
  | h1 g l ih =>
    simp [baseAllOK] at h
    simp [baseArgs, h.1.args_keys, ih h.2]

theorem FormatRec.getArguments_eq (f : FormatRec) (h : InvF f) : f.getArguments true = f.argChain := by
  induction f using FormatRec.ind with
  | h0 l => simp [FormatRec.getArguments, baseArgs]
  | h1 g l ih =>
    simp only [FormatRec.getArguments, argChain_mk, baseArgs]
    rw [ih h.base]
    apply dictUpdate_fresh
    have hk := FormatRec.argChain_keys _ h.ok
    simp only [argChain_mk, baseArgs, dictKeys_append] at hk
    rw [hk]
    exact h.args.names

theorem FormatRec.flags_eq (f : FormatRec) (h : f.AllOK) :
    f.hasMultiValuedArgument true = (dictVals f.argChain).any (·.multi) ∧
    f.hasOptionalArgument true = (dictVals f.argChain).any (·.optional) := by
  induction f using FormatRec.ind with
  | h0 l =>
    simp at h; obtain ⟨A, rfl⟩ := h.1
    simp [FormatRec.hasMultiValuedArgument, FormatRec.hasOptionalArgument, baseArgs, ALevel.toLevel, List.any_eq]
  | h1 g l ih =>
    simp [baseAllOK] at h; obtain ⟨A, rfl⟩ := h.1
    have := ih h.2
    simp only [FormatRec.hasMultiValuedArgument, FormatRec.hasOptionalArgument, this, argChain_mk, baseArgs,
      dictVals_append, List.any_append]
    simp [ALevel.toLevel, Bool.or_comm, List.any_eq]

/-! ### the builder's queries are the format's queries on its raw copy -/

theorem queryF_raw (b : Builder) (q : Query) : queryF b.raw q = queryB b q := by
  obtain ⟨base, own⟩ := b
  cases base <;> cases q <;> rename_i ib <;> cases ib <;>
    simp only [queryF, queryB, Builder.raw, FormatRec.hasCommandNames, FormatRec.getCommandNames,
      FormatRec.hasCommandOption, FormatRec.hasCommandOptions, FormatRec.getCommandOption,
      FormatRec.getCommandOptions, FormatRec.getArguments, FormatRec.hasArgument, FormatRec.hasArgumentAt,
      FormatRec.hasMultiValuedArgument, FormatRec.hasOptionalArgument, FormatRec.hasRequiredArgument,
      FormatRec.hasArguments, FormatRec.getArgument, FormatRec.getArgumentAt, FormatRec.hasOption,
      FormatRec.hasOptions, FormatRec.getOption, FormatRec.getOptions,
      Builder.hasCommandNames, Builder.getCommandNames,
      Builder.hasCommandOption, Builder.hasCommandOptions, Builder.getCommandOption,
      Builder.getCommandOptions, Builder.getArguments, Builder.hasArgument, Builder.hasArgumentAt,
      Builder.hasMultiValuedArgument, Builder.hasOptionalArgument, Builder.hasRequiredArgument,
      Builder.hasArguments, Builder.getArgument, Builder.getArgumentAt, Builder.hasOption,
      Builder.hasOptions, Builder.getOption, Builder.getOptions] <;> rfl

theorem Builder.getArguments_raw (b : Builder) (ib : Bool) : b.getArguments ib = b.raw.getArguments ib := by
  have := queryF_raw b (.getArguments ib); simp only [queryF, queryB] at this; injection this with h; exact h.symm
theorem Builder.hasArgument_raw (b : Builder) (n : Str) (ib : Bool) : b.hasArgument n ib = b.raw.hasArgument n ib := by
  have := queryF_raw b (.hasArgument n ib); simp only [queryF, queryB] at this; injection this with h; exact h.symm
theorem Builder.hasMulti_raw (b : Builder) (ib : Bool) :
    b.hasMultiValuedArgument ib = b.raw.hasMultiValuedArgument ib := by
  have := queryF_raw b (.hasMultiValuedArgument ib); simp only [queryF, queryB] at this; injection this with h; exact h.symm
theorem Builder.hasOptional_raw (b : Builder) (ib : Bool) :
    b.hasOptionalArgument ib = b.raw.hasOptionalArgument ib := by
  have := queryF_raw b (.hasOptionalArgument ib); simp only [queryF, queryB] at this; injection this with h; exact h.symm

/-! ### `ArgsFormat.__init__` rebuilds exactly the builder's tables -/

theorem setIfTruthy_fresh {ν : Type} (s : Option Str) (v : ν) (d : Dict ν)
    (h : ∀ k ∈ dictKeys (setIfTruthy s v []), k ∉ dictKeys d) :
    setIfTruthy s v d = d ++ setIfTruthy s v [] := by
  cases s with
  | none => simp [setIfTruthy]
  | some s =>
    cases s with
    | nil => simp [setIfTruthy]
    | cons c r =>
      simp only [setIfTruthy] at h ⊢
      rw [dictSet_fresh v (h (c :: r) (by simp [dictSet]))]
      rfl

theorem nodup_head_fresh {xs ys zs : List Str} (h : (xs ++ (ys ++ zs)).Nodup) :
    (∀ k ∈ ys, k ∉ xs) ∧ ((xs ++ ys) ++ zs).Nodup := by
  constructor
  · intro k hk hx
    exact (List.nodup_append.1 h).2.2 k hx k (by simp [hk]) rfl
  · simpa [List.append_assoc] using h

theorem indexOptsByShort_eq (os : List Opt) (d : Dict Opt)
    (h : (dictKeys d ++ dictKeys (os.flatMap Opt.shortPair)).Nodup) :
    indexOptsByShort os d = d ++ os.flatMap Opt.shortPair := by
  induction os generalizing d with
  | nil => simp [indexOptsByShort]
  | cons o os ih =>
    simp only [List.flatMap_cons, dictKeys_append] at h
    obtain ⟨hf, hn⟩ := nodup_head_fresh h
    rw [indexOptsByShort, setIfTruthy_fresh o.short o d hf, ih]
    · simp [Opt.shortPair]
    · simpa [Opt.shortPair] using hn

theorem dictSet_length_pos {ν : Type} (k : Str) (v : ν) (d : Dict ν) : 0 < (dictSet k v d).length := by
  cases d with
  | nil => simp [dictSet]
  | cons p d => obtain ⟨k', v'⟩ := p; simp only [dictSet]; split <;> simp

theorem dictSetAll_length_pos {ν : Type} (v : ν) (ks : List Str) (d : Dict ν) (h : 0 < d.length) :
    0 < (dictSetAll v ks d).length := by
  induction ks generalizing d with
  | nil => exact h
  | cons a ks ih => exact ih _ (dictSet_length_pos a v d)

theorem CmdOpt.longBlock_vals (c : CmdOpt) : ∃ xs, dictVals c.longBlock = c :: xs ∧ ∀ x ∈ xs, x = c := by
  have hall := dictSetAll_vals c c.longAliases [(c.long, c)] (by simp)
  have hpos := dictSetAll_length_pos c c.longAliases [(c.long, c)] (by simp)
  unfold CmdOpt.longBlock
  generalize dictSetAll c c.longAliases [(c.long, c)] = D at hall hpos
  cases D with
  | nil => simp at hpos
  | cons p D =>
    refine ⟨dictVals D, ?_, fun x hx => hall x (by simp [hx])⟩
    simp [hall p.2 (by simp)]

theorem CmdOpt.longBlock_keys (c : CmdOpt) (k : Str) :
    k ∈ dictKeys c.longBlock ↔ k = c.long ∨ k ∈ c.longAliases := by
  unfold CmdOpt.longBlock
  rw [dictKeys_dictSetAll_mem]; simp [or_comm]

theorem setIfTruthy_keys {ν : Type} (s : Option Str) (v : ν) (k : Str) :
    k ∈ dictKeys (setIfTruthy s v []) ↔ (s = some k ∧ k ≠ []) := by
  cases s with
  | none => simp [setIfTruthy]
  | some s =>
    cases s with
    | nil => simp [setIfTruthy]
    | cons c r => simp [setIfTruthy, dictSet]; constructor
                  · intro h; subst h; simp
                  · intro h; exact h.1.symm

theorem CmdOpt.shortBlock_keys (c : CmdOpt) (k : Str) :
    k ∈ dictKeys c.shortBlock ↔ (c.short = some k ∧ k ≠ []) ∨ k ∈ c.shortAliases := by
  unfold CmdOpt.shortBlock
  rw [dictKeys_dictSetAll_mem, setIfTruthy_keys]; simp [or_comm]

theorem Opt.shortPair_keys (o : Opt) (k : Str) :
    k ∈ dictKeys o.shortPair ↔ (o.short = some k ∧ k ≠ []) := setIfTruthy_keys _ _ _

theorem dictGet?_setIfTruthy_nil {ν : Type} (s : Option Str) (v : ν) (k : Str) :
    dictGet? k (setIfTruthy s v []) = if s = some k ∧ k ≠ [] then some v else none := by
  cases s with
  | none => simp [setIfTruthy, dictGet?]
  | some s =>
    cases s with
    | nil => simp [setIfTruthy, dictGet?]
    | cons c r =>
      by_cases h : c :: r = k
      · subst h; simp [setIfTruthy, dictSet, dictGet?]
      · simp [setIfTruthy, dictSet, dictGet?, h]

theorem CmdOpt.longBlock_get (c : CmdOpt) (k : Str) :
    dictGet? k c.longBlock = if k = c.long ∨ k ∈ c.longAliases then some c else none := by
  unfold CmdOpt.longBlock
  rw [dictGet?_dictSetAll]
  by_cases h1 : k ∈ c.longAliases
  · simp [h1]
  · by_cases h2 : c.long = k
    · simp [h1, h2, dictGet?]
    · have : ¬ k = c.long := fun e => h2 e.symm
      simp [h1, h2, this, dictGet?]

theorem CmdOpt.shortBlock_get (c : CmdOpt) (k : Str) :
    dictGet? k c.shortBlock = if (c.short = some k ∧ k ≠ []) ∨ k ∈ c.shortAliases then some c else none := by
  unfold CmdOpt.shortBlock
  rw [dictGet?_dictSetAll, dictGet?_setIfTruthy_nil]
  by_cases h1 : k ∈ c.shortAliases <;> simp [h1]

/-- inserting one command option into tables that do not know any of its names -/
theorem insert_fresh (c : CmdOpt) (dl ds : Dict CmdOpt)
    (hl : ∀ k ∈ dictKeys c.longBlock, k ∉ dictKeys dl) (hs : ∀ k ∈ dictKeys c.shortBlock, k ∉ dictKeys ds) :
    dictSetAll c c.longAliases (dictSet c.long c dl) = dl ++ c.longBlock ∧
    dictSetAll c c.shortAliases (setIfTruthy c.short c ds) = ds ++ c.shortBlock := by
  constructor
  · rw [dictSet_fresh c (hl _ ((c.longBlock_keys _).2 (Or.inl rfl)))]
    exact dictSetAll_append_fresh c _ dl _ (fun k hk => hl k ((c.longBlock_keys _).2 (Or.inr hk)))
  · rw [setIfTruthy_fresh c.short c ds]
    · exact dictSetAll_append_fresh c _ ds _ (fun k hk => hs k ((c.shortBlock_keys _).2 (Or.inr hk)))
    · intro k hk
      exact hs k ((c.shortBlock_keys _).2 (Or.inl ((setIfTruthy_keys _ _ _).1 hk)))

/-- inserting it a second time changes nothing -/
theorem insert_again (c : CmdOpt) (dl ds : Dict CmdOpt)
    (hl : ∀ k ∈ dictKeys c.longBlock, k ∉ dictKeys dl) (hs : ∀ k ∈ dictKeys c.shortBlock, k ∉ dictKeys ds) :
    dictSetAll c c.longAliases (dictSet c.long c (dl ++ c.longBlock)) = dl ++ c.longBlock ∧
    dictSetAll c c.shortAliases (setIfTruthy c.short c (ds ++ c.shortBlock)) = ds ++ c.shortBlock := by
  have gl : ∀ k, (k = c.long ∨ k ∈ c.longAliases) → dictGet? k (dl ++ c.longBlock) = some c := by
    intro k hk
    have hnot : dictGet? k dl = none := (dictGet?_eq_none_iff k dl).2 (hl k ((c.longBlock_keys k).2 hk))
    rw [dictGet?_append, hnot, c.longBlock_get]; simp [hk]
  have gs : ∀ k, ((c.short = some k ∧ k ≠ []) ∨ k ∈ c.shortAliases) → dictGet? k (ds ++ c.shortBlock) = some c := by
    intro k hk
    have hnot : dictGet? k ds = none := (dictGet?_eq_none_iff k ds).2 (hs k ((c.shortBlock_keys k).2 hk))
    rw [dictGet?_append, hnot, c.shortBlock_get]; simp [hk]
  constructor
  · rw [dictSet_same (gl _ (Or.inl rfl))]
    exact dictSetAll_same (fun k hk => gl k (Or.inr hk))
  · have : setIfTruthy c.short c (ds ++ c.shortBlock) = ds ++ c.shortBlock := by
      cases hs' : c.short with
      | none => simp [setIfTruthy]
      | some s =>
        cases s with
        | nil => simp [setIfTruthy]
        | cons a r => simp only [setIfTruthy]; exact dictSet_same (gs _ (Or.inl ⟨hs', by simp⟩))
    rw [this]
    exact dictSetAll_same (fun k hk => gs k (Or.inr hk))

theorem indexCmdOpts_append (xs ys : List CmdOpt) (d : Dict CmdOpt × Dict CmdOpt) :
    indexCmdOpts (xs ++ ys) d = indexCmdOpts ys (indexCmdOpts xs d) := by
  induction xs generalizing d with
  | nil => rfl
  | cons x xs ih => obtain ⟨dl, ds⟩ := d; simp [indexCmdOpts, ih]

theorem indexCmdOpts_again (c : CmdOpt) (xs : List CmdOpt) (hx : ∀ x ∈ xs, x = c) (dl ds : Dict CmdOpt)
    (hl : ∀ k ∈ dictKeys c.longBlock, k ∉ dictKeys dl) (hs : ∀ k ∈ dictKeys c.shortBlock, k ∉ dictKeys ds) :
    indexCmdOpts xs (dl ++ c.longBlock, ds ++ c.shortBlock) = (dl ++ c.longBlock, ds ++ c.shortBlock) := by
  induction xs with
  | nil => rfl
  | cons x xs ih =>
    have : x = c := hx x (by simp)
    subst this
    have := insert_again x dl ds hl hs
    rw [indexCmdOpts, this.1, this.2]
    exact ih (fun y hy => hx y (by simp [hy]))

theorem indexCmdOpts_eq (cs : List CmdOpt) (dl ds : Dict CmdOpt)
    (hl : (dictKeys dl ++ dictKeys (cs.flatMap CmdOpt.longBlock)).Nodup)
    (hs : (dictKeys ds ++ dictKeys (cs.flatMap CmdOpt.shortBlock)).Nodup) :
    indexCmdOpts (dictVals (cs.flatMap CmdOpt.longBlock)) (dl, ds) =
      (dl ++ cs.flatMap CmdOpt.longBlock, ds ++ cs.flatMap CmdOpt.shortBlock) := by
  induction cs generalizing dl ds with
  | nil => simp [indexCmdOpts]
  | cons c cs ih =>
    simp only [List.flatMap_cons, dictKeys_append, dictVals_append] at hl hs ⊢
    obtain ⟨hfl, hnl⟩ := nodup_head_fresh hl
    obtain ⟨hfs, hns⟩ := nodup_head_fresh hs
    obtain ⟨xs, hxs, hall⟩ := c.longBlock_vals
    rw [indexCmdOpts_append, hxs, indexCmdOpts]
    have hi := insert_fresh c dl ds hfl hfs
    rw [hi.1, hi.2, indexCmdOpts_again c xs hall dl ds hfl hfs, ih]
    · simp [List.append_assoc]
    · simpa using hnl
    · simpa using hns

theorem Inv.own_keys {b : Builder} (h : Inv b) :
    (dictKeys b.own.opts).Nodup ∧ (dictKeys b.own.optsS).Nodup ∧ (dictKeys b.own.copts).Nodup ∧
    (dictKeys b.own.coptsS).Nodup := by
  have := h.keys
  simp only [Builder.raw, keyChain_mk, Level.keys] at this
  have h1 := (List.nodup_append.1 this).1
  have h2 := (List.nodup_append.1 h1).1
  have h3 := (List.nodup_append.1 h2).1
  exact ⟨(List.nodup_append.1 h3).1, (List.nodup_append.1 h3).2.1, (List.nodup_append.1 h2).2.1,
    (List.nodup_append.1 h1).2.1⟩

/-- Under the invariant the format built from a builder has exactly the builder's fields. -/
theorem format_eq_raw (b : Builder) (h : Inv b) : format b = b.raw := by
  obtain ⟨hA, _⟩ := (allOK_mk b.base b.own).1 h.ok
  obtain ⟨A, hA⟩ := hA
  obtain ⟨_, hk2, hk3, hk4⟩ := h.own_keys
  rw [hA] at hk2 hk3 hk4
  simp only [ALevel.toLevel] at hk2 hk3 hk4
  have e1 := indexOptsByShort_eq A.os [] (by simpa using hk2)
  have e2 := indexCmdOpts_eq A.cs [] [] (by simpa using hk3) (by simpa using hk4)
  obtain ⟨base, own⟩ := b
  simp only at hA
  subst hA
  cases base <;>
    simp [format, Builder.raw, Builder.getOptions, Builder.getCommandOptions, Builder.getCommandNames,
      Builder.getArguments, Builder.hasMultiValuedArgument, Builder.hasOptionalArgument, ALevel.toLevel, e1, e2,
      List.any_eq]

/-! ### well-formed elements (what the element constructors guarantee, C07) -/

def Opt.wf (o : Opt) : Prop := 2 ≤ o.long.length ∧ ∀ s, o.short = some s → s.length = 1
def CmdOpt.wf (c : CmdOpt) : Prop :=
  2 ≤ c.long.length ∧ (∀ s, c.short = some s → s.length = 1) ∧
  (∀ a ∈ c.longAliases, 2 ≤ a.length) ∧ (∀ a ∈ c.shortAliases, a.length = 1)

/-! ### preservation of the invariant -/

theorem nodup_insert {a b c d e x1 x2 x3 x4 : List Str}
    (hold : (a ++ b ++ c ++ d ++ e).Nodup) (hnew : (x1 ++ x2 ++ x3 ++ x4).Nodup)
    (hfresh : ∀ k ∈ x1 ++ x2 ++ x3 ++ x4, k ∉ a ++ b ++ c ++ d ++ e) :
    ((a ++ x1) ++ (b ++ x2) ++ (c ++ x3) ++ (d ++ x4) ++ e).Nodup := by
  rw [List.nodup_iff_count] at hold hnew ⊢
  intro n
  have h1 := hold n
  have h2 := hnew n
  by_cases hm : n ∈ x1 ++ x2 ++ x3 ++ x4
  · have h3 := List.count_eq_zero.2 (hfresh n hm)
    simp only [List.count_append] at h1 h2 h3 ⊢
    omega
  · have h3 := List.count_eq_zero.2 hm
    simp only [List.count_append] at h1 h2 h3 ⊢
    omega

theorem nodup_remove {a b c d e a' b' c' d' : List Str}
    (hold : (a ++ b ++ c ++ d ++ e).Nodup)
    (ha : a' = a ∨ a' = []) (hb : b' = b ∨ b' = []) (hc : c' = c ∨ c' = []) (hd : d' = d ∨ d' = []) :
    (a' ++ b' ++ c' ++ d' ++ e).Nodup := by
  rw [List.nodup_iff_count] at hold ⊢
  intro n
  have h1 := hold n
  simp only [List.count_append] at h1 ⊢
  rcases ha with rfl | rfl <;> rcases hb with rfl | rfl <;> rcases hc with rfl | rfl <;>
    rcases hd with rfl | rfl <;> simp <;> omega

theorem Builder.nameTaken_false {b : Builder} {n : Str} (h : b.nameTaken (some n) = false) :
    n ∉ b.raw.keyChain := by
  rw [Builder.nameTaken_some] at h; simpa using h

theorem Builder.nameTaken_opt_false {b : Builder} {s : Option Str} (h : b.nameTaken s = false) :
    ∀ k, s = some k → k ∉ b.raw.keyChain := by
  intro k hk; subst hk; exact Builder.nameTaken_false h

theorem addOption_ok {b b' : Builder} {o : Opt} (hb : b.addOption o = .ok b') :
    o.long ∉ b.raw.keyChain ∧ (∀ k, o.short = some k → k ∉ b.raw.keyChain) ∧
    b' = { b with own := { b.own with opts := dictSet o.long o b.own.opts,
                                       optsS := setIfTruthy o.short o b.own.optsS } } := by
  unfold Builder.addOption at hb
  cases h1 : b.nameTaken (some o.long) <;> simp [h1] at hb
  cases h2 : b.nameTaken o.short <;> simp [h2] at hb
  exact ⟨Builder.nameTaken_false h1, Builder.nameTaken_opt_false h2, hb.symm⟩

theorem addOption_err {b : Builder} {o : Opt} {e : Err} (hb : b.addOption o = .error e) :
    e = .cannotAddOption := by
  unfold Builder.addOption at hb
  cases h1 : b.nameTaken (some o.long) <;> simp [h1] at hb
  · cases h2 : b.nameTaken o.short <;> simp [h2] at hb
    exact hb.symm
  · exact hb.symm

theorem addOption_inv {b b' : Builder} {o : Opt} (hwf : o.wf) (h : Inv b) (hb : b.addOption o = .ok b') :
    Inv b' := by
  obtain ⟨hlong, hshort, rfl⟩ := addOption_ok hb
  obtain ⟨hA, hbase⟩ := (allOK_mk b.base b.own).1 h.ok
  obtain ⟨A, hA⟩ := hA
  have hkeys := h.keys
  have hargs := h.args
  obtain ⟨base, own⟩ := b
  simp only at hA; subst hA
  simp only [Builder.raw, keyChain_mk, Level.keys, argChain_mk] at hlong hshort hkeys hargs hbase
  have hl' : o.long ∉ dictKeys A.toLevel.opts := fun hm => hlong (by simp [hm])
  have hs' : ∀ k ∈ dictKeys (setIfTruthy o.short o ([] : Dict Opt)), k ∉ dictKeys A.toLevel.optsS := by
    intro k hk hm
    exact hshort k ((setIfTruthy_keys _ _ _).1 hk).1 (by simp [hm])
  have e1 := dictSet_fresh o hl'
  have e2 := setIfTruthy_fresh o.short o A.toLevel.optsS hs'
  have hlvl : ({ A.toLevel with opts := dictSet o.long o A.toLevel.opts,
                                optsS := setIfTruthy o.short o A.toLevel.optsS } : Level)
      = ({ A with os := A.os ++ [o] } : ALevel).toLevel := by
    rw [e1, e2]; simp [ALevel.toLevel, Opt.shortPair]
  refine ⟨?_, ?_, ?_⟩
  · simp only [Builder.raw, allOK_mk]; exact ⟨⟨_, hlvl⟩, hbase⟩
  · simp only [Builder.raw, keyChain_mk, Level.keys, e1, e2, dictKeys_append]
    have := nodup_insert (x1 := dictKeys [(o.long, o)]) (x2 := dictKeys (setIfTruthy o.short o ([] : Dict Opt)))
      (x3 := []) (x4 := []) hkeys ?_ ?_
    · simpa using this
    · simp only [List.append_nil]
      rw [List.nodup_append]
      refine ⟨by simp, ?_, ?_⟩
      · cases hsh : o.short with
        | none => simp [setIfTruthy]
        | some s => cases s <;> simp [setIfTruthy, dictSet]
      · intro x hx y hy hxy
        have hy' := ((setIfTruthy_keys _ _ _).1 hy).1
        simp at hx; subst hx; subst hxy
        have := hwf.2 _ hy'; have := hwf.1; omega
    · intro k hk
      simp only [List.append_nil, List.mem_append] at hk
      rcases hk with hk | hk
      · simp at hk; subst hk; exact hlong
      · exact hshort k ((setIfTruthy_keys _ _ _).1 hk).1
  · simpa [Builder.raw] using hargs

/-- the builder after a command option was accepted -/
def Builder.withCmdOpt (b : Builder) (c : CmdOpt) : Builder :=
  { b with own := { b.own with
      copts := dictSetAll c c.longAliases (dictSet c.long c b.own.copts),
      coptsS := dictSetAll c c.shortAliases (setIfTruthy c.short c b.own.coptsS) } }

theorem addCommandOption_eq (b : Builder) (c : CmdOpt) :
    b.addCommandOption c =
      if (b.nameTaken (some c.long) || c.longAliases.any (fun a => b.nameTaken (some a)) ||
          b.nameTaken c.short || c.shortAliases.any (fun a => b.nameTaken (some a)))
      then .error .cannotAddOption else .ok (b.withCmdOpt c) := by
  unfold Builder.addCommandOption Builder.withCmdOpt
  cases b.nameTaken (some c.long) <;> cases c.longAliases.any (fun a => b.nameTaken (some a)) <;>
    cases b.nameTaken c.short <;> cases c.shortAliases.any (fun a => b.nameTaken (some a)) <;> rfl

theorem addCommandOption_ok {b b' : Builder} {c : CmdOpt} (hb : b.addCommandOption c = .ok b') :
    c.long ∉ b.raw.keyChain ∧ (∀ a ∈ c.longAliases, a ∉ b.raw.keyChain) ∧
    (∀ k, c.short = some k → k ∉ b.raw.keyChain) ∧ (∀ a ∈ c.shortAliases, a ∉ b.raw.keyChain) ∧
    b' = b.withCmdOpt c := by
  rw [addCommandOption_eq] at hb
  split at hb
  · cases hb
  · rename_i hc
    injection hb with hb
    simp only [Bool.or_eq_true, not_or, Bool.not_eq_true] at hc
    obtain ⟨⟨⟨h1, h2⟩, h3⟩, h4⟩ := hc
    rw [List.any_eq_false] at h2 h4
    refine ⟨Builder.nameTaken_false h1, ?_, Builder.nameTaken_opt_false h3, ?_, hb.symm⟩
    · intro a ha; exact Builder.nameTaken_false (by simpa using h2 a ha)
    · intro a ha; exact Builder.nameTaken_false (by simpa using h4 a ha)

theorem addCommandOption_err {b : Builder} {c : CmdOpt} {e : Err} (hb : b.addCommandOption c = .error e) :
    e = .cannotAddOption := by
  rw [addCommandOption_eq] at hb
  split at hb
  · injection hb with hb; exact hb.symm
  · cases hb

theorem CmdOpt.blocks_nodup (c : CmdOpt) (hwf : c.wf) :
    (dictKeys c.longBlock ++ dictKeys c.shortBlock).Nodup := by
  rw [List.nodup_append]
  refine ⟨dictSetAll_keys_nodup c _ _ (by simp), dictSetAll_keys_nodup c _ _ ?_, ?_⟩
  · cases hsh : c.short with
    | none => simp [setIfTruthy]
    | some s => cases s <;> simp [setIfTruthy, dictSet]
  · intro x hx y hy hxy
    subst hxy
    have h2 : 2 ≤ x.length := by
      rcases (c.longBlock_keys x).1 hx with rfl | hx
      · exact hwf.1
      · exact hwf.2.2.1 x hx
    have h1 : x.length = 1 := by
      rcases (c.shortBlock_keys x).1 hy with hy | hy
      · exact hwf.2.1 x hy.1
      · exact hwf.2.2.2 x hy
    omega

theorem addCommandOption_inv {b b' : Builder} {c : CmdOpt} (hwf : c.wf) (h : Inv b)
    (hb : b.addCommandOption c = .ok b') : Inv b' := by
  obtain ⟨hlong, hla, hshort, hsa, rfl⟩ := addCommandOption_ok hb
  obtain ⟨hA, hbase⟩ := (allOK_mk b.base b.own).1 h.ok
  obtain ⟨A, hA⟩ := hA
  have hkeys := h.keys
  have hargs := h.args
  obtain ⟨base, own⟩ := b
  simp only at hA; subst hA
  simp only [Builder.raw, keyChain_mk, Level.keys, argChain_mk] at hlong hla hshort hsa hkeys hargs hbase
  have hL : ∀ k ∈ dictKeys c.longBlock, k ∉ dictKeys A.toLevel.opts ++
      dictKeys A.toLevel.optsS ++ dictKeys A.toLevel.copts ++ dictKeys A.toLevel.coptsS ++ baseKeys base := by
    intro k hk
    rcases (c.longBlock_keys k).1 hk with rfl | hk
    · exact hlong
    · exact hla k hk
  have hS : ∀ k ∈ dictKeys c.shortBlock, k ∉ dictKeys A.toLevel.opts ++
      dictKeys A.toLevel.optsS ++ dictKeys A.toLevel.copts ++ dictKeys A.toLevel.coptsS ++ baseKeys base := by
    intro k hk
    rcases (c.shortBlock_keys k).1 hk with hk | hk
    · exact hshort k hk.1
    · exact hsa k hk
  have ins := insert_fresh c A.toLevel.copts A.toLevel.coptsS
    (fun k hk hm => hL k hk (by simp [hm])) (fun k hk hm => hS k hk (by simp [hm]))
  have hlvl : ({ A.toLevel with
        copts := dictSetAll c c.longAliases (dictSet c.long c A.toLevel.copts),
        coptsS := dictSetAll c c.shortAliases (setIfTruthy c.short c A.toLevel.coptsS) } : Level)
      = ({ A with cs := A.cs ++ [c] } : ALevel).toLevel := by
    rw [ins.1, ins.2]; simp [ALevel.toLevel]
  refine ⟨?_, ?_, ?_⟩
  · simp only [Builder.raw, Builder.withCmdOpt, allOK_mk]; exact ⟨⟨_, hlvl⟩, hbase⟩
  · simp only [Builder.raw, Builder.withCmdOpt, keyChain_mk, Level.keys, ins.1, ins.2, dictKeys_append]
    have := nodup_insert (x1 := []) (x2 := []) (x3 := dictKeys c.longBlock) (x4 := dictKeys c.shortBlock)
      hkeys (by simpa using c.blocks_nodup hwf) ?_
    · simpa using this
    · intro k hk
      simp only [List.nil_append, List.mem_append] at hk
      rcases hk with hk | hk
      · exact hL k hk
      · exact hS k hk
  · simpa [Builder.raw, Builder.withCmdOpt] using hargs

/-- the builder after an argument was accepted -/
def Builder.withArg (b : Builder) (a : Arg) : Builder :=
  { b with own := { b.own with
      hasMulti := if a.multi then true else b.own.hasMulti,
      hasOpt := if a.optional then true else b.own.hasOpt,
      args := dictSet a.name a b.own.args } }

theorem addArgument_eq (b : Builder) (a : Arg) :
    b.addArgument a =
      if (b.hasArgument a.name true || b.hasMultiValuedArgument true ||
          (a.required && b.hasOptionalArgument true))
      then .error .cannotAddArgument else .ok (b.withArg a) := by
  unfold Builder.addArgument Builder.withArg
  cases b.hasArgument a.name true <;> cases b.hasMultiValuedArgument true <;>
    cases (a.required && b.hasOptionalArgument true) <;> rfl

theorem addArgument_err {b : Builder} {a : Arg} {e : Err} (hb : b.addArgument a = .error e) :
    e = .cannotAddArgument := by
  rw [addArgument_eq] at hb
  split at hb
  · injection hb with hb; exact hb.symm
  · cases hb

theorem ArgsOK.snoc {as : List Arg} {a : Arg} (h : ArgsOK as) (hn : a.name ∉ as.map (·.name))
    (hm : as.any (·.multi) = false) (ho : a.required = true → as.any (·.optional) = false) :
    ArgsOK (as ++ [a]) := by
  refine ⟨?_, ?_, ?_⟩
  · simp only [List.map_append, List.map_cons, List.map_nil]
    rw [List.nodup_append]
    refine ⟨h.names, by simp, ?_⟩
    intro x hx y hy hxy
    simp at hy; subst hy; subst hxy; exact hn hx
  · rw [List.dropLast_concat]
    intro x hx
    rw [List.any_eq_false] at hm
    simpa using hm x hx
  · rw [List.pairwise_append]
    refine ⟨h.order, by simp, ?_⟩
    intro x hx y hy
    simp at hy; subst hy
    intro hh
    have := ho hh.2
    rw [List.any_eq_false] at this
    exact this x hx hh.1

theorem addArgument_inv {b b' : Builder} {a : Arg} (h : Inv b) (hb : b.addArgument a = .ok b') : Inv b' := by
  rw [addArgument_eq] at hb
  split at hb
  · cases hb
  rename_i hc
  injection hb with hb; subst hb
  simp only [Bool.or_eq_true, not_or, Bool.not_eq_true] at hc
  obtain ⟨⟨h1, h2⟩, h3⟩ := hc
  rw [Builder.hasArgument_raw, FormatRec.hasArgument, FormatRec.getArguments_eq _ h] at h1
  rw [Builder.hasMulti_raw, (FormatRec.flags_eq _ h.ok).1] at h2
  rw [Builder.hasOptional_raw, (FormatRec.flags_eq _ h.ok).2] at h3
  have hnm : a.name ∉ dictKeys b.raw.argChain := by
    intro hm; rw [← dictHas_iff] at hm; rw [hm] at h1; cases h1
  rw [FormatRec.argChain_keys _ h.ok] at hnm
  obtain ⟨hA, hbase⟩ := (allOK_mk b.base b.own).1 h.ok
  obtain ⟨A, hA⟩ := hA
  have hkeys := h.keys
  have hargs := h.args
  obtain ⟨base, own⟩ := b
  simp only at hA; subst hA
  simp only [Builder.raw, keyChain_mk, Level.keys, argChain_mk, dictVals_append] at hnm h2 h3 hkeys hargs hbase
  have hown : a.name ∉ dictKeys A.toLevel.args := by
    intro hm; apply hnm
    have : dictKeys A.toLevel.args = (dictVals A.toLevel.args).map (·.name) := Level.OK.args_keys ⟨A, rfl⟩
    rw [this] at hm; simp [hm]
  have e1 := dictSet_fresh a hown
  have hlvl : ({ A.toLevel with
        hasMulti := if a.multi then true else A.toLevel.hasMulti,
        hasOpt := if a.optional then true else A.toLevel.hasOpt,
        args := dictSet a.name a A.toLevel.args } : Level)
      = ({ A with as := A.as ++ [a] } : ALevel).toLevel := by
    rw [e1]; simp [ALevel.toLevel]
    cases a.multi <;> cases a.optional <;> simp
  refine ⟨?_, ?_, ?_⟩
  · simp only [Builder.raw, Builder.withArg, allOK_mk]; exact ⟨⟨_, hlvl⟩, hbase⟩
  · simpa [Builder.raw, Builder.withArg, Level.keys] using hkeys
  · simp only [Builder.raw, Builder.withArg, argChain_mk, e1, dictVals_append]
    have := hargs.snoc (a := a) hnm h2 (by intro hr; simpa [hr] using h3)
    simpa [List.append_assoc] using this

theorem addCommandName_inv {b b' : Builder} {n : CmdName} (h : Inv b) (hb : b.addCommandName n = .ok b') :
    Inv b' := by
  unfold Builder.addCommandName at hb
  injection hb with hb; subst hb
  obtain ⟨hA, hbase⟩ := (allOK_mk b.base b.own).1 h.ok
  obtain ⟨A, hA⟩ := hA
  have hkeys := h.keys
  have hargs := h.args
  obtain ⟨base, own⟩ := b
  simp only at hA; subst hA
  refine ⟨?_, ?_, ?_⟩
  · simp only [Builder.raw, allOK_mk]
    exact ⟨⟨{ A with names := A.names ++ [n] }, by simp [ALevel.toLevel]⟩, hbase⟩
  · simpa [Builder.raw, Level.keys] using hkeys
  · simpa [Builder.raw] using hargs

/-! the `set_*` methods first clear their tables -/

def Builder.clearOptions (b : Builder) : Builder := { b with own := { b.own with opts := [], optsS := [] } }
def Builder.clearCommandOptions (b : Builder) : Builder :=
  { b with own := { b.own with copts := [], coptsS := [] } }
def Builder.clearArguments (b : Builder) : Builder :=
  { b with own := { b.own with args := [], hasMulti := false, hasOpt := false } }
def Builder.clearCommandNames (b : Builder) : Builder := { b with own := { b.own with names := [] } }

theorem clearOptions_inv {b : Builder} (h : Inv b) : Inv b.clearOptions := by
  obtain ⟨hA, hbase⟩ := (allOK_mk b.base b.own).1 h.ok
  obtain ⟨A, hA⟩ := hA
  have hkeys := h.keys
  have hargs := h.args
  obtain ⟨base, own⟩ := b
  simp only at hA; subst hA
  refine ⟨?_, ?_, ?_⟩
  · simp only [Builder.raw, Builder.clearOptions, allOK_mk]
    exact ⟨⟨{ A with os := [] }, by simp [ALevel.toLevel]⟩, hbase⟩
  · simp only [Builder.raw, Builder.clearOptions, keyChain_mk, Level.keys] at hkeys ⊢
    exact nodup_remove hkeys (Or.inr rfl) (Or.inr rfl) (Or.inl rfl) (Or.inl rfl)
  · simpa [Builder.raw, Builder.clearOptions] using hargs

theorem clearCommandOptions_inv {b : Builder} (h : Inv b) : Inv b.clearCommandOptions := by
  obtain ⟨hA, hbase⟩ := (allOK_mk b.base b.own).1 h.ok
  obtain ⟨A, hA⟩ := hA
  have hkeys := h.keys
  have hargs := h.args
  obtain ⟨base, own⟩ := b
  simp only at hA; subst hA
  refine ⟨?_, ?_, ?_⟩
  · simp only [Builder.raw, Builder.clearCommandOptions, allOK_mk]
    exact ⟨⟨{ A with cs := [] }, by simp [ALevel.toLevel]⟩, hbase⟩
  · simp only [Builder.raw, Builder.clearCommandOptions, keyChain_mk, Level.keys] at hkeys ⊢
    exact nodup_remove hkeys (Or.inl rfl) (Or.inl rfl) (Or.inr rfl) (Or.inr rfl)
  · simpa [Builder.raw, Builder.clearCommandOptions] using hargs

theorem clearArguments_inv {b : Builder} (h : Inv b) : Inv b.clearArguments := by
  obtain ⟨hA, hbase⟩ := (allOK_mk b.base b.own).1 h.ok
  obtain ⟨A, hA⟩ := hA
  have hkeys := h.keys
  have hargs := h.args
  obtain ⟨base, own⟩ := b
  simp only at hA; subst hA
  refine ⟨?_, ?_, ?_⟩
  · simp only [Builder.raw, Builder.clearArguments, allOK_mk]
    exact ⟨⟨{ A with as := [] }, by simp [ALevel.toLevel]⟩, hbase⟩
  · simpa [Builder.raw, Builder.clearArguments, Level.keys] using hkeys
  · simp only [Builder.raw, Builder.clearArguments, argChain_mk, dictVals_append] at hargs ⊢
    simpa using hargs.prefix

theorem clearCommandNames_inv {b : Builder} (h : Inv b) : Inv b.clearCommandNames := by
  obtain ⟨hA, hbase⟩ := (allOK_mk b.base b.own).1 h.ok
  obtain ⟨A, hA⟩ := hA
  have hkeys := h.keys
  have hargs := h.args
  obtain ⟨base, own⟩ := b
  simp only at hA; subst hA
  refine ⟨?_, ?_, ?_⟩
  · simp only [Builder.raw, Builder.clearCommandNames, allOK_mk]
    exact ⟨⟨{ A with names := [] }, by simp [ALevel.toLevel]⟩, hbase⟩
  · simpa [Builder.raw, Builder.clearCommandNames, Level.keys] using hkeys
  · simpa [Builder.raw, Builder.clearCommandNames] using hargs

theorem empty_inv {base : Option FormatRec} (h : InvBase base) : Inv (Builder.empty base) := by
  refine ⟨?_, ?_, ?_⟩
  · simp only [Builder.raw, Builder.empty, allOK_mk]
    refine ⟨⟨⟨[], [], [], []⟩, by simp [ALevel.toLevel]⟩, ?_⟩
    cases base with
    | none => trivial
    | some g => exact h.ok
  · simp only [Builder.raw, Builder.empty, keyChain_mk, Level.keys]
    cases base with
    | none => simp [baseKeys]
    | some g => simpa [baseKeys] using h.keys
  · simp only [Builder.raw, Builder.empty, argChain_mk]
    cases base with
    | none => simpa [baseArgs] using ArgsOK.nil
    | some g => simpa [baseArgs] using h.args

/-! sequences -/

theorem addAll_inv {ε : Type} {add : Builder → ε → Except Err Builder} {P : ε → Prop}
    (hadd : ∀ b e b', P e → Inv b → add b e = .ok b' → Inv b') :
    ∀ (es : List ε) (b : Builder), (∀ e ∈ es, P e) → Inv b → Inv (addAll add b es).1
  | [], b, _, h => h
  | e :: es, b, hP, h => by
    unfold addAll
    cases hr : add b e with
    | ok b' =>
      simp only
      exact addAll_inv hadd es b' (fun x hx => hP x (by simp [hx])) (hadd b e b' (hP e (by simp)) h hr)
    | error err => exact h

theorem one_inv {ε : Type} {add : Builder → ε → Except Err Builder} {P : ε → Prop}
    (hadd : ∀ b e b', P e → Inv b → add b e = .ok b' → Inv b')
    (b : Builder) (e : ε) (hP : P e) (h : Inv b) : Inv (one add b e).1 := by
  unfold one
  cases hr : add b e with
  | ok b' => exact hadd b e b' hP h hr
  | error err => exact h

/-- a rejected single addition leaves the builder as it was -/
theorem one_atomic {ε : Type} (add : Builder → ε → Except Err Builder) (b : Builder) (e : ε)
    (h : (one add b e).2.isSome) : (one add b e).1 = b := by
  unfold one at h ⊢
  cases hr : add b e with
  | ok b' => simp [hr] at h
  | error err => rfl

/-- well-formedness of the elements an operation carries -/
def Op.wf : Op → Prop
  | .addOption o => o.wf
  | .addOptions os => ∀ o ∈ os, o.wf
  | .setOptions os => ∀ o ∈ os, o.wf
  | .addCommandOption c => c.wf
  | .addCommandOptions cs => ∀ c ∈ cs, c.wf
  | .setCommandOptions cs => ∀ c ∈ cs, c.wf
  | _ => True

/-- the operations that add a single element -/
def Op.isSingle : Op → Bool
  | .addOption _ | .addCommandOption _ | .addArgument _ | .addCommandName _ => true
  | _ => false

theorem step_inv (b : Builder) (op : Op) (hwf : op.wf) (h : Inv b) : Inv (step b op).1 := by
  cases op with
  | addOption o => exact one_inv (P := Opt.wf) (fun _ _ _ hp hi hr => addOption_inv hp hi hr) b o hwf h
  | addOptions os => exact addAll_inv (P := Opt.wf) (fun _ _ _ hp hi hr => addOption_inv hp hi hr) os b hwf h
  | setOptions os =>
    exact addAll_inv (P := Opt.wf) (fun _ _ _ hp hi hr => addOption_inv hp hi hr) os _ hwf (clearOptions_inv h)
  | addCommandOption c =>
    exact one_inv (P := CmdOpt.wf) (fun _ _ _ hp hi hr => addCommandOption_inv hp hi hr) b c hwf h
  | addCommandOptions cs =>
    exact addAll_inv (P := CmdOpt.wf) (fun _ _ _ hp hi hr => addCommandOption_inv hp hi hr) cs b hwf h
  | setCommandOptions cs =>
    exact addAll_inv (P := CmdOpt.wf) (fun _ _ _ hp hi hr => addCommandOption_inv hp hi hr) cs _ hwf
      (clearCommandOptions_inv h)
  | addArgument a => exact one_inv (P := fun _ => True) (fun _ _ _ _ hi hr => addArgument_inv hi hr) b a trivial h
  | addArguments as =>
    exact addAll_inv (P := fun _ => True) (fun _ _ _ _ hi hr => addArgument_inv hi hr) as b (fun _ _ => trivial) h
  | setArguments as =>
    exact addAll_inv (P := fun _ => True) (fun _ _ _ _ hi hr => addArgument_inv hi hr) as _ (fun _ _ => trivial)
      (clearArguments_inv h)
  | addCommandName n =>
    exact one_inv (P := fun _ => True) (fun _ _ _ _ hi hr => addCommandName_inv hi hr) b n trivial h
  | addCommandNames ns =>
    exact addAll_inv (P := fun _ => True) (fun _ _ _ _ hi hr => addCommandName_inv hi hr) ns b (fun _ _ => trivial) h
  | setCommandNames ns =>
    exact addAll_inv (P := fun _ => True) (fun _ _ _ _ hi hr => addCommandName_inv hi hr) ns _ (fun _ _ => trivial)
      (clearCommandNames_inv h)

theorem step_atomic (b : Builder) (op : Op) (hs : op.isSingle = true) (he : (step b op).2.isSome) :
    (step b op).1 = b := by
  cases op <;> simp [Op.isSingle] at hs <;> exact one_atomic _ b _ he

theorem run_inv (ops : List Op) (b : Builder) (hwf : ∀ op ∈ ops, op.wf) (h : Inv b) : Inv (run b ops) := by
  induction ops generalizing b with
  | nil => exact h
  | cons op ops ih =>
    exact ih _ (fun o ho => hwf o (by simp [ho])) (step_inv b op (hwf op (by simp)) h)

/-! ### constructor = sequence of single additions -/

/-- the single addition `_create_builder_for_elements` performs for an element -/
def Elem.toOp? : Elem → Option Op
  | .name n => some (.addCommandName n)
  | .copt c => some (.addCommandOption c)
  | .opt o => some (.addOption o)
  | .arg a => some (.addArgument a)
  | .foreign => none

/-- adding the elements one by one through the public API, stopping at the first exception -/
def seqAdd : Builder → List Elem → Builder × Option Err
  | b, [] => (b, none)
  | b, e :: es =>
    match e.toOp? with
    | none => seqAdd b es
    | some op =>
      match step b op with
      | (b', none) => seqAdd b' es
      | (b', some err) => (b', some err)

theorem createBuilder_seqAdd (es : List Elem) (b : Builder) :
    createBuilder b es = match seqAdd b es with
      | (b', none) => .ok b'
      | (_, some e) => .error e := by
  induction es generalizing b with
  | nil => rfl
  | cons e es ih =>
    cases e with
    | foreign => simp only [createBuilder, seqAdd, Elem.toOp?]; exact ih b
    | name n =>
      simp only [createBuilder, seqAdd, Elem.toOp?, step, one]
      cases h : b.addCommandName n with
      | ok b' => simp only [bind, Except.bind]; exact ih b'
      | error err => rfl
    | copt c =>
      simp only [createBuilder, seqAdd, Elem.toOp?, step, one]
      cases h : b.addCommandOption c with
      | ok b' => simp only [bind, Except.bind]; exact ih b'
      | error err => rfl
    | opt o =>
      simp only [createBuilder, seqAdd, Elem.toOp?, step, one]
      cases h : b.addOption o with
      | ok b' => simp only [bind, Except.bind]; exact ih b'
      | error err => rfl
    | arg a =>
      simp only [createBuilder, seqAdd, Elem.toOp?, step, one]
      cases h : b.addArgument a with
      | ok b' => simp only [bind, Except.bind]; exact ih b'
      | error err => rfl

theorem addOption_base {b b' : Builder} {o : Opt} (h : b.addOption o = .ok b') : b'.base = b.base := by
  obtain ⟨_, _, rfl⟩ := addOption_ok h; rfl
theorem addCommandOption_base {b b' : Builder} {c : CmdOpt} (h : b.addCommandOption c = .ok b') :
    b'.base = b.base := by
  obtain ⟨_, _, _, _, rfl⟩ := addCommandOption_ok h; rfl
theorem addArgument_base {b b' : Builder} {a : Arg} (h : b.addArgument a = .ok b') : b'.base = b.base := by
  rw [addArgument_eq] at h; split at h
  · cases h
  · injection h with h; subst h; rfl
theorem addCommandName_base {b b' : Builder} {n : CmdName} (h : b.addCommandName n = .ok b') :
    b'.base = b.base := by
  unfold Builder.addCommandName at h; injection h with h; subst h; rfl

theorem createBuilder_base (es : List Elem) (b b' : Builder) (h : createBuilder b es = .ok b') :
    b'.base = b.base := by
  induction es generalizing b with
  | nil => simp [createBuilder] at h; cases h; rfl
  | cons e es ih =>
    cases e with
    | foreign => exact ih b h
    | name n =>
      simp only [createBuilder] at h
      cases hr : b.addCommandName n with
      | ok b1 => rw [hr] at h; simp only [bind, Except.bind] at h; rw [ih b1 h, addCommandName_base hr]
      | error err => rw [hr] at h; cases h
    | copt c =>
      simp only [createBuilder] at h
      cases hr : b.addCommandOption c with
      | ok b1 => rw [hr] at h; simp only [bind, Except.bind] at h; rw [ih b1 h, addCommandOption_base hr]
      | error err => rw [hr] at h; cases h
    | opt o =>
      simp only [createBuilder] at h
      cases hr : b.addOption o with
      | ok b1 => rw [hr] at h; simp only [bind, Except.bind] at h; rw [ih b1 h, addOption_base hr]
      | error err => rw [hr] at h; cases h
    | arg a =>
      simp only [createBuilder] at h
      cases hr : b.addArgument a with
      | ok b1 => rw [hr] at h; simp only [bind, Except.bind] at h; rw [ih b1 h, addArgument_base hr]
      | error err => rw [hr] at h; cases h

/-- documented errors only -/
theorem addAll_err {ε : Type} {add : Builder → ε → Except Err Builder} {E : Err → Prop}
    (hadd : ∀ b e err, add b e = .error err → E err) :
    ∀ (es : List ε) (b : Builder) (err : Err), (addAll add b es).2 = some err → E err
  | [], b, err, h => by simp [addAll] at h
  | e :: es, b, err, h => by
    unfold addAll at h
    cases hr : add b e with
    | ok b' => rw [hr] at h; exact addAll_err hadd es b' err h
    | error e' => rw [hr] at h; simp at h; subst h; exact hadd b e e' hr

theorem one_err {ε : Type} {add : Builder → ε → Except Err Builder} {E : Err → Prop}
    (hadd : ∀ b e err, add b e = .error err → E err) (b : Builder) (e : ε) (err : Err)
    (h : (one add b e).2 = some err) : E err := by
  unfold one at h
  cases hr : add b e with
  | ok b' => rw [hr] at h; simp at h
  | error e' => rw [hr] at h; simp at h; subst h; exact hadd b e e' hr

theorem step_err (b : Builder) (op : Op) (err : Err) (h : (step b op).2 = some err) :
    err = .cannotAddOption ∨ err = .cannotAddArgument := by
  have ho : ∀ b o err, Builder.addOption b o = .error err → (err = .cannotAddOption ∨ err = .cannotAddArgument) :=
    fun _ _ _ h => Or.inl (addOption_err h)
  have hc : ∀ b o err, Builder.addCommandOption b o = .error err → (err = .cannotAddOption ∨ err = .cannotAddArgument) :=
    fun _ _ _ h => Or.inl (addCommandOption_err h)
  have ha : ∀ b o err, Builder.addArgument b o = .error err → (err = .cannotAddOption ∨ err = .cannotAddArgument) :=
    fun _ _ _ h => Or.inr (addArgument_err h)
  have hn : ∀ b o err, Builder.addCommandName b o = .error err → (err = .cannotAddOption ∨ err = .cannotAddArgument) := by
    intro b o err h; simp [Builder.addCommandName] at h
  cases op with
  | addOption o => exact one_err ho b o err h
  | addOptions os => exact addAll_err ho os b err h
  | setOptions os => exact addAll_err ho os _ err h
  | addCommandOption c => exact one_err hc b c err h
  | addCommandOptions cs => exact addAll_err hc cs b err h
  | setCommandOptions cs => exact addAll_err hc cs _ err h
  | addArgument a => exact one_err ha b a err h
  | addArguments as => exact addAll_err ha as b err h
  | setArguments as => exact addAll_err ha as _ err h
  | addCommandName n => exact one_err hn b n err h
  | addCommandNames ns => exact addAll_err hn ns b err h
  | setCommandNames ns => exact addAll_err hn ns _ err h

/-- what a multi-element call does: the elements before the first rejected one are added
(and stay added), the rest is not looked at -/
theorem addAll_spec {ε : Type} (add : Builder → ε → Except Err Builder) :
    ∀ (es : List ε) (b : Builder),
      (∃ b', es.foldlM add b = .ok b' ∧ addAll add b es = (b', none)) ∨
      (∃ pre e post b' err, es = pre ++ e :: post ∧ pre.foldlM add b = .ok b' ∧ add b' e = .error err ∧
        addAll add b es = (b', some err))
  | [], b => Or.inl ⟨b, rfl, rfl⟩
  | e :: es, b => by
    cases hr : add b e with
    | error err =>
      exact Or.inr ⟨[], e, es, b, err, rfl, rfl, hr, by simp [addAll, hr]⟩
    | ok b1 =>
      rcases addAll_spec add es b1 with ⟨b', h1, h2⟩ | ⟨pre, e', post, b', err, h1, h2, h3, h4⟩
      · exact Or.inl ⟨b', by simp [List.foldlM, hr, h1, bind, Except.bind], by simp [addAll, hr, h2]⟩
      · refine Or.inr ⟨e :: pre, e', post, b', err, by simp [h1], ?_, h3, by simp [addAll, hr, h4]⟩
        simp [List.foldlM, hr, h2, bind, Except.bind]

/-! ### queries = their declarative meaning over the listed elements -/

/-- the names under which an option can be addressed -/
def Opt.names (o : Opt) : List Str :=
  o.long :: (match o.short with | some (c :: r) => [c :: r] | _ => [])
/-- the names under which a command option can be addressed -/
def CmdOpt.names (c : CmdOpt) : List Str :=
  c.long :: c.longAliases ++ (match c.short with | some (a :: r) => [a :: r] | _ => []) ++ c.shortAliases

theorem Opt.mem_names (o : Opt) (n : Str) : n ∈ o.names ↔ n = o.long ∨ (o.short = some n ∧ n ≠ []) := by
  unfold Opt.names
  cases hs : o.short with
  | none => simp
  | some s =>
    cases s with
    | nil => simp
    | cons c r =>
      simp; constructor
      · rintro (h | h)
        · exact Or.inl h
        · subst h; exact Or.inr ⟨rfl, by simp⟩
      · rintro (h | h)
        · exact Or.inl h
        · exact Or.inr h.1.symm

theorem CmdOpt.mem_names (c : CmdOpt) (n : Str) :
    n ∈ c.names ↔ (n = c.long ∨ n ∈ c.longAliases) ∨ ((c.short = some n ∧ n ≠ []) ∨ n ∈ c.shortAliases) := by
  unfold CmdOpt.names
  cases hs : c.short with
  | none => simp; grind
  | some s =>
    cases s with
    | nil => simp; grind
    | cons a r =>
      simp; constructor
      · rintro (h | h | h | h)
        · exact Or.inl (Or.inl h)
        · exact Or.inl (Or.inr h)
        · subst h; exact Or.inr (Or.inl ⟨rfl, by simp⟩)
        · exact Or.inr (Or.inr h)
      · rintro ((h | h) | (h | h))
        · exact Or.inl h
        · exact Or.inr (Or.inl h)
        · exact Or.inr (Or.inr (Or.inl h.1.symm))
        · exact Or.inr (Or.inr (Or.inr h))

theorem Opt.shortPair_get (o : Opt) (k : Str) :
    dictGet? k o.shortPair = if o.short = some k ∧ k ≠ [] then some o else none :=
  dictGet?_setIfTruthy_nil _ _ _

/-- one level, options: lookup by long name, then by short name = the first listed option
carrying the name (which is the only one) -/
theorem level_getOption (os : List Opt) (n : Str)
    (hn : (dictKeys (os.map (fun o => (o.long, o))) ++ dictKeys (os.flatMap Opt.shortPair)).Nodup) :
    (dictGet? n (os.map (fun o => (o.long, o)))).or (dictGet? n (os.flatMap Opt.shortPair)) =
      os.find? (fun o => decide (n ∈ o.names)) := by
  induction os with
  | nil => rfl
  | cons o os ih =>
    have hsub : (dictKeys (os.map (fun o => (o.long, o))) ++ dictKeys (os.flatMap Opt.shortPair)).Nodup := by
      rw [List.nodup_iff_count] at hn ⊢
      intro a; have := hn a
      simp only [List.map_cons, List.flatMap_cons, dictKeys_cons, dictKeys_append, List.count_append,
        List.count_cons] at this ⊢
      omega
    have ih := ih hsub
    simp only [List.map_cons, List.flatMap_cons, List.find?_cons]
    by_cases h1 : n = o.long
    · subst h1; simp [dictGet?, Opt.mem_names]
    · have h1' : ¬ o.long = n := fun e => h1 e.symm
      by_cases h2 : o.short = some n ∧ n ≠ []
      · have hmem : n ∈ o.names := (o.mem_names n).2 (Or.inr h2)
        have hk : n ∈ dictKeys o.shortPair := (o.shortPair_keys n).2 h2
        have hnot : dictGet? n (os.map (fun o => (o.long, o))) = none := by
          rw [dictGet?_eq_none_iff]
          intro hm
          rw [List.nodup_iff_count] at hn
          have := hn n
          simp only [List.map_cons, List.flatMap_cons, dictKeys_cons, dictKeys_append, List.count_append,
            List.count_cons] at this
          have c1 := List.count_pos_iff.2 hm
          have c2 := List.count_pos_iff.2 hk
          omega
        simp [dictGet?, h1', hnot, dictGet?_append, Opt.shortPair_get, h2, hmem]
      · have hmem : ¬ n ∈ o.names := fun hm => by
          rcases (o.mem_names n).1 hm with h | h
          · exact h1 h
          · exact h2 h
        simp only [dictGet?, beq_iff_eq, h1', if_false, dictGet?_append, Opt.shortPair_get, h2, hmem,
          decide_false]
        exact ih

theorem level_hasOption (os : List Opt) (n : Str) :
    (dictHas n (os.map (fun o => (o.long, o))) || dictHas n (os.flatMap Opt.shortPair)) =
      os.any (fun o => decide (n ∈ o.names)) := by
  rw [Bool.eq_iff_iff]
  simp only [Bool.or_eq_true, dictHas_iff, List.any_eq_true, decide_eq_true_eq, dictKeys_map_pair,
    List.mem_map]
  constructor
  · rintro (⟨o, ho, rfl⟩ | h)
    · exact ⟨o, ho, (o.mem_names _).2 (Or.inl rfl)⟩
    · simp only [dictKeys, List.map_flatMap, List.mem_flatMap] at h
      obtain ⟨o, ho, hk⟩ := h
      exact ⟨o, ho, (o.mem_names n).2 (Or.inr ((o.shortPair_keys n).1 hk))⟩
  · rintro ⟨o, ho, hn⟩
    rcases (o.mem_names n).1 hn with h | h
    · exact Or.inl ⟨o, ho, h.symm⟩
    · right
      simp only [dictKeys, List.map_flatMap, List.mem_flatMap]
      exact ⟨o, ho, (o.shortPair_keys n).2 h⟩

theorem find?_all_eq {α : Type} (p : α → Bool) (c : α) (xs : List α) (hx : ∀ x ∈ xs, x = c) (hp : p c = false) :
    xs.find? p = none := by
  rw [List.find?_eq_none]
  intro x hx'; rw [hx x hx']; simp [hp]

/-- one level, command options -/
theorem level_getCommandOption (cs : List CmdOpt) (n : Str)
    (hn : (dictKeys (cs.flatMap CmdOpt.longBlock) ++ dictKeys (cs.flatMap CmdOpt.shortBlock)).Nodup) :
    (dictGet? n (cs.flatMap CmdOpt.longBlock)).or (dictGet? n (cs.flatMap CmdOpt.shortBlock)) =
      (dictVals (cs.flatMap CmdOpt.longBlock)).find? (fun c => decide (n ∈ c.names)) := by
  induction cs with
  | nil => rfl
  | cons c cs ih =>
    have hsub : (dictKeys (cs.flatMap CmdOpt.longBlock) ++ dictKeys (cs.flatMap CmdOpt.shortBlock)).Nodup := by
      rw [List.nodup_iff_count] at hn ⊢
      intro a; have := hn a
      simp only [List.flatMap_cons, dictKeys_append, List.count_append] at this ⊢
      omega
    have ih := ih hsub
    obtain ⟨xs, hxs, hall⟩ := c.longBlock_vals
    simp only [List.flatMap_cons, dictVals_append, dictGet?_append, hxs, List.find?_append, List.find?_cons]
    by_cases h1 : n = c.long ∨ n ∈ c.longAliases
    · have hm : n ∈ c.names := (c.mem_names n).2 (Or.inl h1)
      simp [c.longBlock_get, h1, hm]
    · by_cases h2 : (c.short = some n ∧ n ≠ []) ∨ n ∈ c.shortAliases
      · have hm : n ∈ c.names := (c.mem_names n).2 (Or.inr h2)
        have hk : n ∈ dictKeys c.shortBlock := (c.shortBlock_keys n).2 h2
        have hnot : dictGet? n (cs.flatMap CmdOpt.longBlock) = none := by
          rw [dictGet?_eq_none_iff]
          intro hmm
          rw [List.nodup_iff_count] at hn
          have := hn n
          simp only [List.flatMap_cons, dictKeys_append, List.count_append] at this
          have c1 := List.count_pos_iff.2 hmm
          have c2 := List.count_pos_iff.2 hk
          omega
        simp [c.longBlock_get, h1, hnot, c.shortBlock_get, h2, hm]
      · have hm : ¬ n ∈ c.names := fun hm => by
          rcases (c.mem_names n).1 hm with h | h
          · exact h1 h
          · exact h2 h
        have hf : xs.find? (fun c => decide (n ∈ c.names)) = none :=
          find?_all_eq _ c xs hall (by simp [hm])
        simp only [c.longBlock_get, h1, c.shortBlock_get, h2, if_false, hm, decide_false, hf,
          Option.none_or]
        simpa using ih

theorem level_hasCommandOption (cs : List CmdOpt) (n : Str) :
    (dictHas n (cs.flatMap CmdOpt.longBlock) || dictHas n (cs.flatMap CmdOpt.shortBlock)) =
      (dictVals (cs.flatMap CmdOpt.longBlock)).any (fun c => decide (n ∈ c.names)) := by
  have hv : ∀ x, x ∈ dictVals (cs.flatMap CmdOpt.longBlock) ↔ x ∈ cs := by
    intro x
    simp only [dictVals, List.map_flatMap, List.mem_flatMap]
    constructor
    · rintro ⟨c, hc, hx⟩
      obtain ⟨xs, hxs, hall⟩ := c.longBlock_vals
      have : x ∈ dictVals c.longBlock := hx
      rw [hxs] at this
      rcases List.mem_cons.1 this with h | h
      · exact h ▸ hc
      · exact hall x h ▸ hc
    · intro hx
      obtain ⟨xs, hxs, _⟩ := x.longBlock_vals
      exact ⟨x, hx, by show x ∈ dictVals x.longBlock; rw [hxs]; simp⟩
  rw [Bool.eq_iff_iff]
  simp only [Bool.or_eq_true, dictHas_iff, List.any_eq_true, decide_eq_true_eq, hv]
  simp only [dictKeys, List.map_flatMap, List.mem_flatMap]
  constructor
  · rintro (⟨c, hc, hk⟩ | ⟨c, hc, hk⟩)
    · exact ⟨c, hc, (c.mem_names n).2 (Or.inl ((c.longBlock_keys n).1 hk))⟩
    · exact ⟨c, hc, (c.mem_names n).2 (Or.inr ((c.shortBlock_keys n).1 hk))⟩
  · rintro ⟨c, hc, hm⟩
    rcases (c.mem_names n).1 hm with h | h
    · exact Or.inl ⟨c, hc, (c.longBlock_keys n).2 h⟩
    · exact Or.inr ⟨c, hc, (c.shortBlock_keys n).2 h⟩

/-! #### listings are the chains -/

theorem FormatRec.optChain_count (f : FormatRec) (n : Str) :
    (dictKeys f.optChain).count n ≤ f.keyChain.count n := by
  induction f using FormatRec.ind with
  | h0 l => simp [baseOpts, baseKeys, Level.keys, List.count_append] <;> omega
  | h1 g l ih => simp [baseOpts, baseKeys, Level.keys, List.count_append] <;> omega

theorem FormatRec.getOptions_eq (f : FormatRec) (h : f.keyChain.Nodup) : f.getOptions true = f.optChain := by
  induction f using FormatRec.ind with
  | h0 l => simp [FormatRec.getOptions, baseOpts]
  | h1 g l ih =>
    have hg : g.keyChain.Nodup := by
      simp only [keyChain_mk, baseKeys] at h; exact (List.nodup_append.1 h).2.1
    simp only [FormatRec.getOptions, optChain_mk, baseOpts, ih hg]
    apply dictUpdate_fresh
    rw [List.nodup_iff_count] at h ⊢
    intro n
    have := FormatRec.optChain_count (.mk (some g) l) n
    simp only [optChain_mk, baseOpts, dictKeys_append] at this
    exact Nat.le_trans this (h n)

theorem FormatRec.getCommandOptions_eq (f : FormatRec) : f.getCommandOptions true = f.coptChain := by
  induction f using FormatRec.ind with
  | h0 l => simp [FormatRec.getCommandOptions, baseCopts]
  | h1 g l ih => simp [FormatRec.getCommandOptions, baseCopts, ih]

theorem FormatRec.getCommandNames_eq (f : FormatRec) : f.getCommandNames true = f.nameChain := by
  induction f using FormatRec.ind with
  | h0 l => simp [FormatRec.getCommandNames, baseNames]
  | h1 g l ih => simp [FormatRec.getCommandNames, baseNames, ih]

/-! #### options -/

theorem FormatRec.hasOption_eq (f : FormatRec) (h : f.AllOK) (n : Str) :
    f.hasOption n true = (dictVals f.optChain).any (fun o => decide (n ∈ o.names)) := by
  induction f using FormatRec.ind with
  | h0 l =>
    simp at h; obtain ⟨A, rfl⟩ := h.1
    have := level_hasOption A.os n
    simp only [ALevel.toLevel, FormatRec.hasOption, optChain_mk, baseOpts, List.append_nil, dictVals_map_pair]
    rw [← this]; simp
  | h1 g l ih =>
    simp [baseAllOK] at h; obtain ⟨A, rfl⟩ := h.1
    have := level_hasOption A.os n
    simp only [ALevel.toLevel, FormatRec.hasOption, optChain_mk, baseOpts, dictVals_append, dictVals_map_pair,
      List.any_append, ih h.2]
    rw [← this]; simp

theorem Level.keys_nodup_of_chain {b : Option FormatRec} {l : Level} (h : (FormatRec.mk b l).keyChain.Nodup) :
    (dictKeys l.opts ++ dictKeys l.optsS).Nodup ∧ (dictKeys l.copts ++ dictKeys l.coptsS).Nodup := by
  simp only [keyChain_mk, Level.keys] at h
  have h1 := (List.nodup_append.1 h).1
  constructor
  · exact (List.nodup_append.1 (List.nodup_append.1 h1).1).1
  · rw [List.append_assoc, List.append_assoc] at h1
    have := (List.nodup_append.1 h1).2.1
    exact (List.nodup_append.1 this).2.1

/-- what a lookup answers when `find?` is the declarative meaning -/
def lookup {α : Type} (r : Option α) (e : Err) : Except Err α :=
  match r with
  | some a => .ok a
  | none => .error e

theorem FormatRec.getOption_eq (f : FormatRec) (h : InvF f) (n : Str) :
    f.getOption n true = lookup ((dictVals f.optChain).find? (fun o => decide (n ∈ o.names))) .noSuchOption := by
  induction f using FormatRec.ind with
  | h0 l =>
    have hk := (Level.keys_nodup_of_chain h.keys).1
    have hok := h.ok; simp at hok; obtain ⟨A, rfl⟩ := hok.1
    have := level_getOption A.os n (by simpa [ALevel.toLevel] using hk)
    simp only [ALevel.toLevel, FormatRec.getOption, optChain_mk, baseOpts, List.append_nil, dictVals_map_pair]
    rw [← this]
    cases dictGet? n (A.os.map fun o => (o.long, o)) <;> cases dictGet? n (A.os.flatMap Opt.shortPair) <;> rfl
  | h1 g l ih =>
    have hk := (Level.keys_nodup_of_chain h.keys).1
    have hok := h.ok; simp [baseAllOK] at hok; obtain ⟨A, rfl⟩ := hok.1
    have := level_getOption A.os n (by simpa [ALevel.toLevel] using hk)
    simp only [ALevel.toLevel, FormatRec.getOption, optChain_mk, baseOpts, dictVals_append, dictVals_map_pair,
      List.find?_append, ih h.base]
    rw [← this]
    cases dictGet? n (A.os.map fun o => (o.long, o)) <;> cases dictGet? n (A.os.flatMap Opt.shortPair) <;> rfl

theorem FormatRec.hasOptions_eq (f : FormatRec) : f.hasOptions true = !f.optChain.isEmpty := by
  induction f using FormatRec.ind with
  | h0 l => cases hl : l.opts <;> simp [FormatRec.hasOptions, baseOpts, hl]
  | h1 g l ih => cases hl : l.opts <;> simp [FormatRec.hasOptions, baseOpts, ih, hl]

/-! #### command options -/

theorem FormatRec.hasCommandOption_eq (f : FormatRec) (h : f.AllOK) (n : Str) :
    f.hasCommandOption n true = f.coptChain.any (fun c => decide (n ∈ c.names)) := by
  induction f using FormatRec.ind with
  | h0 l =>
    simp at h; obtain ⟨A, rfl⟩ := h.1
    have := level_hasCommandOption A.cs n
    simp only [ALevel.toLevel, FormatRec.hasCommandOption, coptChain_mk, baseCopts, List.append_nil]
    rw [← this]; simp
  | h1 g l ih =>
    simp [baseAllOK] at h; obtain ⟨A, rfl⟩ := h.1
    have := level_hasCommandOption A.cs n
    simp only [ALevel.toLevel, FormatRec.hasCommandOption, coptChain_mk, baseCopts, List.any_append, ih h.2]
    rw [← this]; simp

theorem FormatRec.getCommandOption_eq (f : FormatRec) (h : InvF f) (n : Str) :
    f.getCommandOption n true = lookup (f.coptChain.find? (fun c => decide (n ∈ c.names))) .noSuchOption := by
  induction f using FormatRec.ind with
  | h0 l =>
    have hk := (Level.keys_nodup_of_chain h.keys).2
    have hok := h.ok; simp at hok; obtain ⟨A, rfl⟩ := hok.1
    have := level_getCommandOption A.cs n (by simpa [ALevel.toLevel] using hk)
    simp only [ALevel.toLevel, FormatRec.getCommandOption, coptChain_mk, baseCopts, List.append_nil]
    rw [← this]
    cases dictGet? n (A.cs.flatMap CmdOpt.longBlock) <;> cases dictGet? n (A.cs.flatMap CmdOpt.shortBlock) <;> rfl
  | h1 g l ih =>
    have hk := (Level.keys_nodup_of_chain h.keys).2
    have hok := h.ok; simp [baseAllOK] at hok; obtain ⟨A, rfl⟩ := hok.1
    have := level_getCommandOption A.cs n (by simpa [ALevel.toLevel] using hk)
    simp only [ALevel.toLevel, FormatRec.getCommandOption, coptChain_mk, baseCopts, List.find?_append, ih h.base]
    rw [← this]
    cases dictGet? n (A.cs.flatMap CmdOpt.longBlock) <;> cases dictGet? n (A.cs.flatMap CmdOpt.shortBlock) <;> rfl

theorem FormatRec.hasCommandOptions_eq (f : FormatRec) : f.hasCommandOptions true = !f.coptChain.isEmpty := by
  induction f using FormatRec.ind with
  | h0 l => cases hl : l.copts <;> simp [FormatRec.hasCommandOptions, baseCopts, hl]
  | h1 g l ih => cases hl : l.copts <;> simp [FormatRec.hasCommandOptions, baseCopts, ih, hl]

theorem FormatRec.hasCommandNames_eq (f : FormatRec) : f.hasCommandNames true = !f.nameChain.isEmpty := by
  induction f using FormatRec.ind with
  | h0 l => cases hl : l.names <;> simp [FormatRec.hasCommandNames, baseNames, hl]
  | h1 g l ih => cases hl : l.names <;> simp [FormatRec.hasCommandNames, baseNames, ih, hl]

/-! #### arguments -/

theorem FormatRec.argChain_keyed (f : FormatRec) (h : f.AllOK) : ∀ p ∈ f.argChain, p.1 = p.2.name := by
  induction f using FormatRec.ind with
  | h0 l =>
    simp at h; obtain ⟨A, rfl⟩ := h.1
    intro p hp; simp [baseArgs, ALevel.toLevel] at hp
    obtain ⟨a, _, rfl⟩ := hp; rfl
  | h1 g l ih =>
    simp [baseAllOK] at h; obtain ⟨A, rfl⟩ := h.1
    intro p hp; simp [baseArgs, ALevel.toLevel] at hp
    rcases hp with hp | ⟨a, _, rfl⟩
    · exact ih h.2 p hp
    · rfl

theorem dictGet?_keyed {d : Dict Arg} (hk : ∀ p ∈ d, p.1 = p.2.name) (n : Str) :
    dictGet? n d = (dictVals d).find? (fun a => decide (a.name = n)) := by
  induction d with
  | nil => rfl
  | cons p d ih =>
    obtain ⟨k, a⟩ := p
    have hka : k = a.name := hk (k, a) (by simp)
    subst hka
    have ih := ih (fun p hp => hk p (by simp [hp]))
    by_cases h : a.name = n
    · simp [dictGet?, h]
    · simp [dictGet?, h, ih]

theorem FormatRec.hasArgument_eq (f : FormatRec) (h : InvF f) (n : Str) :
    f.hasArgument n true = (dictVals f.argChain).any (fun a => decide (a.name = n)) := by
  unfold FormatRec.hasArgument dictHas
  rw [f.getArguments_eq h, dictGet?_keyed (f.argChain_keyed h.ok)]
  rw [Bool.eq_iff_iff]; simp

theorem FormatRec.getArgument_eq (f : FormatRec) (h : InvF f) (n : Str) :
    f.getArgument n true = lookup ((dictVals f.argChain).find? (fun a => decide (a.name = n))) .noSuchArgument := by
  unfold FormatRec.getArgument dictHas
  simp only [f.getArguments_eq h, dictGet?_keyed (f.argChain_keyed h.ok)]
  cases (dictVals f.argChain).find? (fun a => decide (a.name = n)) <;> rfl

theorem FormatRec.hasArgumentAt_eq (f : FormatRec) (h : InvF f) (i : Nat) :
    f.hasArgumentAt (i : Int) true = decide (i < (dictVals f.argChain).length) := by
  unfold FormatRec.hasArgumentAt
  rw [f.getArguments_eq h]
  simp [dictVals]

theorem pyIndex_nat {α : Type} (l : List α) (i : Nat) (h : i < l.length) : pyIndex l (i : Int) = .ok l[i] := by
  unfold pyIndex
  have h1 : ¬ ((i : Int) < 0) := by omega
  simp [h1, h]

theorem FormatRec.getArgumentAt_eq (f : FormatRec) (h : InvF f) (i : Nat) :
    f.getArgumentAt (i : Int) true = lookup ((dictVals f.argChain)[i]?) .noSuchArgument := by
  unfold FormatRec.getArgumentAt
  simp only [f.getArguments_eq h]
  by_cases hi : i < (dictVals f.argChain).length
  · have : ¬ ((i : Int) ≥ ((dictVals f.argChain).length : Int)) := by omega
    simp only [this, if_false]
    rw [pyIndex_nat _ _ hi, List.getElem?_eq_getElem hi]; rfl
  · have : ((i : Int) ≥ ((dictVals f.argChain).length : Int)) := by omega
    simp only [this, if_true]
    rw [List.getElem?_eq_none (by omega)]; rfl

theorem FormatRec.hasRequired_eq (f : FormatRec) :
    f.hasRequiredArgument true = (dictVals f.argChain).any (·.required) := by
  induction f using FormatRec.ind with
  | h0 l => simp [FormatRec.hasRequiredArgument, baseArgs, List.any_eq]
  | h1 g l ih =>
    simp only [FormatRec.hasRequiredArgument, argChain_mk, baseArgs, dictVals_append, List.any_append, ih]
    cases (dictVals l.args).any (·.required) <;> simp

theorem FormatRec.hasArguments_eq (f : FormatRec) : f.hasArguments true = !f.argChain.isEmpty := by
  induction f using FormatRec.ind with
  | h0 l => cases hl : l.args <;> simp [FormatRec.hasArguments, baseArgs, hl]
  | h1 g l ih => cases hl : l.args <;> simp [FormatRec.hasArguments, baseArgs, ih, hl]

/-! #### `include_base=False` = the same question to the format without its base -/

/-- the format without its base -/
def FormatRec.top (f : FormatRec) : FormatRec := .mk none f.own

theorem ArgsOK.suffix {xs ys : List Arg} (h : ArgsOK (xs ++ ys)) : ArgsOK ys := by
  refine ⟨?_, ?_, ?_⟩
  · have := h.names; simp only [List.map_append] at this
    exact (List.nodup_append.1 this).2.1
  · intro a ha
    apply h.multiLast a
    by_cases hy : ys = []
    · subst hy; simp at ha
    · rw [List.dropLast_append_of_ne_nil hy]; exact List.mem_append_right _ ha
  · exact (List.pairwise_append.1 h.order).2.1

theorem InvF.top {f : FormatRec} (h : InvF f) : InvF f.top := by
  obtain ⟨b, l⟩ := f
  refine ⟨?_, ?_, ?_⟩
  · have := h.ok; simp at this; simp [FormatRec.top, FormatRec.own, baseAllOK, this.1]
  · have := h.keys; simp only [keyChain_mk] at this
    simpa [FormatRec.top, FormatRec.own, baseKeys] using (List.nodup_append.1 this).1
  · have := h.args; simp only [argChain_mk, dictVals_append] at this
    simpa [FormatRec.top, FormatRec.own, baseArgs] using this.suffix

theorem queryF_false (f : FormatRec) (q : Query) :
    queryF f (match q with
      | .hasCommandNames _ => .hasCommandNames false
      | .getCommandNames _ => .getCommandNames false
      | .hasCommandOption n _ => .hasCommandOption n false
      | .hasCommandOptions _ => .hasCommandOptions false
      | .getCommandOption n _ => .getCommandOption n false
      | .getCommandOptions _ => .getCommandOptions false
      | .hasArgument n _ => .hasArgument n false
      | .hasArgumentAt i _ => .hasArgumentAt i false
      | .hasMultiValuedArgument _ => .hasMultiValuedArgument false
      | .hasOptionalArgument _ => .hasOptionalArgument false
      | .hasRequiredArgument _ => .hasRequiredArgument false
      | .hasArguments _ => .hasArguments false
      | .getArgument n _ => .getArgument n false
      | .getArgumentAt i _ => .getArgumentAt i false
      | .getArguments _ => .getArguments false
      | .hasOption n _ => .hasOption n false
      | .hasOptions _ => .hasOptions false
      | .getOption n _ => .getOption n false
      | .getOptions _ => .getOptions false) =
    queryF f.top (match q with
      | .hasCommandNames _ => .hasCommandNames true
      | .getCommandNames _ => .getCommandNames true
      | .hasCommandOption n _ => .hasCommandOption n true
      | .hasCommandOptions _ => .hasCommandOptions true
      | .getCommandOption n _ => .getCommandOption n true
      | .getCommandOptions _ => .getCommandOptions true
      | .hasArgument n _ => .hasArgument n true
      | .hasArgumentAt i _ => .hasArgumentAt i true
      | .hasMultiValuedArgument _ => .hasMultiValuedArgument true
      | .hasOptionalArgument _ => .hasOptionalArgument true
      | .hasRequiredArgument _ => .hasRequiredArgument true
      | .hasArguments _ => .hasArguments true
      | .getArgument n _ => .getArgument n true
      | .getArgumentAt i _ => .getArgumentAt i true
      | .getArguments _ => .getArguments true
      | .hasOption n _ => .hasOption n true
      | .hasOptions _ => .hasOptions true
      | .getOption n _ => .getOption n true
      | .getOptions _ => .getOptions true) := by
  obtain ⟨b, l⟩ := f
  cases b <;> cases q <;>
    simp only [queryF, FormatRec.top, FormatRec.own, FormatRec.hasCommandNames, FormatRec.getCommandNames,
      FormatRec.hasCommandOption, FormatRec.hasCommandOptions, FormatRec.getCommandOption,
      FormatRec.getCommandOptions, FormatRec.getArguments, FormatRec.hasArgument, FormatRec.hasArgumentAt,
      FormatRec.hasMultiValuedArgument, FormatRec.hasOptionalArgument, FormatRec.hasRequiredArgument,
      FormatRec.hasArguments, FormatRec.getArgument, FormatRec.getArgumentAt, FormatRec.hasOption,
      FormatRec.hasOptions, FormatRec.getOption, FormatRec.getOptions] <;> rfl

/-! #### the assembled statement -/

/-- **The declarative meaning of every predicate and lookup over the listed elements**, for
one setting of `include_base`: the listings are `get_options`, `get_command_options`,
`get_arguments`, `get_command_names`; everything else is a function of them. -/
structure QueriesMatch (f : FormatRec) (ib : Bool) : Prop where
  hasOptions : f.hasOptions ib = !(f.getOptions ib).isEmpty
  optionKeys : dictKeys (f.getOptions ib) = (dictVals (f.getOptions ib)).map (·.long)
  hasOption : ∀ n, f.hasOption n ib = (dictVals (f.getOptions ib)).any (fun o => decide (n ∈ o.names))
  getOption : ∀ n, f.getOption n ib =
    lookup ((dictVals (f.getOptions ib)).find? (fun o => decide (n ∈ o.names))) .noSuchOption
  hasCommandOptions : f.hasCommandOptions ib = !(f.getCommandOptions ib).isEmpty
  hasCommandOption : ∀ n, f.hasCommandOption n ib = (f.getCommandOptions ib).any (fun c => decide (n ∈ c.names))
  getCommandOption : ∀ n, f.getCommandOption n ib =
    lookup ((f.getCommandOptions ib).find? (fun c => decide (n ∈ c.names))) .noSuchOption
  hasArguments : f.hasArguments ib = !(f.getArguments ib).isEmpty
  argumentKeys : dictKeys (f.getArguments ib) = (dictVals (f.getArguments ib)).map (·.name)
  hasArgument : ∀ n, f.hasArgument n ib = (dictVals (f.getArguments ib)).any (fun a => decide (a.name = n))
  getArgument : ∀ n, f.getArgument n ib =
    lookup ((dictVals (f.getArguments ib)).find? (fun a => decide (a.name = n))) .noSuchArgument
  hasArgumentAt : ∀ i : Nat, f.hasArgumentAt (i : Int) ib = decide (i < (dictVals (f.getArguments ib)).length)
  getArgumentAt : ∀ i : Nat, f.getArgumentAt (i : Int) ib =
    lookup ((dictVals (f.getArguments ib))[i]?) .noSuchArgument
  hasMultiValued : f.hasMultiValuedArgument ib = (dictVals (f.getArguments ib)).any (·.multi)
  hasOptional : f.hasOptionalArgument ib = (dictVals (f.getArguments ib)).any (·.optional)
  hasRequired : f.hasRequiredArgument ib = (dictVals (f.getArguments ib)).any (·.required)
  hasCommandNames : f.hasCommandNames ib = !(f.getCommandNames ib).isEmpty

theorem FormatRec.optChain_keys (f : FormatRec) (h : f.AllOK) :
    dictKeys f.optChain = (dictVals f.optChain).map (·.long) := by
  induction f using FormatRec.ind with
  | h0 l => simp at h; obtain ⟨A, rfl⟩ := h.1; simp [baseOpts, ALevel.toLevel]
  | h1 g l ih =>
    simp [baseAllOK] at h; obtain ⟨A, rfl⟩ := h.1
    simp [baseOpts, ALevel.toLevel, ih h.2]

theorem queriesMatch_true (f : FormatRec) (h : InvF f) : QueriesMatch f true := by
  have e1 := f.getOptions_eq h.keys
  have e2 := f.getCommandOptions_eq
  have e3 := f.getArguments_eq h
  have e4 := f.getCommandNames_eq
  refine ⟨?_, ?_, ?_, ?_, ?_, ?_, ?_, ?_, ?_, ?_, ?_, ?_, ?_, ?_, ?_, ?_, ?_⟩
  · rw [e1]; exact f.hasOptions_eq
  · rw [e1]; exact f.optChain_keys h.ok
  · intro n; rw [e1]; exact f.hasOption_eq h.ok n
  · intro n; rw [e1]; exact f.getOption_eq h n
  · rw [e2]; exact f.hasCommandOptions_eq
  · intro n; rw [e2]; exact f.hasCommandOption_eq h.ok n
  · intro n; rw [e2]; exact f.getCommandOption_eq h n
  · rw [e3]; exact f.hasArguments_eq
  · rw [e3]; exact f.argChain_keys h.ok
  · intro n; rw [e3]; exact f.hasArgument_eq h n
  · intro n; rw [e3]; exact f.getArgument_eq h n
  · intro i; rw [e3]; exact f.hasArgumentAt_eq h i
  · intro i; rw [e3]; exact f.getArgumentAt_eq h i
  · rw [e3]; exact (f.flags_eq h.ok).1
  · rw [e3]; exact (f.flags_eq h.ok).2
  · rw [e3]; exact f.hasRequired_eq
  · rw [e4]; exact f.hasCommandNames_eq

theorem queriesMatch_false (f : FormatRec) (h : InvF f) : QueriesMatch f false := by
  have t := queriesMatch_true f.top h.top
  have q := queryF_false f
  have g1 := q (.getOptions true); have g2 := q (.getCommandOptions true)
  have g3 := q (.getArguments true); have g4 := q (.getCommandNames true)
  simp only [queryF, Answer.opts.injEq, Answer.copts.injEq, Answer.args.injEq, Answer.names.injEq] at g1 g2 g3 g4
  refine ⟨?_, ?_, ?_, ?_, ?_, ?_, ?_, ?_, ?_, ?_, ?_, ?_, ?_, ?_, ?_, ?_, ?_⟩
  · have := q (.hasOptions true); simp only [queryF, Answer.bool.injEq] at this; rw [this, g1]; exact t.hasOptions
  · rw [g1]; exact t.optionKeys
  · intro n; have := q (.hasOption n true); simp only [queryF, Answer.bool.injEq] at this
    rw [this, g1]; exact t.hasOption n
  · intro n; have := q (.getOption n true); simp only [queryF, Answer.opt.injEq] at this
    rw [this, g1]; exact t.getOption n
  · have := q (.hasCommandOptions true); simp only [queryF, Answer.bool.injEq] at this
    rw [this, g2]; exact t.hasCommandOptions
  · intro n; have := q (.hasCommandOption n true); simp only [queryF, Answer.bool.injEq] at this
    rw [this, g2]; exact t.hasCommandOption n
  · intro n; have := q (.getCommandOption n true); simp only [queryF, Answer.copt.injEq] at this
    rw [this, g2]; exact t.getCommandOption n
  · have := q (.hasArguments true); simp only [queryF, Answer.bool.injEq] at this; rw [this, g3]; exact t.hasArguments
  · rw [g3]; exact t.argumentKeys
  · intro n; have := q (.hasArgument n true); simp only [queryF, Answer.bool.injEq] at this
    rw [this, g3]; exact t.hasArgument n
  · intro n; have := q (.getArgument n true); simp only [queryF, Answer.arg.injEq] at this
    rw [this, g3]; exact t.getArgument n
  · intro i; have := q (.hasArgumentAt i true); simp only [queryF, Answer.bool.injEq] at this
    rw [this, g3]; exact t.hasArgumentAt i
  · intro i; have := q (.getArgumentAt i true); simp only [queryF, Answer.arg.injEq] at this
    rw [this, g3]; exact t.getArgumentAt i
  · have := q (.hasMultiValuedArgument true); simp only [queryF, Answer.bool.injEq] at this
    rw [this, g3]; exact t.hasMultiValued
  · have := q (.hasOptionalArgument true); simp only [queryF, Answer.bool.injEq] at this
    rw [this, g3]; exact t.hasOptional
  · have := q (.hasRequiredArgument true); simp only [queryF, Answer.bool.injEq] at this
    rw [this, g3]; exact t.hasRequired
  · have := q (.hasCommandNames true); simp only [queryF, Answer.bool.injEq] at this
    rw [this, g4]; exact t.hasCommandNames

/-- the listings themselves: own level and base compose in the listing order of each kind -/
theorem listings_compose (g : FormatRec) (l : Level) (h : InvF (.mk (some g) l)) :
    (FormatRec.mk (some g) l).getOptions true = l.opts ++ g.getOptions true ∧
    (FormatRec.mk (some g) l).getCommandOptions true = dictVals l.copts ++ g.getCommandOptions true ∧
    (FormatRec.mk (some g) l).getArguments true = g.getArguments true ++ l.args ∧
    (FormatRec.mk (some g) l).getCommandNames true = g.getCommandNames true ++ l.names := by
  refine ⟨?_, ?_, ?_, ?_⟩
  · rw [FormatRec.getOptions_eq _ h.keys, FormatRec.getOptions_eq _ h.base.keys]; simp [baseOpts]
  · rfl
  · rw [FormatRec.getArguments_eq _ h, FormatRec.getArguments_eq _ h.base]; simp [baseArgs]
  · rfl

/-! #### every name identifies at most one option (in terms of the listed elements) -/

abbrev Owner := Opt ⊕ CmdOpt

def Level.entries (l : Level) : Dict Owner :=
  l.opts.map (fun p => (p.1, Sum.inl p.2)) ++ l.optsS.map (fun p => (p.1, Sum.inl p.2)) ++
  l.copts.map (fun p => (p.1, Sum.inr p.2)) ++ l.coptsS.map (fun p => (p.1, Sum.inr p.2))

/-- every (key, element) pair of every option table of the format and its bases -/
def FormatRec.entries : FormatRec → Dict Owner
  | .mk b l => l.entries ++ (match b with | some g => g.entries | none => [])

theorem Level.entries_keys (l : Level) : dictKeys l.entries = l.keys := by
  simp [Level.entries, Level.keys, dictKeys, Function.comp_def]

theorem FormatRec.entries_keys (f : FormatRec) : dictKeys f.entries = f.keyChain := by
  induction f using FormatRec.ind with
  | h0 l => simp [FormatRec.entries, Level.entries_keys, baseKeys]
  | h1 g l ih => simp [FormatRec.entries, Level.entries_keys, baseKeys, ih]

theorem cs_of_vals (cs : List CmdOpt) (x : CmdOpt) (hx : x ∈ dictVals (cs.flatMap CmdOpt.longBlock)) : x ∈ cs := by
  simp only [dictVals, List.map_flatMap, List.mem_flatMap] at hx
  obtain ⟨c, hc, hx⟩ := hx
  obtain ⟨xs, hxs, hall⟩ := c.longBlock_vals
  have : x ∈ dictVals c.longBlock := hx
  rw [hxs] at this
  rcases List.mem_cons.1 this with h | h
  · exact h ▸ hc
  · exact hall x h ▸ hc

theorem Level.opt_entry (A : ALevel) (o : Opt) (ho : o ∈ A.os) (n : Str) (hn : n ∈ o.names) :
    (n, Sum.inl o) ∈ A.toLevel.entries := by
  simp only [Level.entries, ALevel.toLevel, List.mem_append, List.mem_map]
  rcases (o.mem_names n).1 hn with h | h
  · exact Or.inl (Or.inl (Or.inl ⟨(o.long, o), ⟨o, ho, rfl⟩, by simp [h]⟩))
  · refine Or.inl (Or.inl (Or.inr ⟨(n, o), ?_, rfl⟩))
    rw [List.mem_flatMap]
    refine ⟨o, ho, dictGet?_mem ?_⟩
    rw [o.shortPair_get]; simp [h]

theorem Level.copt_entry (A : ALevel) (c : CmdOpt) (hc : c ∈ A.cs) (n : Str) (hn : n ∈ c.names) :
    (n, Sum.inr c) ∈ A.toLevel.entries := by
  simp only [Level.entries, ALevel.toLevel, List.mem_append, List.mem_map]
  rcases (c.mem_names n).1 hn with h | h
  · refine Or.inl (Or.inr ⟨(n, c), ?_, rfl⟩)
    rw [List.mem_flatMap]
    refine ⟨c, hc, dictGet?_mem ?_⟩
    rw [c.longBlock_get]; simp [h]
  · refine Or.inr ⟨(n, c), ?_, rfl⟩
    rw [List.mem_flatMap]
    refine ⟨c, hc, dictGet?_mem ?_⟩
    rw [c.shortBlock_get]; simp [h]

theorem FormatRec.opt_entry (f : FormatRec) (h : f.AllOK) (o : Opt) (ho : o ∈ dictVals f.optChain)
    (n : Str) (hn : n ∈ o.names) : (n, Sum.inl o) ∈ f.entries := by
  induction f using FormatRec.ind with
  | h0 l =>
    simp at h; obtain ⟨A, rfl⟩ := h.1
    simp [baseOpts, ALevel.toLevel] at ho
    simpa [FormatRec.entries] using Level.opt_entry A o ho n hn
  | h1 g l ih =>
    simp [baseAllOK] at h; obtain ⟨A, rfl⟩ := h.1
    simp only [optChain_mk, baseOpts, dictVals_append, List.mem_append] at ho
    simp only [FormatRec.entries, List.mem_append]
    rcases ho with ho | ho
    · exact Or.inl (Level.opt_entry A o (by simpa [ALevel.toLevel] using ho) n hn)
    · exact Or.inr (ih h.2 ho)

theorem FormatRec.copt_entry (f : FormatRec) (h : f.AllOK) (c : CmdOpt) (hc : c ∈ f.coptChain)
    (n : Str) (hn : n ∈ c.names) : (n, Sum.inr c) ∈ f.entries := by
  induction f using FormatRec.ind with
  | h0 l =>
    simp at h; obtain ⟨A, rfl⟩ := h.1
    simp only [coptChain_mk, baseCopts, List.append_nil] at hc
    simpa [FormatRec.entries] using Level.copt_entry A c (cs_of_vals A.cs c hc) n hn
  | h1 g l ih =>
    simp [baseAllOK] at h; obtain ⟨A, rfl⟩ := h.1
    simp only [coptChain_mk, baseCopts, List.mem_append] at hc
    simp only [FormatRec.entries, List.mem_append]
    rcases hc with hc | hc
    · exact Or.inl (Level.copt_entry A c (cs_of_vals A.cs c hc) n hn)
    · exact Or.inr (ih h.2 hc)

theorem entries_functional (f : FormatRec) (h : f.keyChain.Nodup) (n : Str) (x y : Owner)
    (hx : (n, x) ∈ f.entries) (hy : (n, y) ∈ f.entries) : x = y := by
  rw [← f.entries_keys] at h
  have := dictGet?_of_mem h hx
  rw [dictGet?_of_mem h hy] at this
  injection this with this; exact this.symm

/-- **Every long name, short name and alias identifies at most one option** across the format
and its bases, stated over the listed elements. -/
theorem names_unique (f : FormatRec) (h : InvF f) (n : Str) :
    (∀ o1 ∈ dictVals (f.getOptions true), ∀ o2 ∈ dictVals (f.getOptions true),
        n ∈ o1.names → n ∈ o2.names → o1 = o2) ∧
    (∀ c1 ∈ f.getCommandOptions true, ∀ c2 ∈ f.getCommandOptions true,
        n ∈ c1.names → n ∈ c2.names → c1 = c2) ∧
    (∀ o ∈ dictVals (f.getOptions true), ∀ c ∈ f.getCommandOptions true, n ∈ o.names → n ∉ c.names) := by
  rw [f.getOptions_eq h.keys, f.getCommandOptions_eq]
  refine ⟨?_, ?_, ?_⟩
  · intro o1 h1 o2 h2 n1 n2
    have := entries_functional f h.keys n _ _ (f.opt_entry h.ok o1 h1 n n1) (f.opt_entry h.ok o2 h2 n n2)
    injection this
  · intro c1 h1 c2 h2 n1 n2
    have := entries_functional f h.keys n _ _ (f.copt_entry h.ok c1 h1 n n1) (f.copt_entry h.ok c2 h2 n n2)
    injection this
  · intro o h1 c h2 n1 n2
    have := entries_functional f h.keys n _ _ (f.opt_entry h.ok o h1 n n1) (f.copt_entry h.ok c h2 n n2)
    cases this

/-! ### the executable deciders of `Model/Builder.lean` decide the well-formedness hypotheses -/

theorem shortOkB_iff (s : Option Str) : shortOkB s = true ↔ ∀ t, s = some t → t.length = 1 := by
  cases s with
  | none => simp [shortOkB]
  | some t => simp [shortOkB]

theorem Opt.wfB_iff (o : Opt) : o.wfB = true ↔ o.wf := by
  simp only [Opt.wfB, Opt.wf, Bool.and_eq_true, decide_eq_true_eq, shortOkB_iff]

theorem CmdOpt.wfB_iff (c : CmdOpt) : c.wfB = true ↔ c.wf := by
  simp only [CmdOpt.wfB, CmdOpt.wf, Bool.and_eq_true, decide_eq_true_eq, shortOkB_iff, List.all_eq_true,
    beq_iff_eq, and_assoc]

theorem Op.wfB_iff (op : Op) : op.wfB = true ↔ op.wf := by
  cases op <;>
    simp only [Op.wfB, Op.wf, List.all_eq_true, Opt.wfB_iff, CmdOpt.wfB_iff]

/-- the element's single addition is well formed (the hypothesis of `ctor_inv`, per element) -/
def Elem.wf (e : Elem) : Prop := ∀ op, e.toOp? = some op → op.wf

theorem Elem.wfB_iff (e : Elem) : e.wfB = true ↔ e.wf := by
  cases e <;> simp [Elem.wfB, Elem.wf, Elem.toOp?, Op.wf, Opt.wfB_iff, CmdOpt.wfB_iff]

/-- **The formats that can exist**: an `ArgsFormat` is obtained either from
`ArgsFormat(elements, base)` or as `builder.format` of an `ArgsFormatBuilder(base)` after any
history of calls, where `base` is `None` or a format obtained the same way - the class has no
other constructor and no mutator.  Elements are what the element constructors produce (decided
by `Elem.wfB` / `Op.wfB`). -/
inductive Built : Option FormatRec → Prop where
  | none : Built none
  | ctor {base : Option FormatRec} {es : List Elem} {f : FormatRec} :
      Built base → es.all Elem.wfB = true → ctor es base = .ok f → Built (some f)
  | format {base : Option FormatRec} {ops : List Op} :
      Built base → ops.all Op.wfB = true → Built (some (format (run (Builder.empty base) ops)))

/-- `find?` returns the FIRST element satisfying the test: nothing listed before it does. -/
theorem find?_before {α : Type} [DecidableEq α] (p : α → Bool) :
    ∀ (l : List α) (c d : α), l.find? p = some c → l.idxOf d < l.idxOf c → p d = false := by
  intro l
  induction l with
  | nil => intro c d h; simp at h
  | cons x xs ih =>
    intro c d h hd
    rw [List.find?_cons] at h
    cases hx : p x with
    | true =>
      rw [hx] at h
      injection h with h
      subst h
      simp [List.idxOf_cons] at hd
    | false =>
      rw [hx] at h
      have hpc : p c = true := List.find?_some h
      have hcx : x ≠ c := by intro e; subst e; rw [hx] at hpc; cases hpc
      by_cases hdx : x = d
      · subst hdx; exact hx
      · apply ih c d h
        have e1 : (x == d) = false := by simpa using hdx
        have e2 : (x == c) = false := by simpa using hcx
        simp only [List.idxOf_cons, e1, e2, cond_false] at hd
        omega

end Clikit.ArgsFmt
