import Clikit.Model.Progress
import Clikit.Lemmas.ProgressFloat
/-!
# Lemmas about the progress-bar model (C16)
-/
namespace Clikit.Progress

/-! ## Frame conditions: which fields an internal step can change -/

theorem ensureFormat_fields (c : Config) (s : State) :
    (ensureFormat c s).step = s.step ∧ (ensureFormat c s).max = s.max ∧
    (ensureFormat c s).percent = s.percent ∧ (ensureFormat c s).lastLen = s.lastLen ∧
    (ensureFormat c s).lastWriteTime = s.lastWriteTime ∧ (ensureFormat c s).writeCount = s.writeCount ∧
    (ensureFormat c s).displayedStep = s.displayedStep ∧ (ensureFormat c s).stepWidth = s.stepWidth ∧
    (ensureFormat c s).messages = s.messages ∧ (ensureFormat c s).startTime = s.startTime ∧
    (ensureFormat c s).secContent = s.secContent ∧ (ensureFormat c s).secLines = s.secLines ∧
    (ensureFormat c s).displayedLineCount = s.displayedLineCount := by
  unfold ensureFormat
  cases s.format <;> simp

theorem secClear_fields (c : Config) (s : State) (n : Nat) :
    (secClear c s n).1.step = s.step ∧ (secClear c s n).1.max = s.max ∧
    (secClear c s n).1.writeCount = s.writeCount ∧ (secClear c s n).1.formatLineCount = s.formatLineCount ∧
    (secClear c s n).1.format = s.format := by
  unfold secClear
  split <;> simp

theorem secWrite_fields (c : Config) (s : State) (x : Str) :
    (secWrite c s x).1.step = s.step ∧ (secWrite c s x).1.max = s.max ∧
    (secWrite c s x).1.writeCount = s.writeCount ∧ (secWrite c s x).1.formatLineCount = s.formatLineCount ∧
    (secWrite c s x).1.format = s.format := by
  unfold secWrite
  split <;> simp

theorem overwrite_fields (c : Config) (s : State) (t : Nat) (msg : Str) :
    (overwrite c s t msg).1.step = s.step ∧ (overwrite c s t msg).1.max = s.max ∧
    (overwrite c s t msg).1.lastWriteTime = t ∧
    (overwrite c s t msg).1.writeCount = s.writeCount + 1 ∧
    (overwrite c s t msg).1.displayedStep = some s.step ∧
    (overwrite c s t msg).1.formatLineCount = s.formatLineCount ∧
    (overwrite c s t msg).1.format = s.format ∧
    (overwrite c s t msg).1.lastLen = maxLen ((splitNL msg).map (ljust s.lastLen)) := by
  unfold overwrite overwriteWith
  cases hk : c.kind <;> simp [secClear_fields, secWrite_fields]

/-- every `_overwrite` records the line count of what it wrote (repair of D39) -/
theorem overwrite_displayedLineCount (b : Bool) (c : Config) (s : State) (t : Nat) (msg : Str) :
    (overwriteWith b c s t msg).1.displayedLineCount = some s.formatLineCount := by
  unfold overwriteWith
  cases hk : c.kind <;> simp [secClear_fields, secWrite_fields]

/-- nothing to move back over: a single-line format and a single-line frame (or none) standing there -/
theorem moveCount_zero (b : Bool) (s : State) (hflc : s.formatLineCount = 0)
    (hd : s.displayedLineCount.getD 0 = 0) : moveCount b s = 0 := by
  unfold moveCount
  cases b <;> simp [hflc]
  simpa [hflc] using hd


theorem overwrite_displayedMax (c : Config) (s : State) (t : Nat) (msg : Str) :
    (overwrite c s t msg).1.displayedMax = some s.max := by
  unfold overwrite overwriteWith
  cases hk : c.kind <;> simp [secClear_fields, secWrite_fields]

theorem secClear_percent (c : Config) (s : State) (n : Nat) : (secClear c s n).1.percent = s.percent := by
  unfold secClear; split <;> simp

theorem secWrite_percent (c : Config) (s : State) (x : Str) : (secWrite c s x).1.percent = s.percent := by
  unfold secWrite; split <;> simp

theorem overwrite_percent (c : Config) (s : State) (t : Nat) (msg : Str) :
    (overwrite c s t msg).1.percent = s.percent := by
  unfold overwrite overwriteWith
  cases hk : c.kind <;> simp [secClear_percent, secWrite_percent]

/-! ## `display` by cases -/

theorem display_quiet (c : Config) (s : State) (t : Nat) (hq : c.quiet = true) :
    display c s t = ⟨s, [], none, none⟩ := by
  simp [display, hq]

theorem display_error (c : Config) (s : State) (t : Nat) (hq : c.quiet = false) (e : Err)
    (hb : buildLine c (ensureFormat c s) t = .error e) :
    display c s t = ⟨ensureFormat c s, [], none, some e⟩ := by
  simp [display, hq, hb]

theorem display_ok (c : Config) (s : State) (t : Nat) (hq : c.quiet = false) (text : Str)
    (hb : buildLine c (ensureFormat c s) t = .ok text) :
    display c s t = ⟨(overwrite c (ensureFormat c s) t text).1, (overwrite c (ensureFormat c s) t text).2,
      some (frameOf c (ensureFormat c s) text), none⟩ := by
  simp [display, hq, hb]

/-- `display` never touches the step and the maximum -/
theorem display_step_max (c : Config) (s : State) (t : Nat) :
    (display c s t).st.step = s.step ∧ (display c s t).st.max = s.max := by
  cases hq : c.quiet
  · cases hb : buildLine c (ensureFormat c s) t with
    | error e => rw [display_error c s t hq e hb]; simp [ensureFormat_fields]
    | ok text => rw [display_ok c s t hq text hb]; simp [overwrite_fields, ensureFormat_fields]
  · rw [display_quiet c s t hq]; simp

/-- a frame drawn by `display` shows the step, the maximum and the percentage of the state -/
theorem display_frame (c : Config) (s : State) (t : Nat) (f : Frame)
    (h : (display c s t).frame = some f) :
    f.current = s.step ∧ f.max = s.max ∧ f.percent = percentOf s ∧ c.quiet = false ∧
    (display c s t).err = none ∧
    buildLine c (ensureFormat c s) t = .ok f.text ∧
    (display c s t).st = (overwrite c (ensureFormat c s) t f.text).1 ∧
    (display c s t).writes = (overwrite c (ensureFormat c s) t f.text).2 ∧
    f = frameOf c (ensureFormat c s) f.text := by
  cases hq : c.quiet
  · cases hb : buildLine c (ensureFormat c s) t with
    | error e => rw [display_error c s t hq e hb] at h; simp at h
    | ok text =>
      rw [display_ok c s t hq text hb] at h ⊢
      simp at h
      subst h
      simp [frameOf, percentOf, ensureFormat_fields]
  · rw [display_quiet c s t hq] at h; simp at h

/-- on an output that is not quiet `display` draws a frame or raises -/
theorem display_draws (c : Config) (s : State) (t : Nat) (hq : c.quiet = false) :
    (display c s t).frame.isSome ∨ (display c s t).err.isSome := by
  cases hb : buildLine c (ensureFormat c s) t with
  | error e => rw [display_error c s t hq e hb]; simp
  | ok text => rw [display_ok c s t hq text hb]; simp


/-! ## `set_progress` -/

/-- step and maximum `set_progress k` settles before it decides about drawing -/
def newMax (s : State) (k : Int) : Nat := if s.max ≠ 0 ∧ k > (s.max : Int) then k.toNat else s.max

/-- the state `set_progress k` hands to `display` (or keeps, when it does not draw) -/
def progressed (s : State) (k : Int) : State :=
  { s with step := k.toNat, max := newMax s k,
           percent := if newMax s k ≠ 0 then roundQ k.toNat (newMax s k) else ⟨0, 1⟩ }

theorem setProgress_eq (c : Config) (s : State) (t : Nat) (k : Int) :
    setProgress c s t k =
      match decide' c s t (newMax s k) k.toNat with
      | .atMax | .draw => display c (progressed s k) t
      | .throttled | .skip => ⟨progressed s k, [], none, none⟩ := by
  rfl

theorem newMax_bound (s : State) (k : Int) (h : newMax s k ≠ 0) : k.toNat ≤ newMax s k := by
  unfold newMax at *
  split at h <;> rename_i hc
  · simp [hc]
  · simp [hc]
    have : ¬ (k > (s.max : Int)) := fun hk => hc ⟨h, hk⟩
    omega

theorem setProgress_step_max (c : Config) (s : State) (t : Nat) (k : Int) :
    (setProgress c s t k).st.step = k.toNat ∧ (setProgress c s t k).st.max = newMax s k := by
  rw [setProgress_eq]
  cases decide' c s t (newMax s k) k.toNat <;> simp [display_step_max, progressed]

theorem decide_atMax_iff (c : Config) (s : State) (t : Nat) (m st : Nat) :
    decide' c s t m st = .atMax ↔ st = m := by
  unfold decide'
  constructor
  · intro h
    repeat' (first | split at h | dsimp only at h)
    all_goals first | assumption | cases h
  · intro h
    simp [h]

/-- the code's own conditions for a draw at a step other than the maximum -/
theorem decide_draw (c : Config) (s : State) (t : Nat) (m st : Nat) (h : decide' c s t m st = .draw) :
    st ≠ m ∧ (t : Int) - (s.lastWriteTime : Int) ≥ (c.minInterval : Int) ∧
    (period c m s.step ≠ period c m st ∨ (t : Int) - (s.lastWriteTime : Int) ≥ (c.maxInterval : Int)) := by
  unfold decide' at h
  repeat' (first | split at h | dsimp only at h)
  all_goals first | cases h | skip
  rename_i h1 h2 h3
  exact ⟨h1, by omega, h3⟩


/-! ## Histories -/

theorem run_cons (c : Config) (s : State) (op : Op) (t : Nat) (rest : List (Op × Nat)) :
    run c s ((op, t) :: rest) = ⟨op, t, s, step c s op t⟩ :: run c (step c s op t).st rest := rfl

/-- every event of a history is one call of `step` on its own pre-state -/
theorem run_event (c : Config) (s : State) (ops : List (Op × Nat)) :
    ∀ e ∈ run c s ops, e.res = step c e.pre e.op e.t := by
  induction ops generalizing s with
  | nil => intro e he; simp [run] at he
  | cons x rest ih =>
    obtain ⟨op, t⟩ := x
    intro e he
    rw [run_cons] at he
    cases he with
    | head => rfl
    | tail _ h => exact ih _ e h

/-- an invariant of `step` holds before and after every event of a history -/
theorem run_invariant (c : Config) (P : State → Prop)
    (hstep : ∀ s op t, P s → P (step c s op t).st) (s : State) (ops : List (Op × Nat)) (h0 : P s) :
    ∀ e ∈ run c s ops, P e.pre ∧ P e.res.st := by
  induction ops generalizing s with
  | nil => intro e he; simp [run] at he
  | cons x rest ih =>
    obtain ⟨op, t⟩ := x
    intro e he
    rw [run_cons] at he
    cases he with
    | head => exact ⟨h0, hstep s op t h0⟩
    | tail _ h => exact ih _ (hstep s op t h0) e h

/-! ## Step bounds -/

/-- the invariant of `step_bounds`: with a maximum, the step never exceeds it -/
def Bounded (s : State) : Prop := s.max ≠ 0 → s.step ≤ s.max

theorem setProgress_bounded (c : Config) (s : State) (t : Nat) (k : Int) :
    Bounded (setProgress c s t k).st := by
  unfold Bounded
  rw [(setProgress_step_max c s t k).1, (setProgress_step_max c s t k).2]
  exact newMax_bound s k

/-- `finish()` first gives a bar without a maximum the current step as its maximum -/
def finished (s : State) : State := if s.max = 0 then { s with max := s.step } else s

/-- the proof obligation tied to the source: the guard of `finish()` compares `_displayed_max` -/
theorem cmp_true : Gen.C16.finishComparesDisplayedMax = true := rfl

theorem finishWith_eq (b : Bool) (c : Config) (s : State) (t : Nat) :
    finishWith b c s t =
      if (finished s).step = (finished s).max ∧ c.overwrite = false ∧
          (finished s).displayedStep = some (finished s).step ∧
          (b = true → (finished s).displayedMax = some (finished s).max)
      then ⟨finished s, [], none, none⟩
      else setProgress c (finished s) t ((finished s).max : Int) := rfl

theorem finish_eq (c : Config) (s : State) (t : Nat) :
    finish c s t =
      if (finished s).step = (finished s).max ∧ c.overwrite = false ∧
          (finished s).displayedStep = some (finished s).step ∧
          (Gen.C16.finishComparesDisplayedMax = true → (finished s).displayedMax = some (finished s).max)
      then ⟨finished s, [], none, none⟩
      else setProgress c (finished s) t ((finished s).max : Int) := rfl

theorem finished_bounded (s : State) (h : Bounded s) : Bounded (finished s) := by
  unfold finished Bounded at *
  split <;> simp_all

theorem step_bounded (c : Config) (s : State) (op : Op) (t : Nat) (h : Bounded s) :
    Bounded (step c s op t).st := by
  cases op with
  | start m =>
    unfold Bounded
    simp only [step, start]
    intro _
    rw [(display_step_max c _ t).1]
    cases m <;> simp
  | advance k => exact setProgress_bounded c s t _
  | setProgress k => exact setProgress_bounded c s t _
  | display =>
    unfold Bounded at *
    simp only [step]
    rw [(display_step_max c s t).1, (display_step_max c s t).2]
    exact h
  | clear =>
    unfold Bounded at *
    simp only [step, clear]
    split
    · exact h
    · simp [overwrite_fields, ensureFormat_fields]; exact h
  | finish =>
    simp only [step]
    rw [finish_eq]
    split
    · exact finished_bounded s h
    · exact setProgress_bounded c _ t _
  | setMessage text => exact h

theorem init_bounded (m : Int) (t : Nat) : Bounded (init m t) := by
  simp [Bounded, init]


/-! ## What a frame shows -/

/-- a frame is truthful for a state: current step, maximum and integer percentage -/
def FrameOK (f : Frame) (st : State) : Prop :=
  f.current = st.step ∧ f.max = st.max ∧
  f.percent = (if f.max = 0 then 0 else f.current * 100 / f.max)

theorem display_frameOK (c : Config) (s : State) (t : Nat) (f : Frame)
    (h : (display c s t).frame = some f) : FrameOK f (display c s t).st := by
  have hf := display_frame c s t f h
  have hs := display_step_max c s t
  refine ⟨by rw [hs.1]; exact hf.1, by rw [hs.2]; exact hf.2.1, ?_⟩
  rw [hf.2.2.1, hf.1, hf.2.1]
  rfl

theorem setProgress_frame (c : Config) (s : State) (t : Nat) (k : Int) (f : Frame)
    (h : (setProgress c s t k).frame = some f) :
    setProgress c s t k = display c (progressed s k) t ∧
    (decide' c s t (newMax s k) k.toNat = .atMax ∨ decide' c s t (newMax s k) k.toNat = .draw) := by
  rw [setProgress_eq] at h ⊢
  cases hd : decide' c s t (newMax s k) k.toNat <;> simp [hd] at h ⊢

theorem setProgress_frameOK (c : Config) (s : State) (t : Nat) (k : Int) (f : Frame)
    (h : (setProgress c s t k).frame = some f) : FrameOK f (setProgress c s t k).st := by
  have h1 := (setProgress_frame c s t k f h).1
  rw [h1] at h ⊢
  exact display_frameOK c _ t f h

theorem step_frameOK (c : Config) (s : State) (op : Op) (t : Nat) (f : Frame)
    (h : (step c s op t).frame = some f) : FrameOK f (step c s op t).st := by
  cases op with
  | start m => exact display_frameOK c _ t f h
  | advance k => exact setProgress_frameOK c s t _ f h
  | setProgress k => exact setProgress_frameOK c s t _ f h
  | display => exact display_frameOK c s t f h
  | clear =>
    simp only [step, clear] at h
    split at h <;> simp at h
  | finish =>
    simp only [step] at h ⊢
    rw [finish_eq] at h ⊢
    split at h
    · simp at h
    · rename_i hc
      rw [if_neg hc]
      exact setProgress_frameOK c _ t _ f h
  | setMessage text => simp [step] at h

/-- `⌊100·a/b⌋ = 100` exactly when `a = b` (for `a ≤ b`, `b > 0`) -/
theorem percent_full_iff (a b : Nat) (hb : b ≠ 0) (hab : a ≤ b) : a * 100 / b = 100 ↔ a = b := by
  have hpos : 0 < b := Nat.pos_of_ne_zero hb
  constructor
  · intro h
    have h1 : 100 * b ≤ a * 100 := (Nat.le_div_iff_mul_le hpos).mp (Nat.le_of_eq h.symm)
    omega
  · intro h
    subst h
    rw [Nat.mul_comm]
    exact Nat.mul_div_cancel 100 hpos


/-! ## The bar segment -/

theorem repeatStr_length (s : Str) (n : Nat) : (repeatStr s n).length = s.length * n := by
  induction n with
  | zero => simp [repeatStr]
  | succ n ih => simp [repeatStr, ih, Nat.mul_succ]; omega

/-- the three bar characters are single characters -/
def SingleChars (c : Config) : Prop :=
  c.emptyChar.length = 1 ∧ c.progressChar.length = 1 ∧ ∀ b, c.barChar = some b → b.length = 1

theorem barCharOf_length (c : Config) (s : State) (h : SingleChars c) : (barCharOf c s).length = 1 := by
  unfold barCharOf
  cases hb : c.barChar with
  | some b => exact h.2.2 b hb
  | none => dsimp only; split <;> simp [h.1]

/-- `self._percent` is a value in `[0, 1]` -/
def PctInv (s : State) : Prop := s.percent.num ≤ s.percent.den ∧ 0 < s.percent.den

theorem mulNat_floor_le (x : Dy) (w : Nat) (hx : x.num ≤ x.den) (hd : 0 < x.den) (hw : w < 2 ^ 52) :
    (x.mulNat w).floor ≤ w := by
  unfold Dy.mulNat Dy.floor
  have h2 := roundQ_le (x.num * w) x.den w hd
    (by rw [Nat.mul_comm]; exact Nat.mul_le_mul_left _ hx) hw
  exact Nat.div_le_of_le_mul (Nat.le_trans h2 (Nat.le_of_eq (Nat.mul_comm _ _)))

theorem barOffset_le (c : Config) (s : State) (off : Nat) (hp : PctInv s) (hw : c.barWidth < 2 ^ 52)
    (h : barOffset c s = .ok off) : off ≤ c.barWidth := by
  unfold barOffset at h
  split at h
  · cases h; exact mulNat_floor_le _ _ hp.1 hp.2 hw
  · split at h
    · cases h
    · rename_i hw0
      split at h <;> cases h <;> exact Nat.le_of_lt (Nat.mod_lt _ (Nat.pos_of_ne_zero hw0))

theorem barOf_length (c : Config) (s : State) (off : Nat) (h : SingleChars c) (hoff : off ≤ c.barWidth) :
    (barOf c s off).length = c.barWidth := by
  unfold barOf
  dsimp only
  split
  · simp [repeatStr_length, barCharOf_length c s h, h.1, h.2.1]; omega
  · simp [repeatStr_length, barCharOf_length c s h]; omega

/-- the `%bar%` placeholder is rendered by `barOffset` / `barOf` -/
theorem placeholder_bar (c : Config) (s : State) (t : Nat) :
    placeholder c s t ['b', 'a', 'r'] =
      (match barOffset c s with | .ok off => .ok (some (barOf c s off)) | .error e => .error e) := by
  unfold placeholder
  simp only [if_true]
  cases barOffset c s <;> rfl

theorem frameOf_bar_length (c : Config) (s : State) (text : Str) (b : Str) (h : SingleChars c)
    (hp : PctInv s) (hw : c.barWidth < 2 ^ 52)
    (hb : (frameOf c s text).bar = some b) : b.length = c.barWidth := by
  unfold frameOf at hb
  dsimp only at hb
  cases ho : barOffset c s with
  | error e => simp [ho] at hb
  | ok off =>
    simp [ho] at hb
    subst hb
    exact barOf_length c s off h (barOffset_le c s off hp hw ho)


theorem pct_zero (s : State) (h : s.percent = ⟨0, 1⟩) : PctInv s := by
  unfold PctInv; rw [h]; exact ⟨Nat.zero_le _, Nat.one_pos⟩

theorem ensureFormat_pct (c : Config) (s : State) (h : PctInv s) : PctInv (ensureFormat c s) := by
  unfold PctInv; rw [(ensureFormat_fields c s).2.2.1]; exact h

theorem display_pct (c : Config) (s : State) (t : Nat) (h : PctInv s) : PctInv (display c s t).st := by
  cases hq : c.quiet
  · cases hb : buildLine c (ensureFormat c s) t with
    | error e => rw [display_error c s t hq e hb]; exact ensureFormat_pct c s h
    | ok text =>
      rw [display_ok c s t hq text hb]
      unfold PctInv; dsimp only; rw [overwrite_percent]; exact ensureFormat_pct c s h
  · rw [display_quiet c s t hq]; exact h

theorem progressed_pct (s : State) (k : Int) : PctInv (progressed s k) := by
  unfold PctInv progressed
  dsimp only
  split
  · rename_i hm
    have := roundQ_le k.toNat (newMax s k) 1 (Nat.pos_of_ne_zero hm)
      (by have := newMax_bound s k hm; omega) (by decide)
    exact ⟨by omega, roundQ_den_pos _ _⟩
  · exact ⟨Nat.zero_le _, Nat.one_pos⟩

theorem setProgress_pct (c : Config) (s : State) (t : Nat) (k : Int) : PctInv (setProgress c s t k).st := by
  rw [setProgress_eq]
  cases decide' c s t (newMax s k) k.toNat
  · exact display_pct c _ t (progressed_pct s k)
  · exact progressed_pct s k
  · exact display_pct c _ t (progressed_pct s k)
  · exact progressed_pct s k

theorem step_pct (c : Config) (s : State) (op : Op) (t : Nat) (h : PctInv s) : PctInv (step c s op t).st := by
  cases op with
  | start m =>
    cases m with
    | none => exact display_pct c _ t (pct_zero _ rfl)
    | some m => exact display_pct c _ t (pct_zero _ rfl)
  | advance k => exact setProgress_pct c s t _
  | setProgress k => exact setProgress_pct c s t _
  | display => exact display_pct c s t h
  | clear =>
    simp only [step, clear]
    split
    · exact h
    · unfold PctInv; dsimp only; rw [overwrite_percent]; exact ensureFormat_pct c s h
  | finish =>
    simp only [step]
    rw [finish_eq]
    split
    · unfold finished; split <;> exact h
    · exact setProgress_pct c _ t _
  | setMessage text => exact h

theorem init_pct (m : Int) (t : Nat) : PctInv (init m t) := pct_zero _ rfl

theorem display_frameOf (c : Config) (s : State) (t : Nat) (f : Frame) (hp : PctInv s)
    (h : (display c s t).frame = some f) : ∃ s', PctInv s' ∧ f = frameOf c s' f.text :=
  ⟨_, ensureFormat_pct c s hp, (display_frame c s t f h).2.2.2.2.2.2.2.2⟩

theorem setProgress_frameOf (c : Config) (s : State) (t : Nat) (k : Int) (f : Frame)
    (h : (setProgress c s t k).frame = some f) : ∃ s', PctInv s' ∧ f = frameOf c s' f.text := by
  rw [(setProgress_frame c s t k f h).1] at h
  exact display_frameOf c _ t f (progressed_pct s k) h

/-- every frame of the model is `frameOf` of some state whose `_percent` is in `[0, 1]` -/
theorem step_frameOf (c : Config) (s : State) (op : Op) (t : Nat) (f : Frame) (hp : PctInv s)
    (h : (step c s op t).frame = some f) : ∃ s', PctInv s' ∧ f = frameOf c s' f.text := by
  cases op with
  | start m =>
    cases m with
    | none => exact display_frameOf c _ t f (pct_zero _ rfl) h
    | some m => exact display_frameOf c _ t f (pct_zero _ rfl) h
  | advance k => exact setProgress_frameOf c s t _ f h
  | setProgress k => exact setProgress_frameOf c s t _ f h
  | display => exact display_frameOf c s t f hp h
  | clear =>
    simp only [step, clear] at h
    split at h <;> simp at h
  | finish =>
    simp only [step] at h
    rw [finish_eq] at h
    split at h
    · simp at h
    · exact setProgress_frameOf c _ t _ f h
  | setMessage text => simp [step] at h

/-! ## Quiet outputs -/

theorem overwrite_quiet (c : Config) (s : State) (t : Nat) (msg : Str) (hq : c.quiet = true) :
    (overwrite c s t msg).2 = [] := by
  unfold overwrite overwriteWith
  cases hk : c.kind <;> simp [emit, hq, secClear, secWrite] <;> split <;> simp

theorem setProgress_quiet (c : Config) (s : State) (t : Nat) (k : Int) (hq : c.quiet = true) :
    (setProgress c s t k).writes = [] := by
  rw [setProgress_eq]
  cases decide' c s t (newMax s k) k.toNat <;> simp [display_quiet, hq]

theorem step_quiet (c : Config) (s : State) (op : Op) (t : Nat) (hq : c.quiet = true) :
    (step c s op t).writes = [] := by
  cases op with
  | start m => simp [step, start, display_quiet, hq]
  | advance k => exact setProgress_quiet c s t _ hq
  | setProgress k => exact setProgress_quiet c s t _ hq
  | display => simp [step, display_quiet, hq]
  | clear =>
    simp only [step, clear]
    split
    · rfl
    · exact overwrite_quiet c _ t _ hq
  | finish =>
    simp only [step]
    rw [finish_eq]
    split
    · rfl
    · exact setProgress_quiet c _ t _ hq
  | setMessage text => rfl


/-! ## The redraw decision -/

/-- the calls whose redraws are throttled -/
def isAdvance : Op → Bool
  | .advance _ | .setProgress _ => true
  | _ => false

theorem setProgress_throttle (c : Config) (s : State) (t : Nat) (k : Int) (f : Frame)
    (h : (setProgress c s t k).frame = some f)
    (hne : (setProgress c s t k).st.step ≠ (setProgress c s t k).st.max) :
    (t : Int) - (s.lastWriteTime : Int) ≥ (c.minInterval : Int) ∧
    (period c (setProgress c s t k).st.max s.step ≠
        period c (setProgress c s t k).st.max (setProgress c s t k).st.step ∨
      (t : Int) - (s.lastWriteTime : Int) ≥ (c.maxInterval : Int)) := by
  have hsm := setProgress_step_max c s t k
  rw [hsm.1, hsm.2] at hne ⊢
  rcases (setProgress_frame c s t k f h).2 with hd | hd
  · exact absurd ((decide_atMax_iff c s t _ _).mp hd) hne
  · have := decide_draw c s t _ _ hd
    exact ⟨this.2.1, this.2.2⟩

theorem step_throttle (c : Config) (s : State) (op : Op) (t : Nat) (f : Frame)
    (ha : isAdvance op = true) (h : (step c s op t).frame = some f)
    (hne : (step c s op t).st.step ≠ (step c s op t).st.max) :
    (t : Int) - (s.lastWriteTime : Int) ≥ (c.minInterval : Int) ∧
    (period c (step c s op t).st.max s.step ≠ period c (step c s op t).st.max (step c s op t).st.step ∨
      (t : Int) - (s.lastWriteTime : Int) ≥ (c.maxInterval : Int)) := by
  cases op with
  | advance k => exact setProgress_throttle c s t _ f h hne
  | setProgress k => exact setProgress_throttle c s t _ f h hne
  | start m => simp [isAdvance] at ha
  | display => simp [isAdvance] at ha
  | clear => simp [isAdvance] at ha
  | finish => simp [isAdvance] at ha
  | setMessage text => simp [isAdvance] at ha

theorem setProgress_at_max (c : Config) (s : State) (t : Nat) (k : Int) (hq : c.quiet = false)
    (h : (setProgress c s t k).st.step = (setProgress c s t k).st.max) :
    (setProgress c s t k).frame.isSome ∨ (setProgress c s t k).err.isSome := by
  have hsm := setProgress_step_max c s t k
  rw [hsm.1, hsm.2] at h
  have hd := (decide_atMax_iff c s t (newMax s k) k.toNat).mpr h
  rw [setProgress_eq, hd]
  exact display_draws c _ t hq

theorem step_at_max (c : Config) (s : State) (op : Op) (t : Nat) (hq : c.quiet = false)
    (ha : isAdvance op = true) (h : (step c s op t).st.step = (step c s op t).st.max) :
    (step c s op t).frame.isSome ∨ (step c s op t).err.isSome := by
  cases op with
  | advance k => exact setProgress_at_max c s t _ hq h
  | setProgress k => exact setProgress_at_max c s t _ hq h
  | start m => simp [isAdvance] at ha
  | display => simp [isAdvance] at ha
  | clear => simp [isAdvance] at ha
  | finish => simp [isAdvance] at ha
  | setMessage text => simp [isAdvance] at ha

/-! ## The time of the last write -/

theorem overwrite_writes_ne (c : Config) (s : State) (t : Nat) (msg : Str) (hq : c.quiet = false) :
    (overwrite c s t msg).2 ≠ [] := by
  unfold overwrite overwriteWith
  cases hk : c.kind <;> simp [emit, hq, secWrite]

/-- on an output that is not quiet: a call that wrote nothing leaves `_last_write_time` alone, a
call that wrote something sets it to the clock reading of that call -/
def LwtSpec (s : State) (t : Nat) (r : Res) : Prop :=
  (r.writes = [] → r.st.lastWriteTime = s.lastWriteTime) ∧ (r.writes ≠ [] → r.st.lastWriteTime = t)

theorem display_lwt (c : Config) (s : State) (t : Nat) (hq : c.quiet = false) :
    LwtSpec s t (display c s t) := by
  cases hb : buildLine c (ensureFormat c s) t with
  | error e => rw [display_error c s t hq e hb]; simp [LwtSpec, ensureFormat_fields]
  | ok text =>
    rw [display_ok c s t hq text hb]
    have := overwrite_writes_ne c (ensureFormat c s) t text hq
    simp [LwtSpec, overwrite_fields, this]

theorem setProgress_lwt (c : Config) (s : State) (t : Nat) (k : Int) (hq : c.quiet = false) :
    LwtSpec s t (setProgress c s t k) := by
  rw [setProgress_eq]
  have := display_lwt c (progressed s k) t hq
  cases decide' c s t (newMax s k) k.toNat <;> simp_all [LwtSpec, progressed]

theorem step_lwt (c : Config) (s : State) (op : Op) (t : Nat) (hq : c.quiet = false) :
    LwtSpec s t (step c s op t) := by
  cases op with
  | start m =>
    have := display_lwt c (match m with
      | none => { s with startTime := t, step := 0, percent := ⟨0, 1⟩ }
      | some m => { s with startTime := t, step := 0, percent := ⟨0, 1⟩, max := (Max.max 0 m).toNat,
                           stepWidth := stepWidthOf (Max.max 0 m).toNat }) t hq
    cases m <;> simpa [LwtSpec, step, start] using this
  | advance k => exact setProgress_lwt c s t _ hq
  | setProgress k => exact setProgress_lwt c s t _ hq
  | display => exact display_lwt c s t hq
  | clear =>
    simp only [step, clear]
    split
    · simp [LwtSpec]
    · have := overwrite_writes_ne c (ensureFormat c s) t
        (List.replicate (ensureFormat c s).formatLineCount '\n') hq
      simp [LwtSpec, overwrite_fields, this]
  | finish =>
    simp only [step]
    rw [finish_eq]
    split
    · unfold finished LwtSpec; split <;> simp
    · have := setProgress_lwt c (finished s) t ((finished s).max : Int) hq
      unfold finished at *
      split <;> simp_all [LwtSpec]
  | setMessage text => simp [step, LwtSpec]


theorem run_silent_stretch (c : Config) (hq : c.quiet = false) (evs2 : List Event) :
    ∀ (s : State) (ops : List (Op × Nat)) (e2 : Event) (evs3 : List Event),
      run c s ops = evs2 ++ e2 :: evs3 → (∀ e ∈ evs2, e.res.writes = []) →
      e2.pre.lastWriteTime = s.lastWriteTime := by
  induction evs2 with
  | nil =>
    intro s ops e2 evs3 h _
    cases ops with
    | nil => simp [run] at h
    | cons x rest =>
      obtain ⟨op, t⟩ := x
      rw [run_cons] at h
      simp at h
      rw [← h.1]
  | cons e evs2 ih =>
    intro s ops e2 evs3 h hsilent
    cases ops with
    | nil => simp [run] at h
    | cons x rest =>
      obtain ⟨op, t⟩ := x
      rw [run_cons] at h
      simp at h
      have he : e.res.writes = [] := hsilent e (by simp)
      rw [← h.1] at he
      have := ih (step c s op t).st rest e2 evs3 h.2 (fun e' he' => hsilent e' (by simp [he']))
      rw [this]
      exact (step_lwt c s op t hq).1 he

/-- in a history, the pre-state of a call remembers the clock reading of the latest earlier call
that wrote anything -/
theorem run_last_write (c : Config) (hq : c.quiet = false) (evs1 : List Event) :
    ∀ (s : State) (ops : List (Op × Nat)) (e1 : Event) (evs2 : List Event) (e2 : Event) (evs3 : List Event),
      run c s ops = evs1 ++ e1 :: (evs2 ++ e2 :: evs3) → e1.res.writes ≠ [] →
      (∀ e ∈ evs2, e.res.writes = []) → e2.pre.lastWriteTime = e1.t := by
  induction evs1 with
  | nil =>
    intro s ops e1 evs2 e2 evs3 h hw hsilent
    cases ops with
    | nil => simp [run] at h
    | cons x rest =>
      obtain ⟨op, t⟩ := x
      rw [run_cons] at h
      simp at h
      rw [run_silent_stretch c hq evs2 _ rest e2 evs3 h.2 hsilent]
      rw [← h.1] at hw ⊢
      exact (step_lwt c s op t hq).2 hw
  | cons e evs1 ih =>
    intro s ops e1 evs2 e2 evs3 h hw hsilent
    cases ops with
    | nil => simp [run] at h
    | cons x rest =>
      obtain ⟨op, t⟩ := x
      rw [run_cons] at h
      simp at h
      exact ih _ rest e1 evs2 e2 evs3 h.2 hw hsilent


/-! ## The last frame of a history -/

/-- the latest frame: a new one replaces the old one -/
def lastOf (new old : Option Frame) : Option Frame :=
  match new with
  | some f => some f
  | none => old

/-- the last frame drawn by a history (`lf` when it draws none) -/
def lastFrame (lf : Option Frame) : List Event → Option Frame
  | [] => lf
  | e :: rest => lastFrame (lastOf e.res.frame lf) rest

def PercentOK (f : Frame) : Prop := f.percent = (if f.max = 0 then 0 else f.current * 100 / f.max)

/-- on an output without overwriting: the step and the maximum recorded as displayed are those
of the last frame -/
def Shown (s : State) (lf : Option Frame) : Prop :=
  ∀ d dm, s.displayedStep = some d → s.displayedMax = some dm →
    ∃ f, lf = some f ∧ f.current = d ∧ f.max = dm ∧ PercentOK f

theorem display_establishes (c : Config) (s : State) (t : Nat) (hq : c.quiet = false)
    (herr : (display c s t).err = none) :
    ∃ f, (display c s t).frame = some f ∧ f.current = s.step ∧ f.max = s.max ∧ PercentOK f ∧
      (display c s t).st.displayedStep = some s.step ∧ (display c s t).st.displayedMax = some s.max ∧
      (display c s t).st.max = s.max ∧ (display c s t).st.step = s.step := by
  cases hb : buildLine c (ensureFormat c s) t with
  | error e => rw [display_error c s t hq e hb] at herr; simp at herr
  | ok text =>
    have hfr : (display c s t).frame = some (frameOf c (ensureFormat c s) text) := by
      rw [display_ok c s t hq text hb]
    have hok := display_frameOK c s t _ hfr
    have hsm := display_step_max c s t
    refine ⟨_, hfr, ?_, ?_, hok.2.2, ?_, ?_, hsm.2, hsm.1⟩
    · simp [frameOf, ensureFormat_fields]
    · simp [frameOf, ensureFormat_fields]
    · rw [display_ok c s t hq text hb]; simp [overwrite_fields, ensureFormat_fields]
    · rw [display_ok c s t hq text hb]; simp [overwrite_displayedMax, ensureFormat_fields]

theorem display_shown (c : Config) (s : State) (t : Nat) (lf : Option Frame) (hq : c.quiet = false)
    (herr : (display c s t).err = none) :
    Shown (display c s t).st (lastOf (display c s t).frame lf) := by
  obtain ⟨f, hf, h1, h2, h3, h4, h5, _, _⟩ := display_establishes c s t hq herr
  intro d dm hd hdm
  rw [h4] at hd
  rw [h5] at hdm
  cases hd
  cases hdm
  exact ⟨f, by rw [hf]; rfl, h1, h2, h3⟩

theorem setProgress_shown (c : Config) (s : State) (t : Nat) (k : Int) (lf : Option Frame)
    (hq : c.quiet = false) (herr : (setProgress c s t k).err = none) (hJ : Shown s lf) :
    Shown (setProgress c s t k).st (lastOf (setProgress c s t k).frame lf) := by
  rw [setProgress_eq] at herr ⊢
  cases hd : decide' c s t (newMax s k) k.toNat
  · simp only [hd] at herr ⊢; exact display_shown c _ t lf hq herr
  · exact hJ
  · simp only [hd] at herr ⊢; exact display_shown c _ t lf hq herr
  · exact hJ

theorem finished_shown (s : State) (lf : Option Frame) (hJ : Shown s lf) : Shown (finished s) lf := by
  unfold finished
  split <;> exact hJ

theorem step_shown (c : Config) (s : State) (op : Op) (t : Nat) (lf : Option Frame)
    (hq : c.quiet = false) (how : c.overwrite = false) (herr : (step c s op t).err = none)
    (hJ : Shown s lf) : Shown (step c s op t).st (lastOf (step c s op t).frame lf) := by
  cases op with
  | start m => exact display_shown c _ t lf hq herr
  | advance k => exact setProgress_shown c s t _ lf hq herr hJ
  | setProgress k => exact setProgress_shown c s t _ lf hq herr hJ
  | display => exact display_shown c s t lf hq herr
  | clear => simpa [step, clear, how, lastOf] using hJ
  | finish =>
    simp only [step] at herr ⊢
    rw [finish_eq] at herr ⊢
    split
    · exact finished_shown s lf hJ
    · rename_i hc
      rw [if_neg hc] at herr
      exact setProgress_shown c _ t _ lf hq herr (finished_shown s lf hJ)
  | setMessage text => exact hJ

/-- what `finish()` leaves behind: the last frame shows current = max = the maximum -/
theorem finish_last (c : Config) (s : State) (t : Nat) (lf : Option Frame) (hq : c.quiet = false)
    (herr : (finish c s t).err = none) (hJ : c.overwrite = false → Shown s lf) :
    (finish c s t).st.step = (finish c s t).st.max ∧
    ∃ f, lastOf (finish c s t).frame lf = some f ∧ f.current = (finish c s t).st.max ∧
      f.max = (finish c s t).st.max ∧ PercentOK f ∧
      (c.overwrite = true → (finish c s t).frame = some f) := by
  rw [finish_eq] at herr ⊢
  split
  · rename_i hc
    obtain ⟨h1, how, h3, h4⟩ := hc
    obtain ⟨f, hf1, hf2, hf3, hf4⟩ := finished_shown s lf (hJ how) _ _ h3 (h4 cmp_true)
    exact ⟨h1, f, by simpa [lastOf] using hf1, by rw [hf2]; exact h1, hf3, hf4, by simp [how]⟩
  · rename_i hc
    rw [if_neg hc] at herr
    have hnm : newMax (finished s) ((finished s).max : Int) = (finished s).max := by
      unfold newMax; simp
    have hd : decide' c (finished s) t (newMax (finished s) ((finished s).max : Int))
        ((finished s).max : Int).toNat = .atMax := by
      rw [decide_atMax_iff, hnm]; simp
    rw [setProgress_eq, hd] at herr ⊢
    simp only at herr ⊢
    obtain ⟨f, hf, h1, h2, h3, _, _, h5, h6⟩ := display_establishes c _ t hq herr
    refine ⟨by rw [h5, h6]; simp [progressed, hnm], f, by rw [hf]; rfl, ?_, ?_, h3, fun _ => hf⟩
    · rw [h1, h5]; simp [progressed, hnm]
    · rw [h2, h5]

theorem run_append (c : Config) (a b : List (Op × Nat)) :
    ∀ s, run c s (a ++ b) = run c s a ++ run c (runState c s a) b := by
  induction a with
  | nil => intro s; rfl
  | cons x rest ih =>
    obtain ⟨op, t⟩ := x
    intro s
    simp only [List.cons_append, run_cons, runState, ih]

theorem runState_append (c : Config) (a b : List (Op × Nat)) :
    ∀ s, runState c s (a ++ b) = runState c (runState c s a) b := by
  induction a with
  | nil => intro s; rfl
  | cons x rest ih =>
    obtain ⟨op, t⟩ := x
    intro s
    simp only [List.cons_append, runState, ih]

theorem percent_at_max (a : Nat) (h : a ≠ 0) : a * 100 / a = 100 := by
  rw [Nat.mul_comm]; exact Nat.mul_div_cancel 100 (Nat.pos_of_ne_zero h)

theorem lastFrame_append (a b : List Event) : ∀ lf, lastFrame lf (a ++ b) = lastFrame (lastFrame lf a) b := by
  induction a with
  | nil => intro lf; rfl
  | cons e rest ih => intro lf; simp only [List.cons_append, lastFrame, ih]

theorem run_shown (c : Config) (hq : c.quiet = false) (how : c.overwrite = false) (ops : List (Op × Nat)) :
    ∀ (s : State) (lf : Option Frame), (∀ e ∈ run c s ops, e.res.err = none) → Shown s lf →
      Shown (runState c s ops) (lastFrame lf (run c s ops)) := by
  induction ops with
  | nil => intro s lf _ h; exact h
  | cons x rest ih =>
    obtain ⟨op, t⟩ := x
    intro s lf herr hJ
    rw [run_cons] at herr ⊢
    simp only [runState, lastFrame]
    have h1 : (step c s op t).err = none := herr ⟨op, t, s, step c s op t⟩ (by simp)
    exact ih _ _ (fun e he => herr e (by simp [he])) (step_shown c s op t lf hq how h1 hJ)


/-! ## Every call is silent or one `_overwrite` -/

def Silent (s : State) (r : Res) : Prop :=
  r.writes = [] ∧ r.frame = none ∧ r.st.lastLen = s.lastLen ∧ r.st.writeCount = s.writeCount ∧
    r.st.displayedLineCount = s.displayedLineCount

def Wrote (c : Config) (s : State) (t : Nat) (r : Res) : Prop :=
  ∃ (s' : State) (msg : Str), s'.lastLen = s.lastLen ∧ s'.writeCount = s.writeCount ∧
    s'.displayedLineCount = s.displayedLineCount ∧
    r.st = (overwrite c s' t msg).1 ∧ r.writes = (overwrite c s' t msg).2 ∧
    ((r.frame = none ∧ msg = List.replicate s'.formatLineCount '\n' ∧ c.overwrite = true) ∨
     (∃ f, r.frame = some f ∧ f.text = msg))

theorem display_shape (c : Config) (s : State) (t : Nat) (hq : c.quiet = false) :
    Silent s (display c s t) ∨ Wrote c s t (display c s t) := by
  cases hb : buildLine c (ensureFormat c s) t with
  | error e => left; rw [display_error c s t hq e hb]; simp [Silent, ensureFormat_fields]
  | ok text =>
    right
    rw [display_ok c s t hq text hb]
    exact ⟨ensureFormat c s, text, by simp [ensureFormat_fields], by simp [ensureFormat_fields],
      by simp [ensureFormat_fields], rfl, rfl,
      Or.inr ⟨_, rfl, by simp [frameOf]⟩⟩

theorem setProgress_shape (c : Config) (s : State) (t : Nat) (k : Int) (hq : c.quiet = false) :
    Silent s (setProgress c s t k) ∨ Wrote c s t (setProgress c s t k) := by
  rw [setProgress_eq]
  have := display_shape c (progressed s k) t hq
  cases decide' c s t (newMax s k) k.toNat <;> simp_all [Silent, Wrote, progressed]

theorem step_shape (c : Config) (s : State) (op : Op) (t : Nat) (hq : c.quiet = false) :
    Silent s (step c s op t) ∨ Wrote c s t (step c s op t) := by
  cases op with
  | start m =>
    have := display_shape c (match m with
      | none => { s with startTime := t, step := 0, percent := ⟨0, 1⟩ }
      | some m => { s with startTime := t, step := 0, percent := ⟨0, 1⟩, max := (Max.max 0 m).toNat,
                           stepWidth := stepWidthOf (Max.max 0 m).toNat }) t hq
    cases m <;> simpa [Silent, Wrote, step, start] using this
  | advance k => exact setProgress_shape c s t _ hq
  | setProgress k => exact setProgress_shape c s t _ hq
  | display => exact display_shape c s t hq
  | clear =>
    simp only [step, clear]
    split
    · left; simp [Silent]
    · right
      rename_i how
      exact ⟨ensureFormat c s, _, by simp [ensureFormat_fields], by simp [ensureFormat_fields],
        by simp [ensureFormat_fields], rfl, rfl,
        Or.inl ⟨rfl, rfl, by simpa using how⟩⟩
  | finish =>
    simp only [step]
    rw [finish_eq]
    split
    · left; unfold finished Silent; split <;> simp
    · have := setProgress_shape c (finished s) t ((finished s).max : Int) hq
      unfold finished at *
      split <;> simp_all [Silent, Wrote]
  | setMessage text => left; simp [step, Silent]


/-! ## The ANSI line -/

/-- text without line breaks and carriage returns -/
def Clean (s : Str) : Prop := ∀ ch ∈ s, ch ≠ '\n' ∧ ch ≠ '\r'

theorem splitNL_clean (s : Str) (h : ∀ ch ∈ s, ch ≠ '\n') : splitNL s = [s] := by
  induction s with
  | nil => rfl
  | cons c r ih =>
    have hc : (c == '\n') = false := by simpa using h c (by simp)
    have := ih (fun ch hch => h ch (by simp [hch]))
    simp [splitNL, hc, this]

theorem puts_plain (s : Str) : ∀ (l : Line), (∀ ch ∈ s, ch ≠ '\r') →
    l.puts s = ⟨l.before ++ s, l.after.drop s.length⟩ := by
  induction s with
  | nil => intro l _; simp [Line.puts]
  | cons c r ih =>
    intro l h
    have hc : (c == '\r') = false := by simpa using h c (by simp)
    have := ih (l.putc c) (fun ch hch => h ch (by simp [hch]))
    simp only [Line.puts, List.foldl_cons] at this ⊢
    rw [this]
    simp [Line.putc, hc]

theorem ljust_length (n : Nat) (s : Str) : (ljust n s).length = Max.max n s.length := by
  simp [ljust, spaces]; omega

theorem ljust_clean (n : Nat) (s : Str) (h : Clean s) : Clean (ljust n s) := by
  intro ch hch
  simp [ljust, spaces] at hch
  rcases hch with h1 | h1
  · exact h ch h1
  · rw [h1.2]; decide

theorem maxLen_single (x : Str) : maxLen [x] = x.length := by simp [maxLen]

/-- ANSI output, single-line format: `_overwrite` sends CR and the padded text; on a line whose
length is `_last_messages_length` this leaves exactly the padded text, and the new
`_last_messages_length` is its length -/
theorem overwrite_ansi_line (c : Config) (s : State) (t : Nat) (msg : Str) (l : Line)
    (hk : c.kind = .ansi) (hq : c.quiet = false) (hflc : s.formatLineCount = 0)
    (hd : s.displayedLineCount.getD 0 = 0) (hmsg : Clean msg)
    (hl : l.text.length = s.lastLen) :
    (l.feed (overwrite c s t msg).2).text = ljust s.lastLen msg ∧
    (overwrite c s t msg).1.lastLen = (ljust s.lastLen msg).length := by
  have hsplit := splitNL_clean msg (fun ch hch => (hmsg ch hch).1)
  have hcl := ljust_clean s.lastLen msg hmsg
  constructor
  · unfold overwrite overwriteWith
    simp only [hk, moveCount_zero _ s hflc hd, hflc, hsplit, emit, hq, ne_eq, not_true_eq_false, and_false,
      if_false]
    simp only [List.map, joinNL, Line.feed, List.foldl, ne_eq, not_true_eq_false, if_false,
      List.append_nil, List.cons_append, List.nil_append, Bool.false_eq_true]
    rw [puts_plain _ _ (fun ch hch => (hcl ch hch).2)]
    simp only [Line.puts, List.foldl, Line.putc, beq_self_eq_true, if_true, Line.text, List.nil_append]
    have : (ljust s.lastLen msg).length ≥ (l.before ++ l.after).length := by
      rw [ljust_length]; unfold Line.text at hl; omega
    rw [List.drop_eq_nil_of_le this]
    simp
  · rw [(overwrite_fields c s t msg).2.2.2.2.2.2.2, hsplit]
    simp [maxLen_single]


theorem step_ansi_line (c : Config) (s : State) (op : Op) (t : Nat) (l : Line)
    (hk : c.kind = .ansi) (hq : c.quiet = false) (hl : l.text.length = s.lastLen)
    (hd : s.displayedLineCount.getD 0 = 0)
    (hflc : (step c s op t).st.formatLineCount = 0)
    (hclean : ∀ f, (step c s op t).frame = some f → Clean f.text) :
    (step c s op t).st.displayedLineCount.getD 0 = 0 ∧
    (l.feed (step c s op t).writes).text.length = (step c s op t).st.lastLen ∧
    (∀ f, (step c s op t).frame = some f → (l.feed (step c s op t).writes).text = ljust s.lastLen f.text) ∧
    ((step c s op t).frame = none → (step c s op t).writes ≠ [] →
      (l.feed (step c s op t).writes).text = spaces s.lastLen) := by
  rcases step_shape c s op t hq with h | h
  · obtain ⟨h1, h2, h3, _, h5⟩ := h
    rw [h1, h3, h5]
    simp [Line.feed, hl, h2, hd]
  · obtain ⟨s', msg, hs1, _, hsd, hs3, hs4, hs5⟩ := h
    have hflc' : s'.formatLineCount = 0 := by
      rw [hs3, (overwrite_fields c s' t msg).2.2.2.2.2.1] at hflc; exact hflc
    have hmsg : Clean msg := by
      rcases hs5 with ⟨_, hm, _⟩ | ⟨f, hf, hm⟩
      · rw [hm, hflc']; intro ch hch; simp at hch
      · rw [← hm]; exact hclean f hf
    have := overwrite_ansi_line c s' t msg l hk hq hflc' (by rw [hsd]; exact hd) hmsg (by rw [hs1]; exact hl)
    rw [hs4, hs3, this.1, this.2]
    refine ⟨by unfold overwrite; rw [overwrite_displayedLineCount, hflc']; rfl, rfl, ?_, ?_⟩
    · intro f hf
      rcases hs5 with ⟨hn, _, _⟩ | ⟨f', hf', hm⟩
      · rw [hn] at hf; cases hf
      · rw [hf'] at hf; cases hf; rw [hm, hs1]
    · intro hn _
      rcases hs5 with ⟨_, hm, _⟩ | ⟨f', hf', _⟩
      · rw [hm, hflc', hs1]; simp [ljust]
      · rw [hf'] at hn; cases hn

theorem screen_cons (l : Line) (e : Event) (rest : List Event) :
    screen l (e :: rest) = screen (l.feed e.res.writes) rest := rfl

theorem screen_append (a b : List Event) : ∀ l, screen l (a ++ b) = screen (screen l a) b := by
  induction a with
  | nil => intro l; rfl
  | cons e rest ih => intro l; simp only [List.cons_append, screen_cons, ih]

/-- ANSI output, single-line frames: after every drawing call the line is exactly that frame,
padded with blanks to the length of the longest text written before -/
theorem run_ansi_line (c : Config) (hk : c.kind = .ansi) (hq : c.quiet = false) (evs1 : List Event) :
    ∀ (s : State) (ops : List (Op × Nat)) (l : Line) (e : Event) (evs2 : List Event),
      l.text.length = s.lastLen → s.displayedLineCount.getD 0 = 0 →
      (∀ e' ∈ run c s ops, e'.res.st.formatLineCount = 0 ∧ ∀ f, e'.res.frame = some f → Clean f.text) →
      run c s ops = evs1 ++ e :: evs2 →
      (screen l (evs1 ++ [e])).text.length = e.res.st.lastLen ∧
      (∀ f, e.res.frame = some f → (screen l (evs1 ++ [e])).text = ljust e.pre.lastLen f.text) ∧
      (e.res.frame = none → e.res.writes ≠ [] → (screen l (evs1 ++ [e])).text = spaces e.pre.lastLen) := by
  induction evs1 with
  | nil =>
    intro s ops l e evs2 hl hd hall h
    cases ops with
    | nil => simp [run] at h
    | cons x rest =>
      obtain ⟨op, t⟩ := x
      rw [run_cons] at h hall
      simp at h
      have h0 := hall ⟨op, t, s, step c s op t⟩ (by simp)
      have := (step_ansi_line c s op t l hk hq hl hd h0.1 h0.2).2
      rw [← h.1]
      simpa [screen] using this
  | cons e1 evs1 ih =>
    intro s ops l e evs2 hl hd hall h
    cases ops with
    | nil => simp [run] at h
    | cons x rest =>
      obtain ⟨op, t⟩ := x
      rw [run_cons] at h hall
      simp at h
      have h0 := hall ⟨op, t, s, step c s op t⟩ (by simp)
      have hstep := step_ansi_line c s op t l hk hq hl hd h0.1 h0.2
      have := ih (step c s op t).st rest (l.feed (step c s op t).writes) e evs2 hstep.2.1 hstep.1
        (fun e' he' => hall e' (by simp [he'])) h.2
      rw [← h.1]
      simpa [screen_cons] using this


/-! ## The plain stream -/

/-- every line preceded by a line break -/
def prefixed (ls : List Str) : Str := ls.flatMap (fun l => '\n' :: l)

theorem joinNL_cons (l : Str) (ls : List Str) : joinNL (l :: ls) = l ++ prefixed ls := by
  induction ls generalizing l with
  | nil => simp [joinNL, prefixed]
  | cons m rest ih => simp [joinNL, prefixed, ih m]

theorem overwrite_plain_out (c : Config) (s : State) (t : Nat) (msg : Str)
    (how : c.overwrite = false) (hq : c.quiet = false) :
    (overwrite c s t msg).2.flatten =
      (if s.writeCount > 0 then ['\n'] else []) ++ paddedText s.lastLen msg := by
  unfold overwrite overwriteWith paddedText
  cases hk : c.kind <;> simp [Config.overwrite, hk] at how <;> simp [emit, hq] <;> split <;> simp

theorem step_plain (c : Config) (s : State) (op : Op) (t : Nat)
    (how : c.overwrite = false) (hq : c.quiet = false) :
    ((step c s op t).writes = [] ∧ (step c s op t).frame = none ∧
      (step c s op t).st.writeCount = s.writeCount) ∨
    (∃ f, (step c s op t).frame = some f ∧
      (step c s op t).writes.flatten =
        (if s.writeCount > 0 then ['\n'] else []) ++ paddedText s.lastLen f.text ∧
      (step c s op t).st.writeCount = s.writeCount + 1) := by
  rcases step_shape c s op t hq with h | h
  · exact Or.inl ⟨h.1, h.2.1, h.2.2.2.1⟩
  · obtain ⟨s', msg, hs1, hs2, _, hs3, hs4, hs5⟩ := h
    rcases hs5 with ⟨_, _, h⟩ | ⟨f, hf, hm⟩
    · rw [how] at h; cases h
    · right
      refine ⟨f, hf, ?_, ?_⟩
      · rw [hs4, overwrite_plain_out c s' t msg how hq, hs1, hs2, hm]
      · rw [hs3, (overwrite_fields c s' t msg).2.2.2.1, hs2]

theorem outOf_cons (e : Event) (rest : List Event) :
    outOf (e :: rest) = e.res.writes.flatten ++ outOf rest := by
  simp [outOf]

/-- plain output: the stream is the frames (padded), separated by single line breaks -/
theorem run_plain (c : Config) (how : c.overwrite = false) (hq : c.quiet = false)
    (ops : List (Op × Nat)) :
    ∀ (s : State), outOf (run c s ops) =
      (if s.writeCount = 0 then joinNL ((run c s ops).filterMap plainLine)
       else prefixed ((run c s ops).filterMap plainLine)) := by
  induction ops with
  | nil => intro s; simp [run, outOf, joinNL, prefixed]
  | cons x rest ih =>
    obtain ⟨op, t⟩ := x
    intro s
    rw [run_cons, outOf_cons]
    rcases step_plain c s op t how hq with ⟨h1, h2, h3⟩ | ⟨f, h1, h2, h3⟩
    · have hp : plainLine ⟨op, t, s, step c s op t⟩ = none := by simp [plainLine, h2]
      simp only [List.filterMap_cons, hp]
      rw [h1, ih, h3]
      simp
    · have hp : plainLine ⟨op, t, s, step c s op t⟩ = some (paddedText s.lastLen f.text) := by
        simp [plainLine, h1]
      simp only [List.filterMap_cons, hp]
      rw [h2, ih, h3]
      by_cases hw : s.writeCount = 0
      · simp [hw, joinNL_cons]
      · have : s.writeCount > 0 := Nat.pos_of_ne_zero hw
        simp [hw, this, prefixed]

theorem mem_prefixed (ls : List Str) (ch : Char) (h : ch ∈ prefixed ls) : ch = '\n' ∨ ∃ l ∈ ls, ch ∈ l := by
  simp [prefixed] at h
  obtain ⟨l, hl, h⟩ := h
  rcases h with h | h
  · exact Or.inl h
  · exact Or.inr ⟨l, hl, h⟩

theorem mem_joinNL (ls : List Str) (ch : Char) (h : ch ∈ joinNL ls) : ch = '\n' ∨ ∃ l ∈ ls, ch ∈ l := by
  cases ls with
  | nil => simp [joinNL] at h
  | cons l rest =>
    rw [joinNL_cons] at h
    simp at h
    rcases h with h | h
    · exact Or.inr ⟨l, by simp, h⟩
    · rcases mem_prefixed rest ch h with h | ⟨m, hm, h⟩
      · exact Or.inl h
      · exact Or.inr ⟨m, by simp [hm], h⟩

end Clikit.Progress
