import Clikit.Lemmas.ProgressClean
import Clikit.Lemmas.ProgressScreen
/-!
# Frames of a MULTI-LINE format from clean inputs (C16)

The frame `display()` hands to `_overwrite` is the format with every `%name%` / `%name:spec%` replaced by the
text of the placeholder.  If everything that is substituted - the bar (built from the three bar characters),
the numbers, the times, the messages - contains no line break, no CR and no ESC (`VClean`), and the format
contains no CR / ESC (`Printable`), then

* the frame has exactly as many line breaks as the format (`buildLine_nl`): the template scanner loses no
  character of the format (`parseTpl_raw`), a placeholder that is replaced has no line break in its name (name
  characters) nor in its spec (`int()` accepted it), its value has none; a placeholder that is not replaced is
  copied;
* the frame contains no CR / ESC.

`runC_ml`: along every history with setters whose initial configuration and call arguments are clean, every frame
drawn has as many line breaks as the format it was rendered from, which is `formatLineCount` at that moment.
-/
namespace Clikit.Progress

/-- no line break, no carriage return, no ESC -/
def VClean (s : Str) : Prop := ∀ ch ∈ s, ch ≠ '\n' ∧ ch ≠ '\r' ∧ ch ≠ ESC

theorem valueCleanB_iff (s : Str) : valueCleanB s = true ↔ VClean s := by
  simp [valueCleanB, VClean, and_assoc]

theorem vclean_nil : VClean [] := by intro ch h; simp at h

theorem vclean_cons (c : Char) (s : Str) : VClean (c :: s) ↔ (c ≠ '\n' ∧ c ≠ '\r' ∧ c ≠ ESC) ∧ VClean s := by
  unfold VClean
  simp

theorem vclean_append (a b : Str) : VClean (a ++ b) ↔ VClean a ∧ VClean b := by
  unfold VClean
  simp only [List.mem_append]
  constructor
  · intro h; exact ⟨fun ch hc => h ch (Or.inl hc), fun ch hc => h ch (Or.inr hc)⟩
  · intro h ch hc; rcases hc with hc | hc; exact h.1 ch hc; exact h.2 ch hc

theorem VClean.printable {s : Str} (h : VClean s) : Printable s := fun ch hc => (h ch hc).2

theorem printable_append (a b : Str) : Printable (a ++ b) ↔ Printable a ∧ Printable b := by
  unfold Printable
  simp only [List.mem_append]
  constructor
  · intro h; exact ⟨fun ch hc => h ch (Or.inl hc), fun ch hc => h ch (Or.inr hc)⟩
  · intro h ch hc; rcases hc with hc | hc; exact h.1 ch hc; exact h.2 ch hc

theorem printable_nil : Printable [] := by intro ch h; simp at h

theorem countNL_nil : countNL [] = 0 := rfl

theorem countNL_append (a b : Str) : countNL (a ++ b) = countNL a + countNL b := by
  simp [countNL]

theorem countNL_zero (s : Str) (h : ∀ ch ∈ s, ch ≠ '\n') : countNL s = 0 := by
  unfold countNL
  simp only [List.length_eq_zero_iff, List.filter_eq_nil_iff]
  intro ch hch
  simpa using h ch hch

theorem VClean.countNL {s : Str} (h : VClean s) : countNL s = 0 :=
  countNL_zero s (fun ch hc => (h ch hc).1)

theorem vclean_spaces (n : Nat) : VClean (spaces n) := by
  intro ch h
  simp [spaces] at h
  rw [h.2]; decide

theorem vclean_ljust (n : Nat) (s : Str) (h : VClean s) : VClean (ljust n s) := by
  unfold ljust; rw [vclean_append]; exact ⟨h, vclean_spaces _⟩

theorem vclean_rjust (n : Nat) (s : Str) (h : VClean s) : VClean (rjust n s) := by
  unfold rjust; rw [vclean_append]; exact ⟨vclean_spaces _, h⟩

theorem vclean_repeatStr (s : Str) (n : Nat) (h : VClean s) : VClean (repeatStr s n) := by
  induction n with
  | zero => exact vclean_nil
  | succ n ih => unfold repeatStr; rw [vclean_append]; exact ⟨h, ih⟩

theorem digit_vclean : ∀ d, d < 10 →
    Char.ofNat (48 + d) ≠ '\n' ∧ Char.ofNat (48 + d) ≠ '\r' ∧ Char.ofNat (48 + d) ≠ ESC := by
  decide

theorem vclean_digitsAux (f : Nat) : ∀ (n : Nat) (acc : Str), VClean acc → VClean (digitsAux f n acc) := by
  induction f with
  | zero => intro n acc h; exact h
  | succ f ih =>
    intro n acc h
    unfold digitsAux
    have hc : VClean (Char.ofNat (48 + n % 10) :: acc) := by
      rw [vclean_cons]; exact ⟨digit_vclean _ (Nat.mod_lt _ (by decide)), h⟩
    dsimp only
    split
    · exact hc
    · exact ih _ _ hc

theorem vclean_natStr (n : Nat) : VClean (natStr n) := vclean_digitsAux _ _ _ vclean_nil

theorem vclean_formatTimeAux (ticks : Nat) (tbl : List (Nat × Str × Option Nat))
    (h : ∀ row ∈ tbl, VClean row.2.1) : VClean (formatTimeAux ticks tbl) := by
  induction tbl with
  | nil => unfold formatTimeAux VClean; decide
  | cons row rest ih =>
    obtain ⟨lim, txt, div⟩ := row
    unfold formatTimeAux
    have htxt : VClean txt := h (lim, txt, div) (by simp)
    split
    · exact ih (fun r hr => h r (by simp [hr]))
    · cases div with
      | none => exact htxt
      | some d =>
        dsimp only
        rw [vclean_append, vclean_cons]
        exact ⟨vclean_natStr _, by decide, htxt⟩

theorem timeFormats_vclean : ∀ row ∈ Gen.C16.timeFormats, VClean row.2.1 := by
  unfold VClean; decide

theorem vclean_formatTime (ticks : Nat) : VClean (formatTime ticks) :=
  vclean_formatTimeAux ticks _ timeFormats_vclean

/-! ### configuration, messages, placeholders -/

/-- the text given to `set_format` has no CR / ESC, the three bar characters have no line break / CR / ESC -/
def MLCleanCfg (c : Config) : Prop :=
  (∀ f, c.internalFormat = some f → Printable f) ∧ VClean c.emptyChar ∧ VClean c.progressChar ∧
  (∀ b, c.barChar = some b → VClean b)

def VCleanMsgs (msgs : List (Str × Str)) : Prop := ∀ kv ∈ msgs, VClean kv.2

theorem dictGet_vclean (k : Str) (msgs : List (Str × Str)) (h : VCleanMsgs msgs) (v : Str)
    (hv : dictGet? k msgs = some v) : VClean v := by
  induction msgs with
  | nil => simp [dictGet?] at hv
  | cons kv rest ih =>
    obtain ⟨k', v'⟩ := kv
    unfold dictGet? at hv
    split at hv
    · cases hv; exact h (k', v) (by simp)
    · exact ih (fun x hx => h x (by simp [hx])) hv

theorem dictSet_vclean (k v : Str) (msgs : List (Str × Str)) (h : VCleanMsgs msgs) (hv : VClean v) :
    VCleanMsgs (dictSet k v msgs) := by
  induction msgs with
  | nil => intro kv hkv; simp [dictSet] at hkv; rw [hkv]; exact hv
  | cons kv rest ih =>
    obtain ⟨k', v'⟩ := kv
    unfold dictSet
    split
    · intro x hx
      simp at hx
      rcases hx with hx | hx
      · rw [hx]; exact hv
      · exact h x (by simp [hx])
    · intro x hx
      simp at hx
      rcases hx with hx | hx
      · rw [hx]; exact h (k', v') (by simp)
      · exact ih (fun y hy => h y (by simp [hy])) x hx

theorem vclean_barCharOf (c : Config) (s : State) (hc : MLCleanCfg c) : VClean (barCharOf c s) := by
  unfold barCharOf
  cases hb : c.barChar with
  | some b => exact hc.2.2.2 b hb
  | none =>
    dsimp only
    split
    · unfold VClean; decide
    · exact hc.2.1

theorem vclean_barOf (c : Config) (s : State) (off : Nat) (hc : MLCleanCfg c) : VClean (barOf c s off) := by
  unfold barOf
  dsimp only
  split
  · rw [vclean_append, vclean_append]
    exact ⟨⟨vclean_repeatStr _ _ (vclean_barCharOf c s hc), hc.2.2.1⟩, vclean_repeatStr _ _ hc.2.1⟩
  · exact vclean_repeatStr _ _ (vclean_barCharOf c s hc)

/-- every text substituted for a placeholder - the bar, the times, the numbers, a message - is free of line
breaks, CR and ESC -/
theorem placeholder_vclean (c : Config) (s : State) (t : Nat) (name text : Str) (hc : MLCleanCfg c)
    (hm : VCleanMsgs s.messages) (h : placeholder c s t name = .ok (some text)) : VClean text := by
  unfold placeholder at h
  split at h
  · cases ho : barOffset c s with
    | error e => simp [ho, bind, Except.bind] at h
    | ok off =>
      simp [ho, bind, Except.bind, pure, Except.pure] at h
      rw [← h]; exact vclean_barOf c s off hc
  split at h
  · cases h; exact vclean_formatTime _
  split at h
  · split at h
    · cases h
    · cases h; exact vclean_formatTime _
  split at h
  · split at h
    · cases h
    · cases h; exact vclean_natStr _
  split at h
  · cases h; exact vclean_rjust _ _ (vclean_natStr _)
  split at h
  · cases h; exact vclean_natStr _
  split at h
  · cases h; exact vclean_natStr _
  · simp at h
    exact dictGet_vclean name s.messages hm text h

/-! ### the template scanner loses nothing -/

theorem mem_takeWhile_sat (p : Char → Bool) : ∀ (l : Str) (ch : Char), ch ∈ l.takeWhile p → p ch = true := by
  intro l
  induction l with
  | nil => intro ch h; simp at h
  | cons a r ih =>
    intro ch h
    rw [List.takeWhile_cons] at h
    split at h
    · simp at h
      rcases h with h | h
      · rw [h]; assumption
      · exact ih ch h
    · simp at h

theorem except_bind_ok' {α β : Type} (x : Except Err α) (g : α → β) (out : β)
    (h : (do let w ← x; pure (g w)) = Except.ok out) : ∃ w, x = .ok w ∧ out = g w := by
  cases x with
  | error e => simp [bind, Except.bind] at h
  | ok w => simp [bind, Except.bind, pure, Except.pure] at h; exact ⟨w, rfl, h.symm⟩

/-- the text of the format a piece was cut from -/
def Piece.raw : Piece → Str
  | .lit c => [c]
  | .ph name spec => rawPiece name spec

def rawAll : List Piece → Str
  | [] => []
  | p :: ps => p.raw ++ rawAll ps

/-- the name of a placeholder consists of name characters -/
def NameOk : Piece → Prop
  | .lit _ => True
  | .ph name _ => ∀ ch ∈ name, isNameChar ch = true

def GoodParse (ps : List Piece) (s : Str) : Prop := rawAll ps = s ∧ ∀ p ∈ ps, NameOk p

theorem goodParse_cons (p : Piece) (ps : List Piece) (s s' : Str) (hraw : p.raw ++ s' = s) (hn : NameOk p)
    (h : GoodParse ps s') : GoodParse (p :: ps) s := by
  refine ⟨?_, ?_⟩
  · show p.raw ++ rawAll ps = s
    rw [h.1, hraw]
  · intro q hq
    simp at hq
    rcases hq with hq | hq
    · rw [hq]; exact hn
    · exact h.2 q hq

/-- the pieces of a format, put back together, are the format; placeholder names are name characters -/
theorem parseTpl_raw (fuel : Nat) : ∀ (s : Str), s.length ≤ fuel → GoodParse (parseTpl fuel s) s := by
  induction fuel with
  | zero =>
    intro s hs
    have : s = [] := List.eq_nil_of_length_eq_zero (by omega)
    subst this
    exact ⟨rfl, by intro p hp; simp [parseTpl] at hp⟩
  | succ f ih =>
    intro s hs
    cases s with
    | nil => exact ⟨by simp [parseTpl, rawAll], by intro p hp; simp [parseTpl] at hp⟩
    | cons c r =>
      have hrl : r.length ≤ f := by simp at hs; omega
      have hlit : GoodParse (Piece.lit c :: parseTpl f r) (c :: r) :=
        goodParse_cons _ _ _ r rfl trivial (ih r hrl)
      have hsplit : r.takeWhile isNameChar ++ r.dropWhile isNameChar = r := List.takeWhile_append_dropWhile
      have hname : ∀ ch ∈ r.takeWhile isNameChar, isNameChar ch = true :=
        fun ch hch => mem_takeWhile_sat _ _ ch hch
      unfold parseTpl
      split
      · rename_i hc
        have hc' : c = '%' := by simpa using hc
        dsimp only
        split
        · exact hlit
        · split
          · rename_i r2 heq
            rw [heq] at hsplit
            have hl : r2.length ≤ f := by
              have := congrArg List.length hsplit
              simp at this; omega
            refine goodParse_cons _ _ _ r2 ?_ hname (ih r2 hl)
            have hcr : c :: r = '%' :: (r.takeWhile isNameChar ++ '%' :: r2) := by rw [hc', hsplit]
            rw [hcr]
            simp [Piece.raw, rawPiece]
          · rename_i r2 heq
            rw [heq] at hsplit
            split
            · exact hlit
            · split
              · rename_i r4 heq4
                have hsplit2 : r2.takeWhile (· != '%') ++ r2.dropWhile (· != '%') = r2 :=
                  List.takeWhile_append_dropWhile
                rw [heq4] at hsplit2
                have hl : r4.length ≤ f := by
                  have h1 := congrArg List.length hsplit
                  have h2 := congrArg List.length hsplit2
                  simp at h1 h2; omega
                refine goodParse_cons _ _ _ r4 ?_ hname (ih r4 hl)
                have hcr : c :: r = '%' :: (r.takeWhile isNameChar ++ ':' ::
                    (r2.takeWhile (· != '%') ++ '%' :: r4)) := by rw [hc', hsplit2, hsplit]
                rw [hcr]
                simp [Piece.raw, rawPiece]
              · exact hlit
          · exact hlit
      · exact hlit

theorem pieces_raw (fmt : Str) : GoodParse (pieces fmt) fmt :=
  parseTpl_raw _ fmt (Nat.le_succ _)

/-! ### `%name:spec%`: a spec `int()` accepts has no line break -/

theorem pyInt_ok_digits (s : Str) (w : Nat) (h : pyInt s = .ok w) : ∀ ch ∈ s, isDigit ch = true := by
  unfold pyInt at h
  split at h
  · cases h
  · rename_i hn
    simp at hn
    exact hn.2

theorem rstripChar_mem (c0 : Char) (s : Str) : ∀ ch ∈ s, ch = c0 ∨ ch ∈ rstripChar c0 s := by
  intro ch hch
  have hrev : ch ∈ s.reverse := List.mem_reverse.mpr hch
  rw [← List.takeWhile_append_dropWhile (p := (· == c0)) (l := s.reverse)] at hrev
  rcases List.mem_append.mp hrev with h | h
  · left
    have := mem_takeWhile_sat _ _ ch h
    simpa using this
  · right
    unfold rstripChar
    exact List.mem_reverse.mpr h

theorem digit_not_nl (ch : Char) (h : isDigit ch = true) : ch ≠ '\n' := by
  intro h0; subst h0; revert h; decide

theorem nameChar_not_nl (ch : Char) (h : isNameChar ch = true) : ch ≠ '\n' := by
  intro h0; subst h0; revert h; decide

/-- `applySpec` succeeds only with a spec made of `-`, digits and `s`; the result is the text padded with blanks -/
theorem applySpec_ok (text spec out : Str) (h : applySpec text spec = .ok out) :
    (∃ w, out = ljust w text ∨ out = rjust w text) ∧ ∀ ch ∈ spec, ch ≠ '\n' := by
  unfold applySpec at h
  split at h
  · rename_i rest
    · obtain ⟨w, hp, hw⟩ := except_bind_ok' _ _ _ h
      refine ⟨⟨w, Or.inl hw⟩, ?_⟩
      intro ch hch
      rw [← List.takeWhile_append_dropWhile (p := (· == '-')) (l := '-' :: rest)] at hch
      rcases List.mem_append.mp hch with h1 | h1
      · have := mem_takeWhile_sat _ _ ch h1
        have h2 : ch = '-' := by simpa using this
        rw [h2]; decide
      · rcases rstripChar_mem 's' _ ch h1 with h2 | h2
        · rw [h2]; decide
        · exact digit_not_nl ch (pyInt_ok_digits _ w hp ch h2)
  · obtain ⟨w, hp, hw⟩ := except_bind_ok' _ _ _ h
    · refine ⟨⟨w, Or.inr hw⟩, ?_⟩
      intro ch hch
      rcases rstripChar_mem 's' _ ch hch with h2 | h2
      · rw [h2]; decide
      · exact digit_not_nl ch (pyInt_ok_digits _ w hp ch h2)

/-! ### rendering -/

theorem rawPiece_noNL (name : Str) (spec : Option Str) (hn : ∀ ch ∈ name, ch ≠ '\n')
    (hs : ∀ sp, spec = some sp → ∀ ch ∈ sp, ch ≠ '\n') : countNL (rawPiece name spec) = 0 := by
  apply countNL_zero
  have hpc : ('%' : Char) ≠ '\n' := by decide
  have hcc : (':' : Char) ≠ '\n' := by decide
  unfold rawPiece
  cases spec with
  | none =>
    intro ch hch
    simp at hch
    rcases hch with hch | hch | hch
    · rw [hch]; exact hpc
    · exact hn ch hch
    · rw [hch]; exact hpc
  | some sp =>
    intro ch hch
    simp at hch
    rcases hch with hch | hch | hch | hch | hch
    · rw [hch]; exact hpc
    · exact hn ch hch
    · rw [hch]; exact hcc
    · exact hs sp rfl ch hch
    · rw [hch]; exact hpc

/-- one piece: the rendered text has as many line breaks as the piece of the format, and no CR / ESC if that
piece has none -/
theorem renderPiece_nl (c : Config) (s : State) (t : Nat) (p : Piece) (out : Str) (hc : MLCleanCfg c)
    (hm : VCleanMsgs s.messages) (hp : NameOk p) (h : renderPiece c s t p = .ok out) :
    countNL out = countNL p.raw ∧ (Printable p.raw → Printable out) := by
  cases p with
  | lit ch =>
    simp [renderPiece] at h
    rw [← h]; exact ⟨rfl, id⟩
  | ph name spec =>
    have hname : ∀ ch ∈ name, ch ≠ '\n' := fun ch hch => nameChar_not_nl ch (hp ch hch)
    unfold renderPiece at h
    cases hph : placeholder c s t name with
    | error e => simp [hph, bind, Except.bind] at h
    | ok v =>
      cases v with
      | none =>
        simp [hph, bind, Except.bind, pure, Except.pure] at h
        rw [← h]; exact ⟨rfl, id⟩
      | some text =>
        have ht := placeholder_vclean c s t name text hc hm hph
        cases spec with
        | none =>
          simp [hph, bind, Except.bind, pure, Except.pure] at h
          rw [← h]
          refine ⟨?_, fun _ => ht.printable⟩
          rw [ht.countNL]
          exact (rawPiece_noNL name none hname (by intro sp h; cases h)).symm
        | some sp =>
          simp [hph, bind, Except.bind] at h
          obtain ⟨⟨w, hw⟩, hsp⟩ := applySpec_ok text sp out h
          have hout : VClean out := by
            rcases hw with hw | hw
            · rw [hw]; exact vclean_ljust _ _ ht
            · rw [hw]; exact vclean_rjust _ _ ht
          refine ⟨?_, fun _ => hout.printable⟩
          rw [hout.countNL]
          exact (rawPiece_noNL name (some sp) hname (by intro sp' h; cases h; exact hsp)).symm

theorem renderPieces_nl (c : Config) (s : State) (t : Nat) (hc : MLCleanCfg c)
    (hm : VCleanMsgs s.messages) (ps : List Piece) :
    ∀ out, (∀ p ∈ ps, NameOk p) → renderPieces c s t ps = .ok out →
      countNL out = countNL (rawAll ps) ∧ (Printable (rawAll ps) → Printable out) := by
  induction ps with
  | nil => intro out _ h; simp [renderPieces] at h; subst h; exact ⟨rfl, id⟩
  | cons p rest ih =>
    intro out hps h
    unfold renderPieces at h
    cases ha : renderPiece c s t p with
    | error e => simp [ha, bind, Except.bind] at h
    | ok a =>
      cases hb : renderPieces c s t rest with
      | error e => simp [ha, hb, bind, Except.bind] at h
      | ok b =>
        simp [ha, hb, bind, Except.bind, pure, Except.pure] at h
        have h1 := renderPiece_nl c s t p a hc hm (hps p (by simp)) ha
        have h2 := ih b (fun q hq => hps q (by simp [hq])) hb
        rw [← h]
        show countNL (a ++ b) = countNL (p.raw ++ rawAll rest) ∧
          (Printable (p.raw ++ rawAll rest) → Printable (a ++ b))
        rw [countNL_append, countNL_append, h1.1, h2.1, printable_append, printable_append]
        exact ⟨rfl, fun hpr => ⟨h1.2 hpr.1, h2.2 hpr.2⟩⟩

/-- **the frame text has exactly the line breaks of the format**, and no CR / ESC if the format has none -/
theorem buildLine_nl (c : Config) (s : State) (t : Nat) (text fmt : Str) (hc : MLCleanCfg c)
    (hm : VCleanMsgs s.messages) (hf : s.format = some fmt) (hb : buildLine c s t = .ok text) :
    countNL text = countNL fmt ∧ (Printable fmt → Printable text) := by
  unfold buildLine at hb
  rw [hf] at hb
  have hg := pieces_raw fmt
  have := renderPieces_nl c s t hc hm (pieces fmt) text hg.2 hb
  rw [hg.1] at this
  exact this

/-! ### the resolved format -/

theorem formats_printable : ∀ kv ∈ Gen.C16.formats, Printable kv.2 := by
  unfold Printable; decide

theorem dictGet_printable (k : Str) (d : List (Str × Str)) (h : ∀ kv ∈ d, Printable kv.2) (v : Str)
    (hv : dictGet? k d = some v) : Printable v := by
  induction d with
  | nil => simp [dictGet?] at hv
  | cons kv rest ih =>
    obtain ⟨k', v'⟩ := kv
    unfold dictGet? at hv
    split at hv
    · cases hv; exact h (k', v) (by simp)
    · exact ih (fun x hx => h x (by simp [hx])) hv

theorem bestFormat_printable (v m : Nat) : Printable (bestFormat v m) := by
  unfold bestFormat nomaxSuffix
  repeat' split
  all_goals (unfold Printable; decide)

theorem realFormat_printable (m : Nat) (fmt : Str) (h : Printable fmt) : Printable (realFormat m fmt) := by
  unfold realFormat
  split
  · rename_i f hf
    split at hf
    · exact dictGet_printable _ _ formats_printable f hf
    · cases hf
  · split
    · rename_i f hf; exact dictGet_printable _ _ formats_printable f hf
    · exact h

/-- the format in use has no CR / ESC and `formatLineCount` counts its line breaks; the messages are free of
line breaks, CR and ESC -/
def MLInv (s : State) : Prop :=
  (∀ f, s.format = some f → Printable f ∧ s.formatLineCount = countNL f) ∧ VCleanMsgs s.messages

theorem ensureFormat_ml (c : Config) (s : State) (hc : MLCleanCfg c) (h : MLInv s) :
    MLInv (ensureFormat c s) ∧ ∃ f, (ensureFormat c s).format = some f := by
  unfold ensureFormat
  cases hf : s.format with
  | some f => simp only; exact ⟨h, f, hf⟩
  | none =>
    dsimp only
    have hchosen : Printable (match c.internalFormat with
        | some f => if f.isEmpty then bestFormat c.verbosity s.max else f
        | none => bestFormat c.verbosity s.max) := by
      cases hi : c.internalFormat with
      | none => exact bestFormat_printable _ _
      | some f =>
        dsimp only
        split
        · exact bestFormat_printable _ _
        · exact hc.1 f hi
    have hreal := realFormat_printable s.max _ hchosen
    refine ⟨⟨?_, h.2⟩, _, rfl⟩
    intro f hf'
    injection hf' with hf'
    rw [← hf']; exact ⟨hreal, rfl⟩

/-! ### every call keeps the invariant and draws frames that fit -/

/-- the frame drawn by a call (if any) has as many line breaks as the format it was rendered from - the format in
use after the call -, which is what `formatLineCount` says, and contains no CR / ESC -/
def FrameFits (r : Res) : Prop :=
  ∀ f, r.frame = some f → ∃ fmt, r.st.format = some fmt ∧ countNL f.text = countNL fmt ∧
    r.st.formatLineCount = countNL fmt ∧ Printable f.text

theorem frameFits_none (st : State) (w : List Str) (e : Option Err) : FrameFits ⟨st, w, none, e⟩ := by
  intro f hf; cases hf

theorem overwrite_ml (c : Config) (s : State) (t : Nat) (msg : Str) (h : MLInv s) :
    MLInv (overwrite c s t msg).1 := by
  unfold MLInv
  rw [(overwrite_fields c s t msg).2.2.2.2.2.2.1, (overwrite_fields c s t msg).2.2.2.2.2.1,
    overwrite_messages]
  exact h

theorem display_ml (c : Config) (s : State) (t : Nat) (hc : MLCleanCfg c) (h : MLInv s) :
    MLInv (display c s t).st ∧ FrameFits (display c s t) := by
  obtain ⟨he, fmt, hfmt⟩ := ensureFormat_ml c s hc h
  cases hq : c.quiet
  · cases hb : buildLine c (ensureFormat c s) t with
    | error e => rw [display_error c s t hq e hb]; exact ⟨he, frameFits_none _ _ _⟩
    | ok text =>
      rw [display_ok c s t hq text hb]
      refine ⟨overwrite_ml c _ t text he, ?_⟩
      intro f hf
      cases hf
      have hnl := buildLine_nl c _ t text fmt hc he.2 hfmt hb
      have hfm := he.1 fmt hfmt
      refine ⟨fmt, ?_, hnl.1, ?_, hnl.2 hfm.1⟩
      · show (overwrite c (ensureFormat c s) t text).1.format = some fmt
        rw [(overwrite_fields c _ t text).2.2.2.2.2.2.1]; exact hfmt
      · show (overwrite c (ensureFormat c s) t text).1.formatLineCount = countNL fmt
        rw [(overwrite_fields c _ t text).2.2.2.2.2.1]; exact hfm.2
  · rw [display_quiet c s t hq]; exact ⟨h, frameFits_none _ _ _⟩

theorem setProgress_ml (c : Config) (s : State) (t : Nat) (k : Int) (hc : MLCleanCfg c) (h : MLInv s) :
    MLInv (setProgress c s t k).st ∧ FrameFits (setProgress c s t k) := by
  rw [setProgress_eq]
  have hp : MLInv (progressed s k) := h
  have := display_ml c (progressed s k) t hc hp
  cases decide' c s t (newMax s k) k.toNat
  · exact this
  · exact ⟨hp, frameFits_none _ _ _⟩
  · exact this
  · exact ⟨hp, frameFits_none _ _ _⟩

/-- the argument of a call: messages and bar characters without line break / CR / ESC, a format without CR / ESC -/
def MLCleanCall : Call → Prop
  | .op (.setMessage text) => VClean text
  | .op _ => True
  | .set (.format f) => Printable f
  | .set (.barChar b) => VClean b
  | .set (.emptyChar b) => VClean b
  | .set (.progressChar b) => VClean b
  | .set _ => True

theorem step_ml (c : Config) (s : State) (op : Op) (t : Nat) (hc : MLCleanCfg c) (hop : MLCleanCall (.op op))
    (h : MLInv s) : MLInv (step c s op t).st ∧ FrameFits (step c s op t) := by
  cases op with
  | start m =>
    cases m with
    | none => exact display_ml c _ t hc h
    | some m => exact display_ml c _ t hc h
  | advance k => exact setProgress_ml c s t _ hc h
  | setProgress k => exact setProgress_ml c s t _ hc h
  | display => exact display_ml c s t hc h
  | clear =>
    simp only [step, clear]
    split
    · exact ⟨h, frameFits_none _ _ _⟩
    · exact ⟨overwrite_ml c _ t _ (ensureFormat_ml c s hc h).1, frameFits_none _ _ _⟩
  | finish =>
    simp only [step]
    rw [finish_eq]
    have hf : MLInv (finished s) := by unfold finished; split <;> exact h
    split
    · exact ⟨hf, frameFits_none _ _ _⟩
    · exact setProgress_ml c _ t _ hc hf
  | setMessage text =>
    exact ⟨⟨h.1, dictSet_vclean _ _ _ h.2 hop⟩, frameFits_none _ _ _⟩

theorem set_ml (c : Config) (x : Setter) (hc : MLCleanCfg c) (hx : MLCleanCall (.set x)) :
    MLCleanCfg (c.set x) := by
  obtain ⟨h1, h2, h3, h4⟩ := hc
  cases x with
  | minInterval ticks =>
    by_cases ht : ticks > 0
    · have e : c.set (.minInterval ticks) = { c with redrawFreq := none, minInterval := ticks } := by
        simp [Config.set, ht]
      rw [e]; exact ⟨h1, h2, h3, h4⟩
    · have e : c.set (.minInterval ticks) = c := by simp [Config.set, ht]
      rw [e]; exact ⟨h1, h2, h3, h4⟩
  | maxInterval ticks => exact ⟨h1, h2, h3, h4⟩
  | redrawFreq f =>
    cases hr : c.redrawFreq with
    | none =>
      have e : c.set (.redrawFreq f) = c := by simp [Config.set, hr]
      rw [e]; exact ⟨h1, h2, h3, h4⟩
    | some g =>
      have e : c.set (.redrawFreq f) = { c with redrawFreq := some (max f 1) } := by simp [Config.set, hr]
      rw [e]; exact ⟨h1, h2, h3, h4⟩
  | barWidth w => exact ⟨h1, h2, h3, h4⟩
  | barChar b => exact ⟨h1, h2, h3, by intro b' hb'; simp [Config.set] at hb'; rw [← hb']; exact hx⟩
  | emptyChar b => exact ⟨h1, hx, h3, h4⟩
  | progressChar b => exact ⟨h1, h2, hx, h4⟩
  | format f => exact ⟨by intro f' hf'; simp [Config.set] at hf'; rw [← hf']; exact hx, h2, h3, h4⟩

theorem afterSetter_ml (s : State) (x : Setter) (h : MLInv s) : MLInv (s.afterSetter x) := by
  cases x <;> first | exact h | exact ⟨(by intro f hf; cases hf), h.2⟩

/-- one call (operation or setter) with a clean argument under a clean configuration: the configuration and the
state stay clean, the frame drawn fits -/
theorem stepC_ml (c : Config) (s : State) (call : Call) (t : Nat) (hc : MLCleanCfg c) (hcall : MLCleanCall call)
    (h : MLInv s) :
    MLCleanCfg (stepC c s call t).1 ∧ MLInv (stepC c s call t).2.st ∧ FrameFits (stepC c s call t).2 := by
  cases call with
  | op o => exact ⟨hc, step_ml c s o t hc hcall h⟩
  | set x => exact ⟨set_ml c x hc hcall, afterSetter_ml s x h, frameFits_none _ _ _⟩

theorem init_ml (m : Int) (t0 : Nat) : MLInv (init m t0) := by
  refine ⟨by intro f hf; simp [init] at hf, ?_⟩
  intro kv hkv; simp [init] at hkv

/-- **from clean inputs**: every frame drawn along a history with setters has as many line breaks as the format
it was rendered from (the format in use, `formatLineCount` at that moment) and contains no CR / ESC -/
theorem runC_ml : ∀ (calls : List (Call × Nat)) (c : Config) (s : State), MLCleanCfg c → MLInv s →
    (∀ x ∈ calls, MLCleanCall x.1) → ∀ e ∈ runC c s calls, MLCleanCfg e.cfg ∧ FrameFits e.res := by
  intro calls
  induction calls with
  | nil => intro c s _ _ _ e he; simp [runC] at he
  | cons x rest ih =>
    obtain ⟨call, t⟩ := x
    intro c s hc hs hcalls e he
    have hstep := stepC_ml c s call t hc (hcalls (call, t) (by simp)) hs
    rw [runC_cons] at he
    cases he with
    | head => exact ⟨hc, hstep.2.2⟩
    | tail _ h => exact ih _ _ hstep.1 hstep.2.1 (fun y hy => hcalls y (by simp [hy])) e h

/-! ### the deciders of the model decide the hypotheses -/

theorem mlCleanCfgB_iff (c : Config) : mlCleanCfgB c = true ↔ MLCleanCfg c := by
  unfold mlCleanCfgB MLCleanCfg
  cases c.internalFormat <;> cases c.barChar <;> simp [valueCleanB_iff, printableB_iff, and_assoc]

theorem mlCleanCallB_iff (call : Call) : mlCleanCallB call = true ↔ MLCleanCall call := by
  cases call with
  | op o => cases o <;> simp [mlCleanCallB, MLCleanCall, valueCleanB_iff]
  | set x => cases x <;> simp [mlCleanCallB, MLCleanCall, valueCleanB_iff, printableB_iff]

theorem mlCleanCallsB_iff (calls : List (Call × Nat)) :
    mlCleanCallsB calls = true ↔ ∀ x ∈ calls, MLCleanCall x.1 := by
  simp [mlCleanCallsB, mlCleanCallB_iff]

end Clikit.Progress
