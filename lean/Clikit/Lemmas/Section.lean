import Clikit.Model.Section
/-!
Lemmas for C15: the line-level terminal, the row count, one refinement step per method.
-/
namespace Clikit.Section
open Clikit.Term

/-! ### rows of a line -/

theorem countRows_short {w : Nat} {l : Str} (hw : 1 ≤ w) (h : l.length ≤ w) : countRows w l = 1 := by
  unfold countRows
  by_cases h0 : l.length = 0
  · have : (l.length + w - 1) / w = 0 := by
      apply Nat.div_eq_of_lt; omega
    simp [this]
  · have : (l.length + w - 1) / w = 1 := by
      apply Nat.div_eq_of_lt_le <;> omega
    simp [this]

theorem countRows_long {w : Nat} {l : Str} (hw : 1 ≤ w) (h : w < l.length) :
    countRows w l = 1 + countRows w (l.drop w) := by
  unfold countRows
  have e : l.length + w - 1 = ((l.drop w).length + w - 1) + w := by
    simp [List.length_drop]; omega
  have hpos : 0 < ((l.drop w).length + w - 1) / w := by
    apply Nat.div_pos
    · simp [List.length_drop]; omega
    · omega
  rw [e, Nat.add_div_right _ (by omega : 0 < w)]
  simp only []
  split <;> split <;> omega

theorem chunkF_length {w : Nat} (hw : 1 ≤ w) : ∀ (f : Nat) (l : Str), l.length ≤ f →
    (chunkF w f l).length = countRows w l := by
  intro f
  induction f with
  | zero =>
    intro l h
    simp only [chunkF, List.length_cons, List.length_nil]
    rw [countRows_short hw (by omega)]
  | succ f ih =>
    intro l h
    simp only [chunkF]
    by_cases hl : l.length ≤ w
    · simp [hl, countRows_short hw hl]
    · simp only [hl, if_false, List.length_cons]
      have hd : (l.drop w).length = l.length - w := List.length_drop
      rw [ih (l.drop w) (by omega), countRows_long hw (by omega : w < l.length)]
      omega

theorem chunk_length {w : Nat} (hw : 1 ≤ w) (l : Str) : (chunk w l).length = countRows w l :=
  chunkF_length hw l.length l (Nat.le_refl _)


/-- wrapping loses nothing: the rows of a line, put together, are the line -/
theorem chunkF_flatten (w : Nat) : ∀ (f : Nat) (l : Str), (chunkF w f l).flatten = l := by
  intro f
  induction f with
  | zero => intro l; simp [chunkF]
  | succ f ih =>
    intro l
    simp only [chunkF]
    split
    · simp
    · simp [ih]

theorem chunk_flatten (w : Nat) (l : Str) : (chunk w l).flatten = l := chunkF_flatten w _ l

/-- every row fits the terminal, and only the last row of a line can be shorter -/
theorem chunkF_rows {w : Nat} (hw : 1 ≤ w) : ∀ (f : Nat) (l : Str), l.length ≤ f →
    ∀ r ∈ chunkF w f l, r.length ≤ w := by
  intro f
  induction f with
  | zero =>
    intro l h r hr
    simp only [chunkF, List.mem_singleton] at hr
    subst hr; omega
  | succ f ih =>
    intro l h r hr
    simp only [chunkF] at hr
    split at hr
    · simp only [List.mem_singleton] at hr; subst hr; assumption
    · simp only [List.mem_cons] at hr
      rcases hr with hr | hr
      · subst hr; simp [List.length_take]; omega
      · have hd : (l.drop w).length = l.length - w := List.length_drop
        exact ih (l.drop w) (by omega) r hr

theorem chunk_rows {w : Nat} (hw : 1 ≤ w) (l : Str) : ∀ r ∈ chunk w l, r.length ≤ w :=
  chunkF_rows hw _ l (Nat.le_refl _)

theorem linesRows_length {w : Nat} (hw : 1 ≤ w) (ls : List Str) :
    (linesRows w ls).length = (ls.map (countRows w)).sum := by
  induction ls with
  | nil => rfl
  | cons l r ih =>
    simp only [linesRows, List.flatMap_cons, List.length_append, List.map_cons, List.sum_cons] at ih ⊢
    rw [ih, chunk_length hw]

theorem linesRows_append (w : Nat) (a b : List Str) :
    linesRows w (a ++ b) = linesRows w a ++ linesRows w b := by
  simp [linesRows]

/-! ### the terminal at the end of the screen -/

theorem overlay_nil (k : List Str) : overlay k [] = k := by cases k <;> rfl

theorem exec_print_atEnd (w : Nat) (s : Screen) (l : Str) (h : s.cur = s.rows.length) :
    exec w s (.print l) =
      { rows := s.rows ++ chunk w l, cur := (s.rows ++ chunk w l).length } := by
  simp [exec, h, overlay_nil]

theorem execs_append (w : Nat) (s : Screen) (a b : List Cmd) :
    execs w s (a ++ b) = execs w (execs w s a) b := by
  simp [execs]

theorem execs_prints_atEnd (w : Nat) (ls : List Str) : ∀ (s : Screen), s.cur = s.rows.length →
    execs w s (ls.map .print) =
      { rows := s.rows ++ linesRows w ls, cur := (s.rows ++ linesRows w ls).length } := by
  induction ls with
  | nil => intro s h; cases s; simp_all [execs, linesRows]
  | cons l r ih =>
    intro s h
    have h1 := exec_print_atEnd w s l h
    simp only [execs, List.map_cons, List.foldl_cons] at ih ⊢
    rw [h1, ih _ rfl]
    simp [linesRows, List.append_assoc]

/-! ### stacked contents -/

theorem stacked_split (w : Nat) (a : List Sec) (s : Sec) (b : List Sec) :
    stacked w (a ++ s :: b) = stacked w b ++ linesRows w s.content ++ stacked w a := by
  simp [stacked, List.reverse_append, List.flatMap_append]

theorem stacked_cons (w : Nat) (s : Sec) (b : List Sec) :
    stacked w (s :: b) = stacked w b ++ linesRows w s.content := by
  simp [stacked, List.flatMap_append]

theorem sum_rows {w : Nat} : ∀ (newer : List Sec), (∀ s ∈ newer, Good w s) →
    (newer.map (·.rows)).sum = (stacked w newer).length := by
  intro newer
  induction newer with
  | nil => intro _; rfl
  | cons s r ih =>
    intro hg
    have h1 : Good w s := hg s (by simp)
    have h2 := ih (fun t ht => hg t (by simp [ht]))
    rw [stacked_cons]
    simp only [List.map_cons, List.sum_cons, List.length_append]
    unfold Good at h1
    omega

theorem reprint_rows (w : Nat) (newer : List Sec) :
    linesRows w ((newer.map (·.content)).reverse.flatten) = stacked w newer := by
  induction newer with
  | nil => rfl
  | cons s r ih =>
    rw [stacked_cons, ← ih]
    simp [linesRows]

theorem take_front {α : Type} {n : Nat} {A B : List α} (h : n = A.length) : (A ++ B).take n = A := by
  subst h; simp

/-- cursor up over `X` and all newer sections, erase: what is left is `P`. -/
theorem exec_pop {w : Nat} (s : Screen) (P X : List Str) (newer : List Sec)
    (hr : s.rows = P ++ X ++ stacked w newer) (hc : s.cur = s.rows.length)
    (hg : ∀ t ∈ newer, Good w t) :
    execs w s (popCmds newer X.length) = { rows := P, cur := P.length } := by
  have hs := sum_rows newer hg
  unfold popCmds
  simp only []
  by_cases hn : X.length + (newer.map (·.rows)).sum > 0
  · simp only [hn, if_true, execs, List.foldl_cons, List.foldl_nil, exec]
    have hlen : s.rows.length = P.length + X.length + (stacked w newer).length := by
      rw [hr]; simp; omega
    have hcur : s.cur - (X.length + (newer.map (·.rows)).sum) = P.length := by omega
    rw [hcur, hr, List.append_assoc, take_front rfl]
  · simp only [hn, if_false, execs, List.foldl_nil]
    have hX : X = [] := List.eq_nil_of_length_eq_zero (by omega)
    have hN : stacked w newer = [] := List.eq_nil_of_length_eq_zero (by omega)
    cases s
    simp_all

theorem exec_reprint {w : Nat} (s : Screen) (newer : List Sec) (hc : s.cur = s.rows.length) :
    execs w s (reprint newer) =
      { rows := s.rows ++ stacked w newer, cur := (s.rows ++ stacked w newer).length } := by
  unfold reprint
  rw [execs_prints_atEnd w _ s hc, reprint_rows]


/-! ### one method call refines the screen -/

/-- A method `f` (given the newer sections and the section) keeps: the screen is `P`, the rows of
the section, the rows of the newer sections; the cursor is after the last row; the counter of
the section is exact. -/
def Refines (w : Nat) (f : List Sec → Sec → Sec × List Cmd) : Prop :=
  ∀ (P : List Str) (newer : List Sec) (s : Sec) (scr : Screen),
    scr.rows = P ++ linesRows w s.content ++ stacked w newer → scr.cur = scr.rows.length →
    Good w s → (∀ t ∈ newer, Good w t) →
    (execs w scr (f newer s).2).rows = P ++ linesRows w (f newer s).1.content ++ stacked w newer ∧
    (execs w scr (f newer s).2).cur = (execs w scr (f newer s).2).rows.length ∧
    Good w (f newer s).1

theorem write_refines {w : Nat} (hw : 1 ≤ w) (lines : List Str) :
    Refines w (fun a s => writeSec w a s lines) := by
  intro P newer s scr hr hc hg hgn
  simp only [writeSec]
  have h1 := exec_pop scr (P ++ linesRows w s.content) [] newer (by simpa using hr) hc hgn
  simp only [List.length_nil] at h1
  rw [execs_append, execs_append, h1, execs_prints_atEnd w _ _ rfl, exec_reprint _ _ rfl]
  refine ⟨by simp [linesRows_append], rfl, ?_⟩
  unfold Good at hg ⊢
  simp only [linesRows_append, List.length_append]
  rw [hg, linesRows_length hw (normLines lines)]

theorem clear_refines {w : Nat} (hw : 1 ≤ w) (n : Nat) :
    Refines w (fun a s => clearSec w a s n) := by
  intro P newer s scr hr hc hg hgn
  simp only [clearSec]
  by_cases he : s.content.isEmpty = true
  · simp only [he, if_true, execs, List.foldl_nil]
    exact ⟨hr, hc, hg⟩
  · simp only [he, Bool.false_eq_true, if_false]
    by_cases h0 : n = 0
    · -- everything goes: the cursor moves up by the counter, which is exact
      simp only [h0, if_true]
      have h1 := exec_pop scr P (linesRows w s.content) newer hr hc hgn
      unfold Good at hg
      rw [← hg] at h1
      rw [execs_append, h1, exec_reprint _ _ rfl]
      refine ⟨by simp [linesRows], rfl, ?_⟩
      simp [Good, linesRows]
    · simp only [h0, if_false]
      have hsplit : s.content = s.content.take (s.content.length - n) ++ s.content.drop (s.content.length - n) :=
        (List.take_append_drop _ _).symm
      have hrows : linesRows w s.content =
          linesRows w (s.content.take (s.content.length - n)) ++
          linesRows w (s.content.drop (s.content.length - n)) := by
        rw [← linesRows_append, ← hsplit]
      have h1 := exec_pop scr (P ++ linesRows w (s.content.take (s.content.length - n)))
        (linesRows w (s.content.drop (s.content.length - n))) newer
        (by rw [hr, hrows]; simp) hc hgn
      rw [linesRows_length hw] at h1
      rw [execs_append, h1, exec_reprint _ _ rfl]
      refine ⟨by simp, rfl, ?_⟩
      unfold Good at hg ⊢
      simp only []
      rw [hg, hrows, List.length_append, linesRows_length hw (s.content.drop _)]
      omega

theorem overwrite_refines {w : Nat} (hw : 1 ≤ w) (lines : List Str) :
    Refines w (fun a s => overwriteSec w a s lines) := by
  intro P newer s scr hr hc hg hgn
  simp only [overwriteSec]
  obtain ⟨c1, c2, c3⟩ := clear_refines hw 0 P newer s scr hr hc hg hgn
  obtain ⟨d1, d2, d3⟩ := write_refines hw lines P newer (clearSec w newer s 0).1 _ c1 c2 c3 hgn
  rw [execs_append]
  exact ⟨d1, d2, d3⟩

/-! ### the whole state -/

/-- The screen shows `base` and below it the stacked contents, the cursor is after the last
row, every counter is exact. -/
def Inv (w : Nat) (base : List Str) (secs : List Sec) (scr : Screen) : Prop :=
  scr.rows = base ++ stacked w secs ∧ scr.cur = scr.rows.length ∧ ∀ s ∈ secs, Good w s

theorem split3_spec {α : Type} : ∀ (p : Nat) (l : List α) (a : List α) (s : α) (b : List α),
    split3 p l = some (a, s, b) → l = a ++ s :: b := by
  intro p l
  induction l generalizing p with
  | nil => intro a s b h; simp [split3] at h
  | cons x r ih =>
    intro a s b h
    cases p with
    | zero => simp [split3] at h; obtain ⟨h1, h2, h3⟩ := h; subst h1 h2 h3; rfl
    | succ p =>
      simp only [split3] at h
      cases hr : split3 p r with
      | none => simp [hr] at h
      | some t =>
        obtain ⟨a', s', b'⟩ := t
        simp [hr] at h
        obtain ⟨h1, h2, h3⟩ := h
        subst h1 h2 h3
        rw [ih p a' s' b' hr]; rfl

theorem modify_inv {w : Nat} {f : List Sec → Sec → Sec × List Cmd} (hf : Refines w f)
    (base : List Str) (secs : List Sec) (i : Nat) (scr : Screen) (h : Inv w base secs scr) :
    Inv w base (modify secs i f).1 (execs w scr (modify secs i f).2) := by
  unfold modify
  cases hl : locate secs i with
  | none => simpa [execs] using h
  | some t =>
    obtain ⟨a, s, b⟩ := t
    simp only []
    unfold locate at hl
    split at hl
    · have hs := split3_spec _ _ _ _ _ hl
      obtain ⟨h1, h2, h3⟩ := h
      rw [hs, stacked_split] at h1
      have hg : Good w s := h3 s (by rw [hs]; simp)
      have hgn : ∀ t ∈ a, Good w t := fun t ht => h3 t (by rw [hs]; simp [ht])
      have hgo : ∀ t ∈ b, Good w t := fun t ht => h3 t (by rw [hs]; simp [ht])
      obtain ⟨r1, r2, r3⟩ := hf (base ++ stacked w b) a s scr (by simpa using h1) h2 hg hgn
      refine ⟨?_, r2, ?_⟩
      · rw [r1, stacked_split]; simp
      · intro t ht
        simp only [List.mem_append, List.mem_cons] at ht
        rcases ht with ht | ht | ht
        · exact hgn t ht
        · subst ht; exact r3
        · exact hgo t ht
    · simp at hl

theorem step_inv {w : Nat} (hw : 1 ≤ w) (base : List Str) (secs : List Sec) (op : Op)
    (scr : Screen) (h : Inv w base secs scr) :
    Inv w base (step true w secs op).1 (execs w scr (step true w secs op).2) := by
  cases op with
  | create =>
    obtain ⟨h1, h2, h3⟩ := h
    simp only [step, execs, List.foldl_nil]
    refine ⟨?_, h2, ?_⟩
    · rw [h1, stacked_cons]; simp [linesRows]
    · intro t ht
      simp only [List.mem_cons] at ht
      rcases ht with ht | ht
      · subst ht; simp [Good, linesRows]
      · exact h3 t ht
  | write i ls => simpa [step] using modify_inv (write_refines hw ls) base secs i scr h
  | overwrite i ls => simpa [step] using modify_inv (overwrite_refines hw ls) base secs i scr h
  | clear i => simpa [step] using modify_inv (clear_refines hw 0) base secs i scr h
  | clearN i n => simpa [step] using modify_inv (clear_refines hw n) base secs i scr h

theorem run_inv {w : Nat} (hw : 1 ≤ w) (base : List Str) (ops : List Op) :
    ∀ (secs : List Sec) (scr : Screen), Inv w base secs scr →
    Inv w base (run true w secs ops).1 (execs w scr (run true w secs ops).2) := by
  induction ops with
  | nil => intro secs scr h; simpa [run, execs] using h
  | cons op r ih =>
    intro secs scr h
    simp only [run]
    rw [execs_append]
    exact ih _ _ (step_inv hw base secs op scr h)


/-! ### the contents are what the operations ask for -/

theorem split3_length {α : Type} : ∀ (p : Nat) (l : List α) (a : List α) (s : α) (b : List α),
    split3 p l = some (a, s, b) → a.length = p := by
  intro p l
  induction l generalizing p with
  | nil => intro a s b h; simp [split3] at h
  | cons x r ih =>
    intro a s b h
    cases p with
    | zero => simp [split3] at h; simp [← h.1]
    | succ p =>
      simp only [split3] at h
      cases hr : split3 p r with
      | none => simp [hr] at h
      | some t =>
        obtain ⟨a', s', b'⟩ := t
        simp [hr] at h
        rw [← h.1, List.length_cons, ih p a' s' b' hr]

theorem updAt_ge {α : Type} (f : α → α) : ∀ (i : Nat) (l : List α), l.length ≤ i → updAt f i l = l := by
  intro i l
  induction l generalizing i with
  | nil => intro _; cases i <;> rfl
  | cons x r ih =>
    intro h
    cases i with
    | zero => simp at h
    | succ i => simp only [updAt]; rw [ih i (by simp at h; omega)]

theorem updAt_append {α : Type} (f : α → α) (A : List α) (x : α) (B : List α) :
    updAt f A.length (A ++ x :: B) = A ++ f x :: B := by
  induction A with
  | nil => rfl
  | cons a A ih => simp only [List.length_cons, List.cons_append, updAt]; rw [ih]

/-- the contents of all sections, creation order -/
def contents (secs : List Sec) : List (List Str) := secs.reverse.map (·.content)

theorem modify_contents {f : List Sec → Sec → Sec × List Cmd} {g : List Str → List Str}
    (hf : ∀ a s, (f a s).1.content = g s.content) (secs : List Sec) (i : Nat) :
    contents (modify secs i f).1 = updAt g i (contents secs) := by
  unfold modify
  cases hl : locate secs i with
  | none =>
    unfold locate at hl
    split at hl
    · rename_i hi
      -- an index below the length always locates a section
      exfalso
      have : ∀ (p : Nat) (l : List Sec), p < l.length → split3 p l ≠ none := by
        intro p l
        induction l generalizing p with
        | nil => intro h; simp at h
        | cons x r ih =>
          intro h
          cases p with
          | zero => simp [split3]
          | succ p =>
            simp only [split3]
            have := ih p (by simp at h; omega)
            cases hr : split3 p r with
            | none => exact absurd hr this
            | some t => obtain ⟨a', s', b'⟩ := t; simp
      exact this _ _ (by omega) hl
    · simp only [contents]
      rw [updAt_ge]
      simp; omega
  | some t =>
    obtain ⟨a, s, b⟩ := t
    simp only []
    unfold locate at hl
    split at hl
    · rename_i hi
      have hs := split3_spec _ _ _ _ _ hl
      have ha := split3_length _ _ _ _ _ hl
      have hb : b.length = i := by
        have : secs.length = a.length + 1 + b.length := by rw [hs]; simp; omega
        omega
      simp only [contents]
      rw [hs]
      simp only [List.reverse_append, List.reverse_cons, List.map_append, List.map_cons,
        List.append_assoc, List.singleton_append]
      have hlen : (List.map (fun x => x.content) b.reverse).length = i := by simp [hb]
      rw [← hlen, updAt_append, hf]
    · simp at hl

theorem step_contents (w : Nat) (secs : List Sec) (op : Op) :
    contents (step true w secs op).1 = specStep (contents secs) op := by
  cases op with
  | create => simp [step, specStep, contents]
  | write i ls =>
    simp only [step, if_true, specStep]
    exact modify_contents (fun a s => by simp [writeSec]) secs i
  | overwrite i ls =>
    simp only [step, if_true, specStep]
    refine modify_contents (fun a s => ?_) secs i
    simp only [overwriteSec, writeSec, clearSec]
    split <;> simp_all
  | clear i =>
    simp only [step, if_true, specStep]
    refine modify_contents (fun a s => ?_) secs i
    simp only [clearSec]
    split <;> simp_all
  | clearN i n =>
    simp only [step, if_true, specStep]
    refine modify_contents (fun a s => ?_) secs i
    simp only [clearSec]
    split
    · rename_i he
      have : s.content = [] := by simpa using he
      simp [this]
    · rfl

theorem run_contents (w : Nat) (ops : List Op) : ∀ (secs : List Sec),
    contents (run true w secs ops).1 = ops.foldl specStep (contents secs) := by
  induction ops with
  | nil => intro secs; rfl
  | cons op r ih =>
    intro secs
    simp only [run, List.foldl_cons]
    rw [ih, step_contents]

/-! ### outputs without ANSI support -/

theorem run_plain_cmds (w : Nat) (ops : List Op) : ∀ (secs : List Sec),
    (run false w secs ops).2 = (plainLines secs.length ops).map .print := by
  induction ops with
  | nil => intro secs; rfl
  | cons op r ih =>
    intro secs
    cases op with
    | create => simp [run, step, plainLines, ih]
    | write i ls => by_cases h : i < secs.length <;> simp [run, step, plainLines, ih, h]
    | overwrite i ls => by_cases h : i < secs.length <;> simp [run, step, plainLines, ih, h]
    | clear i => simp [run, step, plainLines, ih]
    | clearN i n => simp [run, step, plainLines, ih]

/-- nothing is recorded in a section of a plain output -/
theorem run_plain_state (w : Nat) (ops : List Op) : ∀ (secs : List Sec),
    (∀ s ∈ secs, s = { content := [], rows := 0 }) →
    ∀ s ∈ (run false w secs ops).1, s = { content := [], rows := 0 } := by
  induction ops with
  | nil => intro secs h; simpa [run] using h
  | cons op r ih =>
    intro secs h
    cases op with
    | create =>
      simp only [run, step]
      exact ih _ (by intro s hs; simp only [List.mem_cons] at hs; rcases hs with hs | hs; exact hs; exact h s hs)
    | write i ls => by_cases hi : i < secs.length <;> simpa [run, step, hi] using ih secs h
    | overwrite i ls => by_cases hi : i < secs.length <;> simpa [run, step, hi] using ih secs h
    | clear i => simpa [run, step] using ih secs h
    | clearN i n => simpa [run, step] using ih secs h

theorem emit_prints (ls : List Str) :
    emit (ls.map .print) = ls.flatMap (fun l => l ++ ['\n']) := by
  induction ls with
  | nil => rfl
  | cons l r ih => simp only [emit, List.map_cons, List.flatMap_cons, emitCmd] at ih ⊢; rw [ih]

theorem plainLines_mem (ops : List Op) : ∀ (k : Nat) (l : Str), l ∈ plainLines k ops →
    l = [] ∨ ∃ op ∈ ops, (∃ i ls, (op = .write i ls ∨ op = .overwrite i ls) ∧ l ∈ ls) := by
  induction ops with
  | nil => intro k l h; simp [plainLines] at h
  | cons op r ih =>
    intro k l h
    have lift : (l = [] ∨ ∃ op ∈ r, (∃ i ls, (op = .write i ls ∨ op = .overwrite i ls) ∧ l ∈ ls)) →
        (l = [] ∨ ∃ op' ∈ op :: r, (∃ i ls, (op' = .write i ls ∨ op' = .overwrite i ls) ∧ l ∈ ls)) := by
      intro h'
      rcases h' with h' | ⟨o, ho, h'⟩
      · exact Or.inl h'
      · exact Or.inr ⟨o, by simp [ho], h'⟩
    have norm : ∀ ls : List Str, l ∈ normLines ls → l = [] ∨ l ∈ ls := by
      intro ls hl
      cases ls with
      | nil => simp [normLines] at hl; exact Or.inl hl
      | cons a b => exact Or.inr hl
    cases op with
    | create => exact lift (ih _ l (by simpa [plainLines] using h))
    | clear i => exact lift (ih _ l (by simpa [plainLines] using h))
    | clearN i n => exact lift (ih _ l (by simpa [plainLines] using h))
    | write i ls =>
      simp only [plainLines, List.mem_append] at h
      rcases h with h | h
      · split at h
        · rcases norm ls h with h | h
          · exact Or.inl h
          · exact Or.inr ⟨_, by simp, i, ls, Or.inl rfl, h⟩
        · simp at h
      · exact lift (ih _ l h)
    | overwrite i ls =>
      simp only [plainLines, List.mem_append] at h
      rcases h with h | h
      · split at h
        · rcases norm ls h with h | h
          · exact Or.inl h
          · exact Or.inr ⟨_, by simp, i, ls, Or.inr rfl, h⟩
        · simp at h
      · exact lift (ih _ l h)

theorem plainLines_valid (ops : List Op) : ∀ (k : Nat), validOps k ops = true →
    plainLines k ops = ops.flatMap opLines := by
  induction ops with
  | nil => intro k _; rfl
  | cons op r ih =>
    intro k h
    cases op with
    | create => simpa [plainLines, opLines] using ih (k + 1) (by simpa [validOps] using h)
    | write i ls =>
      simp only [validOps, Bool.and_eq_true, decide_eq_true_eq] at h
      simp [plainLines, opLines, h.1, ih k h.2]
    | overwrite i ls =>
      simp only [validOps, Bool.and_eq_true, decide_eq_true_eq] at h
      simp [plainLines, opLines, h.1, ih k h.2]
    | clear i =>
      simp only [validOps, Bool.and_eq_true, decide_eq_true_eq] at h
      simp [plainLines, opLines, ih k h.2]
    | clearN i n =>
      simp only [validOps, Bool.and_eq_true, decide_eq_true_eq] at h
      simp [plainLines, opLines, ih k h.2]

/-! ### bytes and commands are interchangeable -/

/-- A printed line is text: no newline inside, no ESC. -/
def TextOk (l : Str) : Prop := '\n' ∉ l ∧ ESC ∉ l

def CmdOk : Cmd → Prop
  | .print l => TextOk l
  | _ => True

theorem takeLine_emit (l r : Str) (h : TextOk l) : takeLine (l ++ '\n' :: r) = some (l, r) := by
  induction l with
  | nil => simp [takeLine]
  | cons c l ih =>
    obtain ⟨h1, h2⟩ := h
    simp only [List.mem_cons, not_or] at h1 h2
    have hc1 : c ≠ '\n' := fun e => h1.1 e.symm
    have hc2 : c ≠ ESC := fun e => h2.1 e.symm
    simp only [List.cons_append, takeLine, hc1, hc2, if_false]
    rw [ih ⟨h1.2, h2.2⟩]

theorem spanDigits_append (d r : Str) (hd : ∀ c ∈ d, c.isDigit = true)
    (hr : ∀ c t, r = c :: t → c.isDigit = false) : spanDigits (d ++ r) = (d, r) := by
  induction d with
  | nil =>
    cases r with
    | nil => rfl
    | cons c t => simp [spanDigits, hr c t rfl]
  | cons c d ih =>
    have hc : c.isDigit = true := hd c (by simp)
    simp only [List.cons_append, spanDigits, hc, if_true]
    rw [ih (fun x hx => hd x (by simp [hx]))]

theorem lexF_print (f : Nat) (l t : Str) (h : TextOk l) :
    lexF (f + 1) (l ++ '\n' :: t) =
      match lexF f t with
      | some cs => some (.print l :: cs)
      | none => none := by
  have ht := takeLine_emit l t h
  cases l with
  | nil =>
    have : ('\n' : Char) ≠ ESC := by decide
    simp only [List.nil_append] at ht ⊢
    simp only [lexF, this, if_false, ht]
    cases lexF f t <;> rfl
  | cons c l =>
    have hc : c ≠ ESC := fun e => h.2 (by simp [e])
    simp only [List.cons_append] at ht ⊢
    simp only [lexF, hc, if_false, ht]
    cases lexF f t <;> rfl

theorem lexF_up (f n : Nat) (t : Str) :
    lexF (f + 1) (ESC :: '[' :: (Nat.toDigits 10 n ++ ['A']) ++ t) =
      match lexF f t with
      | some cs => some (.up n :: cs)
      | none => none := by
  have hs : spanDigits (Nat.toDigits 10 n ++ 'A' :: t) = (Nat.toDigits 10 n, 'A' :: t) :=
    spanDigits_append _ _ (fun c hc => Nat.isDigit_of_mem_toDigits (by decide) (by decide) hc)
      (by intro c t' e; simp only [List.cons.injEq] at e; rw [← e.1]; decide)
  have hne : Nat.toDigits 10 n ≠ [] := Nat.toDigits_ne_nil
  simp only [List.cons_append, List.append_assoc, List.nil_append, lexF, if_true, hs, hne, if_false,
    Nat.ofDigitChars_ten_toDigits]
  cases lexF f t <;> rfl

theorem lexF_erase (f : Nat) (t : Str) :
    lexF (f + 1) ([ESC, '[', '0', 'J'] ++ t) =
      match lexF f t with
      | some cs => some (.eraseBelow :: cs)
      | none => none := by
  have hs : spanDigits ('0' :: 'J' :: t) = (['0'], 'J' :: t) :=
    spanDigits_append ['0'] ('J' :: t) (by decide)
      (by intro c t' e; simp only [List.cons.injEq] at e; rw [← e.1]; decide)
  simp only [List.cons_append, List.nil_append, lexF, if_true, hs]
  cases lexF f t <;> rfl

theorem lexF_emit : ∀ (cmds : List Cmd) (f : Nat), cmds.length < f → (∀ c ∈ cmds, CmdOk c) →
    lexF f (emit cmds) = some cmds := by
  intro cmds
  induction cmds with
  | nil => intro f _ _; cases f <;> simp [emit, lexF]
  | cons c r ih =>
    intro f hf hok
    cases f with
    | zero => simp at hf
    | succ f =>
      have hr := ih f (by simp at hf; omega) (fun x hx => hok x (by simp [hx]))
      have hc := hok c (by simp)
      have e : emit (c :: r) = emitCmd c ++ emit r := by simp [emit]
      rw [e]
      cases c with
      | print l => simp only [emitCmd, List.append_assoc, List.cons_append, List.nil_append]; rw [lexF_print f l _ hc, hr]
      | up n => simp only [emitCmd]; rw [lexF_up, hr]
      | eraseBelow => simp only [emitCmd]; rw [lexF_erase, hr]

theorem emit_length_ge (cmds : List Cmd) : cmds.length ≤ (emit cmds).length := by
  induction cmds with
  | nil => simp [emit]
  | cons c r ih =>
    have e : emit (c :: r) = emitCmd c ++ emit r := by simp [emit]
    rw [e, List.length_append, List.length_cons]
    have : 1 ≤ (emitCmd c).length := by cases c <;> simp [emitCmd]
    omega


/-! ### every printed line is text when the written lines are -/

def SecOk (s : Sec) : Prop := ∀ l ∈ s.content, TextOk l

def OpOk : Op → Prop
  | .write _ ls => ∀ l ∈ ls, TextOk l
  | .overwrite _ ls => ∀ l ∈ ls, TextOk l
  | _ => True

theorem normLines_ok {ls : List Str} (h : ∀ l ∈ ls, TextOk l) : ∀ l ∈ normLines ls, TextOk l := by
  cases ls with
  | nil => intro l hl; simp [normLines] at hl; subst hl; simp [TextOk]
  | cons a b => exact h

theorem popCmds_ok (a : List Sec) (n : Nat) : ∀ c ∈ popCmds a n, CmdOk c := by
  intro c hc
  unfold popCmds at hc
  simp only [] at hc
  split at hc
  · simp only [List.mem_cons, List.not_mem_nil, or_false] at hc
    rcases hc with hc | hc <;> subst hc <;> trivial
  · simp at hc

theorem reprint_ok {a : List Sec} (h : ∀ s ∈ a, SecOk s) : ∀ c ∈ reprint a, CmdOk c := by
  intro c hc
  simp only [reprint, List.mem_map, List.mem_flatten, List.mem_reverse] at hc
  obtain ⟨l, ⟨ct, ⟨s, hs, hct⟩, hl⟩, rfl⟩ := hc
  subst hct
  exact h s hs l hl

theorem prints_ok {ls : List Str} (h : ∀ l ∈ ls, TextOk l) : ∀ c ∈ ls.map Cmd.print, CmdOk c := by
  intro c hc
  simp only [List.mem_map] at hc
  obtain ⟨l, hl, rfl⟩ := hc
  exact h l hl

def Keeps (f : List Sec → Sec → Sec × List Cmd) : Prop :=
  ∀ a s, (∀ t ∈ a, SecOk t) → SecOk s → SecOk (f a s).1 ∧ ∀ c ∈ (f a s).2, CmdOk c

theorem write_keeps (w : Nat) {ls : List Str} (h : ∀ l ∈ ls, TextOk l) :
    Keeps (fun a s => writeSec w a s ls) := by
  intro a s ha hs
  simp only [writeSec]
  refine ⟨?_, ?_⟩
  · intro l hl
    simp only [List.mem_append] at hl
    rcases hl with hl | hl
    · exact hs l hl
    · exact normLines_ok h l hl
  · intro c hc
    simp only [List.mem_append] at hc
    rcases hc with (hc | hc) | hc
    · exact popCmds_ok _ _ c hc
    · exact prints_ok (normLines_ok h) c hc
    · exact reprint_ok ha c hc

theorem clear_keeps (w n : Nat) : Keeps (fun a s => clearSec w a s n) := by
  intro a s ha hs
  simp only [clearSec]
  split
  · exact ⟨hs, by simp⟩
  · refine ⟨?_, ?_⟩
    · intro l hl
      simp only [] at hl
      split at hl
      · simp at hl
      · exact hs l (List.mem_of_mem_take hl)
    · intro c hc
      simp only [List.mem_append] at hc
      rcases hc with hc | hc
      · exact popCmds_ok _ _ c hc
      · exact reprint_ok ha c hc

theorem overwrite_keeps (w : Nat) {ls : List Str} (h : ∀ l ∈ ls, TextOk l) :
    Keeps (fun a s => overwriteSec w a s ls) := by
  intro a s ha hs
  simp only [overwriteSec]
  obtain ⟨c1, c2⟩ := clear_keeps w 0 a s ha hs
  obtain ⟨d1, d2⟩ := write_keeps w h a (clearSec w a s 0).1 ha c1
  refine ⟨d1, ?_⟩
  intro c hc
  simp only [List.mem_append] at hc
  rcases hc with hc | hc
  · exact c2 c hc
  · exact d2 c hc

theorem modify_keeps {f : List Sec → Sec → Sec × List Cmd} (hf : Keeps f) (secs : List Sec)
    (i : Nat) (h : ∀ s ∈ secs, SecOk s) :
    (∀ s ∈ (modify secs i f).1, SecOk s) ∧ ∀ c ∈ (modify secs i f).2, CmdOk c := by
  unfold modify
  cases hl : locate secs i with
  | none => exact ⟨h, by simp⟩
  | some t =>
    obtain ⟨a, s, b⟩ := t
    simp only []
    unfold locate at hl
    split at hl
    · have hs := split3_spec _ _ _ _ _ hl
      have ha : ∀ t ∈ a, SecOk t := fun t ht => h t (by rw [hs]; simp [ht])
      have hb : ∀ t ∈ b, SecOk t := fun t ht => h t (by rw [hs]; simp [ht])
      obtain ⟨r1, r2⟩ := hf a s ha (h s (by rw [hs]; simp))
      refine ⟨?_, r2⟩
      intro t ht
      simp only [List.mem_append, List.mem_cons] at ht
      rcases ht with ht | ht | ht
      · exact ha t ht
      · subst ht; exact r1
      · exact hb t ht
    · simp at hl

theorem step_keeps (ansi : Bool) (w : Nat) (secs : List Sec) (op : Op)
    (h : ∀ s ∈ secs, SecOk s) (ho : OpOk op) :
    (∀ s ∈ (step ansi w secs op).1, SecOk s) ∧ ∀ c ∈ (step ansi w secs op).2, CmdOk c := by
  cases ansi with
  | true =>
    cases op with
    | create =>
      simp only [step]
      refine ⟨?_, by simp⟩
      intro s hs
      simp only [List.mem_cons] at hs
      rcases hs with hs | hs
      · subst hs; intro l hl; simp at hl
      · exact h s hs
    | write i ls => simpa [step] using modify_keeps (write_keeps w ho) secs i h
    | overwrite i ls => simpa [step] using modify_keeps (overwrite_keeps w ho) secs i h
    | clear i => simpa [step] using modify_keeps (clear_keeps w 0) secs i h
    | clearN i n => simpa [step] using modify_keeps (clear_keeps w n) secs i h
  | false =>
    cases op with
    | create =>
      simp only [step]
      refine ⟨?_, by simp⟩
      intro s hs
      simp only [List.mem_cons] at hs
      rcases hs with hs | hs
      · subst hs; intro l hl; simp at hl
      · exact h s hs
    | write i ls =>
      simp only [step, Bool.false_eq_true, if_false]
      split
      · exact ⟨h, prints_ok (normLines_ok ho)⟩
      · exact ⟨h, by simp⟩
    | overwrite i ls =>
      simp only [step, Bool.false_eq_true, if_false]
      split
      · exact ⟨h, prints_ok (normLines_ok ho)⟩
      · exact ⟨h, by simp⟩
    | clear i => simpa [step] using h
    | clearN i n => simpa [step] using h

theorem run_keeps (ansi : Bool) (w : Nat) (ops : List Op) : ∀ (secs : List Sec),
    (∀ s ∈ secs, SecOk s) → (∀ op ∈ ops, OpOk op) →
    (∀ s ∈ (run ansi w secs ops).1, SecOk s) ∧ ∀ c ∈ (run ansi w secs ops).2, CmdOk c := by
  induction ops with
  | nil => intro secs h _; exact ⟨by simpa [run] using h, by simp [run]⟩
  | cons op r ih =>
    intro secs h ho
    obtain ⟨s1, s2⟩ := step_keeps ansi w secs op h (ho op (by simp))
    obtain ⟨r1, r2⟩ := ih _ s1 (fun o hm => ho o (by simp [hm]))
    simp only [run]
    refine ⟨r1, ?_⟩
    intro c hc
    simp only [List.mem_append] at hc
    rcases hc with hc | hc
    · exact s2 c hc
    · exact r2 c hc

/-! ### the deciders of the model decide the hypotheses -/

theorem textOkB_iff (l : Str) : textOkB l = true ↔ TextOk l := by
  simp [textOkB, TextOk]

theorem opOkB_iff (op : Op) : opOkB op = true ↔ OpOk op := by
  cases op <;> simp [opOkB, OpOk, textOkB_iff]

theorem wfB_iff (w : Nat) (ops : List Op) :
    wfB w ops = true ↔ 1 ≤ w ∧ ∀ op ∈ ops, OpOk op := by
  simp [wfB, opOkB_iff]

/-- printing lines on an empty screen leaves the cursor on the row after the last one: the start
situation the driver hands to the terminal model is the one `screen_refines` starts from -/
theorem prints_anchored (w : Nat) (ls : List Str) (scr : Screen) (h : scr.cur = scr.rows.length) :
    (execs w scr (ls.map .print)).cur = (execs w scr (ls.map .print)).rows.length := by
  induction ls generalizing scr with
  | nil => simpa [execs] using h
  | cons l r ih =>
    simp only [List.map_cons, execs, List.foldl_cons]
    apply ih
    simp [exec, h, overlay_nil]

end Clikit.Section
