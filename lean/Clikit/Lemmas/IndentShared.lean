import Clikit.Model.IndentShared
/-! Lemmas about `Model/IndentShared.lean`: frame of the loop of `Indent.__init__`, `__exit__` gives back the
saved heap also for lists of outputs with repetitions. -/
namespace Clikit.IndentShared

theorem set_same (h : Heap) (r v : Nat) : h.set r v r = v := by simp [Heap.set]

theorem set_other (h : Heap) (r v x : Nat) (hx : x ≠ r) : h.set r v x = h x := by simp [Heap.set, hx]

/-- the loop of `__init__` touches the listed outputs only -/
theorem apply_frame (inc : Bool) (n : Nat) (refs : List Nat) (h : Heap) (x : Nat) (hx : x ∉ refs) :
    apply inc n refs h x = h x := by
  induction refs generalizing h with
  | nil => rfl
  | cons r rs ih =>
    simp only [List.mem_cons, not_or] at hx
    simp only [apply]
    rw [ih _ hx.2, set_other _ _ _ _ hx.1]

/-- `__exit__` with the values saved from `h`, on any heap that differs from `h` on listed outputs only,
gives `h` back - whatever the list repeats -/
theorem leave_restores (refs : List Nat) (h h' : Heap) (hf : ∀ x, x ∉ refs → h' x = h x) :
    leave refs (refs.map h) h' = h := by
  induction refs generalizing h' with
  | nil =>
    simp only [leave]
    funext x
    exact hf x (by simp)
  | cons r rs ih =>
    simp only [List.map_cons, leave]
    apply ih
    intro x hx
    by_cases hxr : x = r
    · subst hxr; exact set_same _ _ _
    · rw [set_other _ _ _ _ hxr]
      exact hf x (by simp [hxr, hx])

/-- recording inside the loop is the same thing when no output is listed twice -/
theorem enterLate_nodup (inc : Bool) (n : Nat) (refs : List Nat) (hn : refs.Nodup) (h : Heap) (acc : List Nat) :
    enterLate inc n refs h acc = (apply inc n refs h, acc ++ refs.map h) := by
  induction refs generalizing h acc with
  | nil => simp [enterLate, apply]
  | cons r rs ih =>
    rw [List.nodup_cons] at hn
    simp only [enterLate, apply]
    rw [ih hn.2]
    have : rs.map (h.set r (if inc then h r + n else n)) = rs.map h := by
      apply List.map_congr_left
      intro x hx
      exact set_other _ _ _ _ (fun e => hn.1 (e ▸ hx))
    rw [this]
    simp

end Clikit.IndentShared
