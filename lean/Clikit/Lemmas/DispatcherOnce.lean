import Clikit.Lemmas.Dispatcher
/-!
C12: `regOnceB` decides that no listener is registered twice for one event, and what follows
from it (distinct listeners per event, a listener's priority is determined).
-/
namespace Clikit.Dispatcher

/-- no two registrations of the log are for the same event with the same listener -/
def RegOnce (log : List Reg) : Prop :=
  log.Pairwise (fun a b => ¬(a.ev = b.ev ∧ a.l = b.l))

theorem regOnceB_iff : ∀ log : List Reg, regOnceB log = true ↔ RegOnce log
  | [] => by simp [regOnceB, RegOnce]
  | r :: t => by
    have ih := regOnceB_iff t
    unfold RegOnce at ih ⊢
    rw [List.pairwise_cons, ← ih]
    simp [regOnceB]

/-- two registrations of the same listener for the same event are the same registration -/
theorem RegOnce.unique : ∀ {log : List Reg}, RegOnce log → ∀ {r r' : Reg}, r ∈ log → r' ∈ log →
    r.ev = r'.ev → r.l = r'.l → r = r'
  | [], _, _, _, h, _, _, _ => by simp at h
  | x :: t, h, r, r', hr, hr', he, hl => by
    unfold RegOnce at h
    rw [List.pairwise_cons] at h
    rcases List.mem_cons.1 hr with h1 | h1
    · rcases List.mem_cons.1 hr' with h2 | h2
      · rw [h1, h2]
      · subst h1; exact absurd ⟨he, hl⟩ (h.1 r' h2)
    · rcases List.mem_cons.1 hr' with h2 | h2
      · subst h2; exact absurd ⟨he.symm, hl.symm⟩ (h.1 r h1)
      · exact RegOnce.unique (log := t) h.2 h1 h2 he hl

/-- the listeners registered for one event are pairwise distinct -/
theorem RegOnce.nodup_listeners {log : List Reg} (h : RegOnce log) (e : Nat) :
    ((regsFor log e).map (fun r => r.l)).Nodup := by
  unfold List.Nodup
  rw [List.pairwise_map]
  have h1 : (regsFor log e).Pairwise (fun a b => ¬(a.ev = b.ev ∧ a.l = b.l)) :=
    List.Pairwise.sublist List.filter_sublist h
  refine List.Pairwise.imp_of_mem ?_ h1
  intro a b ha hb hab hl
  exact hab ⟨(mem_regsFor.1 ha).2.trans (mem_regsFor.1 hb).2.symm, hl⟩

/-- what a dispatch calls is a sublist of the specification order -/
theorem callSeq_sublist (log : List Reg) (e : Nat) (st : Bool) :
    (callSeq log e st).Sublist (specOrder log e) := by
  cases st with
  | true => simp [callSeq]
  | false =>
    simp only [callSeq, Bool.false_eq_true, if_false]
    generalize specOrder log e = l
    induction l with
    | nil => simp [takeThrough]
    | cons x t ih =>
      simp only [takeThrough]
      split
      · simp
      · exact List.Sublist.cons_cons x ih

end Clikit.Dispatcher
