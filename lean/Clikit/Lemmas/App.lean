import Clikit.Model.App
import Clikit.Lemmas.Dict
import Clikit.Lemmas.Spelling
/-!
# Lemmas about the composed model of a run (`Model/App.lean`)

Unfolding lemmas of `runApp` along its branches, the two spellings of the help switch
(`Help.hasSwitch` of C13 and `Switches.helpSwitch` of C09 are the same test), `Help.helpTarget`
on a line with the switch, and what the `Run` model yields in the configurations `runApp` uses.
-/
namespace Clikit.App
open Clikit Clikit.Parser Clikit.Resolver Clikit.Switches Clikit.Help

/-- C13's and C09's help-switch tests are the same function of the tokens -/
theorem hasSwitch_eq (toks : List Str) : hasSwitch toks = helpSwitch toks := by
  simp only [hasSwitch, helpSwitch, Gen.C09.helpRequested, hasTok, Tokenizer.optionTokens, Gen.C08.optionsEnd, S]

/-! ## `runApp`, branch by branch -/

theorem runApp_io (env : Env) (cv : Conv) (app : List Cmd) (hs : Handlers) (toks : List Str) :
    (runApp env cv app hs toks).io = createIO toks env.debug := by
  unfold runApp
  split <;> rfl

theorem runApp_error (env : Env) (cv : Conv) (app : List Cmd) (hs : Handlers) (toks : List Str) (e : Err)
    (h : resolveCommand cv app toks = .error e) :
    runApp env cv app hs toks =
      let io := createIO toks env.debug
      let r := Run.run (ioDebug io) (.error (excOf e)) [] (.ret ret0) env.render
      { io := io, what := .error e, status := r.status, escaped := r.escaped, reported := r.reported,
        invoked := [] } := by
  simp only [runApp, h]

theorem runApp_ok (env : Env) (cv : Conv) (app : List Cmd) (hs : Handlers) (toks : List Str) (path : List Str)
    (a : Args) (h : resolveCommand cv app toks = .ok (path, a)) :
    runApp env cv app hs toks =
      let io := createIO toks env.debug
      let r := Run.run (ioDebug io) (.ok ()) [versionListener (versionSet a)]
        (handlerOutcome cv app hs toks path a) env.render
      { io := io, what := whatOf cv app hs toks path a, status := r.status, escaped := r.escaped,
        reported := r.reported,
        invoked := if isHelpPath path then [] else List.replicate r.handlerCalls (path, a) } := by
  simp only [runApp, h]

/-! ## `Run.run` in the configurations `runApp` uses -/

/-- the version listener handled the event: status 0, the handler is not called, nothing escapes -/
theorem run_version (debug : Bool) (o : Run.Outcome) (render : Run.Exc → Bool) :
    Run.run debug (.ok ()) [versionListener true] o render =
      { status := some 0, escaped := none, reported := false, handlerCalls := 0 } := by
  simp [Run.run, Run.attempt, Run.handle, Run.doHandle, Run.dispatchPre, versionListener, Run.normalize,
    Run.conclude]

/-- the version listener passes: the handler is called exactly once -/
theorem run_pass_calls (debug : Bool) (o : Run.Outcome) (render : Run.Exc → Bool) :
    (Run.run debug (.ok ()) [versionListener false] o render).handlerCalls = 1 := by
  have hc : ∀ (r : Except Run.Exc Nat) (n : Nat), (Run.conclude render r n).handlerCalls = n := by
    intro r n
    unfold Run.conclude
    split
    · rfl
    · split
      · rfl
      · split <;> rfl
  simp only [Run.run, hc]
  cases o with
  | ret v => simp [Run.attempt, Run.handle, Run.doHandle, Run.dispatchPre, versionListener]
  | raise e =>
    have hd : Run.dispatchPre [versionListener false] none = .ok none := rfl
    simp only [Run.attempt, Run.handle, Run.doHandle, hd]
    split <;> rfl

/-- ... and the run is the run without listeners -/
theorem run_pass (debug : Bool) (o : Run.Outcome) (render : Run.Exc → Bool) :
    Run.run debug (.ok ()) [versionListener false] o render = Run.run debug (.ok ()) [] o render := by
  simp [Run.run, Run.attempt, Run.handle, Run.doHandle, Run.dispatchPre, versionListener]

/-- a handler that returns 0: status 0 -/
theorem run_ret0 (debug : Bool) (render : Run.Exc → Bool) :
    Run.run debug (.ok ()) [] (.ret ret0) render =
      { status := some 0, escaped := none, reported := false, handlerCalls := 1 } := by
  simp [Run.run, Run.attempt, Run.handle, Run.doHandle, Run.dispatchPre, Run.normalize, Run.conclude, ret0]

/-- resolving raised: no handler call -/
theorem run_unresolved_calls (debug : Bool) (e : Run.Exc) (ls : List Run.Listener) (o : Run.Outcome)
    (render : Run.Exc → Bool) : (Run.run debug (.error e) ls o render).handlerCalls = 0 := by
  simp only [Run.run, Run.attempt, Run.conclude]
  split
  · rfl
  · split <;> rfl

/-- an `Exception` raised by the modelled library code that reaches `run()`: status 1 with a report
when the report renders, else it escapes -/
theorem run_exception (debug : Bool) (e : Err) (render : Run.Exc → Bool) :
    (render (excOf e) = true → Run.run debug (.error (excOf e)) [] (.ret ret0) render =
      { status := some 1, escaped := none, reported := true, handlerCalls := 0 }) ∧
    (render (excOf e) = false → Run.run debug (.error (excOf e)) [] (.ret ret0) render =
      { status := none, escaped := some (excOf e), reported := false, handlerCalls := 0 }) := by
  constructor <;> intro h <;> simp [Run.run, Run.attempt, Run.conclude, h] <;> simp [excOf]

/-! ## The help command the PRE_RESOLVE listener selects -/

theorem helpNamed_name (app : List Cmd) (h : Cmd) (hn : helpNamedB app = true)
    (hg : (Coll.ofList app).get? helpName = some h) : h.name = helpName := by
  simp only [helpNamedB, hg] at hn
  exact eq_of_beq hn

/-- `wiredB` (C13's decider of the shape of the tree) implies `helpNamedB` -/
theorem helpNamed_of_wired (app : List Cmd) (sw : Str) (hw : wiredB app sw = true) : helpNamedB app = true := by
  unfold wiredB at hw
  unfold helpNamedB
  split
  · rename_i h hg
    simp only [hg, helpCmdB, Bool.and_eq_true] at hw
    exact hw.1.1.1.1.1
  · rfl

/-- with the switch, `resolve_command` is the lenient parse of the help command -/
theorem resolveCommand_switch (cv : Conv) (app : List Cmd) (toks : List Str) (hsw : helpSwitch toks = true) :
    resolveCommand cv app toks =
      match (Coll.ofList app).get? helpName with
      | none => .error (.other "NoSuchCommandException")
      | some h =>
        match parse cv h.fmt true toks with
        | .error e => .error e
        | .ok a => .ok ([h.name], a) := by
  simp only [resolveCommand, hsw, if_true]
  rfl

theorem resolveCommand_noswitch (cv : Conv) (app : List Cmd) (toks : List Str) (hsw : helpSwitch toks = false) :
    resolveCommand cv app toks = resolve cv app toks := by
  simp [resolveCommand, hsw]

/-- `Help.helpTarget` on a line with the switch -/
theorem helpTarget_switch (cv : Conv) (app : List Cmd) (toks : List Str) (hsw : helpSwitch toks = true) (h : Cmd)
    (a : Args) (hg : (Coll.ofList app).get? helpName = some h) (hp : parse cv h.fmt true toks = .ok a) :
    helpTarget cv app toks = (handlerTarget cv app toks a).map some := by
  simp only [helpTarget, hasSwitch_eq, hsw, if_true, hg, hp]

/-- `Help.helpTarget` on a line without the switch that resolves to the command `help` -/
theorem helpTarget_command (cv : Conv) (app : List Cmd) (toks : List Str) (hsw : helpSwitch toks = false)
    (path : List Str) (a : Args) (hr : resolve cv app toks = .ok (path, a)) :
    helpTarget cv app toks =
      if isHelpPath path then (handlerTarget cv app toks a).map some else .ok none := by
  simp only [helpTarget, hasSwitch_eq, hsw, hr, isHelpPath]
  simp

/-! ## Tokens after `--` are never read as options

A frame property of the token loop of the parser model: an iteration on `r ++ "--" :: tail` is the
iteration on `r` with `"--" :: tail` appended to the tokens it leaves (the look-ahead of an option
pushes a token starting with `-` back), so the loop on `pre ++ "--" :: tail` is the loop on `pre`
followed by the loop on the tail with option parsing off - which never touches the option
dictionary; the options of the resulting `Args` are a function of that dictionary alone. -/

-- `Parser.dd` (Lemmas/Spelling.lean) is the separator `--`

def restApp (X : List Str) : PR (St × List Str) → PR (St × List Str)
  | .error e => .error e
  | .ok (σ, r) => .ok (σ, r ++ X)

def restApp3 (X : List Str) : PR (St × List Str × Bool) → PR (St × List Str × Bool)
  | .error e => .error e
  | .ok (σ, r, po) => .ok (σ, r ++ X, po)

theorem peekValue_frame (o : Opt) (v : Option Str) (r tail : List Str) :
    peekValue o v (r ++ dd :: tail) = ((peekValue o v r).1, (peekValue o v r).2 ++ dd :: tail) := by
  cases hb : (v.isNone && o.accepts) with
  | false => simp [peekValue, hb]
  | true =>
    cases r with
    | nil => simp [peekValue, hb, dd]
    | cons t r0 =>
      cases t with
      | nil => simp [peekValue, hb]
      | cons c cs =>
        simp only [peekValue, hb, List.cons_append, List.length_cons]
        by_cases hc : c = '-' <;> simp [hc]

theorem popValue_frame (r tail : List Str) :
    popValue (r ++ dd :: tail) = ((popValue r).1, (popValue r).2 ++ dd :: tail) := by
  cases r with
  | nil => simp [popValue, dd]
  | cons t r0 =>
    simp only [popValue, List.cons_append]
    cases t with
    | nil => simp
    | cons c cs =>
      simp only
      split <;> simp

theorem peekValue_sub (o : Opt) (v : Option Str) (toks : List Str) : ∀ x ∈ (peekValue o v toks).2, x ∈ toks := by
  intro x hx
  unfold peekValue at hx
  split at hx
  · split at hx
    · exact hx
    · exact List.mem_cons_of_mem _ hx
    · split at hx
      · exact List.mem_cons_of_mem _ hx
      · exact hx
  · exact hx

theorem popValue_sub (toks : List Str) : ∀ x ∈ (popValue toks).2, x ∈ toks := by
  intro x hx
  unfold popValue at hx
  split at hx
  · exact hx
  · split at hx
    · exact List.mem_cons_of_mem _ hx
    · split at hx
      · exact hx
      · exact List.mem_cons_of_mem _ hx

theorem addLong_frame (f : Fmt) (n : Str) (v : Option Str) (r tail : List Str) (σ : St) :
    addLong f n v (r ++ dd :: tail) σ = restApp (dd :: tail) (addLong f n v r σ) := by
  unfold addLong
  cases f.getOpt? n with
  | none => rfl
  | some o =>
    simp only
    split
    · rfl
    · rw [peekValue_frame]
      simp only
      cases storeOpt o n (if (peekValue o v r).1 == some [] then none else (peekValue o v r).1) σ <;> rfl

theorem addLong_sub {f : Fmt} {n : Str} {v : Option Str} {toks : List Str} {σ σ' : St} {toks' : List Str}
    (h : addLong f n v toks σ = .ok (σ', toks')) : ∀ x ∈ toks', x ∈ toks := by
  unfold addLong at h
  split at h
  · cases h
  · split at h
    · cases h
    · simp only at h
      split at h
      · cases h
      · cases h
        exact peekValue_sub _ _ _

theorem addShort_frame (f : Fmt) (n : Str) (v : Option Str) (r tail : List Str) (σ : St) :
    addShort f n v (r ++ dd :: tail) σ = restApp (dd :: tail) (addShort f n v r σ) := by
  unfold addShort
  cases f.getOpt? n with
  | none => rfl
  | some o => exact addLong_frame f o.long v r tail σ

theorem addShort_sub {f : Fmt} {n : Str} {v : Option Str} {toks : List Str} {σ σ' : St} {toks' : List Str}
    (h : addShort f n v toks σ = .ok (σ', toks')) : ∀ x ∈ toks', x ∈ toks := by
  unfold addShort at h
  split at h
  · cases h
  · exact addLong_sub h

theorem parseLong_frame (f : Fmt) (n : Str) (r tail : List Str) (σ : St) :
    parseLong f n (r ++ dd :: tail) σ = restApp (dd :: tail) (parseLong f n r σ) := by
  unfold parseLong
  split
  · exact addLong_frame ..
  · split
    · split
      · simp only [popValue_frame]
        exact addLong_frame ..
      · exact addLong_frame ..
    · exact addLong_frame ..

theorem parseLong_sub {f : Fmt} {n : Str} {toks : List Str} {σ σ' : St} {toks' : List Str}
    (h : parseLong f n toks σ = .ok (σ', toks')) : ∀ x ∈ toks', x ∈ toks := by
  unfold parseLong at h
  split at h
  · exact addLong_sub h
  · split at h
    · split at h
      · simp only at h
        exact fun x hx => popValue_sub _ x (addLong_sub h x hx)
      · exact addLong_sub h
    · exact addLong_sub h

theorem parseShortSet_frame (f : Fmt) : ∀ (n : Str) (r tail : List Str) (σ : St),
    parseShortSet f n (r ++ dd :: tail) σ = restApp (dd :: tail) (parseShortSet f n r σ) := by
  intro n
  induction n with
  | nil => intro r tail σ; rfl
  | cons c cs ih =>
    intro r tail σ
    simp only [parseShortSet]
    cases f.getOpt? [c] with
    | none => rfl
    | some o =>
      simp only
      split
      · exact addLong_frame ..
      · rw [addLong_frame]
        cases addLong f o.long none r σ with
        | error e => rfl
        | ok p =>
          obtain ⟨σ', r'⟩ := p
          simp only [restApp]
          exact ih r' tail σ'

theorem parseShortSet_sub {f : Fmt} : ∀ {n : Str} {toks : List Str} {σ σ' : St} {toks' : List Str},
    parseShortSet f n toks σ = .ok (σ', toks') → ∀ x ∈ toks', x ∈ toks := by
  intro n
  induction n with
  | nil => intro toks σ σ' toks' h; simp only [parseShortSet, Except.ok.injEq, Prod.mk.injEq] at h; rw [h.2]; exact fun _ h => h
  | cons c cs ih =>
    intro toks σ σ' toks' h
    simp only [parseShortSet] at h
    split at h
    · cases h
    · split at h
      · exact addLong_sub h
      · split at h
        · cases h
        · rename_i σ1 t1 h1
          exact fun x hx => addLong_sub h1 x (ih h x hx)

theorem parseShort_frame (f : Fmt) (n : Str) (r tail : List Str) (σ : St) :
    parseShort f n (r ++ dd :: tail) σ = restApp (dd :: tail) (parseShort f n r σ) := by
  unfold parseShort
  split
  · rfl
  · split
    · split
      · split
        · exact addShort_frame ..
        · exact parseShortSet_frame ..
      · exact parseShortSet_frame ..
    · split
      · split
        · simp only [popValue_frame]
          exact addShort_frame ..
        · exact addShort_frame ..
      · exact addShort_frame ..

theorem parseShort_sub {f : Fmt} {n : Str} {toks : List Str} {σ σ' : St} {toks' : List Str}
    (h : parseShort f n toks σ = .ok (σ', toks')) : ∀ x ∈ toks', x ∈ toks := by
  unfold parseShort at h
  split at h
  · cases h
  · split at h
    · split at h
      · split at h
        · exact addShort_sub h
        · exact parseShortSet_sub h
      · exact parseShortSet_sub h
    · split at h
      · split at h
        · simp only at h
          exact fun x hx => popValue_sub _ x (addShort_sub h x hx)
        · exact addShort_sub h
      · exact addShort_sub h

/-- **one iteration on a token list that continues with `--` and a tail** is the iteration on the
part before `--`, with `--` and the tail appended to what it leaves: the look-ahead of an option
never reaches beyond `--` (a token starting with `-` is pushed back) -/
theorem step_frame (f : Fmt) (len : Bool) (tok : Str) (r tail : List Str) (po : Bool) (σ : St) :
    step f len tok (r ++ dd :: tail) po σ = restApp3 (dd :: tail) (step f len tok r po σ) := by
  unfold step
  split
  · cases parseArgument f.fargs len tok σ <;> rfl
  · split
    · rfl
    · split
      · rw [parseLong_frame]
        cases parseLong f (tok.drop 2) r σ with
        | error e => rfl
        | ok p => obtain ⟨σ', r'⟩ := p; rfl
      · cases shortTest po tok with
        | error e => rfl
        | ok b =>
          cases b with
          | true =>
            simp only
            rw [parseShort_frame]
            cases parseShort f (tok.drop 1) r σ with
            | error e => rfl
            | ok p => obtain ⟨σ', r'⟩ := p; rfl
          | false =>
            simp only
            cases parseArgument f.fargs len tok σ <;> rfl

/-- what an iteration leaves is part of what it was given, and only `--` switches option parsing off -/
theorem step_sub {f : Fmt} {len : Bool} {tok : Str} {toks : List Str} {σ σ' : St} {toks' : List Str} {po' : Bool}
    (h : step f len tok toks true σ = .ok (σ', toks', po')) :
    (∀ x ∈ toks', x ∈ toks) ∧ (tok ≠ dd → po' = true) := by
  unfold step at h
  split at h
  · split at h
    · cases h
    · cases h; exact ⟨fun _ h => h, fun _ => rfl⟩
  · split at h
    · rename_i hd
      simp only [Bool.true_and, beq_iff_eq] at hd
      cases h
      exact ⟨fun _ h => h, fun hne => absurd hd hne⟩
    · split at h
      · split at h
        · cases h
        · rename_i σ1 r1 h1
          cases h
          exact ⟨parseLong_sub h1, fun _ => rfl⟩
      · split at h
        · cases h
        · split at h
          · cases h
          · rename_i σ1 r1 h1
            cases h
            exact ⟨parseShort_sub h1, fun _ => rfl⟩
        · split at h
          · cases h
          · cases h; exact ⟨fun _ h => h, fun _ => rfl⟩

/-- **the token loop on `pre ++ "--" :: tail`** (no `--` in `pre`) is the loop on `pre`, and - if that
ends without an error - the loop on the tail with option parsing switched off -/
theorem loopF_dashes (f : Fmt) (len : Bool) : ∀ (k : Nat) (pre : List Str), pre.length ≤ k → dd ∉ pre →
    ∀ (tail : List Str) (σ : St),
    loopF f len (pre ++ dd :: tail) true σ =
      match loopF f len pre true σ with
      | .error e => .error e
      | .ok σ1 => loopF f len tail false σ1 := by
  intro k
  induction k with
  | zero =>
    intro pre hk _ tail σ
    have : pre = [] := List.eq_nil_of_length_eq_zero (by omega)
    subst this
    simp only [List.nil_append, loopF_nil]
    rw [loopF_cons]
    simp only [dd, step_dashes]
  | succ k ih =>
    intro pre hk hd tail σ
    cases pre with
    | nil =>
      simp only [List.nil_append, loopF_nil]
      rw [loopF_cons]
      simp only [dd, step_dashes]
    | cons t r =>
      simp only [List.mem_cons, not_or] at hd
      rw [List.cons_append, loopF_cons, loopF_cons, step_frame]
      cases hs : step f len t r true σ with
      | error e => rfl
      | ok p =>
        obtain ⟨σ', r', po'⟩ := p
        have hsub := step_sub hs
        have hpo : po' = true := hsub.2 (fun h => hd.1 h.symm)
        subst hpo
        have hl := step_len hs
        simp only [restApp3]
        exact ih r' (by simp only [List.length_cons] at hk; omega) (fun hm => hd.2 (hsub.1 _ hm)) tail σ'

theorem appendArg_opts {k : ArgKey} {tok : Str} {σ : St} :
    (∀ σ', appendArg k tok σ = .ok σ' → σ'.opts = σ.opts) ∧
    (∀ e σ', appendArg k tok σ = .error (e, σ') → σ'.opts = σ.opts) := by
  unfold appendArg
  constructor
  · intro σ' h
    split at h <;> cases h <;> rfl
  · intro e σ' h
    split at h <;> cases h <;> rfl

theorem parseArgument_opts {fa : List FArg} {len : Bool} {tok : Str} {σ : St} :
    (∀ σ', parseArgument fa len tok σ = .ok σ' → σ'.opts = σ.opts) ∧
    (∀ e σ', parseArgument fa len tok σ = .error (e, σ') → σ'.opts = σ.opts) := by
  unfold parseArgument
  constructor
  · intro σ' h
    simp only at h
    split at h
    · split at h
      · cases h
      · split at h
        · exact appendArg_opts.1 σ' h
        · cases h; rfl
    · split at h
      · split at h
        · cases h
        · split at h
          · exact appendArg_opts.1 σ' h
          · split at h <;> cases h <;> rfl
      · split at h <;> cases h <;> rfl
  · intro e σ' h
    simp only at h
    split at h
    · split at h
      · cases h; rfl
      · split at h
        · exact appendArg_opts.2 e σ' h
        · cases h
    · split at h
      · split at h
        · cases h; rfl
        · split at h
          · exact appendArg_opts.2 e σ' h
          · split at h <;> cases h <;> rfl
      · split at h <;> cases h <;> rfl

/-- **with option parsing switched off the loop never touches the options**: whatever it ends in
(also an error, whose state lenient parsing continues with), the option dictionary is unchanged -/
theorem loopF_tail_opts (f : Fmt) (len : Bool) : ∀ (toks : List Str) (σ : St),
    (stateOf (loopF f len toks false σ)).opts = σ.opts := by
  intro toks
  induction toks with
  | nil => intro σ; simp [loopF_nil, stateOf]
  | cons t r ih =>
    intro σ
    rw [loopF_cons, step_tail]
    cases hp : parseArgument f.fargs len t σ with
    | error e =>
      obtain ⟨e, σ'⟩ := e
      simp only [cont, stateOf]
      exact parseArgument_opts.2 e σ' hp
    | ok σ' =>
      simp only [cont]
      rw [ih σ', parseArgument_opts.1 σ' hp]

/-- the arguments of an `Args` replaced -/
def withArgs (x : List (Str × PyVal)) (a : Args) : Args := { args := x, opts := a.opts }

theorem setOption_withArgs (cv : Conv) (f : Fmt) (n : Str) (v : RawOpt) (a : Args) (x : List (Str × PyVal)) :
    setOption cv f n v (withArgs x a) = (setOption cv f n v a).map (withArgs x) := by
  unfold setOption
  cases f.getOpt? n with
  | none => rfl
  | some o =>
    simp only
    split
    · simp only [bind, Except.bind, pure, Except.pure]
      split <;> rfl
    · split
      · split
        · simp only [bind, Except.bind, pure, Except.pure]
          split <;> rfl
        · simp only [bind, Except.bind, pure, Except.pure]
          split <;> rfl
        · rfl
        · rfl
      · split <;> rfl

theorem storeOpts_withArgs (cv : Conv) (f : Fmt) (x : List (Str × PyVal)) : ∀ (l : List (Str × RawOpt)) (a : Args),
    storeOpts cv f l (withArgs x a) = (storeOpts cv f l a).map (withArgs x) := by
  intro l
  induction l with
  | nil => intro a; rfl
  | cons p r ih =>
    intro a
    obtain ⟨n, v⟩ := p
    simp only [storeOpts]
    split
    · rw [setOption_withArgs]
      cases setOption cv f n v a with
      | error e => rfl
      | ok a' =>
        simp only [bind, Except.bind, Except.map]
        exact ih a'
    · exact ih a

theorem setArgument_opts {cv : Conv} {f : Fmt} {n : Str} {v : RawArg} {a a' : Args}
    (h : setArgument cv f n v a = .ok a') : a'.opts = a.opts := by
  unfold setArgument at h
  simp only [bind, Except.bind, pure, Except.pure] at h
  repeat' (split at h)
  all_goals (first | (cases h; rfl) | cases h)

theorem storeArgs_opts {cv : Conv} {f : Fmt} : ∀ {l : List (ArgKey × RawArg)} {a a' : Args},
    storeArgs cv f l a = .ok a' → a'.opts = a.opts := by
  intro l
  induction l with
  | nil => intro a a' h; cases h; rfl
  | cons p r ih =>
    intro a a' h
    obtain ⟨k, v⟩ := p
    cases k with
    | pseudo i => exact ih h
    | real n =>
      simp only [storeArgs] at h
      split at h
      · simp only [bind, Except.bind] at h
        split at h
        · cases h
        · rename_i a1 h1
          rw [ih h, setArgument_opts h1]
      · exact ih h

theorem insertMissing_opts {f : Fmt} {len : Bool} {σ σ2 : St} (h : insertMissing f len σ = .ok σ2) :
    σ2.opts = σ.opts := by
  unfold insertMissing at h
  simp only at h
  repeat' (split at h)
  all_goals (first | (cases h; rfl) | cases h)

/-- the options of the `Args` that `parse()` builds are a function of the option dictionary the token
loop left (and of the format) alone -/
theorem finish_opts {cv : Conv} {f : Fmt} {len : Bool} {σ : St} {a : Args} (h : (finish cv f len σ).1 = .ok a) :
    ∃ b, storeOpts cv f σ.opts { args := [], opts := [] } = .ok b ∧ a.opts = b.opts := by
  unfold finish at h
  split at h
  · cases h
  · rename_i σ2 h2
    split at h
    · cases h
    · simp only [bind, Except.bind] at h
      split at h
      · cases h
      · rename_i a1 h1
        have ho : a1.opts = [] := storeArgs_opts h1
        have ha1 : a1 = withArgs a1.args { args := [], opts := [] } := by
          cases a1; simp only [withArgs] at *; simp [ho]
        rw [ha1, storeOpts_withArgs, insertMissing_opts h2] at h
        cases hb : storeOpts cv f σ.opts { args := [], opts := [] } with
        | error e => rw [hb] at h; cases h
        | ok b =>
          rw [hb] at h
          simp only [Except.map, Except.ok.injEq] at h
          exact ⟨b, rfl, by rw [← h]; rfl⟩

theorem parse_unfold (cv : Conv) (f : Fmt) (len : Bool) (toks : List Str) :
    parse cv f len toks =
      match afterLoop len (loopF f len toks true St.empty) with
      | .error e => .error e
      | .ok σ1 => (finish cv f len σ1).1 := by
  have h0 : ∀ ra ro : Bool, St.mk (if ra then [] else St.empty.args) (if ro then [] else St.empty.opts) = St.empty := by
    intro ra ro; cases ra <;> cases ro <;> rfl
  simp only [parse, parseFrom, parseFromR, h0, loopF]
  cases afterLoop len (loop f len (toks.length + 1) toks true St.empty) <;> rfl

theorem afterLoop_state {len : Bool} {r : PR St} {σ : St} (h : afterLoop len r = .ok σ) : σ = stateOf r := by
  unfold afterLoop at h
  split at h
  · cases h; rfl
  · split at h
    · cases h; rfl
    · cases h

/-- **Tokens after `--` are never read as options**: for every args format and both modes, two lines
that agree up to and including the first `--` and both parse give the same set options -/
theorem parse_opts_tail (cv : Conv) (f : Fmt) (len : Bool) (pre tail tail' : List Str) (h : dd ∉ pre)
    (a a' : Args) (hp : parse cv f len (pre ++ dd :: tail) = .ok a)
    (hp' : parse cv f len (pre ++ dd :: tail') = .ok a') : a.opts = a'.opts := by
  rw [parse_unfold, loopF_dashes f len pre.length pre (Nat.le_refl _) h] at hp hp'
  cases hl : loopF f len pre true St.empty with
  | error e =>
    -- the loop stopped before `--`: both parses are the same computation
    rw [hl] at hp hp'
    simp only at hp hp'
    rw [hp] at hp'
    cases hp'
    rfl
  | ok σ1 =>
    rw [hl] at hp hp'
    simp only at hp hp'
    cases hA : afterLoop len (loopF f len tail false σ1) with
    | error e => rw [hA] at hp; cases hp
    | ok σA =>
      cases hA' : afterLoop len (loopF f len tail' false σ1) with
      | error e => rw [hA'] at hp'; cases hp'
      | ok σA' =>
        rw [hA] at hp
        rw [hA'] at hp'
        simp only at hp hp'
        have ho : σA.opts = σA'.opts := by
          rw [afterLoop_state hA, afterLoop_state hA', loopF_tail_opts, loopF_tail_opts]
        obtain ⟨b, hb, hab⟩ := finish_opts hp
        obtain ⟨b', hb', hab'⟩ := finish_opts hp'
        rw [ho, hb'] at hb
        cases hb
        rw [hab, hab']

/-! ## A small concrete application (for the non-vacuity examples of `Props/C04`, `Props/C09`)

Shaped as `DefaultApplicationConfig` builds it: the global options `--help` `-h`, `--version` `-V`,
`--quiet` `-q` (flags) and `--verbose` `-v` (optional value) in every format; the default command `help`;
`server` (alias `srv`) with the sub-command `add`, which takes any number of `names` and the flag
`--force` `-f`. -/
namespace Demo

def flag (long short : String) : Opt :=
  { long := S long, short := some (S short), accepts := false, valReq := false, valOpt := false, multi := false,
    ty := .string, nullable := false, default := .scalar .none }
def oVerbose : Opt :=
  { long := S "verbose", short := some (S "v"), accepts := true, valReq := false, valOpt := true, multi := false,
    ty := .string, nullable := false, default := .scalar .none }
def globals : List Opt := [flag "help" "h", flag "quiet" "q", oVerbose, flag "version" "V"]
def aCommand : Arg :=
  { name := S "command", required := false, multi := true, ty := .string, nullable := false, default := .list [] }
def aNames : Arg :=
  { name := S "names", required := false, multi := true, ty := .string, nullable := false, default := .list [] }
def cHelp : Cmd :=
  .mk helpName [] true false { cmds := [{ name := helpName, aliases := [] }], args := [aCommand], opts := globals } false []
def cAdd : Cmd :=
  .mk (S "add") [] false false
    { cmds := [{ name := S "server", aliases := [S "srv"] }, { name := S "add", aliases := [] }], args := [aNames],
      opts := globals ++ [flag "force" "f"] } false []
def cServer : Cmd :=
  .mk (S "server") [S "srv"] false false
    { cmds := [{ name := S "server", aliases := [S "srv"] }], args := [], opts := globals } false [cAdd]
def app : List Cmd := [cHelp, cServer]
def cv : Conv := { intOf := fun _ => none, floatOf := fun _ => none }

def v3 : Run.RetVal := { falsy := false, toInt := .ok 3 }
def boom : Run.Exc := ⟨false, false, 7⟩
/-- the handler of `server add` returns 3, every other handler raises -/
def hs : Handlers := fun path _ => if path == [S "server", S "add"] then .ret v3 else .raise boom
def env : Env := { debug := false, render := fun _ => true }

/-- the args `server add …` parses to: the given names, the given options set -/
def addArgs (names : List String) (opts : List String) : Args :=
  { args := [(S "names", .list (names.map fun n => .str (S n)))],
    opts := opts.map fun o => (S o, .scalar (.bool true)) }

end Demo

end Clikit.App
